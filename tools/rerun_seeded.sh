#!/bin/bash
# re-confirm every seeded change and re-run the quick checks that were recorded for it
# (serial: each run patches /repo and undoes the patch again)
cd "$(dirname "$0")/.."
for d in seeded/*/; do
  sid=$(basename $d)
  prop=$(python3 -c "import json;print(json.load(open('$d/meta.json'))['property'])")
  python3 tools/try_mutant.py $prop $(pwd)/${d%/} $sid 2>&1 | tail -3 | cut -c1-250
done
