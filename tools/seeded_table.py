#!/usr/bin/env python3
"""prints the markdown table of seeded changes (DESIGN.md section 11) from seeded/*/meta.json"""
import json
import os
import re

VERIF = os.path.dirname(os.path.dirname(os.path.abspath(__file__)))
STRENGTHENED = {
    "C03-m2": "C03 oracle now checks WHICH link dontdup returns (first joining link of v1.links)",
    "C04-m2": "filter objects of the harness are falsy callables for a third of the masks",
    "C05-m2": "C05 histories now contain caller-side edits (`mut`) of results handed out earlier",
    "C06-m2": "traversal checks now also run on worlds reached by histories (members removed again, ends reassigned); the run keeps searching for a failing input after a correspondence break",
    "C07-m2": "renders with a sort key are interleaved with traversals when caching is on; C06/C07/C16 oracles recompute with caching off (link order alone)",
    "C08-m1": "sought value None and vertices lacking the attribute added to the search pool",
    "C10-m1": "witness D7b: pickle WITH warm caches, load in a fresh interpreter with caching on",
    "C10-m2": "large atoms (str / bytes around and above 64 KiB) among the runtime attributes",
    "C12-m1": "C12 oracle now observes query answers (neighbors / bft of every vertex), not only the graph",
    "C14-m2": "option table 4: a configured subclass with a DIFFERENT title_format",
    "C15-m2": "vertices with caller-supplied, possibly equal, uids",
    "C16-m2": "rfunc variant whose labels are shared by several vertices",
    "C17-m2": "instances of some singleton classes are falsy objects",
    "C19-m2": "C19 histories: the caller edits the edge_whitelist dicts it passed in",
}


def files_of(patch):
    return sorted(set(re.findall(r"^\+\+\+ b/(\S+)", open(patch).read(), re.M)))


def main():
    rows = []
    for sid in sorted(os.listdir(os.path.join(VERIF, "seeded"))):
        d = os.path.join(VERIF, "seeded", sid)
        m = json.load(open(os.path.join(d, "meta.json")))
        res = m.get("checks_quick", {})
        caught = []
        for c, r in res.items():
            if r["exit"] == 1:
                caught.append(c + (" (failing input)" if "no-failing-input-found" not in r["first"] else " (no-failing-input-found)"))
        first = next((r["detail"] for r in res.values() if r["exit"] == 1), "")
        rows.append("| %s | %s | %s | %s | %s | %s |" % (
            sid, ", ".join(f.replace("edgegraph/", "") for f in files_of(os.path.join(d, "patch.diff"))),
            "yes" if m.get("confirmed") else "NO", ", ".join(caught) or "**missed**",
            first[:110].replace("|", "/"), STRENGTHENED.get(sid, "")))
    print("| id | files changed | confirmed (suite passes, demo fails/passes) | caught by quick check | first report | strengthening it prompted |")
    print("|---|---|---|---|---|---|")
    print("\n".join(rows))


if __name__ == "__main__":
    main()
