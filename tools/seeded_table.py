#!/usr/bin/env python3
"""prints the markdown table of seeded changes (DESIGN.md section 11) from seeded/*/meta.json"""
import json
import os
import re

VERIF = os.path.dirname(os.path.dirname(os.path.abspath(__file__)))
STRENGTHENED = {
    "C03-m2": "C03 oracle now checks WHICH link dontdup returns (first joining link of v1.links)",
    "C04-m2": "filter objects of the harness are falsy callables for a third of the masks",
    "C05-m2": "C05 histories now contain caller-side edits (`mut`) of results handed out earlier",
    "C06-m2": "traversal checks now also run on worlds reached by histories (members removed again, ends reassigned); the run keeps searching for a failing input after a correspondence break",
    "C07-m2": "renders with a sort key are interleaved with traversals when caching is on; C06/C07/C16 oracles recompute with caching off (link order alone)",
    "C08-m1": "sought value None and vertices lacking the attribute added to the search pool",
    "C10-m1": "witness D7b: pickle WITH warm caches, load in a fresh interpreter with caching on",
    "C10-m2": "large atoms (str / bytes around and above 64 KiB) among the runtime attributes",
    "C12-m1": "C12 oracle now observes query answers (neighbors / bft of every vertex), not only the graph",
    "C14-m2": "option table 4: a configured subclass with a DIFFERENT title_format",
    "C15-m2": "vertices with caller-supplied, possibly equal, uids",
    "C16-m2": "rfunc variant whose labels are shared by several vertices",
    "C17-m2": "instances of some singleton classes are falsy objects",
    "C19-m2": "C19 histories: the caller edits the edge_whitelist dicts it passed in",
    # wave 2
    "C02-w2m1": "vertices with equal uids; `universes=` given as generator / list / tuple in turn",
    "C02-w2m2": "one list object shared as `universes=` argument of several vertices (keep-mode)",
    "C04-w2m2": "queries in two phases around further mutations (warm memos)",
    "C05-w2m1": "short-lived filter objects (a new callable per call, address reused) in the cache audit",
    "C05-w2m2": "fresh-interpreter round trip: load, mutate, query again",
    "C06-w2m2": "oracle for raising traversals (which call must raise, and that nothing is yielded after it)",
    "C08-w2m2": "every search is repeated, for all three sought values, before AND after a vertex-side removal from the universe",
    "C09-w2m2": "link class deriving from BOTH edge classes (`DU`) in the model (`LCls.DU`), the regenerated tables (now 1152 / 576 rows) and the worlds",
    "C10-w2m1": "loaded copies are USED (mutated, traversed, re-pickled), not only compared",
    "C10-w2m2": "loaded copies are USED (mutated, traversed, re-pickled), not only compared",
    "C12-w2m1": "read-only proxy views of the edge_whitelist are exchanged and edited too",
    "C13-w2m1": "denser worlds; memo contents judged by an oracle of their own",
    "C14-w2m1": "an attribute used by the title format is reassigned between two renders of the same vertices",
    "C14-w2m2": "vertex classes with two bases (`MX`, `MV(SV, MX)`), option tables 5 and 6, model lookup along the MRO (`C14_resolve_mro`)",
    "C16-w2m1": "a long-lived rfunc object that READS the vertex (attribute a0), reassigned between renders",
    "C17-w2m1": "constructors that raise (argument tuple 9; model op `constructFail`, theorem `C17_failed_construction_registers_nothing`)",
    "C18-w2m1": "the harness no longer keeps the true singletons alive (instances are named by a number given in `__init__`)",
    "C18-w2m2": "a constructor that issues a global clear (argument tuple 10; model op `constructClearing`, theorem `C18_reentrant_clear_keeps_new_instance`)",
    # wave 3 (written against "a strong differential harness already exists")
    "C01-w3m1": "the same list object passed as `vertices=` to several n-ary link constructors",
    "C02-w3m2": "universes with 50-75 members; members leave and come back from either side",
    "C05-w3m2": "fresh interpreter: the un-pickled graph is MUTATED before its first query (every other run)",
    "C06-w3m2": "large worlds: a path deeper than 200 levels with branching and an out-of-universe vertex below that depth",
    "C07-w3m1": "large worlds (as C06-w3m2)",
    "C07-w3m2": "large worlds: a dense graph whose pending DFS stack passes several thousand entries (the driver re-tabulates the world: 60x faster)",
    "C08-w3m1": "sought values whose `__eq__` accepts everything (value class 6; model `hasAttrVal`, theorem `C08_any_value_needs_attribute`)",
    "C10-w3m1": "cons lists nested far deeper than the recursion limit as attribute values",
    "C10-w3m2": "ONE bound-method object stored on several vertices through the constructor; single vertices / links pickled as the root",
    "C11-w3m2": "ragged matrices whose row lengths add up to n*n",
    "C12-w3m1": "caching switched on for ONE vertex class only (`cflag`); the caller edits the answer it has just been given",
    "C13-w3m1": "title-by-attribute renders among the read-only operations; the snapshot compares the set of attribute names",
    "C15-w3m1": "`network_kwargs` with `directed=True`, and `pyvis_render_customizable`",
    "C16-w3m1": "pool classes whose `str()` / `format()` differ from `repr()`",
    "C16-w3m2": "a sort key with ties (stable sort = universe order)",
    "C17-w3m1": "keyword values that are dicts filled in different orders",
    "C17-w3m2": "`get_all…` consumed incrementally around a construction (`ssalli`)",
    "C19-w3m2": "whitelist tables handed in as read-only views (`MappingProxyType`) of dicts the caller goes on to edit",
    "C14-w3m2": "title formats whose replacement field reads an attribute OF the value (`T{a0.real}`, option table 7, model `VOpts.viaAttr`); a render that raises on a universe in which everything is renderable is judged by the oracle (`renderable`)",
    # wave 5 (written against a description of everything the harness is known to exercise)
    "C01-w5m1": "a hub with well over 128 links; the links attached around the 128th are detached / re-attached / re-pointed from either side",
    "C02-w5m1": "a universe that grows past 256 members, shrinks below and grows back, re-adding vertices that left or joined during the small phase",
    "C02-w5m2": "vertices built by a class whose initialiser runs TWICE with the same arguments (non-cooperative multiple inheritance)",
    "C03-w5m1": "constructors given `attributes=` that they must reject (a non-dict, a read-only name, a non-string key): raise, touch nothing",
    "C03-w5m2": "caller-supplied EQUAL uids on distinct links",
    "C04-w5m1": "read-only callbacks that themselves call `neighbors()` on the vertex being expanded while they are consulted (re-entrant filters)",
    "C04-w5m2": "links carrying user attributes whose names a careless implementation might use itself (`directed`, `undirected`, `kind`, `visited` …)",
    "C06-w5m1": "a chain 850 levels deep (the recursive forms still manage it) with links from its far end back to vertices listed long before",
    "C07-w5m1": "re-entrant filters (as C04-w5m1)",
    "C08-w5m2": "a CALLABLE as attribute value and as sought value (value class 7)",
    "C09-w5m2": "faults that are StopIterations (`next(it)` on an exhausted iterator), and an oracle: a call whose filter raised must not return",
    "C10-w5m1": "stored local closures whose cell holds an importable class, in graphs pickled several times in one process at different protocols",
    "C11-w5m2": "NaN among the truthy matrix cells",
    "C12-w5m1": "exchange table: the answer for one filter asked again after 299 other filters were used on the same vertex (an ageing memo)",
    "C12-w5m2": "exchange table: layered (`ChainMap`) and ordered / default rule sets as `edge_whitelist=`",
    "C14-w5m1": "equal uids on links in the renderer worlds",
    "C15-w5m2": "a universe of 300 members with links among the members beyond position 256",
    "C16-w5m2": "a render function that raises (also a StopIteration) at its k-th invocation: the render must raise or return the COMPLETE text",
    "C17-w5m2": "argument tuples 13 / 14: a call with a keyword and a keyword-free call whose two positional arguments look like its key (key table now 338 rows)",
    "C13-w5m1": "filter callables that cannot be hashed (numbers 5 mod 13; model `M.unhashable`, theorem `C05_unhashable_never_cached`) — which exposed "
                "defect D18 of the unchanged tree (repaired by F14)",
    "C17-w5m1": "pool class 6: a semi-singleton class whose metaclass DERIVES from the generated one (combined with ABCMeta); it shares that metaclass's instance map",
    "C18-w5m1": "pool class 3: a true-singleton class whose metaclass derives from TrueSingleton",
    "C20-w5m1": "an edge class with a constructor of its own that takes the two ends and an option, no `**kwargs` (pool class DD)",
    # wave 4 (same brief as waves 1-2; run against the machinery as it stood after wave 3)
    "C05-w4m1": "filters that are PLAIN functions without a closure sharing ONE code object and differing only in their defaults (the loop idiom `lambda e, v, k=k: …`), two of them back to back on the same vertex",
    "C06-w4m2": "in generator mode a SECOND generator of the same traversal is consumed in lock-step with the first (`zip(ibft(..), ibft(..))`); oracle: both list the vertices once and stop",
    "C16-w4m2": "the C16 oracle evaluates the documented FORWARD rule link by link instead of asking `neighbors()`",
    "C20-w4m2": "reproducibility is compared on the STRUCTURE of two seeded results while the first is kept alive; the RNG tap passes other generator functions through (and then skips the model replay) instead of failing; the statement is judged directly on every seeded run",
    "C20-w3m1": "a two-ended link class whose constructor names its ends differently",
    "C19-w5m1": "missed at first (the harness keeps every universe alive in its pool); C19 now also runs histories in which the caller keeps "
                "only the LAW SETS (`L.applies_to = Universe()`, `Universe(laws=L)` unbound) and reads every assignment back through them",
    "C20-w5m2": "missed at first; the pool's `UU` link class now has a constructor that REQUIRES its two ends (as documented: `lnktype(v1, v2)`)",
    "C18-w5m2": "missed at first; C18 now also runs histories with an ALIAS class (a singleton class whose `__new__` forwards to another singleton class) "
                "and judges the statement for the forwarded-to class",
    "C01-w6m2": "missed at first (law sets with an edge_whitelist never met link creation); `lawset 2` is now among the law operations of every history",
    "C02-w6m2": "missed at first; histories now contain `reload` (the caller pickles / deep-copies / nrpickles the whole graph and goes on with the copy; model: World.copy, EG.Copy)",
    "C03-w6m1": "missed at first; `uf=k`: the `universes=` iterable of a constructor raises after k items (model: Op.rejected .fault — raises, nothing touched)",
    "C03-w6m2": "missed at first; a vertex whose number of links crosses 512 (thorough: 1024) several times, links detached while small re-attached when large",
    "C05-w6m1": "missed at first; universe-restricted traversals and searches are in every audit, universes start populated, membership changes from both sides among the cache histories",
    "C05-w6m2": "missed at first; filters that are `functools.partial` objects of one function with equal bound arguments (True / 1)",
    "C06-w6m1": "missed at first; `ghold`: a traversal generator is requested, the universe changes, then it is consumed (and compared with the list form at that moment)",
    "C07-w6m1": "missed at first; a diamond hanging 850 levels down the deep chain",
    "C08-w6m1": "missed at first; value class 8 = `math.nan`, ONE object stored on vertices and sought (model: never equal, `hasAttrVal`)",
    "C08-w6m2": "missed at first; attribute number 3 has a dotted name (`a0.real`)",
    "C09-w6m2": "missed at first; links of every class carry user data fields named `directed`, `kind`, … in the query worlds",
    "C10-w6m1": "missed at first; probe with user subclasses adding `__slots__` (state = (dict, slots)), protocols 2-5, pickle and dill",
    "C10-w6m2": "missed at first; same probe: the graph is dumped before anything has read a uid, uids compared afterwards",
    "C11-w6m2": "missed at first; every other builder call is made from a worker thread",
    "C12-w6m1": "missed at first; exchange rows `neighbors() while an ibft / idft_recursive generator is suspended` (table now 112 rows)",
    "C12-w6m2": "missed at first; exchange rows for `universes` of law sets and links",
    "C13-w6m1": "missed at first; probe: 1300 reads with distinct filters, caching on and off, public state compared",
    "C13-w6m2": "missed at first; probe: nrpickler.dumps of a graph carrying a generator-valued attribute must leave the graph alone",
    "C15-w6m2": "missed at first; links carry user data fields named `directed` in the render worlds",
    "C16-w6m1": "missed at first; the `dup` render function returns objects whose str() differs from their repr()",
    "C16-w6m2": "missed at first; render kind `num`: ONE callable as rfunc and sort key, returning numbers whose text order differs",
    "C18-w6m1": "missed at first; the constructors of two pool classes fail with an exception that is not an `Exception`",
    "C18-w6m2": "missed at first; the alias-class histories also DEFINE a sibling class with the same qualified name in mid-history",
    "C19-w6m1": "missed at first; the laws-only histories run with warnings turned into errors every other time, assignments from the universe side included",
    "C20-w6m1": "missed at first; a fresh interpreter whose first use of the library is the seeded call runs it twice per seed",
    "C20-w6m2": "missed at first; counts 1001 / 1500 / 2049 judged directly",
    "C01-w7m2": "missed at first (the harness read `links` after every call, which heals the cached view); BLIND histories: several calls with nothing read in between, one look at the end",
    "C02-w7m1": "missed at first; probe: a universe grown member by member to 4400 (some members share a uid), at every size two members out, two in, the removed ones re-added from their side, redundant re-adds — against a list model",
    "C02-w7m2": "missed at first; same probe (every size is crossed downwards and upwards)",
    "C03-w7m1": "missed at first; in the 140-link hub a parallel link leaves one end and comes back (different relative order in the two ends' lists), then `link_from_to(dontdup=True)` from either side",
    "C05-w7m1": "missed at first; probe: 300 long-lived filters on one vertex, then mutations with the flag switched off and on in between, every cached answer compared with a recomputation",
    "C05-w7m2": "missed at first; same probe, preceded by a builder call that fails half-way (a lazily parsed adjacency hitting a malformed record)",
    "C11-w7m2": "missed at first; malformed matrices with BOTH defects (side array too short and a ragged row beyond it)",
    "C12-w7m2": "missed at first; exchange row `UniverseLaws(edge_whitelist=empty dict)` (table now 114 rows); an observer that chokes on the caller's later edits counts as a leak",
    "C13-w7m1": "missed at first; every third fault index raises an exception that is NOT an `Exception` (Ctrl-C during a slow callback)",
    "C16-w7m1": "missed at first; render kind `pad`: labels ending in `, `, in a blank, in line breaks",
    "C16-w7m2": "missed at first; same kind",
    "C19-w7m2": "missed at first; rule table 4 = an EMPTY edge_whitelist whose dict the caller fills in afterwards",
    "C20-w7m1": "missed at first; counts 4300 / 4600 with the default connectivity judged directly",
    "C10-w7m2": "missed at first; `dump` and `dumps` are also compared when given dill's options (`recurse`, `byref`)",
    "C03-w7m2": "missed at first; probe: links filed as members of universes, then unlink (with and without destroy), an end assignment, unlink_from — membership must not move",
}
_EQ = ("needs graph objects (vertices / law sets) that override `__eq__`/`__hash__` so that distinct objects compare equal; the unchanged "
       "code itself uses == membership throughout, so the identity reading of the properties presupposes default equality (§6, §11.1)")
_FX = ("needs a filter callback that MUTATES the graph while it is being consulted; the model and the statement read filters as pure "
       "predicates of their arguments (stated assumption of C04 / C09)")
_OV = ("needs a user subclass that OVERRIDES a structural method of the library (`add_to_link`, `add_vertex`, `vertices`) so that it refuses "
       "or raises, or an ill-typed argument: the model and the statements assume the library's own methods and well-typed arguments (§6)")
MISSED_NOTE = {
    "C04-w7m2": "known gap: needs a user link class deriving from an UNKNOWN two-ended class and from DirectedEdge, met after an instance of that unknown class (the find_links twin C09-w7m2 is caught)",
    "C08-w7m1": "out of reach: needs a DFS path within 64 frames of the interpreter's recursion limit (936 deep), where the unchanged code itself is about to raise RecursionError under the harness's own frames",
    "C13-w7m2": "known gap: needs a nested universe whose `laws` nobody has read yet (the adapter registers every universe's law set when it is created)",
    "C18-w7m1": "out of reach: needs a constructor that constructs its own class, which on the unchanged code does not terminate",
    "C07-w6m2": "out of reach of the quick tier: needs a pending DFS stack above 131072 entries (the complete graph on 400 vertices in shuffled order, 80 000 links)",
    "C14-w6m2": "known gap: needs two vertex classes with the same `__name__` (the pool's classes are distinctly named; the model keys stereotypes by class)",
    "C17-w6m2": "known gap: needs a constructor keyword named like a parameter that the change itself introduces (`missing_ok`)",
    "C05-w5m2": "known gap: needs a producer and a consumer process whose numbers of flag-off invalidations coincide exactly",
    "C07-w5m2": "missed by the QUICK tier: needs a pending DFS stack above 65536 entries; the THOROUGH tier of C06 / C07 now builds the complete "
                "graph on 262 vertices (the model needs 95 s for it) on which the changed code lists a different order (verified by hand)",
    "C11-w5m1": "known gap: needs an un-pickled copy, the original garbage-collected, and the allocator re-using one of its addresses for a new link",
}
OUT_OF_SCOPE = {
    "C05-w5m1": _OV, "C06-w5m2": _OV, "C19-w5m2": _OV,
    "C01-w3m2": _EQ, "C03-w3m1": _EQ, "C08-w3m2": _EQ, "C14-w3m1": _EQ, "C15-w3m2": _EQ, "C19-w3m1": _EQ,
    "C04-w3m2": _FX, "C09-w3m1": _FX,
    "C15-w7m2": "needs the interpreter started with -O (pyvis' own asserts compiled out): the checks run under the interpreter they are given",
    "C20-w3m2": "needs a process that has created a million vertices (a bound on a class-level table): out of reach of a check that runs in minutes",
    "C03-w2m1": "needs vertices that override `__eq__`/`__hash__`; the unchanged code itself uses `in` / `remove` (==) on its vertex lists throughout, "
                "so the statement's identity reading only makes sense for default equality — a stated assumption of the model (DESIGN §6)",
}


def files_of(patch):
    return sorted(set(re.findall(r"^\+\+\+ b/(\S+)", open(patch).read(), re.M)))


def main():
    rows = []
    for sid in sorted(os.listdir(os.path.join(VERIF, "seeded"))):
        d = os.path.join(VERIF, "seeded", sid)
        m = json.load(open(os.path.join(d, "meta.json")))
        res = m.get("checks_quick", {})
        caught = []
        for c, r in res.items():
            if r["exit"] == 1:
                caught.append(c + (" (failing input)" if "no-failing-input-found" not in r["first"] else " (no-failing-input-found)"))
        first = next((r["detail"] for r in res.values() if r["exit"] == 1), "")
        rows.append("| %s | %s | %s | %s | %s | %s |" % (
            sid, ", ".join(f.replace("edgegraph/", "") for f in files_of(os.path.join(d, "patch.diff"))),
            "yes" if m.get("confirmed") else "NO", ", ".join(caught) or ("outside the stated scope" if sid in OUT_OF_SCOPE else "**missed**"),
            first[:110].replace("|", "/"), STRENGTHENED.get(sid, OUT_OF_SCOPE.get(sid, MISSED_NOTE.get(sid, "")))))
    print("| id | files changed | confirmed (suite passes, demo fails/passes) | caught by quick check | first report | strengthening it prompted |")
    print("|---|---|---|---|---|---|")
    print("\n".join(rows))


if __name__ == "__main__":
    main()
