#!/usr/bin/env python3
"""
try_refactor.py <verif-dir> <scratch-worktree> <rewrite-id> [--all]

Confirms a harmless rewrite kept in /verif/rewrites/<id>/ (patch applies to /repo's HEAD in a scratch
worktree, the pinned suite passes, its equivalence program passes) and runs the quick checks against it
with EG_REPO pointing at the scratch worktree (/repo itself is not touched).  Checks run: the rewrite's own
property and every property anchored (properties.jsonl) in a file the patch touches; `--all` runs all twenty.
<verif-dir> may be a COPY of /verif (so that several rewrites can be tried in parallel and the evidence files
of /verif are not overwritten by runs against a scratch tree).  The result is written to
/verif/rewrites/<id>/result.json.
"""
import json
import os
import re
import subprocess
import sys
import time

HOME = os.path.dirname(os.path.dirname(os.path.abspath(__file__)))
PY = "/venv/bin/python"


def sh(cmd, cwd=None, env=None, timeout=3000):
    e = dict(os.environ)
    e.update(env or {})
    p = subprocess.run(cmd, cwd=cwd, env=e, stdout=subprocess.PIPE, stderr=subprocess.STDOUT, shell=isinstance(cmd, str),
                       timeout=timeout, check=False)
    return p.returncode, p.stdout.decode(errors="replace")


def main():
    vcopy, wt, rid = sys.argv[1:4]
    everything = "--all" in sys.argv
    out = os.path.join(HOME, "rewrites", rid)
    prop = rid.split("-")[0]
    patch = os.path.join(out, "patch.diff")
    if not os.path.isdir(wt):
        sh(["git", "-C", "/repo", "worktree", "add", "-q", "--detach", wt, "HEAD"])
    sh("git checkout -q --detach $(git -C /repo rev-parse HEAD) && git checkout -- . && git clean -fdq", cwd=wt)
    res = {"id": rid, "base_commit": sh(["git", "-C", "/repo", "rev-parse", "--short", "HEAD"])[1].strip()}
    rc, _o = sh(["git", "apply", patch], cwd=wt)
    res["applies"] = rc == 0
    env = {"PYTHONPATH": wt, "EG_REPO": wt}
    rc, o = sh([PY, "-m", "pytest", "-q", "-p", "no:cacheprovider", "--timeout=900"], cwd=wt, env=env)
    tail = [l for l in o.strip().split("\n") if "passed" in l or "failed" in l][-1:]
    res["suite"] = tail[0] if tail else o[-200:]
    rc, o = sh([PY, os.path.join(out, "equiv.py")], cwd=wt, env=env)
    res["equiv_exit"] = rc
    touched = set(re.findall(r"^\+\+\+ b/(\S+)", open(patch).read(), re.M))
    todo = []
    for l in open(os.path.join(HOME, "properties.jsonl")):
        d = json.loads(l)
        files = set((d.get("anchors") or {}).get("files") or [])
        if everything or d["id"] == prop or files & touched:
            todo.append(d["id"])
    checks = {}
    for c in todo:
        t = time.time()
        rc, o = sh(["./check", c, "--tier", "quick"], cwd=vcopy, env=env)
        lines = o.split("\n")
        v = [l for l in lines if l.startswith("VIOLATION")]
        det = ""
        for k, l in enumerate(lines):
            if l.startswith("VIOLATION") and k + 1 < len(lines):
                det = lines[k + 1].strip()[:300]
                break
        checks[c] = {"exit": rc, "viol": v[:1], "detail": det, "wall": round(time.time() - t, 1)}
    res["checks_run"] = todo
    res["checks"] = checks
    res["alarms"] = [c for c, r in checks.items() if r["exit"] != 0]
    sh("git checkout -- . && git clean -fdq", cwd=wt)
    json.dump(res, open(os.path.join(out, "result.json"), "w"), indent=1)
    print(rid, "applies", res["applies"], "|", res["suite"][:50], "| equiv", res["equiv_exit"], "| checks", len(todo), "| alarms", res["alarms"])
    for c in res["alarms"]:
        print("   ", c, checks[c]["exit"], (checks[c]["viol"] or [""])[0][:120], "|", checks[c]["detail"][:200])


if __name__ == "__main__":
    main()
