#!/usr/bin/env python3
"""try_refactor.py <verif-copy> <worktree> <Cxx> <rN>: confirm a harmless rewrite (suite passes, equiv.py passes) and run ALL quick checks against it"""
import json, os, subprocess, sys, time
vcopy, wt, prop, rn = sys.argv[1:5]
out = "/tmp/ref/%s_out/%s" % (prop, rn)
PY = "/venv/bin/python"
def sh(cmd, cwd=None, env=None, timeout=3000):
    e = dict(os.environ); e.update(env or {})
    p = subprocess.run(cmd, cwd=cwd, env=e, stdout=subprocess.PIPE, stderr=subprocess.STDOUT, shell=isinstance(cmd, str), timeout=timeout)
    return p.returncode, p.stdout.decode(errors="replace")
if not os.path.isdir(wt):
    sh(["git", "-C", "/repo", "worktree", "add", "-q", "--detach", wt, "HEAD"])
sh("git checkout -- . && git clean -fdq", cwd=wt)
res = {"id": "%s-%s" % (prop, rn)}
rc, o = sh(["git", "apply", os.path.join(out, "patch.diff")], cwd=wt)
res["applies"] = rc == 0
env = {"PYTHONPATH": wt, "EG_REPO": wt}
rc, o = sh([PY, "-m", "pytest", "-q", "-p", "no:cacheprovider", "--timeout=900"], cwd=wt, env=env)
tail = [l for l in o.strip().split("\n") if "passed" in l or "failed" in l][-1:]
res["suite"] = tail[0] if tail else o[-200:]
rc, o = sh([PY, os.path.join(out, "equiv.py")], cwd=wt, env=env)
res["equiv_exit"] = rc
checks = {}
for i in range(1, 21):
    c = "C%02d" % i
    t = time.time()
    rc, o = sh(["./check", c, "--tier", "quick"], cwd=vcopy, env=env)
    lines = o.split("\n")
    v = [l for l in lines if l.startswith("VIOLATION")]
    det = ""
    for k, l in enumerate(lines):
        if l.startswith("VIOLATION") and k + 1 < len(lines):
            det = lines[k + 1].strip()[:300]; break
    checks[c] = {"exit": rc, "viol": v[:1], "detail": det, "wall": round(time.time() - t, 1), "tail": "" if rc == 0 else o[-400:]}
res["checks"] = checks
res["alarms"] = [c for c, r in checks.items() if r["exit"] != 0]
sh("git checkout -- . && git clean -fdq", cwd=wt)
# restore generated tables in the copy
sh([PY, os.path.join(vcopy, "harness", "tables.py")], cwd=vcopy, env={"EG_REPO": "/repo"})
json.dump(res, open(os.path.join(out, "result.json"), "w"), indent=1)
print(res["id"], "applies", res["applies"], "|", res["suite"][:60], "| equiv", res["equiv_exit"], "| alarms", res["alarms"])
for c in res["alarms"]:
    print("   ", c, checks[c]["exit"], (checks[c]["viol"] or [""])[0][:120], "|", checks[c]["detail"][:200])
