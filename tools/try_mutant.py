#!/usr/bin/env python3
"""
try_mutant.py <property> <mutant-dir> <seeded-id> [--checks C01,C03,...]

Confirms a seeded change independently and runs the registered checks against it:
  1  in a scratch worktree of /repo (under /tmp, removed afterwards): the patch applies, the
     pinned test suite still passes with it, the demonstration fails with it and passes without;
  2  the patch is applied to /repo itself (git apply), the quick check(s) are run, and the patch
     is undone straight afterwards (git checkout -- .); generated Lean tables are restored;
  3  everything is recorded in /verif/seeded/<seeded-id>/ (patch.diff, demo.py, notes.md, meta.json).
"""
import json
import os
import shutil
import subprocess
import sys
import time

VERIF = os.path.dirname(os.path.dirname(os.path.abspath(__file__)))
PY = "/venv/bin/python"


def sh(cmd, cwd=None, env=None, timeout=1800):
    e = dict(os.environ)
    if env:
        e.update(env)
    p = subprocess.run(cmd, cwd=cwd, env=e, stdout=subprocess.PIPE, stderr=subprocess.STDOUT, timeout=timeout,
                       shell=isinstance(cmd, str), check=False)
    return p.returncode, p.stdout.decode(errors="replace")


def main():
    prop, mdir, sid = sys.argv[1], sys.argv[2], sys.argv[3]
    checks = [prop]
    if "--checks" in sys.argv:
        checks = sys.argv[sys.argv.index("--checks") + 1].split(",")
    patch = os.path.join(mdir, "patch.diff")
    demo = os.path.join(mdir, "demo.py")
    if os.path.abspath(mdir) == os.path.abspath(os.path.join(VERIF, "seeded", sid)) and os.path.exists(os.path.join(mdir, "meta.json")):
        old = json.load(open(os.path.join(mdir, "meta.json")))
        if "--checks" not in sys.argv and old.get("checks_quick"):
            checks = list(old["checks_quick"])
    meta = {"property": prop, "source_dir": mdir, "when": time.strftime("%Y-%m-%d %H:%M:%S")}
    wt = "/tmp/mutcheck_%d" % os.getpid()
    sh(["git", "-C", "/repo", "worktree", "add", "-q", "--detach", wt, "HEAD"])
    try:
        env = {"PYTHONPATH": wt}
        rc0, out0 = sh([PY, demo], cwd=wt, env=env, timeout=600)
        meta["demo_without_change"] = rc0
        rc, out = sh(["git", "apply", "--check", patch], cwd=wt)
        if rc != 0:
            meta["error"] = "patch does not apply: " + out[-300:]
            print(json.dumps(meta, indent=1))
            return 2
        sh(["git", "apply", patch], cwd=wt)
        rc1, out1 = sh([PY, demo], cwd=wt, env=env, timeout=600)
        meta["demo_with_change"] = rc1
        meta["demo_output_with_change"] = out1[-600:]
        rct, outt = sh([PY, "-m", "pytest", "-q", "-p", "no:cacheprovider", "--timeout=900"], cwd=wt, env=env, timeout=1800)
        tail = [l for l in outt.strip().split("\n") if "passed" in l or "failed" in l or "error" in l][-1:]
        meta["suite_with_change"] = tail[0] if tail else outt[-200:]
        meta["suite_passes_with_change"] = rct == 0 and "652 passed" in (tail[0] if tail else "")
        if "--worktree" in sys.argv:
            # the checks are run against THIS scratch worktree (EG_REPO), /repo itself is not touched:
            # used for bulk re-runs in parallel; the patch is still applied here
            results = {}
            for c in checks:
                t = time.time()
                rcc, outc = sh(["./check", c, "--tier", "quick"], cwd=VERIF, env={"EG_REPO": wt}, timeout=3000)
                viol = [l for l in outc.split("\n") if l.startswith("VIOLATION")]
                first_detail = ""
                lines = outc.split("\n")
                for i, l in enumerate(lines):
                    if l.startswith("VIOLATION") and i + 1 < len(lines):
                        first_detail = lines[i + 1].strip()[:400]
                        break
                results[c] = {"exit": rcc, "violations": len(viol), "first": (viol[0] if viol else ""),
                              "detail": first_detail, "wall_s": round(time.time() - t, 1)}
            meta["_results"] = results
    finally:
        sh(["git", "-C", "/repo", "worktree", "remove", "--force", wt])
        shutil.rmtree(wt, ignore_errors=True)
    meta["confirmed"] = bool(meta.get("demo_without_change") == 0 and meta.get("demo_with_change") not in (0, None)
                             and meta.get("suite_passes_with_change"))
    if "--worktree" in sys.argv:
        results = meta.pop("_results", {})
        sh([PY, os.path.join(VERIF, "harness", "tables.py")], cwd=VERIF, env={"EG_REPO": "/repo"})
        sh("git checkout -- lean/EG/Generated evidence 2>/dev/null; true", cwd=VERIF)
        return finish(meta, results, mdir, sid, worktree=True)
    # 2: run the checks against /repo with the change applied
    rc, out = sh(["git", "-C", "/repo", "status", "--porcelain"])
    if out.strip():
        meta["error"] = "/repo is not clean; refusing to apply"
        print(json.dumps(meta, indent=1))
        return 2
    results = {}
    rc, out = sh(["git", "-C", "/repo", "apply", patch])
    try:
        for c in checks:
            t = time.time()
            rcc, outc = sh(["./check", c, "--tier", "quick"], cwd=VERIF, timeout=3000)
            viol = [l for l in outc.split("\n") if l.startswith("VIOLATION")]
            first_detail = ""
            lines = outc.split("\n")
            for i, l in enumerate(lines):
                if l.startswith("VIOLATION") and i + 1 < len(lines):
                    first_detail = lines[i + 1].strip()[:400]
                    break
            results[c] = {"exit": rcc, "violations": len(viol), "first": (viol[0] if viol else ""),
                          "detail": first_detail, "wall_s": round(time.time() - t, 1)}
    finally:
        sh(["git", "-C", "/repo", "checkout", "--", "."])
        sh([PY, os.path.join(VERIF, "harness", "tables.py")], cwd=VERIF, env={"EG_REPO": "/repo"})
        sh("git checkout -- lean/EG/Generated evidence 2>/dev/null; true", cwd=VERIF)
    return finish(meta, results, mdir, sid)


def finish(meta, results, mdir, sid, worktree=False):
    meta["checks_quick"] = results
    meta["caught_by"] = [c for c, r in results.items() if r["exit"] == 1]
    meta["caught_with_failing_input"] = [c for c, r in results.items() if r["exit"] == 1 and "no-failing-input-found" not in r["first"]]
    out_dir = os.path.join(VERIF, "seeded", sid)
    os.makedirs(out_dir, exist_ok=True)
    for f in ("patch.diff", "demo.py", "notes.md"):
        if os.path.exists(os.path.join(mdir, f)) and os.path.abspath(mdir) != os.path.abspath(out_dir):
            shutil.copy(os.path.join(mdir, f), os.path.join(out_dir, f))
    meta["what_it_needs_to_manifest"] = "see notes.md (written by the independent sub-agent that produced the change)"
    meta["what_was_run"] = ("scratch worktree: demo without/with the change, full pytest suite with the change; then `git -C /repo apply patch.diff`, "
                            "`./check <id> --tier quick` for the listed checks, `git -C /repo checkout -- .`")
    if worktree:
        meta["what_was_run"] = ("scratch worktree of /repo: demo without/with the change, full pytest suite with the change, and "
                                "`EG_REPO=<that worktree> ./check <id> --tier quick` for the listed checks with the change applied there "
                                "(bulk re-run in parallel; /repo itself untouched)")
    json.dump(meta, open(os.path.join(out_dir, "meta.json"), "w"), indent=1)
    print(json.dumps({k: meta[k] for k in ("property", "confirmed", "caught_by", "caught_with_failing_input", "suite_with_change")}, indent=1))
    for c, r in results.items():
        print(c, r["exit"], r["first"][:150], "|", r["detail"][:200])
    return 0


if __name__ == "__main__":
    sys.exit(main())
