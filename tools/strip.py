#!/usr/bin/env python3
"""print python source without docstrings/comments (reading aid)"""
import ast, sys
for p in sys.argv[1:]:
    t = ast.parse(open(p).read())
    for n in ast.walk(t):
        if isinstance(n, (ast.FunctionDef, ast.ClassDef, ast.Module, ast.AsyncFunctionDef)):
            b = n.body
            if b and isinstance(b[0], ast.Expr) and isinstance(getattr(b[0], 'value', None), ast.Constant) and isinstance(b[0].value.value, str):
                n.body = b[1:] or [ast.Pass()]
    print('#####', p)
    print(ast.unparse(t))
