#!/usr/bin/env python3
"""
mkmanifest.py — regenerates /verif/MANIFEST.json from the table below.
Run after adding / changing a check:  python3 tools/mkmanifest.py
"""
import json
import os

VERIF = os.path.dirname(os.path.dirname(os.path.abspath(__file__)))
PROPS = [json.loads(l)["id"] for l in open(os.path.join(VERIF, "properties.jsonl"))]

TB = ("Trusted base: Lean 4.33 kernel (thorough tier also leanchecker); axioms propext, Classical.choice, Quot.sound only "
      "(audited with #print axioms on every run; no sorry/admit/own axioms/native_decide); the hand-written mirror model "
      "lean/EG/*.lean + harness/adapter.py, whose agreement with /repo is CHECKED by the correspondence run (real code vs compiled "
      "model driver, after every call) within the generators' reach; CPython list/dict/set semantics and default identity "
      "__eq__/__hash__ are modelled, not verified. ")

# id -> (technique, level text, level note (appended to TB), design ref)
CLAIMED = {
    "C01": ("Lean 4 proof: invariant Sym by induction over all histories of the mirror model + refinement M=S; correspondence check after every call",
            "Theorem C01_all_histories: after every prefix of every finite history of the public construction/mutation calls (ids are arbitrary "
            "naturals, so every aliasing of arguments is covered) the association is symmetric and duplicate-free; C01_raise_no_effect: a raising "
            "call leaves the world untouched. The model is tied to the code by differential execution after every call (exhaustive depth-1/2 over "
            "18 seed states + seeded random histories) and by a model-free oracle evaluating the statement on the real objects.",
            "Scope: default identity equality; well-typed arguments.", "DESIGN.md 3/C01"),
    "C02": ("Lean 4 proof: invariant USym over all histories + M=S refinement of the mutually recursive membership methods; correspondence after every call",
            "Theorems C02_all_histories (symmetric, duplicate-free after every prefix of every history, nesting and self-membership included since "
            "universes are ordinary ids), C02_remove_nonmember (ValueError, nothing changes), C02_add_appends / C02_remove_keeps_order / C02_frame "
            "(insertion order), C02_ctor_dedup. Correspondence: all interleavings of the four calls and two constructors to depth 2/3 + random.",
            "Scope: vertices only (Link objects have no symmetric membership).", "DESIGN.md 3/C02"),
    "C03": ("Lean 4 proof: refinement of the mirror model to a plain reference model (M.run = S.run, worlds and answers) + frame corollaries; correspondence after every call",
            "Theorem C03_refinement: replaying any history on the mirror model (same guards, same recursion as the Python) gives exactly the world and "
            "return values of the plain closed-form reference model S; frame corollaries C03_setEnd_frame, C03_setEnd_keeps_if_still_end, "
            "C03_setEnd_lost_end, C03_newEdge_appends, C03_dontdup_creates_nothing are read off S. The code is compared with M after every call on "
            "ORDERED links/ends/members, and a model-free before/after oracle evaluates the statement's clauses (incl. unlink exactness).",
            "unlink's iteration over a Python set is modelled in a.links order; order-independence is exercised by the correspondence (hash order varies per run) but not proved.",
            "DESIGN.md 3/C03"),
    "C06": ("Lean 4 proof: closure/exactness/termination of the three traversal loops by induction (no bound on graph size); correspondence on exhaustive ordered multigraphs",
            "Theorems C06_{bft,dftRecursive,dftIterative}_exact (no repetition, start first, listed set = vertices reachable through in-universe vertices), "
            "_terminates (result independent of fuel above an explicit bound), C06_agree_as_sets, C06_ff_result_* (ff_result only filters the listing), for an "
            "arbitrary resolved neighbour function, universe test and filter. Tie to the code: every ordered link list over {D,U,X} on 2-3 vertices x starts "
            "x universes x 3x3 modes, list and generator forms, plus random multigraphs; model-free fixpoint-reachability oracle.",
            "The resolution of neighbors() errors / None neighbours into pseudo-vertices is driver glue (lean/Main.lean), validated by the correspondence only.",
            "DESIGN.md 3/C06"),
    "C07": ("Lean 4 proof: BFS distance monotonicity and listing order, DFS white-path segments, explicit-stack DFS = recursive DFS on reversed lists; correspondence on exhaustive ordered multigraphs",
            "Theorems C07_bft_monotone_distance (a hop-distance function exists for which every listed vertex is at its exact shortest distance and the distance never "
            "decreases along the output), C07_bft_listing_order, C07_dftRec_segment (pre-order: the segment after v is exactly what is reachable avoiding "
            "everything listed before), C07_dftRec_unfold, C07_dftIter_eq_dftRec_reversed, C07_function_of_link_order. Tie: as C06, comparing SEQUENCES, "
            "plus an independent textbook BFS/DFS oracle in Python and a repeat-call check.",
            "'Rebuild the same graph in the same order' is by construction in the model (outputs are functions of nb/inU); on the real code it is exercised by re-running scripts with fresh objects.",
            "DESIGN.md 3/C07"),
    "C08": ("Lean 4 proof: each search loop = find? of its traversal (lock-step induction); correspondence with falsy vertices and ==-but-not-identical values",
            "Theorems C08_bfs_eq_find, C08_dfsIterative_eq_find (every fuel), C08_dfsRecursive_eq_find (sufficient fuel), C08_first_match, C08_start_eligible. The model "
            "has no notion of vertex truthiness at all, so any dependence of the real code on it is a correspondence break (falsy Vertex subclass in the pool).",
            "Attribute values are modelled as ==-classes; Python's == on the value pool is trusted.", "DESIGN.md 3/C08"),
    "C19": ("Lean 4 proof: invariant LawSym over all histories + M=S refinement of the two mutually recursive setters; exhaustive small-scope correspondence",
            "Theorems C19_all_histories (u.laws is L iff L.applies_to is u after every prefix of every history), C19_every_assignment_succeeds, C19_ctor, "
            "C19_rules_immutable, C19_rules_readback. Correspondence: pool of 2 universes x 4 law sets + None, every assignment from both sides to depth 2/3, "
            "random histories; rule attributes read back through the public properties and assignment attempted.",
            "UniverseLaws(applies_to=U) constructed directly is outside the statement.", "DESIGN.md 3/C19"),
    "C04": ("Lean 4 proof: regenerated 960-row decision table of the real neighbors() re-proved = model = documented rule by kernel evaluation each run; general per-link / order / duality theorems; multi-link correspondence",
            "C04_impl_eq_model / C04_impl_eq_spec: the real function evaluated on the COMPLETE per-link domain (5 classes x 4 positions x 4 directions x 4 unknown modes x 3 filter outcomes, "
            "regenerated from /repo every run) equals the mirror model and the rule of the statement, by decide +kernel (no axioms). General theorems on the model: C04_link_rule, "
            "C04_order_and_multiplicity, C04_filter_restricts, C04_fwd_bwd_duality. Multi-link composition is tied to the code by the correspondence on structure worlds x all vertices x modes x filter tables.",
            "Rows where the vertex is attached to a link but is neither of its two ends are mirrored, not specified.", "DESIGN.md 3/C04"),
    "C09": ("Lean 4 proof: regenerated 480-row table of the real find_links() re-proved = model = rule each run; exactness / count theorems; correspondence incl. after-unlink",
            "C09_impl_eq_model / C09_impl_eq_spec over the complete per-link domain; C09_link_rule, C09_exact, C09_raises, C09_count (|find_links| = multiplicity in neighbors for FORWARD / ANY). "
            "After-unlink emptiness and non-interference with other pairs are checked by the oracle on the real code and by the correspondence (not proved).",
            "C09_after_unlink is not a theorem (partial).", "DESIGN.md 3/C09"),
    "C05": ("Lean 4 proof: invariant CacheOK (every memo equals the recomputed answer, flag on or off) over all histories mixing mutators, queries and flag toggles; audit-mode correspondence + fresh-interpreter pickling",
            "Theorems C05_all_histories, C05_step_preserves, C05_query_preserves (also under a raising filter), C05_transparent, C05_answers_transparent. Correspondence in audit mode: after every "
            "mutating op every vertex is queried under several keys with caching on; oracle: answer with caching on = answer recomputed with the flag off (also for traversals/searches); "
            "graphs with warm caches are pickled and re-queried in a fresh interpreter.",
            "Process boundaries are exercised, not modelled. Filters are assumed pure.", "DESIGN.md 3/C05"),
}

READY = os.environ.get("EG_READY", "").split(",") if os.environ.get("EG_READY") else None


def main():
    ready = [p for p in PROPS if p in CLAIMED and (READY is None or p in READY)]
    checks = []
    for p in ready:
        tech, text, note, ref = CLAIMED[p]
        checks.append({
            "property_id": p,
            "quick_cmd": "./check %s --tier quick" % p,
            "thorough_cmd": "./check %s --tier thorough" % p,
            "evidence_file": "evidence/%s.json" % p,
            "replay_cmd_template": "./check %s --replay {path}" % p,
            "engine": "lean-model+correspondence",
            "level_claimed": {"category": "proof", "text": text, "design_ref": ref},
            "level_note": TB + note,
            "technique": tech,
        })
    na = [{"property_id": p, "reason": "check under construction in this round (model + theorems + correspondence being built; see DESIGN.md section 10)"}
          for p in PROPS if p not in ready]
    m = {
        "version": 1,
        "setup_cmd": "cd lean && lake build EG driver EG.All",
        "hooks": {
            "guard": "EDGEGRAPH_VERIF",
            "enable": "no hooks are needed: every observation uses public accessors, callbacks are ordinary arguments",
            "baseline_off_cmd": "cd /repo && /venv/bin/python -m pytest -ra -q -p no:cacheprovider --timeout=900 --continue-on-collection-errors",
            "source_commits": [],
            "add_only": True,
        },
        "engines": [{
            "name": "lean-model+correspondence", "path": "lean/ harness/ check",
            "serves_properties": ready,
            "kind_free_text": "Lean 4 executable model (mirror M + reference S) with machine-checked theorems; Python differential harness "
                              "driving the real edgegraph code and the compiled model driver with the same operation scripts",
        }],
        "checks": checks,
        "not_applicable": na,
        "notes": "Eleven genuine defects of the pinned tree were repaired by 'fix:' commits in /repo (see known_findings.json and DESIGN.md section 4).",
    }
    json.dump(m, open(os.path.join(VERIF, "MANIFEST.json"), "w"), indent=1)
    print("claimed:", ready)


if __name__ == "__main__":
    main()
