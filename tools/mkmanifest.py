#!/usr/bin/env python3
"""
mkmanifest.py — regenerates /verif/MANIFEST.json from the table below.
Run after adding / changing a check:  python3 tools/mkmanifest.py
"""
import json
import os

VERIF = os.path.dirname(os.path.dirname(os.path.abspath(__file__)))
PROPS = [json.loads(l)["id"] for l in open(os.path.join(VERIF, "properties.jsonl"))]

TB = ("Trusted base: Lean 4.33 kernel (thorough tier also leanchecker); axioms propext, Classical.choice, Quot.sound only "
      "(audited with #print axioms on every run; no sorry/admit/own axioms/native_decide); the hand-written mirror model "
      "lean/EG/*.lean + harness/adapter.py, whose agreement with /repo is CHECKED by the correspondence run (real code vs compiled "
      "model driver, after every call) within the generators' reach; CPython list/dict/set semantics and default identity "
      "__eq__/__hash__ are modelled, not verified. ")

# id -> (technique, level text, level note (appended to TB), design ref)
CLAIMED = {
    "C01": ("Lean 4 proof: invariant Sym by induction over all histories of the mirror model + refinement M=S; correspondence check after every call",
            "Theorem C01_all_histories: after every prefix of every finite history of the public construction/mutation calls (ids are arbitrary "
            "naturals, so every aliasing of arguments is covered) the association is symmetric and duplicate-free; C01_raise_no_effect: a raising "
            "call leaves the world untouched. The model is tied to the code by differential execution after every call (exhaustive depth-1/2 over "
            "18 seed states + seeded random histories) and by a model-free oracle evaluating the statement on the real objects.",
            "Scope: default identity equality; well-typed arguments.", "DESIGN.md 3/C01"),
    "C02": ("Lean 4 proof: invariant USym over all histories + M=S refinement of the mutually recursive membership methods; the complete one-step transition table of a 2x2 pool (every state the real code reaches) regenerated on every run and re-proved equal to the model by kernel evaluation; correspondence after every call",
            "Regenerated on every run (720 rows = the 45 states — four ORDERED membership lists — that the real code reaches from the empty one x 16 calls from either side): C02_uni_impl_eq_model (raises or not, and the "
            "four lists afterwards, are the model's), C02_uni_impl_eq_spec (symmetric, duplicate-free), C02_uni_table_complete, by decide +kernel. Theorems C02_all_histories (symmetric, duplicate-free after every prefix of every history, nesting and self-membership included since "
            "universes are ordinary ids), C02_remove_nonmember (ValueError, nothing changes), C02_add_appends / C02_remove_keeps_order / C02_frame "
            "(insertion order), C02_ctor_dedup. Correspondence: all interleavings of the four calls and two constructors to depth 2/3 + random.",
            "Scope: vertices only (Link objects have no symmetric membership).", "DESIGN.md 3/C02"),
    "C03": ("Lean 4 proof: refinement of the mirror model to a plain reference model (M.run = S.run, worlds and answers) + frame corollaries; correspondence after every call",
            "Theorem C03_refinement: replaying any history on the mirror model (same guards, same recursion as the Python) gives exactly the world and "
            "return values of the plain closed-form reference model S; frame corollaries C03_setEnd_frame, C03_setEnd_keeps_if_still_end, "
            "C03_setEnd_lost_end, C03_newEdge_appends, C03_dontdup_creates_nothing, C03_unlink_exact (unlink removes exactly the links joining a and b, returns exactly those, touches nothing else) are read off S. The code is compared with M after every call on "
            "ORDERED links/ends/members, and a model-free before/after oracle evaluates the statement's clauses (incl. unlink exactness).",
            "unlink iterates a Python set: the model processes the links in a.links order and C03_unlink_order_independent proves any order gives the same world; C03_unlink_exact assumes every attached link is a proper two-ended link.",
            "DESIGN.md 3/C03"),
    "C06": ("Lean 4 proof: closure/exactness/termination of the three traversal loops by induction (no bound on graph size); correspondence on exhaustive ordered multigraphs",
            "Theorems C06_{bft,dftRecursive,dftIterative}_exact (no repetition, start first, listed set = vertices reachable through in-universe vertices), "
            "_terminates (result independent of fuel above an explicit bound), C06_agree_as_sets, C06_ff_result_* (ff_result only filters the listing), for an "
            "arbitrary resolved neighbour function, universe test and filter; and at the level of the WORLD (EG.TravOps: pre-flight checks, resolution of neighbors(), loop, cut at the first exception): "
            "C06_world_exact / _agree / _ff_result / _preflight for every world where neighbors() of every vertex returns without None. Tie to the code: every ordered link list over {D,U,X} on 2-3 vertices x starts "
            "x universes x 3x3 modes, list and generator forms, plus random multigraphs; model-free fixpoint-reachability oracle.",
            "The encoding of a raising neighbors() / a None neighbour as pseudo-vertices (EG.TravOps) is covered by C06_world_exact / _agree only for total graphs; for a raising neighbors() C06_world_error_prefix proves that what has been yielded is a duplicate-free reachable prefix, and C06_world_none_is_yielded covers a None neighbour; the rest of the error paths is validated by the correspondence.",
            "DESIGN.md 3/C06"),
    "C07": ("Lean 4 proof: BFS distance monotonicity and listing order, DFS white-path segments, explicit-stack DFS = recursive DFS on reversed lists; correspondence on exhaustive ordered multigraphs",
            "Theorems C07_bft_monotone_distance (a hop-distance function exists for which every listed vertex is at its exact shortest distance and the distance never "
            "decreases along the output), C07_bft_listing_order, C07_dftRec_segment (pre-order: the segment after v is exactly what is reachable avoiding "
            "everything listed before), C07_dftRec_unfold, C07_dftIter_eq_dftRec_reversed, C07_function_of_link_order; rebuilding with fresh objects (EG/Props/C07Rename.lean): "
            "C07_bft_rename_equivariant, C07_dftRecursive_rename_equivariant, C07_dftIterative_rename_equivariant (under ANY injective renaming of the vertices the listing of the renamed graph is the "
            "image, position by position, of the listing of the original: the order depends on link order alone, not on object identity). Tie: as C06, comparing SEQUENCES, "
            "plus an independent textbook BFS/DFS oracle in Python and a repeat-call check.",
            "'Rebuild the same graph in the same order' is C07_world_function_of_link_order (worlds agreeing on links, ends, link classes and members list identically) and the renaming theorems of C07Rename; on the real code it is exercised by re-running scripts with fresh objects.",
            "DESIGN.md 3/C07"),
    "C08": ("Lean 4 proof: each search loop = find? of its traversal (lock-step induction); correspondence with falsy vertices and ==-but-not-identical values",
            "Theorems C08_bfs_eq_find, C08_dfsIterative_eq_find (every fuel), C08_dfsRecursive_eq_find (sufficient fuel), C08_first_match, C08_start_eligible, and C08_world_first_match (the three search ENTRY POINTS "
            "on a world return find? of their traversal's listing for the attribute predicate), C08_any_value_needs_attribute, C08_nan_never_matches (== is the test: a sought value equal to everything still needs the attribute to be there; a value unequal to itself matches nothing). The model "
            "has no notion of vertex truthiness at all, so any dependence of the real code on it is a correspondence break (falsy Vertex subclass in the pool).",
            "Attribute values are modelled as ==-classes; Python's == on the value pool is trusted.", "DESIGN.md 3/C08"),
    "C19": ("Lean 4 proof: invariant LawSym over all histories + M=S refinement of the two mutually recursive setters; the complete one-step transition table of a 2x2 pool regenerated from the real setters on every run and re-proved equal to the model by kernel evaluation; exhaustive small-scope correspondence",
            "Regenerated on every run (84 rows = 7 consistent states x 12 assignments, the whole state machine of a pool of two universes and two law sets): C19_laws_impl_eq_model (the four pointers after "
            "every assignment on the REAL code are the model's), C19_laws_impl_eq_spec (no exception, consistent, took effect), C19_laws_states_closed, C19_laws_table_complete, by decide +kernel. Theorems C19_all_histories (u.laws is L iff L.applies_to is u after every prefix of every history), C19_every_assignment_succeeds, C19_ctor, "
            "C19_rules_immutable, C19_rules_readback. Correspondence: pool of 2 universes x 4 law sets + None, every assignment from both sides to depth 2/3, "
            "random histories; rule attributes read back through the public properties and assignment attempted.",
            "UniverseLaws(applies_to=U) constructed directly is outside the statement.", "DESIGN.md 3/C19"),
    "C04": ("Lean 4 proof: regenerated 1152-row decision table of the real neighbors() re-proved = model = documented rule by kernel evaluation each run; general per-link / order / duality theorems; multi-link correspondence",
            "C04_impl_eq_model / C04_impl_eq_spec: the real function evaluated on the COMPLETE per-link domain (5 classes x 4 positions x 4 directions x 4 unknown modes x 3 filter outcomes, "
            "regenerated from /repo every run) equals the mirror model and the rule of the statement, by decide +kernel (no axioms). General theorems on the model: C04_link_rule, "
            "C04_order_and_multiplicity, C04_filter_restricts, C04_fwd_bwd_duality. Multi-link composition is tied to the code by the correspondence on structure worlds x all vertices x modes x filter tables.",
            "Rows where the vertex is attached to a link but is neither of its two ends are mirrored, not specified.", "DESIGN.md 3/C04"),
    "C09": ("Lean 4 proof: regenerated 576-row table of the real find_links() re-proved = model = rule each run; exactness / count theorems; correspondence incl. after-unlink",
            "C09_impl_eq_model / C09_impl_eq_spec over the complete per-link domain; C09_link_rule, C09_exact, C09_raises, C09_count (|find_links| = multiplicity in neighbors for FORWARD / ANY), "
            "C09_after_unlink_empty (after unlink(a,b) find_links(a,b) and (b,a) are empty for every direction flag, unknown mode and filter), C09_after_unlink_others (every other pair answers as before). "
            "The oracle re-evaluates the statement on the real code, incl. after-unlink emptiness and non-interference.",
            "The unlink theorems assume every attached link is a proper two-ended link (exactly two ends).", "DESIGN.md 3/C09"),
    "C05": ("Lean 4 proof: invariant CacheOK (every memo equals the recomputed answer, flag on or off) over all histories mixing mutators, queries and flag toggles; audit-mode correspondence + fresh-interpreter pickling",
            "Theorems C05_all_histories, C05_step_preserves, C05_query_preserves (also under a raising filter), C05_transparent, C05_answers_transparent; for the traversal and search ENTRY POINTS, modelled "
            "with every neighbors() call going through the memo in the order the code makes them (EG.TravState): C05_traversal_transparent, C05_search_transparent, C05_traversal_flag_irrelevant, "
            "C05_search_flag_irrelevant, C05_all_histories_with_traversals, C05_history_traversal_answers (EG/Props/C05Trav.lean). Correspondence in audit mode: after every "
            "mutating op every vertex is queried under several keys with caching on; oracle: answer with caching on = answer recomputed with the flag off (also for traversals/searches); "
            "graphs with warm caches are pickled and re-queried in a fresh interpreter. The un-pickled clause (EG.Copy, EG/Props/C05Copy.lean): an un-pickled graph is an isomorphic copy "
            "(objects renamed by any permutation, ordered containers in order, memo tables carried along, the flag whatever it is in the loading interpreter); C05_copy_recomputes, C05_copy_cacheOK "
            "(memos correct before pickling are correct in the copy), C05_unpickled_transparent, inv_copy, C05_histories_across_pickling (any history, pickle + load, any further history: Inv and CacheOK "
            "after every prefix). C05_unhashable_never_cached: arguments that cannot be a memo key are answered by recomputation.",
            "That un-pickling yields an isomorphic copy is C10's subject (proved for the abstract machines, tested for the real loader); here it is the definition of World.copy and is exercised in a subprocess. "
            "Filters are assumed pure.", "DESIGN.md 3/C05"),
    "C10": ("Lean 4 proof (partial: scheduling + abstract round trip): the queue machine of the non-recursive pickler refines the recursive pickler for every heap and depth, and an abstract unpickler run on that stream rebuilds the heap up to isomorphism with sharing preserved; three-layer correspondence (event trace vs machine, opcode stream vs dill, load-and-compare incl. fresh interpreter)",
            "Theorems C10_nr_refines_rec / C10_dump_eq (for every abstract object heap, every depth and any pending queue, the deferred-save queue machine emits the recursive pickler's "
            "opcode stream up to build-pop-GET = discard-GET, with the same memo), C10_step_flat (one iteration handles one item and expands at most one object by one level: no recursion), "
            "C10_rec_needs_depth / C10_nr_handles_depth (a chain of n objects defeats any recursion budget <= n of the recursive pickler, never the queue machine); LOADING side (EG.PickleLoad, "
            "EG/Props/C10Load.lean): C10_load_roundtrip — the stack machine of the unpickler on the abstract opcodes, run on the pickler's stream for ANY heap, depth and root, leaves the image of the root "
            "and a heap in which every pickled object is rebuilt with its kind and its ORDERED before/after children, one new object per original (shared stays shared, distinct stays distinct), the pickled set "
            "being closed under children; cycles through instance state and tuples reachable from their own elements (the D10 shape) included; hypothesis NoReentry: no POP in the stream (no reduce met again "
            "while its own arguments are being saved) in the RECURSIVE pickler's stream; for the queue machine's OWN stream (EG/Proofs/PickleSim.lean, EG/Props/C10Sim.lean): C10_normalize_loads_alike "
            "(the unpickler on any stream and on its normal form: same result up to an injective renaming of addresses — Build1,Pop,Get only leaves an unreachable object behind) and "
            "C10_nr_load_roundtrip_full (the stream the queue machine writes, POP for re-entered tuples included, loads to the isomorphic heap). Soft tie of the loader model: the graph it builds vs the abstract heap of the copy pickle really "
            "loads (evidence: pickle_layers.loader_tie). Tie: the real pickler is "
            "sub-classed in the harness, the abstract heap is EXTRACTED from each real run and the real save/memoize/POP+GET event sequence is compared with the Lean machine; streams are compared "
            "with dill.dumps; copies are loaded with pickle and dill (same process, fresh interpreter, caching on/off either side, protocols 0-5) and compared field by field incl. sharing; "
            "chains far deeper than the recursion limit are serialised under a lowered limit.",
            "PARTIAL: byte-level faithfulness (opcode encodings, framing) and the real loader's agreement with the abstract unpickler are trusted and only tested; a NON-tuple object met again while the arguments "
            "of its own reduce are being saved (hypothesis NoReentry) is outside the loading theorems. "
            "RecursionError is a runtime limit: exercised, not provable.", "DESIGN.md 3/C10"),
    "C11": ("Lean 4 proof: effect of the builder loops (members = first-mention order, one link per entry in input order, frame, validation first) via loop invariants over the reference model; exhaustive small inputs + random correspondence",
            "Theorems C11_dict_builds / C11_matrix_builds (structure `Built`: new universe, members = dedupKeepFirst of the mention sequence / side array, exactly one new link per listed pair or truthy cell, "
            "oriented key->value / row->column, of the requested class, created in input order; every pre-existing link untouched, every pre-existing links/universes list a prefix of the new one), "
            "C11_dict_links_of_vertex / C11_matrix_links_of_vertex (the exact ordered links a vertex gains, from which read-back follows by C04/C09), C11_matrix_bad_input (ValueError, no new world). "
            "Correspondence: every dict over <=3 vertices with value lists <=2 (sampled in quick), every 0/1 matrix up to 3x3 with arbitrary truthy/falsy cell values, malformed inputs, prior links/universes; "
            "the oracle reads the result back with neighbors()/find_links on the real code.",
            "Read-back theorems C11_dict_readback_any / _directed / _undirected (multiplicity of y among neighbors(x) = multiplicity of the listed pairs, symmetric closure for undirected types, a self entry once) are "
            "proved for load_adj_dict and for load_adj_matrix (C11_matrix_readback_any / _directed / _undirected), for vertices without prior links; with prior links read-back is checked by the oracle on the real code.", "DESIGN.md 3/C11"),
    "C12": ("Lean 4 proof: non-interference of caller-side edits of handed-out containers over all histories (alias-free model); the exchange discipline of the real code (114 exchange point x state rows) regenerated on every run and re-proved leak-free by kernel evaluation; correspondence that really mutates every exchanged container",
            "Regenerated on every run (harness/tables_alias.py): for every point at which a collection is handed out or taken in, caching off / on / on for one class, from a miss and from a hit, the caller's "
            "collection is edited in every way its type allows; C12_exchange_no_leak (no row changes anything observable: the code IS the alias-free model), C12_exchange_table_complete. Theorem C12_noninterference: in the model every accessor/query returns a value, so for every history interleaving public calls with arbitrary edits of any container handed out so far, "
            "the world and all answers equal those of the history with the edits erased (C12_cached_answer_detached for the neighbors memo). The weight is in the correspondence: with keep-mode on, the adapter "
            "records every container the real code returns (links, vertices, universes, edge_whitelist incl. inner mappings, neighbors, find_links, traversal results, unlink(destroy=False)) or is given "
            "(vertices=, universes=, links=, attributes=, edge_whitelist= outer+inner, adjacency dict + value lists, matrix + rows + side array), `mut` ops apply real mutations, and every later observation "
            "must still equal the alias-free model's; an oracle compares obs before/after each mut.",
            "The theorem is thin by design (DESIGN.md 7): it states that the model compared with the code has no aliasing.", "DESIGN.md 3/C12"),
    "C13": ("Lean 4 proof: frame property of neighbors()/find_links for every fault index (world unchanged but the memo, memo stays correct, repeat gives the normal answer); snapshot oracle + exhaustive per-call fault sweep on the real code",
            "Theorems C13_neighbors_frame (for EVERY invocation index at which the filter raises: graph unchanged, no incorrect memo left, other memos untouched), C13_repeat_ok, C13_step_readonly, "
            "C13_queries_invisible; for traversals and searches (modelled with their memo traffic, EG.TravState): C13_traversal_readonly, C13_search_readonly, C13_queries_invisible_x "
            "(any sequence of neighbors / find_links / traversal / search calls on a reachable world leaves the graph part of the world as it was and every memo correct), C13_render_readonly (basic_render). "
            "The PlantUML / PyVis renderers and pickling are functions from the world in the model because the code contains no store; for them, and for faults inside traversal callbacks, the property is established on the real code: "
            "vars() of every object (attribute-name sets, values, container contents) is snapshotted around every read-only call of every script, and a fault is swept over every invocation index of every "
            "callback (filterfunc, ff_via, ff_result, rfunc, sort, rvfunc, refunc, user_render_func), each followed by an unfaulted repeat that must give the baseline answer.",
            "PARTIAL for renderers / pickling (entry points without stores): frame by construction of the model + exhaustive fault sweep per call, not a theorem about the Python.", "DESIGN.md 3/C13"),
    "C14": ("Lean 4 proof: structure of the PlantUML source (one declaration per member, relation lines = shown links one-for-one, orientation, nearest configured class); decision tables regenerated from the real renderer on every run and re-proved equal to the model by kernel evaluation; parse-back correspondence",
            "Regenerated on every run from the real render_to_plantuml_src (translation by exhaustive execution, 822 rows): the relation line of every link class x end placement (C14_rel_impl_eq_model, "
            "C14_rel_impl_eq_spec) and WHICH configured class every vertex / link class resolves to under every set of configured classes (C14_resolveV_impl_eq_model, C14_resolveL_impl_eq_model: ties "
            "the model's MRO lists to the real __mro__ walk), C14_tables_complete; all by decide +kernel. Theorems C14_decl_once, C14_shown_links, C14_relations_exact, C14_internal_link_shown (with C01's symmetry), C14_orientation, C14_resolve_nearest, C14_empty over the structure model; "
            "the real text is parsed back into declaration and relation records (titles tokenised) and compared with the model for 4 option tables incl. a configured subclass and an attribute-based title; "
            "an independent oracle recomputes declarations and the relation multiset from the real objects.",
            "The text layer (skinparams, note, attribute lines, joining) is outside the model; relation order is unspecified (Python set) and compared as a multiset.", "DESIGN.md 3/C14"),
    "C15": ("Lean 4 proof: node list, soundness of every edge, one-to-one arrowed edges vs directed links, completeness incl. self-loops, over a model of pyvis' add_node/add_edge; two-link decision table regenerated from the real make_pyvis_net on every run and re-proved equal to the model (and to the statement) by kernel evaluation; correspondence on get_edges()/nodes",
            "Regenerated on every run (1296 rows: every pair of link classes x end placements among two members and an outsider): C15_impl_eq_model (real edge list = model edge list, same order, same arrows), "
            "C15_impl_eq_spec (sound, one arrowed edge per directed link, complete), C15_table_complete, by decide +kernel. Theorems C15_nodes, C15_edges_sound (every edge is the drawing of a link attached to member src, oriented v1->v2, arrowed iff directed; indices are member positions, so nothing for outsiders), "
            "C15_arrowed_count, C15_complete. pyvis' behaviour (no second edge for an undirected add when the pair is joined; `directed` read at add time) is modelled from its source and validated by the "
            "correspondence on every call; an oracle checks the statement on the real network and that no vertex attribute set changes.",
            "pyvis itself is in the trusted base.", "DESIGN.md 3/C15"),
    "C16": ("Lean 4 proof: exact string of basic_render (lines, order, stable sort, isolated vertex, propagation); exact-string correspondence",
            "Theorems C05_render_transparent / C13_render_readonly (basic_render modelled WITH the neighbors() calls it makes through the memo: it returns the string of the memo-free description, leaves the graph and every memo correct), C16_lines, C16_lines_sorted, C16_sortBy_spec (stable sort: permutation ordered by the key), C16_isolated, C16_empty, C16_propagates. The rendered string is compared character by "
            "character with the model (token renderings, repr with addresses substituted), with and without rfunc/sort; the oracle recomputes every line from neighbors().",
            "sorted() stability of CPython is trusted.", "DESIGN.md 3/C16"),
    "C17": ("Lean 4 proof: state machine of the semi-singleton maps: live key returns same instance without __init__, new key new instance of the called class, reports exact, isolation between classes sharing a metaclass; the key relation of the pool's argument tuples regenerated from the real metaclasses on every run and re-proved equal to the model's key function by kernel evaluation; exhaustive depth-2/3 + random correspondence",
            "Regenerated on every run (338 rows: every pair of argument tuples x both hash functions, on fresh classes): C17_key_impl_eq_model (same object returned <=> same model key), C17_key_table_complete, by decide +kernel. Theorems C17_wf_all_histories, C17_live_key_returns_same_no_init, C17_new_key_new_instance, C17_returns_called_class, C17_reports_exact, C17_drop, C17_isolation, C17_clear for an arbitrary "
            "configuration (which classes share a metaclass object, arbitrary key functions). Correspondence: fresh classes per history (own metaclass, shared metaclass object, subclasses, custom hash "
            "function), argument pool with equal hashes (-1/-2), 1/1.0/True, keyword permutations; the instance maps are read back after every call; the oracle keeps the statement's own (class, key) book.",
            "Keys are compared with ==; unhashable arguments (TypeError) are outside the model.", "DESIGN.md 3/C17"),
    "C18": ("Lean 4 proof: state machine of true singletons over all histories (same object between clears, __init__ once with the first arguments, per-class, clear isolated / all / absent); the complete one-step transition table of a four-class pool regenerated from the real metaclass on every run and re-proved equal to the model and to the statement by kernel evaluation; exhaustive depth-2/3 + random correspondence",
            "Regenerated on every run (272 rows = 16 sets of classes having an instance x 17 calls: constructions with ordinary / raising / clearing-from-inside constructors, per-class and global clears; classes: "
            "a class, its subclass, a class with falsy instances, a class whose metaclass derives from TrueSingleton): C18_ts_impl_eq_model, C18_ts_impl_eq_spec, C18_ts_table_complete, by decide +kernel. "
            "Theorems C18_wf_all_histories, C18_same_between_clears (arbitrary intervening operations on other classes), C18_init_once_first_args, C18_per_class, C18_distinct_instances, C18_clear_isolated, "
            "C18_clear_all, C18_clear_absent_harmless. Correspondence over four classes (a subclass, a class with falsy instances, a class whose metaclass derives from the library's; plus an alias class whose __new__ forwards to another singleton class, judged by a direct oracle) with instance dict and __init__ log compared after every call.",
            "", "DESIGN.md 3/C18"),
    "C20": ("Lean 4 proof: for every admissible answer of the RNG oracle randgraph returns without raising a universe of exactly count well-formed vertices; k <= count whatever the float product; correspondence with logged real draws replayed on both sides",
            "Theorems C20_k_le_count (whatever randint returned and however r*connectivity rounds, the sample size never exceeds the population), C20_k_pos, C20_builds (exactly count members carrying i=0..count-1, "
            "every new link of the requested class with both ends members, pre-existing graph untouched, ensurelink => every vertex is v1 of a link), C20_reproducible. Correspondence: counts 1..40 x 5 classes x "
            "{default, 0, .3, .5, .7, 1} x both flags: the draws of a real seeded run are logged and replayed on the real code and the model (k recomputed with Lean's IEEE Float); same seed twice gives the same result.",
            "random.randint / random.sample range and distinctness are the trusted oracle; Float agreement between CPython and Lean is checked by the correspondence, not needed by the theorems.", "DESIGN.md 3/C20"),
}

READY = os.environ.get("EG_READY", "").split(",") if os.environ.get("EG_READY") else None


def main():
    ready = [p for p in PROPS if p in CLAIMED and (READY is None or p in READY)]
    checks = []
    for p in ready:
        tech, text, note, ref = CLAIMED[p]
        checks.append({
            "property_id": p,
            "quick_cmd": "./check %s --tier quick" % p,
            "thorough_cmd": "./check %s --tier thorough" % p,
            "evidence_file": "evidence/%s.json" % p,
            "replay_cmd_template": "./check %s --replay {path}" % p,
            "engine": "lean-model+correspondence",
            "level_claimed": {"category": "proof", "text": text, "design_ref": ref},
            "level_note": TB + note,
            "technique": tech,
        })
    na = [{"property_id": p, "reason": "check under construction in this round (model + theorems + correspondence being built; see DESIGN.md section 10)"}
          for p in PROPS if p not in ready]
    m = {
        "version": 1,
        "setup_cmd": "cd lean && lake build EG driver EG.All",
        "hooks": {
            "guard": "EDGEGRAPH_VERIF",
            "enable": "no hooks are needed: every observation uses public accessors, callbacks are ordinary arguments",
            "baseline_off_cmd": "cd /repo && /venv/bin/python -m pytest -ra -q -p no:cacheprovider --timeout=900 --continue-on-collection-errors",
            "source_commits": [],
            "add_only": True,
        },
        "engines": [{
            "name": "lean-model+correspondence", "path": "lean/ harness/ check",
            "serves_properties": ready,
            "kind_free_text": "Lean 4 executable model (mirror M + reference S) with machine-checked theorems; Python differential harness "
                              "driving the real edgegraph code and the compiled model driver with the same operation scripts",
        }],
        "checks": checks,
        "not_applicable": na,
        "notes": "Eleven genuine defects of the pinned tree were repaired by 'fix:' commits in /repo (see known_findings.json and DESIGN.md section 4).",
    }
    json.dump(m, open(os.path.join(VERIF, "MANIFEST.json"), "w"), indent=1)
    print("claimed:", ready)


if __name__ == "__main__":
    main()
