"""
tables_laws.py — translation by exhaustive execution for the universe <-> laws association (C19):
the complete one-step transition table over two universes and two law sets (7 consistent states x 12
assignments = 84 rows), evaluated on the REAL code on every run of the C19 check and written as a
Lean literal to lean/EG/Generated/LawsTable.lean.
"""
import os
import sys

HERE = os.path.dirname(os.path.abspath(__file__))
sys.path.insert(0, HERE)
from tables import write_if_changed, GEN  # noqa: E402
from edgegraph.structure import Universe  # noqa: E402

HEADER = """import EG.LawsTableSpec
/-
  GENERATED on every run of the C19 check by harness/tables_laws.py from the real edgegraph code
  in /repo.  Do not edit by hand.
-/
namespace EG
namespace Tab

"""
STATES = [(0, 0), (1, 0), (2, 0), (0, 1), (0, 2), (1, 2), (2, 1)]


def rows():
    out = []
    for s0, s1 in STATES:
        for op in range(12):
            us = [Universe(), Universe()]
            ws = [us[0].laws, us[1].laws]
            us[0].laws = None
            us[1].laws = None
            pick = lambda pool, c: None if c == 0 else pool[c - 1]  # noqa: E731
            us[0].laws = pick(ws, s0)
            us[1].laws = pick(ws, s1)
            raised = False
            try:
                if op < 6:
                    us[op // 3].laws = pick(ws, op % 3)
                else:
                    ws[(op - 6) // 3].applies_to = pick(us, (op - 6) % 3)
            except Exception:  # noqa: BLE001
                raised = True
            code = lambda pool, x: 0 if x is None else 1 + [i for i, y in enumerate(pool) if y is x][0]  # noqa: E731
            out.append("  ⟨%d, %d, %d, %d, %d, %d, %d, %s⟩" % (
                s0, s1, op, code(ws, us[0].laws), code(ws, us[1].laws), code(us, ws[0].applies_to), code(us, ws[1].applies_to),
                "true" if raised else "false"))
    return out


def regenerate():
    r = rows()
    text = HEADER + "def implLaws : List LawRow := [\n" + ",\n".join(r) + "\n]\n\nend Tab\nend EG\n"
    changed = write_if_changed(os.path.join(GEN, "LawsTable.lean"), text)
    return len(r), changed


if __name__ == "__main__":
    print(regenerate())
