"""
tables_alias.py — translation by exhaustive execution for the EXCHANGE DISCIPLINE (C12): for every
point at which the library hands a collection to the caller or takes one from the caller, the real code
is run, the caller's collection is edited in every way its type allows, and the row records whether
anything observable changed (`leaks`).  The alias-free model of EG.Alias is the all-`false` table;
lean/EG/Props/C12Table.lean re-proves on every run that the regenerated table is all-`false`.
Only the public API is used.
"""
import os
import sys
import types

HERE = os.path.dirname(os.path.abspath(__file__))
sys.path.insert(0, HERE)
from tables import write_if_changed, GEN  # noqa: E402
from edgegraph.structure import Vertex, Universe, DirectedEdge, UnDirectedEdge, Link  # noqa: E402
from edgegraph.structure.universe import UniverseLaws  # noqa: E402
from edgegraph.traversal import helpers, breadthfirst, depthfirst  # noqa: E402
from edgegraph.builder import adjlist, adjmatrix, explicit  # noqa: E402

HEADER = """import EG.Alias
/-
  GENERATED on every run of the C12 check by harness/tables_alias.py from the real edgegraph
  code in /repo (one row per exchange point × state; `leaks` = an edit of the caller's collection
  changed something observable).  Do not edit by hand.
-/
namespace EG
namespace A

"""


class Namer:
    """names objects by the order in which they are first seen (structural, not by address), so that the
    observation of one world can be compared with that of an identically built one"""

    def __init__(self):
        self.ix, self.keep = {}, []

    def __call__(self, x):
        if id(x) not in self.ix:
            self.ix[id(x)] = len(self.keep)
            self.keep.append(x)
        return self.ix[id(x)]


class Hub(Vertex):
    """caching switched on for ONE vertex class only"""
    NEIGHBOR_CACHING = True


def world(caching):
    """caching: False / True (the program-wide flag) / "class" (only the instances of a subclass)"""
    Vertex.NEIGHBOR_CACHING = caching is True
    u = Universe()
    V = Hub if caching == "class" else Vertex
    a, b, c = V(), V(), V()
    for v in (a, b, c):
        u.add_vertex(v)
    e1 = DirectedEdge(a, b)
    e2 = UnDirectedEdge(a, c)
    laws = UniverseLaws(edge_whitelist={Vertex: {Vertex: DirectedEdge}})
    u.laws = laws
    # every BaseObject can be filed under universes — law sets and links too
    laws.add_to_universe(u)
    e1.add_to_universe(u)
    return u, (a, b, c), (e1, e2), laws


def observe(u, vs, es, laws, nm=None):
    """everything a user can see, objects named structurally, with caching as it is"""
    nm = nm or Namer()
    for x in list(vs) + list(es) + [u, laws, Vertex, DirectedEdge, UnDirectedEdge]:
        nm(x)
    id = nm  # noqa: A001   (the body below names objects through the namer)
    out = []
    for v in vs:
        out.append(tuple(id(x) for x in v.links))
        out.append(tuple(id(x) for x in v.universes))
        for d in (helpers.DIR_SENS_FORWARD, helpers.DIR_SENS_ANY, helpers.DIR_SENS_BACKWARD):
            out.append(tuple(id(x) for x in helpers.neighbors(v, d, helpers.LNK_UNKNOWN_NEIGHBOR)))
        out.append(tuple(id(x) for x in breadthfirst.bft(u, v)))
        out.append(tuple(id(x) for x in depthfirst.dft_iterative(u, v)))
    for e in es:
        out.append(tuple(id(x) for x in e.vertices))
        out.append(tuple(id(x) for x in e.universes))
    out.append(tuple(id(x) for x in laws.universes))
    out.append(tuple(id(x) for x in u.vertices))
    wl = laws.edge_whitelist
    out.append(tuple((id(k), tuple((id(k2), id(v2)) for k2, v2 in inner.items())) for k, inner in wl.items()))
    out.append(tuple(sorted(id(x) for x in helpers.find_links(vs[0], vs[1]))))
    return out


def edits(obj):
    """every way of editing `obj` in place that its type allows (each on its own: yields callables)"""
    x = Vertex()
    if isinstance(obj, list):
        yield lambda: obj.append(x)
        yield lambda: obj.clear()
        yield lambda: obj.reverse()
        yield lambda: obj.insert(0, x)
        if obj:
            yield lambda: obj.__setitem__(0, x)
            yield lambda: obj.pop()
    elif isinstance(obj, set):
        yield lambda: obj.add(x)
        yield lambda: obj.clear()
    elif isinstance(obj, (dict, __import__("collections").ChainMap)):
        yield lambda: obj.clear()
        yield lambda: obj.__setitem__(x, x)
        for k in list(obj):
            if isinstance(obj[k], (dict, list)):
                inner = obj[k]
                yield from edits(inner)
    else:
        # tuples, frozensets, mapping proxies: try the mutating spellings, all must fail
        for name, args in (("append", (x,)), ("clear", ()), ("add", (x,)), ("__setitem__", (0, x)), ("update", ({x: x},))):
            f = getattr(obj, name, None)
            if f is not None:
                yield lambda f=f, args=args: f(*args)
        if isinstance(obj, types.MappingProxyType):
            for k in list(obj):
                inner = obj[k]
                for name, args in (("clear", ()), ("__setitem__", (x, x))):
                    f = getattr(inner, name, None)
                    if f is not None:
                        yield lambda f=f, args=args: f(*args)


class WithObserver:
    """a collection handed out together with an extra observation to repeat afterwards"""

    def __init__(self, col, extra):
        self.col, self.extra = col, extra


_AGED_FILTERS = [(lambda e, w, _k=k: True) for k in range(300)]      # 300 distinct, long-lived filter callables


def _aged(u, vs, es, L):
    """the answer for ONE filter, asked again after 299 other filters were used on the same vertex (a memo that
    ages its entries must still hand out copies); the extra observer repeats exactly that question"""
    v = vs[0]
    for f in _AGED_FILTERS:
        helpers.neighbors(v, helpers.DIR_SENS_FORWARD, helpers.LNK_UNKNOWN_NEIGHBOR, f)
    ask = lambda: helpers.neighbors(v, helpers.DIR_SENS_FORWARD, helpers.LNK_UNKNOWN_NEIGHBOR, _AGED_FILTERS[0])  # noqa: E731
    return WithObserver(ask(), ask)


_SUSPENDED = []


def _while_suspended(genfn):
    """neighbors() asked in the body of a `for v in ibft(...)` loop: the traversal generator is suspended (and stays
    alive) while the answer is handed out and edited"""
    def get(u, vs, es, L):
        g = genfn(u, vs[0])
        next(g)
        _SUSPENDED[:] = [g]
        return helpers.neighbors(vs[0], helpers.DIR_SENS_FORWARD, helpers.LNK_UNKNOWN_NEIGHBOR)
    return get


# exchange points handing a collection OUT: name -> function(world) -> the collection
OUT = [
    ("Vertex.links", lambda u, vs, es, L: vs[0].links),
    ("Link.vertices", lambda u, vs, es, L: es[0].vertices),
    ("Universe.vertices", lambda u, vs, es, L: u.vertices),
    ("BaseObject.universes", lambda u, vs, es, L: vs[0].universes),
    ("UniverseLaws.universes", lambda u, vs, es, L: L.universes),
    ("Link.universes", lambda u, vs, es, L: es[0].universes),
    ("UniverseLaws.edge_whitelist", lambda u, vs, es, L: L.edge_whitelist),
    ("neighbors (non-empty answer)", lambda u, vs, es, L: helpers.neighbors(vs[0], helpers.DIR_SENS_FORWARD, helpers.LNK_UNKNOWN_NEIGHBOR)),
    ("neighbors (empty answer)", lambda u, vs, es, L: helpers.neighbors(vs[1], helpers.DIR_SENS_FORWARD, helpers.LNK_UNKNOWN_NEIGHBOR)),
    ("neighbors ANY", lambda u, vs, es, L: helpers.neighbors(vs[2], helpers.DIR_SENS_ANY, helpers.LNK_UNKNOWN_NEIGHBOR)),
    ("neighbors default arguments (empty answer)", lambda u, vs, es, L: helpers.neighbors(vs[1])),
    ("find_links", lambda u, vs, es, L: helpers.find_links(vs[0], vs[1])),
    ("bft", lambda u, vs, es, L: breadthfirst.bft(u, vs[0])),
    ("dft_recursive", lambda u, vs, es, L: depthfirst.dft_recursive(u, vs[0])),
    ("dft_iterative", lambda u, vs, es, L: depthfirst.dft_iterative(u, vs[0])),
    ("neighbors re-asked after 299 other filters", _aged),
    ("neighbors while an ibft generator is suspended", _while_suspended(breadthfirst.ibft)),
    ("neighbors while an idft_recursive generator is suspended", _while_suspended(depthfirst.idft_recursive)),
    ("unlink(destroy=False)", None),     # handled below: it mutates the graph
]


def out_rows():
    rows = []
    k = 0
    for name, get in OUT:
        if get is None:
            continue
        for caching in (False, True, "class"):
            for warm in ((False, True) if caching else (False,)):
                # count the edits on a throw-away world, then run each on a fresh one
                u, vs, es, L = world(caching)
                c0 = get(u, vs, es, L)
                n = sum(1 for _ in edits(c0.col if isinstance(c0, WithObserver) else c0))
                leaks = False

                def take(u, vs, es, L):
                    r = get(u, vs, es, L)
                    return (r.col, r.extra) if isinstance(r, WithObserver) else (r, None)

                def look(u, vs, es, L, extra):
                    nm = Namer()
                    o = observe(u, vs, es, L, nm)
                    if extra is not None:
                        o.append(tuple(nm(x) for x in extra()))
                    return o
                for i in range(n):
                    # the reference: an identically built world in which the caller edits nothing
                    u, vs, es, L = world(caching)
                    if warm:
                        observe(u, vs, es, L)
                        take(u, vs, es, L)
                    _col, extra = take(u, vs, es, L)
                    expected = look(u, vs, es, L, extra)
                    # the same again, with the edit
                    u, vs, es, L = world(caching)
                    if warm:
                        observe(u, vs, es, L)        # every memo is warm: the collection comes from a cache HIT
                        take(u, vs, es, L)
                    col, extra = take(u, vs, es, L)  # (cold: the collection comes from a MISS)
                    ed = list(edits(col))[i]
                    try:
                        ed()
                    except (TypeError, AttributeError):
                        pass                        # immutable: nothing happened
                    if look(u, vs, es, L, extra) != expected:
                        leaks = True
                rows.append((k, "%s / caching %s%s" % (name, {False: "off", True: "on", "class": "on for one class"}[caching],
                                                        ", warm memos" if warm else ""), leaks))
                k += 1
    return rows


def in_rows(k0):
    """collections taken IN: built by the caller, handed over, edited afterwards"""
    rows = []
    k = k0

    def case(name, build):
        nonlocal k
        for caching in (False, True):
            # build returns (collections the caller still holds, observer)
            cols, obs = build(caching)
            n = [sum(1 for _ in edits(c)) for c in cols]
            leaks = False
            for ci, cnt in enumerate(n):
                for i in range(cnt):
                    cols, obs = build(caching)
                    before = obs()
                    try:
                        list(edits(cols[ci]))[i]()
                    except (TypeError, AttributeError):
                        pass
                    try:
                        now = obs()
                    except Exception as exc:  # noqa: BLE001   (the library now chokes on what the caller put into ITS collection)
                        now = ("observer raised", type(exc).__name__)
                    if now != before:
                        leaks = True
            rows.append((k, "%s / caching %s" % (name, "on" if caching else "off"), leaks))
            k += 1

    def b_vertex_universes(caching):
        Vertex.NEIGHBOR_CACHING = caching
        u1, u2 = Universe(), Universe()
        arg = [u1]
        v = Vertex(universes=arg)
        return [arg], lambda: (tuple(id(x) for x in v.universes), tuple(id(x) for x in u1.vertices), tuple(id(x) for x in u2.vertices))

    def b_vertex_links(caching):
        Vertex.NEIGHBOR_CACHING = caching
        a, b = Vertex(), Vertex()
        e = DirectedEdge(a, b)
        arg = [e]
        v = Vertex(links=arg)
        return [arg], lambda: (tuple(id(x) for x in v.links), tuple(id(x) for x in e.vertices),
                               tuple(id(x) for x in helpers.neighbors(v, helpers.DIR_SENS_ANY)))

    def b_link_vertices(caching):
        Vertex.NEIGHBOR_CACHING = caching
        a, b = Vertex(), Vertex()

        class NL(Link):
            pass
        arg = [a, b]
        l = NL(vertices=arg)
        return [arg], lambda: (tuple(id(x) for x in l.vertices), tuple(id(x) for x in a.links), tuple(id(x) for x in b.links))

    def b_universe_vertices(caching):
        Vertex.NEIGHBOR_CACHING = caching
        a, b = Vertex(), Vertex()
        arg = [a, b]
        u = Universe(vertices=arg)
        return [arg], lambda: (tuple(id(x) for x in u.vertices), tuple(id(x) for x in a.universes), tuple(id(x) for x in b.universes))

    def b_laws_whitelist(caching):
        Vertex.NEIGHBOR_CACHING = caching
        inner = {Vertex: DirectedEdge}
        arg = {Vertex: inner}
        L = UniverseLaws(edge_whitelist=arg)
        return [arg, inner], lambda: tuple((id(k), tuple((id(a), id(b)) for a, b in i.items())) for k, i in L.edge_whitelist.items())

    def b_laws_whitelist_empty(caching):
        # an EMPTY table ("nothing is allowed") that the caller fills in afterwards, e.g. to build a second law set from it
        Vertex.NEIGHBOR_CACHING = caching
        arg = {}
        L = UniverseLaws(edge_whitelist=arg)
        return [arg], lambda: tuple(id(k) for k in L.edge_whitelist)

    def b_laws_whitelist_proxy(caching):
        Vertex.NEIGHBOR_CACHING = caching
        inner = {Vertex: DirectedEdge}
        arg = {Vertex: types.MappingProxyType(inner)}
        L = UniverseLaws(edge_whitelist=arg)
        return [arg, inner], lambda: tuple((id(k), tuple((id(a), id(b)) for a, b in i.items())) for k, i in L.edge_whitelist.items())

    def b_adjdict(caching):
        Vertex.NEIGHBOR_CACHING = caching
        a, b = Vertex(), Vertex()
        row = [b, a]
        arg = {a: row, b: []}
        u = adjlist.load_adj_dict(arg)
        return [arg, row], lambda: (tuple(id(x) for x in u.vertices), tuple(id(x) for x in a.links),
                                    tuple(id(x) for x in helpers.neighbors(a)), tuple(id(x) for x in breadthfirst.bft(u, a)))

    def b_adjmat(caching):
        Vertex.NEIGHBOR_CACHING = caching
        a, b = Vertex(), Vertex()
        side = [a, b]
        r0 = [0, 1]
        mat = [r0, [1, 0]]
        u = adjmatrix.load_adj_matrix(mat, side)
        return [side, mat, r0], lambda: (tuple(id(x) for x in u.vertices), tuple(id(x) for x in a.links),
                                         tuple(id(x) for x in helpers.neighbors(a)), tuple(id(x) for x in breadthfirst.bft(u, a)))

    def b_unlink_result(caching):
        Vertex.NEIGHBOR_CACHING = caching
        a, b = Vertex(), Vertex()
        e = DirectedEdge(a, b)
        f = UnDirectedEdge(a, b)
        keep = DirectedEdge(b, b)
        res = explicit.unlink(a, b, destroy=False)
        return [res], lambda: (tuple(id(x) for x in a.links), tuple(id(x) for x in b.links), tuple(id(x) for x in e.vertices),
                               tuple(id(x) for x in keep.vertices), tuple(sorted(id(x) for x in helpers.find_links(a, b))))

    def b_laws_whitelist_chainmap(caching):
        import collections
        Vertex.NEIGHBOR_CACHING = caching
        common = {Vertex: DirectedEdge}
        own = {}
        inner = collections.ChainMap(own, common)        # a layered rule set: the caller keeps both layers
        arg = {Vertex: inner}
        L = UniverseLaws(edge_whitelist=arg)
        return [arg, own, common], lambda: tuple((id(k), tuple((id(a), id(b)) for a, b in i.items())) for k, i in L.edge_whitelist.items())

    def b_laws_whitelist_ordered(caching):
        import collections
        Vertex.NEIGHBOR_CACHING = caching
        inner = collections.OrderedDict([(Vertex, DirectedEdge)])
        dd = collections.defaultdict(dict)
        dd[Vertex] = inner
        L = UniverseLaws(edge_whitelist=dd)
        return [dd, inner], lambda: tuple((id(k), tuple((id(a), id(b)) for a, b in i.items())) for k, i in L.edge_whitelist.items())

    case("UniverseLaws(edge_whitelist=dict of ChainMaps)", b_laws_whitelist_chainmap)
    case("UniverseLaws(edge_whitelist=defaultdict of OrderedDicts)", b_laws_whitelist_ordered)
    case("Vertex(universes=list)", b_vertex_universes)
    case("Vertex(links=list)", b_vertex_links)
    case("Link(vertices=list)", b_link_vertices)
    case("Universe(vertices=list)", b_universe_vertices)
    case("UniverseLaws(edge_whitelist=dict of dicts)", b_laws_whitelist)
    case("UniverseLaws(edge_whitelist=empty dict)", b_laws_whitelist_empty)
    case("UniverseLaws(edge_whitelist=dict of read-only views)", b_laws_whitelist_proxy)
    case("load_adj_dict(dict of lists)", b_adjdict)
    case("load_adj_matrix(matrix, side array)", b_adjmat)
    case("unlink(destroy=False) result", b_unlink_result)
    return rows


def regenerate():
    old = Vertex.NEIGHBOR_CACHING
    try:
        rows = out_rows()
        rows += in_rows(len(rows))
    finally:
        Vertex.NEIGHBOR_CACHING = old
    body = ",\n".join('  ⟨%d, "%s", %s⟩' % (k, name.replace('"', "'"), "true" if leaks else "false") for k, name, leaks in rows)
    text = HEADER + "def implExchange : List ExchangeRow := [\n" + body + "\n]\n\nend A\nend EG\n"
    changed = write_if_changed(os.path.join(GEN, "ExchangeTable.lean"), text)
    return len(rows), changed, [name for _k, name, leaks in rows if leaks]


if __name__ == "__main__":
    print(regenerate())
