"""
props_misc.py — checks of C12 (exchanged containers are snapshots) and C13 (read-only
operations leave the graph unchanged, even when a callback raises).
"""
from collections.abc import Mapping

import gen
import witnesses as W
from engine import Check, Violation
from pool import Fault, HardFault
from props_struct import all_ops
from edgegraph.structure import Vertex, Universe, DirectedEdge, UnDirectedEdge
from edgegraph.traversal import helpers, breadthfirst, depthfirst


def freeze(v, depth=0):
    if isinstance(v, (list, tuple)):
        return (type(v).__name__,) + tuple(freeze(x, depth + 1) for x in v)
    if isinstance(v, Mapping):
        return ("dict",) + tuple((freeze(k, depth + 1), freeze(x, depth + 1)) for k, x in v.items())
    if isinstance(v, (set, frozenset)):
        return ("set",) + tuple(sorted(id(x) for x in v))
    if isinstance(v, (int, float, str, bool, type(None))):
        return (type(v).__name__, v)
    return ("obj", id(v))


_PROPS = {}


def public_props(cls):
    """names of the public properties of a class (anything a user can read without an underscore)"""
    if cls not in _PROPS:
        _PROPS[cls] = sorted(n for n in dir(cls) if not n.startswith("_") and isinstance(getattr(cls, n, None), property))
    return _PROPS[cls]


def deep(real):
    """the graph as a user can see it: for every object its public properties (links, vertices, v1, v2,
    universes, uid, laws, applies_to, the rule attributes …) and its public instance attributes (user
    attributes), with the contents of containers, and the SET of the names of all its instance
    attributes ("the same set of attributes": a scratch attribute left behind, or an attribute that
    disappeared, is a change — the renderers print dir(vertex)).  The VALUES of private attributes
    (names starting with an underscore: internal lists already visible through the properties,
    memos, counters) are not compared — what a memo holds is not part of the graph."""
    out = []
    for o in list(real.V) + list(real.L) + list(real.W):
        d = {"names": tuple(sorted(vars(o)))}
        for k, v in vars(o).items():
            if not k.startswith("_"):
                d["attr:" + k] = freeze(v)
        for n in public_props(type(o)):
            try:
                d["prop:" + n] = freeze(getattr(o, n))
            except Exception as exc:  # noqa: BLE001   (v1 / v2 of a link with too few ends)
                d["prop:" + n] = ("raises", type(exc).__name__)
        out.append((id(o), type(o).__name__, tuple(sorted(d.items(), key=lambda kv: kv[0]))))
    return out


READONLY = ("nbrs", "flinks", "bft", "dftr", "dfti", "bfs", "dfsr", "dfsi", "plain", "puml", "pyvis", "pyvisd", "pyvisc", "dumps",
            "getlinks", "getunis", "getmembers", "getends", "getwl")


def readonly_ops(p, rng, faults=True):
    vs = p.verts()
    us = p.universes()
    m = str(rng.getrandbits(64))
    # traversals use their own filter table: whether a traversal leaves a memo entry behind is modelled
    # (EG.TravState) but no property speaks about it, so the correspondence is kept independent of it
    # (a rewrite in which traversals bypass the memo must not raise an alarm); the memo traffic is tied
    # softly in the C05 check (`memo_traffic` in its evidence)
    mt = str(rng.getrandbits(64) | 1)
    ops = []
    for v in vs:
        d, u = rng.choice([0, 1, 2]), rng.choice([0, 1, 2])
        ops.append("nbrs %s %d %d -" % (v, d, u))
        ops.append("nbrs %s %d %d %s" % (v, d, u, m))
        if faults:
            ops.append("nbrs %s %d %d %s %d" % (v, d, u, m, rng.randint(1, 3)))
        for b in vs[:2]:
            ops.append("flinks %s %s %d %d %s" % (v, b, rng.randint(0, 1), u, rng.choice(["-", m])))
            if faults:
                ops.append("flinks %s %s %d %d %s %d" % (v, b, rng.randint(0, 1), u, m, rng.randint(1, 2)))
        for uni in ["-"] + us[:1]:
            ops.append("%s %s %s %d %d %s %s %s" % (rng.choice(["bft", "dftr", "dfti"]), uni, v, d, min(u, 1),
                                                    rng.choice(["-", mt]), rng.choice(["-", mt]), rng.choice(["list", "gen"])))
            ops.append("%s %s %s 0 %d" % (rng.choice(["bfs", "dfsr", "dfsi"]), uni, v, rng.choice([0, 1])))
    for u in us:
        ops.append("plain %s %s %s" % (u, rng.choice(["tok", "repr"]), rng.choice(["-", "1", "2"])))
        ops.append("puml %s %d" % (u, rng.choice([0, 1, 2, 3, 4, 5])))
        ops.append("pyvis %s %s" % (u, rng.choice(["-", "e"])))
    return ops


class C13(Check):
    id = "C13"
    modules = ["EG.Props.C13", "EG.Props.C05Trav"]
    assumptions = ["callbacks have no side effects of their own other than raising",
                   "the contents of the neighbor memo are not part of the observable graph (C05 shows they are always correct)",
                   "traversals and searches are modelled WITH their memo traffic (EG.TravState; theorems C13_traversal_readonly, "
                   "C13_search_readonly, C13_queries_invisible_x); for renderers / pickling the model is a function from the world "
                   "(the code contains no store): their frame property is established on the real code by the snapshot oracle and "
                   "the fault sweep, not by a theorem; faults inside traversal / renderer callbacks are swept on the real code only"]

    def witnesses(self):
        return [("D11", W.D11)]

    def batches(self, tier, rng, real):
        quick = tier == "quick"
        self.sweeps = 0
        real.inner.long_lived_filters = True
        import props_render
        dense = props_render.worlds(tier, rng, real, ["D", "U", "DD", "UU", "X"], attrs=True)
        for it in range(300 if quick else 3000):
            if it % 2 == 0:
                lines, outs = gen.random_history(rng, real, all_ops, rng.randint(3, 14), audit=())
            else:
                # denser well-formed graphs with universes over most vertices (renderers have something to sort)
                lines, _unis = next(dense)
                lines = [l for l in lines if l != "flag on"]
                outs = [real.step(l) for l in lines]
            p = gen.Pool.from_real(real.inner)
            if rng.random() < 0.4:
                lines.append("flag on")
                outs.append(real.step("flag on"))
            lines.append("obs")
            outs.append(real.step("obs"))
            ro = readonly_ops(p, rng)
            rng.shuffle(ro)
            # renders with a sort key while the memos are still cold come first
            cold = [q for q in ro if q.startswith("plain") and not q.endswith(" -")]
            ro = cold + [q for q in ro if q not in cold]
            for q in ro[: (25 if quick else 60)]:
                for l in (q, "obs"):
                    lines.append(l)
                    outs.append(real.step(l))
            # direct fault sweep over every invocation index of every callback
            self.fault_sweep(real.inner, p, rng, lines)
            yield lines, outs

    def search(self, tier, rng, real, v):
        yield from self.batches("quick", rng, real)

    def pre(self, real, line):
        if line.split()[0] in READONLY:
            return deep(real)
        return None

    def oracle(self, real, line, out, pre):
        if pre is None:
            return None
        if deep(real) != pre:
            return "%s (answered %s) changed an attribute set / value / container of some object" % (line, out)
        t = line.split()
        # observably unchanged also means: what OTHER read-only calls answer afterwards is unchanged
        if Vertex.NEIGHBOR_CACHING and t[0] in ("plain", "puml", "pyvis", "bft", "dftr", "dfti", "bfs", "dfsr", "dfsi"):
            for v in real.V:
                for unk in (2, 1):
                    try:
                        got = [id(x) for x in helpers.neighbors(v, 0, unk)]
                    except Exception:  # noqa: BLE001
                        continue
                    Vertex.NEIGHBOR_CACHING = False
                    try:
                        want = [id(x) for x in helpers.neighbors(v, 0, unk)]
                    finally:
                        Vertex.NEIGHBOR_CACHING = True
                    if got != want:
                        return "after %s, neighbors(%s) answers differently from a recomputation" % (line, real.sv(v))
        # a faulted nbrs / flinks call: repeating it with a well-behaved callback gives the normal answer
        if (t[0] == "nbrs" and len(t) == 6) or (t[0] == "flinks" and len(t) == 7):
            again = real.step(" ".join(t[:-1]))
            caching = Vertex.NEIGHBOR_CACHING
            Vertex.NEIGHBOR_CACHING = False
            try:
                want = real.step(" ".join(t[:-1]))
            finally:
                Vertex.NEIGHBOR_CACHING = caching
            if again != want:
                return "after the faulted call %s, repeating it unfaulted gave %s, normal answer is %s" % (line, again, want)
        return None

    # -- direct fault sweep (not through the model) ---------------------------------------
    _viol = []

    def extra_violations(self, stats):
        stats.extra["fault_sweep_calls"] = getattr(self, "sweeps", 0)
        v = [Violation("oracle", m, sc) for (m, sc) in self._viol[:5]]
        self._viol = []
        for m in self.many_reads_probe(stats) + self.unpicklable_attribute_probe(stats):
            v.append(Violation("oracle", m, ["sweep:" + m[:60]]))
        return v

    @staticmethod
    def _public_state(objs):
        """what the statement calls observable: the public attributes (names and values) and the ordered containers"""
        out = []
        for o in objs:
            d = {k: x for k, x in vars(o).items() if not k.startswith("_")}
            out.append((type(o).__name__, sorted(d), [repr(d[k]) for k in sorted(d)], sorted(k for k in dir(o) if not k.startswith("_")),
                        [id(x) for x in getattr(o, "links", ())], [id(x) for x in getattr(o, "vertices", ())],
                        [id(x) for x in o.universes]))
        return out

    def many_reads_probe(self, stats):
        """read-only calls by the thousand (a sweep that passes a fresh lambda per call — every one a new memo key), caching
        on and off: however MANY reads have happened, no object gains, loses or changes an attribute"""
        from edgegraph.output import plaintext
        out = []
        for caching in (True, False):
            Vertex.NEIGHBOR_CACHING = caching
            try:
                hub = Vertex(attributes={"name": "hub"})
                leaves = [Vertex() for _ in range(6)]
                u = Universe(vertices=[hub] + leaves)
                es = [(DirectedEdge if i % 2 else UnDirectedEdge)(hub, x) for i, x in enumerate(leaves)]
                objs = [hub, u] + leaves + es
                before = self._public_state(objs)
                for i in range(1300):
                    helpers.neighbors(hub, 1, 1, lambda e, x, i=i: i % 7 != 0)
                    if i % 4 == 0:
                        breadthfirst.bft(u, hub, ff_via=lambda e, x, i=i: True)
                    if i % 100 == 0:
                        plaintext.basic_render(u)
                        helpers.find_links(hub, leaves[0])
                after = self._public_state(objs)
                if after != before:
                    diff = [(a[0], set(b[3]) ^ set(a[3]) or "values / containers") for a, b in zip(before, after) if a != b]
                    out.append("after 1300 neighbors() calls with distinct filters (caching %s), some traversals and renders, the public "
                               "state of the graph differs: %r" % ("on" if caching else "off", diff[:3]))
            finally:
                Vertex.NEIGHBOR_CACHING = False
        stats.extra["many_reads_probe"] = "run"
        return out

    def unpicklable_attribute_probe(self, stats):
        """a graph object carrying an attribute that cannot be pickled (a live generator kept as a cursor): nrpickler.dumps
        raises or succeeds — either way the graph is as it was"""
        from edgegraph.output import nrpickler
        out = []
        a, b = Vertex(attributes={"name": "a"}), Vertex()
        u = Universe(vertices=[a, b])
        e = DirectedEdge(a, b)
        for owner in (a, e, u):
            cursor = breadthfirst.ibft(u, a)
            next(cursor)
            owner.cursor = cursor
            objs = [a, b, u, e]
            before = self._public_state(objs)
            for proto in (2, 4):
                try:
                    nrpickler.dumps([u, a, b, e], protocol=proto)
                except Exception:  # noqa: BLE001   (TypeError: cannot pickle 'generator' object — fine)
                    pass
                if self._public_state(objs) != before:
                    out.append("nrpickler.dumps (protocol %d) of a graph whose %s carries a generator-valued attribute changed "
                               "the graph: public attributes now %r" % (proto, type(owner).__name__, sorted(k for k in vars(owner) if not k.startswith("_"))))
                    break
            if hasattr(owner, "cursor"):
                del owner.cursor
        stats.extra["unpicklable_attribute_probe"] = "run"
        return out[:2]

    def fault_sweep(self, real, p, rng, script):
        from edgegraph.output import plaintext, plantuml, pyvis as egpyvis, nrpickler
        from adapter import TableFilter, VertexFilter

        class Tok:
            """a rendering / key callback that can be told to raise at its k-th invocation"""
            def __init__(self, fn):
                self.fn, self.count, self.fault_at = fn, 0, None

            def __call__(self, *a):
                self.count += 1
                if self.fault_at is not None and self.count == self.fault_at:
                    raise (HardFault if self.fault_at % 3 == 2 else Fault)()
                return self.fn(*a)

        vs = [real.V[int(v[1:])] for v in p.verts()]
        us = [real.V[int(u[1:])] for u in p.universes()]
        if not vs:
            return
        calls = []
        v = rng.choice(vs)
        uni = rng.choice([None] + us)
        if uni is not None and not any(v is m for m in uni.vertices):
            uni = None
        via, res = TableFilter(real, rng.getrandbits(64), 2), VertexFilter(real, rng.getrandbits(64) | 2 ** 63 | 1)
        d = rng.choice([0, 1, 2])
        for fn in (breadthfirst.bft, depthfirst.dft_recursive, depthfirst.dft_iterative):
            calls.append((fn.__name__, [via, res], lambda fn=fn: [id(x) for x in fn(
                uni, v, direction_sensitive=d, unknown_handling=1, ff_via=via, ff_result=res)]))
        f2 = TableFilter(real, rng.getrandbits(64) | 1, 2)
        calls.append(("neighbors", [f2], lambda: [id(x) for x in helpers.neighbors(v, d, 1, f2)]))
        f1 = TableFilter(real, rng.getrandbits(64) | 1, 1)
        w = rng.choice(vs)
        calls.append(("find_links", [f1], lambda: sorted(id(x) for x in helpers.find_links(v, w, False, 1, f1))))
        if us:
            u = rng.choice(us)
            rf = Tok(lambda x: "none" if x is None else "v%d" % real.vname(x))
            sk = Tok(lambda x: 0 if x is None else real.vname(x) % 3)
            calls.append(("basic_render", [rf, sk], lambda: plaintext.basic_render(u, rfunc=rf, sort=sk)))
            rv = Tok(lambda x: "v%d" % real.vname(x))
            re_ = Tok(lambda e: "e%d" % real.lname(e))
            calls.append(("make_pyvis_net", [rv, re_], lambda: (lambda n: (n.nodes, n.edges))(egpyvis.make_pyvis_net(u, rv, re_))))
            calls.append(("pyvis_render_customizable", [rv, re_],
                          lambda: (lambda n: (n.nodes, n.edges))(egpyvis.pyvis_render_customizable(u, rv, re_))))
            urf = Tok(lambda vert, options: "object x%d {\n}\n" % real.vname(vert))
            opts = real.puml_options(0)
            opts[Vertex]["user_render_func"] = urf
            calls.append(("render_to_plantuml_src", [urf], lambda: plantuml.render_to_plantuml_src(u, opts) is not None))
            calls.append(("nrpickler.dumps", [], lambda: len(nrpickler.dumps(u)) > 0))
        for name, cbs, call in calls:
            for cb in cbs:
                cb.count, cb.fault_at = 0, None
            before = deep(real)
            try:
                base = ("ok", call())
            except Exception as exc:  # noqa: BLE001
                base = ("err", type(exc).__name__)
            self.sweeps += 1
            if deep(real) != before:
                self._viol.append(("%s changed the graph (no fault injected)" % name, script + ["sweep:" + name]))
                return
            counts = [cb.count for cb in cbs]
            for cb, n in zip(cbs, counts):
                for k in range(1, min(n, 10) + 1):
                    for c2 in cbs:
                        c2.count, c2.fault_at = 0, None
                    cb.fault_at = k
                    try:
                        call()
                    except BaseException:  # noqa: BLE001
                        pass
                    finally:
                        cb.fault_at = None
                    self.sweeps += 1
                    if deep(real) != before:
                        self._viol.append(("%s: a callback raising at its invocation %d left the graph changed" % (name, k),
                                           script + ["sweep:%s fault@%d" % (name, k)]))
                        return
                    for c2 in cbs:
                        c2.count = 0
                    try:
                        again = ("ok", call())
                    except Exception as exc:  # noqa: BLE001
                        again = ("err", type(exc).__name__)
                    if again != base:
                        self._viol.append(("%s: after a fault at invocation %d, repeating the call gave a different answer" % (name, k),
                                           script + ["sweep:%s fault@%d" % (name, k)]))
                        return


class C12(Check):
    id = "C12"
    modules = ["EG.Props.C12Table", "EG.Props.C12"]

    def regenerate(self, log):
        import tables_alias
        from engine import Violation
        n, changed, leaking = tables_alias.regenerate()
        log["table_rows"] = n
        log["table_changed_since_last_run"] = changed
        log["table_leaking_exchange_points"] = leaking
        # a leaking row IS a concrete failing input: the exchange point, the state and the caller's edit
        return [Violation("oracle", "exchange point `%s`: an edit of the caller's collection changed what is observed afterwards "
                          "(harness/tables_alias.py replays it)" % name, ["exchange:" + name]) for name in leaking[:3]]
    assumptions = ["the containers exchanged are those listed in DESIGN.md 3/C12; `mut` applies append / clear / reverse / pop / insert / "
                   "item assignment (lists), add / clear / discard (sets), clear / item assignment / pop / inner-dict edits (dicts); "
                   "TypeError / AttributeError on tuples and mapping proxies counts as immutable"]

    def witnesses(self):
        return [("D8", W.D8)]

    def batches(self, tier, rng, real):
        quick = tier == "quick"
        real.inner.keep_mode = True
        try:
            for _ in range(800 if quick else 6000):
                lines, outs = [], []
                p = gen.Pool()

                def do(op):
                    nonlocal p
                    lines.append(op)
                    outs.append(real.step(op))
                    p = gen.Pool.from_real(real.inner)     # builders create several objects at once
                do("reset")
                if rng.random() < 0.6:
                    do("flag on")
                elif rng.random() < 0.5:
                    do("cflag SV on")         # caching for the instances of one subclass only
                for _ in range(rng.randint(2, 4)):
                    do("universe" if rng.random() < 0.3 else "vertex " + rng.choice(["V", "SV"]))
                do("lawset %d" % rng.choice([2, 3]))
                for _ in range(rng.randint(4, 16 if quick else 30)):
                    r = rng.random()
                    if r < 0.35:
                        cands = list(all_ops(p)) + ["lawset 2", "lawset 3"]
                        if p.nV >= 2:
                            cands += ["adjdict D V0:V1,V0;V1:", "adjmat U V0,V1 11/01",
                                      "vertex V l=%s u=%s a=0:1" % (",".join(p.links()[:2]), ",".join(p.universes()[:2]))]
                        do(rng.choice(cands))
                    elif r < 0.7:
                        qs = readonly_ops(p, rng, faults=False)
                        for v in p.verts():
                            qs += ["getlinks " + v, "getunis " + v]
                        for u in p.universes():
                            qs.append("getmembers " + u)
                        for l in p.links():
                            qs.append("getends " + l)
                        for w in range(p.nW):
                            qs.append("getwl W%d" % w)
                        if qs:
                            do(rng.choice([q for q in qs if not q.startswith(("plain", "puml", "pyvis"))]))
                    else:
                        if rng.random() < 0.4 and p.verts():
                            # the caller edits the answer it has JUST been given
                            do("nbrs %s %s -" % (rng.choice(p.verts()), rng.choice(["1 1", "0 2"])))
                            do("mut -1 %d" % rng.randrange(10 ** 6))
                        else:
                            do("mut %d %d" % (rng.randrange(10 ** 6), rng.randrange(10 ** 6)))
                        # every later observation must be what the alias-free model says
                        do("obs")
                        for v in p.verts()[:3]:
                            do("nbrs %s 1 1 -" % v)
                            do("nbrs %s 0 2 -" % v)
                    if rng.random() < 0.3:
                        do("obs")
                do("obs")
                yield lines, outs
        finally:
            real.inner.keep_mode = False

    def search(self, tier, rng, real, v):
        yield from self.batches("quick", rng, real)

    @staticmethod
    def view(real):
        """everything a caller can observe: the graph, and the answers of the queries"""
        out = [real.obs()]
        for v in real.V:
            for d, u in ((0, 2), (1, 1), (2, 0)):
                try:
                    out.append("nb " + ",".join(real.sv(x) for x in helpers.neighbors(v, d, u)))
                except Exception as exc:  # noqa: BLE001
                    out.append("nb err " + type(exc).__name__)
            try:
                out.append("bft " + ",".join(real.sv(x) for x in breadthfirst.bft(None, v, unknown_handling=1)))
            except Exception as exc:  # noqa: BLE001
                out.append("bft err " + type(exc).__name__)
        return out

    def pre(self, real, line):
        if line.startswith("mut "):
            return self.view(real)
        return None

    def oracle(self, real, line, out, pre):
        if pre is None:
            return None
        now = self.view(real)
        if now != pre:
            d = [(a, b) for a, b in zip(pre, now) if a != b][:2]
            return "%s (the caller edited a container it was given / had passed in) changed what is observed: %s" % (line, d)
        return None


CHECKS = {c.id: c for c in (C12, C13)}
