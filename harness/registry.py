"""registry of all property checks"""
import props_struct
import props_trav
import props_query
import props_single
import props_build
import props_render
import props_misc
import props_pickle

CHECKS = {}
CHECKS.update(props_struct.CHECKS)
CHECKS.update(props_trav.CHECKS)
CHECKS.update(props_query.CHECKS)
CHECKS.update(props_single.CHECKS)
CHECKS.update(props_build.CHECKS)
CHECKS.update(props_render.CHECKS)
CHECKS.update(props_misc.CHECKS)
CHECKS.update(props_pickle.CHECKS)
