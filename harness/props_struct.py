"""
props_struct.py — checks of the graph-structure properties C01, C02, C03, C19
(one shared operation alphabet, each property with its own direct oracle).
"""
import gen
import witnesses as W
from engine import Check
from edgegraph.structure import Universe, TwoEndedLink
from edgegraph.structure.universe import UniverseLaws


def sizes(tier):
    return {"quick": dict(depth=1, rand=5000, rlen=14), "thorough": dict(depth=2, rand=30000, rlen=40)}[tier]


def all_ops(p):
    yield from gen.struct_ops(p)
    yield from gen.uni_ops(p)
    yield from gen.laws_ops(p)


class StructBase(Check):
    opsfn = staticmethod(gen.struct_ops)
    seeds = staticmethod(gen.struct_seeds)
    mix = staticmethod(all_ops)

    def batches(self, tier, rng, real):
        sz = sizes(tier)
        for _name, lines, pool in self.seeds():
            yield from gen.enumerate_histories(real, lines, pool, self.opsfn, sz["depth"])
        for _ in range(sz["rand"]):
            fn = self.mix if rng.random() < 0.5 else self.opsfn
            yield gen.random_history(rng, real, fn, rng.randint(3, sz["rlen"]))
        # BLIND histories: nothing is read between the calls (no accessor, no oracle — a view cached by an accessor and
        # "refreshed when its length changes" stays stale across a removal followed by an addition); one look at the end
        for _ in range(300 if tier == "quick" else 3000):
            lines, outs = gen.random_history(rng, real, self.opsfn, rng.randint(2, 4), audit=("obs",), reload_p=0)
            p = gen.Pool()
            for l, o in zip(lines, outs):
                p = p.after(l, o)
            for _k in range(rng.randint(2, 6)):
                cands = list(self.opsfn(p))
                if not cands:
                    break
                op = rng.choice(cands)
                lines.append(op)
                real.history.append(op)
                outs.append(real.inner.step(op))          # straight to the adapter: no snapshot, no oracle, no read
                p = p.after(op, outs[-1])
            lines.append("obs")
            outs.append(real.step("obs"))
            yield lines, outs
        # a hub with well over a hundred links (sizes at which an 'optimised' membership test would switch on):
        # the links attached around the 128th are detached / re-attached / re-pointed from either side
        for _ in range(1 if tier == "quick" else 4):
            lines = ["reset", "vertex V", "vertex V", "vertex V"]
            for k in range(140):
                lines.append("edge %s V0 V%d" % (rng.choice("DU"), 1 + k % 2) if k % 3 else "edge D V%d V0" % (1 + k % 2))
            lines.append("obs")
            # parallel links whose relative order differs in the two ends' lists (L0 left V1 and came back: last in V1's list,
            # still first in the hub's): `dontdup` returns the first joining link in the order of its FIRST argument
            lines += ["setv1 L0 V2", "setv1 L0 V1", "linkft V0 D V1 1", "linkft V1 D V0 1", "linkft V0 U V1 1", "obs"]
            for l in [126, 127, 128, 129, 130, 64, 139]:
                lines.append(rng.choice(["lunlink L%d V0" % l, "rmfromlink V0 L%d" % l, "setv1 L%d V2" % l, "setv2 L%d V1" % l]))
                lines.append(rng.choice(["addtolink V0 L%d" % l, "ladd L%d V0" % l]))
                lines.append("addtolink V0 L%d" % l)
            lines.append("obs")
            lines.append("unlink V0 V1 destroy")
            lines.append("obs")
            yield lines, [real.step(l) for l in lines]
        # a vertex whose number of links CROSSES a power of two several times (grows past 512, shrinks below it, grows
        # back): links detached while it was small are re-attached once it is large again
        n = 512 if tier == "quick" else 1024
        lines = ["reset", "vertex V", "vertex V", "vertex V"] + ["edge D V0 V%d" % (1 + k % 2) for k in range(n + 1)]
        lines += ["setv1 L0 V2", "setv1 L1 V2", "rmfromlink V0 L2", "edge U V0 V1", "edge U V0 V1", "edge D V2 V0", "obs",
                  "setv1 L1 V0", "addtolink V0 L2", "setv1 L0 V0", "obs", "edge D V0 V2", "lunlink L5 V0", "lunlink L6 V0", "lunlink L7 V0",
                  "ladd L6 V0", "edge D V0 V1", "edge D V0 V1", "addtolink V0 L5", "rmfromlink V0 L1", "setv2 L7 V0", "obs"]
        yield lines, [real.step(l) for l in lines]

    def search(self, tier, rng, real, v):
        # mutate around the divergent script: same prefix, then random continuations
        prefix = [l for l in v.script[: v.index + 1] if l != "obs"]
        for _ in range(300):
            def gen_one():
                outs, lines = [], []
                p = gen.Pool()
                for l in prefix:
                    lines.append(l)
                    outs.append(real.step(l))
                    p = p.after(l, outs[-1])
                for _ in range(rng.randint(1, 6)):
                    cands = list(self.mix(p))
                    if not cands:
                        break
                    l = rng.choice(cands)
                    lines.append(l)
                    outs.append(real.step(l))
                    p = p.after(l, outs[-1])
                    lines.append("obs")
                    outs.append(real.step("obs"))
                return lines, outs
            yield gen_one()


def sym_oracle(real):
    for v in real.V:
        ls = v.links
        if len(set(map(id, ls))) != len(ls):
            return "V%d lists a link twice" % real.vname(v)
        for l in real.L:
            a = any(x is l for x in ls)
            b = any(x is v for x in l.vertices)
            if a != b:
                return "asymmetric: L%d in V%d.links is %s but V%d in L%d.vertices is %s" % (
                    real.lname(l), real.vname(v), a, real.vname(v), real.lname(l), b)
    return None


class C01(StructBase):
    id = "C01"
    modules = ["EG.Props.C01"]
    assumptions = ["vertices/links/universes use the default identity __eq__/__hash__",
                   "arguments are well-typed as the signatures say (None only where allowed)"]

    def witnesses(self):
        return [("D1", W.D1), ("D2", W.D2), ("D3", W.D3)]

    def oracle(self, real, line, out, pre):
        return sym_oracle(real)


def sid(x):
    return None if x is None else id(x)


def snap(real):
    return {
        "links": [tuple(map(id, v.links)) for v in real.V],
        "unis": [tuple(map(id, v.universes)) for v in real.V],
        "members": [tuple(map(id, v.vertices)) if isinstance(v, Universe) else () for v in real.V],
        "ends": [tuple(map(sid, l.vertices)) for l in real.L],
        "nV": len(real.V), "nL": len(real.L),
    }


class C03(StructBase):
    id = "C03"
    modules = ["EG.Props.C03", "EG.Props.C09Unlink", "EG.Props.C11Readback"]
    assumptions = C01.assumptions

    def witnesses(self):
        return [("D1", W.D1), ("D2", W.D2), ("D3", W.D3), ("D4", W.D4)]

    def extra_violations(self, stats):
        """LINKS (and law sets) filed as members of a universe — "a universe may hold any BaseObject": the frame of
        `unlink` (with and without destroy), of end assignments and of `unlink_from`: membership of the links involved is
        not theirs to touch"""
        from engine import Violation
        from edgegraph.structure import Vertex, DirectedEdge, UnDirectedEdge
        from edgegraph.builder import explicit
        out, n = [], 0
        for destroy in (True, False):
            for cls in (DirectedEdge, UnDirectedEdge):
                a, b, c = Vertex(), Vertex(), Vertex()
                u, w = Universe(vertices=[a, b, c]), Universe()
                e1, e2, e3 = cls(a, b), cls(b, a), cls(a, c)
                for e in (e1, e2, e3):
                    u.add_vertex(e)
                w.add_vertex(e1)
                before = ([id(x) for x in u.vertices], [id(x) for x in w.vertices], [[id(x) for x in e.universes] for e in (e1, e2, e3)])
                steps = [("unlink(a, b, destroy=%s)" % destroy, lambda: explicit.unlink(a, b, destroy=destroy)),
                         ("e3.v2 = b", lambda: setattr(e3, "v2", b)), ("e3.unlink_from(a)", lambda: e3.unlink_from(a))]
                done = []
                for name, act in steps:
                    act()
                    done.append(name)
                    n += 1
                    after = ([id(x) for x in u.vertices], [id(x) for x in w.vertices], [[id(x) for x in e.universes] for e in (e1, e2, e3)])
                    if after != before:
                        out.append(Violation("oracle", "links filed as members of universes: after [%s] the members of a universe, or the universes a link "
                                             "lists, changed (%s)" % ("; ".join(done), cls.__name__), ["sweep:links as universe members: " + "; ".join(done)]))
                        break
                if out:
                    break
            if out:
                break
        stats.extra["links_as_members_probe_steps"] = n
        return out

    def pre(self, real, line):
        return snap(real)

    def oracle(self, real, line, out, pre):
        post = snap(real)
        t = line.split()
        op = t[0]
        nV, nL = pre["nV"], pre["nL"]
        if out.startswith("err "):
            # a call that raised leaves everything as it was
            if {k: post[k] for k in post} != pre:
                return "%s raised but changed the graph" % line
            return None
        ID = lambda tok: None if tok == "-" else id(real.V[int(tok[1:])])  # noqa: E731
        if op == "edge":
            a, b = ID(t[2]), ID(t[3])
            new = id(real.L[-1])
            if post["ends"][-1] != (a, b):
                return "new edge has ends %r" % (post["ends"][-1],)
            for i in range(nV):
                want = pre["links"][i] + ((new,) if id(real.V[i]) in (a, b) else ())
                if post["links"][i] != want:
                    return "edge ctor: V%d.links not (before + new edge iff an end)" % i
            if post["ends"][:nL] != pre["ends"]:
                return "edge ctor changed another link"
        elif op in ("setv1", "setv2"):
            li = int(t[1][1:])
            idx = 0 if op == "setv1" else 1
            x = ID(t[2])
            before = pre["ends"][li]
            want = before[:idx] + (x,) + before[idx + 1:]
            if post["ends"][li] != want:
                return "%s: ends %r, wanted %r" % (line, post["ends"][li], want)
            for j in range(nL):
                if j != li and post["ends"][j] != pre["ends"][j]:
                    return "%s changed another link L%d" % (line, j)
            old = before[idx]
            lid = id(real.L[li])
            for i in range(nV):
                vid = id(real.V[i])
                pl, ql = pre["links"][i], post["links"][i]
                if vid == old and old not in want and old is not None:
                    if ql != tuple(z for z in pl if z != lid):
                        return "%s: previous end V%d not detached exactly" % (line, i)
                elif vid == x and lid not in pl:
                    if ql != pl + (lid,):
                        return "%s: new end V%d not attached by appending" % (line, i)
                elif ql != pl:
                    return "%s changed V%d.links although it should be untouched" % (line, i)
        elif op == "unlink":
            a, b = real.V[int(t[1][1:])], real.V[int(t[2][1:])]
            ia = int(t[1][1:])
            joined = []
            for j, l in enumerate(real.L):
                if id(l) in pre["links"][ia] and isinstance(l, TwoEndedLink) and len(pre["ends"][j]) >= 2:
                    e = pre["ends"][j]
                    oth = e[1] if e[0] == id(a) else (e[0] if e[1] == id(a) else None)
                    if oth == id(b):
                        joined.append(j)
            if t[3] == "keep":
                got = sorted(int(z[1:]) for z in out[4:-1].split(",") if z)
                if got != sorted(joined):
                    return "unlink returned %r, joining links were %r" % (got, joined)
            jl = {id(real.L[j]) for j in joined}
            for i in range(nV):
                want = tuple(z for z in pre["links"][i] if not (z in jl and real.V[i] in (a, b)))
                if post["links"][i] != want:
                    return "unlink: V%d.links is not (before minus joining links)" % i
            for j in range(nL):
                want = tuple(z for z in pre["ends"][j] if not (j in joined and z in (id(a), id(b))))
                if post["ends"][j] != want:
                    return "unlink: L%d ends wrong" % j
        elif op == "linkft" and t[4] == "1":
            a, b = real.V[int(t[1][1:])], real.V[int(t[3][1:])]
            ia = int(t[1][1:])
            exists = False
            for j, l in enumerate(real.L[:nL]):
                if id(l) in pre["links"][ia] and len(pre["ends"][j]) >= 2:
                    e = pre["ends"][j]
                    oth = e[1] if e[0] == id(a) else (e[0] if e[1] == id(a) else None)
                    if oth == id(b):
                        exists = True
            if exists and (post["nL"] != nL or post["links"] != pre["links"] or post["ends"] != pre["ends"]):
                return "dontdup created / changed something although a joining link existed"
            # the return value is that of the reference model: the first link of a.links joining a and b
            first = None
            wellformed = True
            for lid_ in pre["links"][ia]:
                j = next(k for k, l in enumerate(real.L) if id(l) == lid_)
                e = pre["ends"][j]
                if len(e) < 2 or not isinstance(real.L[j], TwoEndedLink):
                    wellformed = False
                    break
                oth = e[1] if e[0] == id(a) else (e[0] if e[1] == id(a) else None)
                if oth == id(b):
                    first = j
                    break
            if wellformed and first is not None and out != "ok L%d" % first:
                return "%s returned %s; the first link of %s.links joining the two is L%d" % (line, out, t[1], first)
        if op not in ("vertex", "universe", "uadd", "urem", "vadd", "vrem"):
            if post["unis"][:nV] != pre["unis"] or post["members"][:nV] != pre["members"]:
                return "%s changed universe membership" % line
        return None


class C02(StructBase):
    id = "C02"
    modules = ["EG.Props.C02Table", "EG.Props.C02"]

    def regenerate(self, log):
        import tables_uni
        n, nstates, changed = tables_uni.regenerate()
        log["table_rows"] = n
        log["table_states_reached_by_the_real_code"] = nstates
        log["table_changed_since_last_run"] = changed
        return None
    opsfn = staticmethod(gen.uni_ops)
    assumptions = C01.assumptions

    def extra_violations(self, stats):
        """a universe that grows, one member at a time, to several thousand (some members share a uid); at EVERY size one
        member is taken out, another put in and the first re-added from its own side — so every size at which an
        'optimised' membership test might switch on or off is crossed in both directions — against a plain list model"""
        import random as _r
        from engine import Violation
        from edgegraph.structure import Vertex
        rng = _r.Random(2024)
        u = Universe()
        model = []
        spare = [Vertex(uid=7), Vertex(uid=7), Vertex(), Vertex()]
        out, steps = [], 0

        def check(what):
            nonlocal steps
            steps += 1
            got = u.vertices
            if len(got) != len(model) or any(a is not b for a, b in zip(got, model)):
                return "%s: a universe of %d members: members are no longer the expected ordered list (length %d, expected %d)" % (what, len(model), len(got), len(model))
            return None
        n = 4400
        for size in range(n):
            v = Vertex(uid=7) if size in (5, 900, 3500, 4200) else Vertex()
            if size % 2:
                u.add_vertex(v)
            else:
                v.add_to_universe(u)
            model.append(v)
            if size < 64 or size % 7 == 0 or size in (255, 256, 257, 1023, 1024, 1025, 2047, 2048, 2049, 2999, 3000, 3001, 4095, 4096, 4097, 4098):
                a1 = model[rng.randrange(len(model))]
                a2 = model[rng.randrange(len(model))]
                b1, b2 = spare[size % 4], spare[(size + 1) % 4]
                m = None
                for a in (a1, a2):                   # two members out (the second removal happens one size lower)
                    if any(x is a for x in model):
                        u.remove_vertex(a)
                        model.remove(a)
                        if u in a.universes:
                            m = "after remove_vertex the vertex still lists the universe"
                for b in (b1, b2):                   # two others in, while the universe is smaller
                    u.add_vertex(b)
                    if not any(x is b for x in model):
                        model.append(b)
                for a in (a2, a1):                   # the removed ones come back from their own side
                    if not any(x is a for x in model):
                        a.add_to_universe(u)
                        model.append(a)
                for x in (a1, a2, b1, b2, model[0]):  # every one of them is a member now: re-adding changes nothing
                    u.add_vertex(x)
                    x.add_to_universe(u)
                m = m or check("size %d, after two removals, two additions, the removed ones re-added from their side, redundant adds" % size)
                for x in (a1, a2, b1, b2):
                    if m is None and (x.universes.count(u) != 1):
                        m = "size %d: a member lists the universe %d times" % (size, x.universes.count(u))
                for b in (b1, b2):
                    if any(x is b for x in model):
                        b.remove_from_universe(u)
                        model.remove(b)
                m = m or check("size %d, after the vertex-side removals" % size)
                if m:
                    out.append(Violation("oracle", m, ["sweep:large universe: " + m[:80]]))
                    break
        stats.extra["large_universe_probe_steps"] = steps
        return out

    @staticmethod
    def seeds():
        s = []
        s.append(("two-unis", ["reset", "vertex V", "vertex SV", "universe", "universe"],
                  gen.Pool(4, (2, 3), (), (), 2)))
        s.append(("nested", ["reset", "vertex V", "universe", "universe", "uadd V1 V2", "uadd V2 V2", "uadd V1 V0"],
                  gen.Pool(3, (1, 2), (), (), 2)))
        s.append(("ctor", ["reset", "universe", "vertex V u=V0,V0", "universe m=V1,V0,V1", "vertex FV"],
                  gen.Pool(4, (0, 2), (), (), 2)))
        return s

    def batches(self, tier, rng, real):
        sz = sizes(tier)
        for _name, lines, pool in self.seeds():
            yield from gen.enumerate_histories(real, lines, pool, self.opsfn, sz["depth"] + 1)
        for k_ in range(sz["rand"]):
            fn = all_ops if rng.random() < 0.3 else self.opsfn
            # every other history: half of the plain vertices are built by a class whose initialiser runs twice
            real.inner.double_init = (k_ % 2 == 1)
            try:
                yield gen.random_history(rng, real, fn, rng.randint(3, sz["rlen"]))
            finally:
                real.inner.double_init = False
        # a universe that grows past 256 members, shrinks below, and grows back (re-adding vertices that left or
        # joined during the small phase), from either side
        for _ in range(1 if tier == "quick" else 4):
            n = 300
            lines = ["reset"] + ["vertex V"] * n + ["universe m=%s" % ",".join("V%d" % i for i in range(270))]
            u = n
            left = list(range(200, 270))
            rng.shuffle(left)
            for i in left[:60]:                                   # 270 -> 210
                lines.append(rng.choice(["vrem V%d V%d" % (i, u), "urem V%d V%d" % (u, i)]))
            small_adds = list(range(270, 285))
            for i in small_adds:                                   # joined during the small phase: 225
                lines.append(rng.choice(["vadd V%d V%d" % (i, u), "uadd V%d V%d" % (u, i)]))
            lines.append("obs")
            for i in left[:60] + list(range(285, 300)):           # back above 256: 300
                lines.append(rng.choice(["vadd V%d V%d" % (i, u), "uadd V%d V%d" % (u, i)]))
            lines.append("obs")
            for i in small_adds + left[:10]:                       # re-adding members: no duplicates
                lines.append(rng.choice(["vadd V%d V%d" % (i, u), "uadd V%d V%d" % (u, i)]))
            for i in left[:5]:
                lines.append("vrem V%d V%d" % (i, u))
                lines.append("uadd V%d V%d" % (u, i))
            lines.append("obs")
            yield lines, [real.step(l) for l in lines]
        # a universe with many members (sizes at which an 'optimised' membership test would switch on):
        # members leave from either side and come back from either side
        for _ in range(2 if tier == "quick" else 12):
            n = rng.randint(50, 75)
            lines = ["reset"] + ["vertex V"] * n
            lines.append("universe m=%s" % ",".join("V%d" % i for i in range(n)))
            lines.append("universe")
            gone = []
            for k in range(45):
                u = n if rng.random() < 0.85 else n + 1
                if gone and rng.random() < 0.5:
                    i = rng.choice(gone)
                    lines.append(rng.choice(["vadd V%d V%d" % (i, u), "uadd V%d V%d" % (u, i)]))
                else:
                    i = rng.randrange(n)
                    lines.append(rng.choice(["vrem V%d V%d" % (i, u), "urem V%d V%d" % (u, i), "vrem V%d V%d" % (i, u)]))
                    gone.append(i)
                if k % 9 == 8:
                    lines.append("obs")
            lines.append("obs")
            yield lines, [real.step(l) for l in lines]

    def pre(self, real, line):
        return snap(real)

    def oracle(self, real, line, out, pre):
        for v in real.V:
            us = v.universes
            if len(set(map(id, us))) != len(us):
                return "V%d.universes has a duplicate" % real.vname(v)
        for u in real.V:
            if not isinstance(u, Universe):
                continue
            ms = u.vertices
            if len(set(map(id, ms))) != len(ms):
                return "V%d.vertices has a duplicate" % real.vname(u)
            for v in real.V:
                a = any(x is v for x in ms)
                b = any(x is u for x in v.universes)
                if a != b:
                    return "asymmetric membership V%d / universe V%d" % (real.vname(v), real.vname(u))
        post = snap(real)
        t = line.split()
        op = t[0]
        nV = pre["nV"]
        # insertion order: only appends at the end and deletions
        for i in range(nV):
            a, b = pre["members"][i], post["members"][i]
            common = [z for z in a if z in b]
            if [z for z in b if z in a] != common:
                return "%s re-ordered the members of V%d" % (line, i)
            new = [z for z in b if z not in a]
            if list(b[len(b) - len(new):]) != new:
                return "%s inserted a member of V%d not at the end" % (line, i)
        if op in ("urem", "vrem"):
            u, v = (t[1], t[2]) if op == "urem" else (t[2], t[1])
            ui, vi = int(u[1:]), int(v[1:])
            was = id(real.V[vi]) in pre["members"][ui]
            if not was:
                if not out.startswith("err "):
                    return "%s: removing a non-member did not raise" % line
                if post != pre:
                    return "%s: removing a non-member changed something" % line
            elif out != "ok":
                return "%s: removing a member answered %s" % (line, out)
        if op in ("uadd", "vadd") and out != "ok":
            return "%s answered %s" % (line, out)
        return None


class C19(StructBase):
    id = "C19"
    modules = ["EG.Props.C19Table", "EG.Props.C19"]

    def regenerate(self, log):
        import tables_laws
        n, changed = tables_laws.regenerate()
        log["table_rows"] = n
        log["table_changed_since_last_run"] = changed
        return None
    opsfn = staticmethod(gen.laws_ops)
    assumptions = ["UniverseLaws(applies_to=U) constructed directly is outside the statement's list of calls"]

    def witnesses(self):
        return [("D14", W.D14)]

    @staticmethod
    def seeds():
        return [
            ("2x2", ["reset", "universe", "universe", "lawset 1", "lawset 2"], gen.Pool(2, (0, 1), (), (), 4)),
            ("detached", ["reset", "universe", "setlaws V0 -", "lawset 3", "universe"], gen.Pool(2, (0, 1), (), (), 3)),
        ]

    def batches(self, tier, rng, real):
        sz = sizes(tier)
        # the caller keeps (and later edits) the edge_whitelist dicts it passed to the constructor
        real.inner.keep_mode = True
        try:
            for _name, lines, pool in self.seeds():
                yield from gen.enumerate_histories(real, lines, pool, self.opsfn, sz["depth"] + 1)

            def with_edits(p, rng_):
                yield "lawset %d" % rng_.choice([1, 2, 3, 4, 4])
                yield "mut %d %d" % (rng_.randrange(10 ** 6), rng_.randrange(10 ** 6))
            for _ in range(sz["rand"]):
                fn = all_ops if rng.random() < 0.3 else self.opsfn
                yield gen.random_history(rng, real, fn, rng.randint(3, sz["rlen"]), extra=with_edits)
        finally:
            real.inner.keep_mode = False

    def extra_violations(self, stats):
        """the caller keeps only the LAW SETS (universes built in place: `L.applies_to = Universe()`,
        `Universe(laws=L)` not bound to a name): every assignment must still have succeeded when it is read back
        through the law set — `L.applies_to` is the universe that was assigned and `L.applies_to.laws is L`.
        Every other history runs with warnings turned into errors (`-W error`, the usual CI setting): "every such
        assignment succeeds" — a warning raised half-way through an assignment must not leave it half-done"""
        import warnings
        out, probes = [], 0
        for n in range(300):
            with warnings.catch_warnings():
                warnings.simplefilter("error" if n % 2 else "ignore")
                v, k = self._laws_only_history(n)
            probes += k
            if v is not None and len(out) < 3:
                out.append(v)
        stats.extra["laws_only_handle_probes"] = probes
        return out

    @staticmethod
    def _laws_only_history(n):
        import gc
        import random as _r
        import weakref
        from engine import Violation
        rng = _r.Random(1907 + n)
        probes = 0
        laws = [UniverseLaws() for _ in range(2)]
        want = [None, None]          # weak handle on the universe each law set should apply to
        hist = []
        for _s in range(rng.randint(1, 8)):
            i = rng.randrange(2)
            r = rng.random()
            try:
                if r < 0.35:
                    hist.append("L%d.applies_to = Universe()" % i)
                    laws[i].applies_to = Universe()
                    want[i] = weakref.ref(laws[i].applies_to) if laws[i].applies_to is not None else "lost"
                elif r < 0.6:
                    hist.append("Universe(laws=L%d)" % i)
                    Universe(laws=laws[i])
                    want[i] = weakref.ref(laws[i].applies_to) if laws[i].applies_to is not None else "lost"
                elif r < 0.7:
                    hist.append("L%d.applies_to = None" % i)
                    laws[i].applies_to = None
                    want[i] = None
                elif r < 0.8 and laws[1 - i].applies_to is not None:
                    hist.append("L%d.applies_to = L%d.applies_to" % (i, 1 - i))
                    laws[i].applies_to = laws[1 - i].applies_to
                    want[i], want[1 - i] = weakref.ref(laws[i].applies_to) if laws[i].applies_to is not None else "lost", None
                elif r < 0.92 and laws[1 - i].applies_to is not None:
                    # from the universe side: the universe of the other law set takes this one
                    hist.append("L%d.applies_to.laws = L%d" % (1 - i, i))
                    u = laws[1 - i].applies_to
                    u.laws = laws[i]
                    want[i], want[1 - i] = weakref.ref(u), None
                    del u
                elif r < 0.96:
                    # a `laws` entry in the attributes dictionary: refused (AttributeError) or honoured, never half of each
                    hist.append("Universe(attributes={'laws': L%d})" % i)
                    try:
                        Universe(attributes={"laws": laws[i]})
                    except Warning:
                        raise
                    except Exception:  # noqa: BLE001   (a refused construction changes nothing)
                        pass
                    else:
                        want[i] = weakref.ref(laws[i].applies_to) if laws[i].applies_to is not None else "lost"
                else:
                    hist.append("gc.collect()")
                    gc.collect()
            except Warning as exc:
                return Violation("oracle", "after [%s] (warnings are errors): the assignment raised %s: %s" % (
                    "; ".join(hist), type(exc).__name__, exc), ["sweep:laws-only handles: " + "; ".join(hist)]), probes
            probes += 1
            msg = None
            for j in range(2):
                got = laws[j].applies_to
                if want[j] is None:
                    if got is not None:
                        msg = "L%d.applies_to should be None" % j
                elif want[j] == "lost" or got is None or want[j]() is not got:
                    msg = "L%d.applies_to reads %r: the assignment did not stick (the law set is the caller's only handle on that universe)" % (j, got)
                elif got.laws is not laws[j]:
                    msg = "L%d.applies_to.laws is not L%d" % (j, j)
            if msg:
                return Violation("oracle", "after [%s]: %s" % ("; ".join(hist), msg), ["sweep:laws-only handles: " + "; ".join(hist)]), probes
        return None, probes

    def pre(self, real, line):
        from adapter import rules_index
        return [rules_index(w) for w in real.W]

    def oracle(self, real, line, out, pre):
        from adapter import rules_index
        for u in real.V:
            if not isinstance(u, Universe):
                continue
            for w in real.W:
                if (u.laws is w) != (w.applies_to is u):
                    return "V%d.laws is W%d: %s but W%d.applies_to is V%d: %s" % (
                        real.vname(u), real._wid[id(w)], u.laws is w, real._wid[id(w)], real.vname(u),
                        w.applies_to is u)
            if u.laws is not None and id(u.laws) not in real._wid:
                return "V%d.laws is an unknown law set" % real.vname(u)
        t = line.split()
        if t[0] in ("setlaws", "setapplies", "universe", "lawset") and not out.startswith("ok"):
            return "%s did not succeed: %s" % (line, out)
        now = [rules_index(w) for w in real.W]
        if now[:len(pre)] != pre:
            return "%s changed the rule attributes of a law set" % line
        if t[0] == "lawset":
            want = int(t[1]) if len(t) > 1 else 0
            if now[-1] != want:
                return "law set rules read back %d, constructed with %d" % (now[-1], want)
            for attr in ("edge_whitelist", "mixed_links", "cycles", "multipath", "multiverse"):
                try:
                    setattr(real.W[-1], attr, None)
                    return "rule attribute %s is assignable" % attr
                except AttributeError:
                    pass
        return None


CHECKS = {c.id: c for c in (C01, C02, C03, C19)}
