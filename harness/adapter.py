"""
adapter.py — executes protocol operations on the REAL edgegraph code (imported
from /repo's working tree, in-process, unmodified) and renders every answer in
exactly the text format that the Lean driver (lean/Main.lean) prints, using the
public accessors only.
"""
import math
import weakref
import os
import sys
import pickle
import subprocess

REPO = os.environ.get("EG_REPO", "/repo")
sys.path.insert(0, REPO)
sys.path.insert(0, os.path.dirname(os.path.abspath(__file__)))

import pool  # noqa: E402
from pool import Fault, StopFault, NotAVertex, VCLS, LCLS, VCLS_NAME, LCLS_NAME  # noqa: E402
from edgegraph.structure import Vertex, Universe  # noqa: E402
from edgegraph.structure.universe import UniverseLaws  # noqa: E402
from edgegraph.traversal import helpers, breadthfirst, depthfirst  # noqa: E402
from edgegraph.builder import explicit  # noqa: E402

ERRNAMES = {
    TypeError: "TypeError", IndexError: "IndexError", AttributeError: "AttributeError",
    ValueError: "ValueError", NotImplementedError: "NotImplementedError", KeyError: "KeyError",
    Fault: "Fault", StopFault: "Fault", AssertionError: "AssertionError", RecursionError: "RecursionError",
}

# value classes for user attributes: id -> representatives that are all == to each other
class _Any:
    """a sought value whose __eq__ accepts everything (like unittest.mock.ANY)"""

    def __eq__(self, other):
        return True

    def __ne__(self, other):
        return False

    __hash__ = object.__hash__

    def __repr__(self):
        return "ANY"


VALREPS = {
    0: [0, 0.0, False],
    1: [1, 1.0, True],
    2: [2, 2.0],
    3: ["x", "".join(["x"])],
    4: [(1, 2), tuple([1, 2])],
    5: [None],
    6: [_Any()],       # only ever used as a SOUGHT value
}


class _Label:
    """what a render function may return: any object; its str() is the rendering"""

    def __init__(self, s):
        self.s = s

    def __str__(self):
        return self.s

    def __repr__(self):
        return "<Label %s at 0x%x>" % (self.s, id(self))


def _some_function(x=None):
    """a callable used as an attribute VALUE and as a sought value (searches compare with ==, never call it)"""
    return True


VALREPS[7] = [_some_function]


def attrname(a):
    """the name of user attribute number `a`; number 3 is a DOTTED name (`a0.real`): a legal attribute name that a
    lookup through `operator.attrgetter` / nested getattr would read as attribute `real` of attribute `a0`"""
    return "a0.real" if str(a) == "3" else "a" + str(a)

# a value that is not equal to itself; ONE object, stored on vertices and sought (an identity shortcut before `==` finds it)
VALREPS[8] = [math.nan]

# user attributes given to links: ordinary payload whose NAMES a careless implementation might use itself
LINK_ATTRS = {
    1: {"directed": False, "undirected": True, "weight": 3},
    2: {"kind": "x", "visited": True, "mark": 7, "i": 0},
    3: {"directed": True, "undirected": False, "name": "e"},
}
# `attributes=` arguments a constructor must reject (TypeError / AttributeError) without having touched anything
BAD_ATTRS = {1: 5, 2: {"uid": 12}, 3: {"vertices": ()}, 4: {7: 7}}


def double_init_class(base):
    """a subclass whose construction runs the base initialiser TWICE with the same arguments (what non-cooperative
    multiple inheritance does: `class City(Named, Weighted)` with both bases calling `Vertex.__init__` explicitly)"""
    def __init__(self, **kw):
        base.__init__(self, **kw)
        base.__init__(self, **kw)
    return type(base.__name__, (base,), {"__init__": __init__, "__qualname__": base.__qualname__, "__module__": base.__module__})


_GHOST = []


def _ghost_module():
    """a module that exists only in this process (code loaded with exec, a plug-in, a notebook cell)"""
    if not _GHOST:
        import types
        m = types.ModuleType("eg_verif_ghost")
        exec("def gf(e, v=None):\n    return helper(e)\ndef helper(e):\n    return True\ndef lone(x):\n    return x\n", m.__dict__)
        _GHOST.append(m)
    return _GHOST[0]


def _rules_table():
    from edgegraph.structure import DirectedEdge, UnDirectedEdge
    return {
        0: {},
        1: dict(mixed_links=True, cycles=False),
        2: dict(edge_whitelist={Vertex: {Vertex: DirectedEdge}}, multipath=False, multiverse=True),
        3: dict(edge_whitelist={Vertex: {Vertex: DirectedEdge, Universe: UnDirectedEdge}, Universe: {}},
                mixed_links=True, cycles=True, multipath=True, multiverse=True),
        4: dict(edge_whitelist={}, cycles=False),      # an EMPTY table: "nothing allowed" (the caller may fill ITS dict later)
    }


RULES = _rules_table()
RULE_DEFAULTS = dict(edge_whitelist=None, mixed_links=False, cycles=True, multipath=True, multiverse=False)


def rules_index(laws):
    """read the rule attributes back through the public properties and look them up"""
    ew = laws.edge_whitelist
    got = dict(
        edge_whitelist=None if ew is None else {k: dict(v) for k, v in ew.items()},
        mixed_links=laws.mixed_links, cycles=laws.cycles, multipath=laws.multipath,
        multiverse=laws.multiverse)
    for r, kw in RULES.items():
        want = dict(RULE_DEFAULTS)
        want.update(kw)
        if got == want and all(type(got[k]) is type(want[k]) for k in got):
            return r
    return 99


def errname(exc):
    for k, v in ERRNAMES.items():
        if type(exc) is k:
            return v
    for k, v in ERRNAMES.items():
        if isinstance(exc, k):
            return v
    return "Other"


def _pickled_filter(kind, k):
    """what a filter object of the harness un-pickles to (it never needs to work there)"""
    return (kind, k)


class TableFilter:
    """filter number k: accepts (link l, other end x) iff bit (7*l + code(x)) % 64 of k is set.
    One object per (adapter, k) so that the neighbor-cache key (which holds the
    callable) is stable; `fault_at` makes the i-th invocation of a call raise."""

    def __init__(self, ad, k, arity):
        self.ad, self.k, self.arity = ad, k, arity
        self.count = 0
        self.fault_at = None

    def __reduce__(self):
        # a memoised neighbors() answer is keyed by the filter object; when a graph with warm
        # caches is pickled the key must not drag the whole harness along
        return (_pickled_filter, ("table", self.k))

    def __call__(self, *args):
        self.count += 1
        if self.fault_at is not None and self.count == self.fault_at:
            # every other fault index raises a StopIteration (only neighbors() / find_links() are called with
            # faults through the protocol: plain functions, through which it must propagate like any exception)
            raise (pool.HardFault if self.fault_at % 3 == 2 else StopFault if self.fault_at % 2 == 0 else Fault)()
        link = args[0]
        x = args[1] if len(args) > 1 else None
        code = 0 if x is None else self.ad.vname(x) + 1
        return bool((self.k >> ((7 * self.ad.lname(link) + code) % 64)) & 1)


class ReentrantTableFilter(TableFilter):
    """a read-only callback that itself QUERIES the library while it is being consulted: before answering from
    its table it asks for the neighbours (other settings, no filter) of the vertex that is being expanded and of
    the candidate.  Legal — it changes nothing — but with caching on it makes the memo of the expanded vertex
    change hands in the middle of the outer computation."""

    def __call__(self, *args):
        from edgegraph.traversal import helpers as _h
        link = args[0]
        x = args[1] if len(args) > 1 else None
        for v in (x,) + tuple(getattr(link, "vertices", ())[:2]):
            if v is not None:
                try:
                    _h.neighbors(v, _h.DIR_SENS_ANY, _h.LNK_UNKNOWN_NEIGHBOR)
                except Exception:  # noqa: BLE001   (half-assigned edges, n-ary links: not this callback's business)
                    pass
        return super().__call__(*args)


class UnhashableTableFilter(TableFilter):
    """a filter callable that cannot be hashed (a callable dataclass, any class defining `__eq__` without
    `__hash__`): filter numbers 5 modulo 13.  neighbors() uses its arguments as the memo key: such a query is
    answered, never cached, and nothing raises (model: `M.unhashable`)."""

    def __eq__(self, other):
        return type(other) is type(self) and other.k == self.k

    __hash__ = None


def plain_filter(ad, k):
    """filter number k as a PLAIN function without a closure — the loop idiom `lambda e, v, k=k: …`:
    all such filters share ONE code object and differ only in their default values"""
    def table_filter(link, x=None, _ad=ad, _k=k):
        code = 0 if x is None else _ad.vname(x) + 1
        return bool((_k >> ((7 * _ad.lname(link) + code) % 64)) & 1)
    return table_filter


# two filter numbers served by partials of one function whose bound arguments compare equal (True == 1)
K_TYPED_BOOL, K_TYPED_INT = 723349062897723963, 1714594234024792310
TYPED_FILTERS = {K_TYPED_BOOL: True, K_TYPED_INT: 1}

# argument tuples for the singleton ops: id -> (args, kwargs)
SARGS = {
    0: ((), {}), 1: ((1,), {}), 2: ((1.0,), {}), 3: ((True,), {}), 4: ((-1,), {}), 5: ((-2,), {}),
    6: ((), {"x": 1, "y": 2}), 7: ((), dict([("y", 2), ("x", 1)])), 8: ((-1,), {"x": 1}),
    9: (("boom",), {}),        # `__init__` raises ValueError for this one
    10: (("clear",), {}),      # `__init__` of a TRUE singleton calls clear_true_singleton() (re-entrant global clear)
    # keyword values that are dicts filled in different orders: the same key
    11: ((), {"style": {"colour": "red", "width": 2}}),
    12: ((), {"style": dict([("width", 2), ("colour", "red")])}),
    # a call with a keyword, and a keyword-free call whose two positional arguments LOOK like its key
    13: ((1,), {"a": 2}),
    14: (((1,), '{"a": 2}'), {}),
}


def make_singleton_classes(log, tlog):
    """fresh singleton classes for one history; `log` receives (instance, args, kwargs) of every
    completed `__init__` of a semi-singleton.  True singletons are NOT kept alive by the harness
    (a caller that drops the object it got must still get the same one back): their `__init__`
    numbers the object on its first run and `tlog` receives (number, class name, args, kwargs)."""
    from edgegraph.structure import singleton

    def init(self, *args, **kwargs):
        if args and args[0] == "boom":
            # the constructors of the falsy class fail with an exception that is not an `Exception`
            raise (pool.Interrupt if type(self).__name__ == "SC" else ValueError)("boom")
        log.append((self, args, kwargs))

    counter = [0]

    def tinit(self, *args, **kwargs):
        if args and args[0] == "boom":
            raise (pool.Interrupt if type(self).__name__ in ("TC", "TD") else ValueError)("boom")
        if not hasattr(self, "_eg_n"):
            self._eg_n = counter[0]
            counter[0] += 1
        tlog.append((self._eg_n, type(self).__name__, args, kwargs))
        if args and args[0] == "clear":
            singleton.clear_true_singleton()

    ts = []
    A = singleton.TrueSingleton("TA", (), {"__init__": tinit})
    B = singleton.TrueSingleton("TB", (A,), {})
    # instances of TC (and of the semi-singleton classes SC, SF) are FALSY objects
    C = singleton.TrueSingleton("TC", (), {"__init__": tinit, "__len__": lambda self: 0})
    # TD's metaclass derives from TrueSingleton (a user metaclass combining it with something else)
    DM = type("DerivedTrueSingleton", (singleton.TrueSingleton,), {})
    D = DM("TD", (), {"__init__": tinit})
    ts = [A, B, C, D]
    M0 = singleton.semi_singleton_metaclass()
    M1 = singleton.semi_singleton_metaclass()
    M2 = singleton.semi_singleton_metaclass(hashfunc=lambda args, kwargs: len(args) + len(kwargs))
    S0 = M0("SA", (), {"__init__": init})
    S1 = M0("SB", (S0,), {})
    S2 = M0("SC", (), {"__init__": init, "__bool__": lambda self: False})
    S3 = M1("SD", (), {"__init__": init})
    S4 = M2("SE", (), {"__init__": init})
    S5 = M2("SF", (S4,), {"__len__": lambda self: 0})
    # SG's metaclass derives from the generated metaclass M0 (e.g. combined with abc.ABCMeta): it uses M0's instance map
    import abc
    DM0 = type("DerivedSemiSingleton", (M0, abc.ABCMeta), {})
    S6 = DM0("SG", (), {"__init__": init})
    return ts, [S0, S1, S2, S3, S4, S5, S6]


def _byvalue_classes():
    """classes that dill pickles BY VALUE (they cannot be found by name: defined inside a function)
    and whose methods use zero-argument super(), i.e. have a `__class__` closure cell"""
    class SV(pool.SV):
        def __init__(self, *args, **kwargs):
            super().__init__(*args, **kwargs)

        def who(self):
            return __class__.__name__

    class FV(pool.FV):
        def __init__(self, *args, **kwargs):
            super().__init__(*args, **kwargs)

    class Tag:
        def __init__(self, n):
            super().__init__()
            self.n = n

        def __eq__(self, other):
            return type(other).__name__ == "Tag" and other.n == self.n

        def __hash__(self):
            return hash(self.n)

        def __repr__(self):
            return "Tag(%d)" % self.n

    def fact(n):
        return 1 if n < 2 else n * fact(n - 1)         # a recursive local function: cell -> itself
    Tag.fact = staticmethod(fact)
    return {"SV": SV, "FV": FV, "Tag": Tag}


BYVALUE = _byvalue_classes()


class FalsyTableFilter(TableFilter):
    """the same filter, but the callable object itself is falsy (a legal filterfunc: only
    `filterfunc is None` means "no filter")"""

    def __bool__(self):
        return False


class VertexFilter:
    """ff_result family: filter k accepts x iff bit (code(x) % 64) of k (code None = 0, Vi = i+1)"""

    def __init__(self, ad, k):
        self.ad, self.k = ad, k
        self.count = 0
        self.fault_at = None

    def __reduce__(self):
        return (_pickled_filter, ("vertex", self.k))

    def __call__(self, x):
        self.count += 1
        if self.fault_at is not None and self.count == self.fault_at:
            raise Fault()
        code = 0 if x is None else self.ad.vname(x) + 1
        return bool((self.k >> (code % 64)) & 1)


class Real:
    def __init__(self):
        self.reset()

    # ------------------------------------------------------------------ state
    _di = {}

    def reset(self):
        Vertex.NEIGHBOR_CACHING = False
        Vertex._CACHE_STATS = {}
        self.V = []
        self.L = []
        self.W = []
        self._vid = {}
        self._lid = {}
        self._wid = {}
        self.filters2 = {}
        self.filters1 = {}
        self.vfilters = {}
        from edgegraph.structure import singleton
        singleton.clear_true_singleton()
        self.sg_log = []
        self.ts_log = []
        self.TS, self.SS = make_singleton_classes(self.sg_log, self.ts_log)
        self.Tw, self.S = {}, []          # true singletons: number -> weak reference; semi-singletons by creation order
        self.last_ts = None
        self.kept = []                    # containers exchanged with the library (C12)
        self._shared_ulists = {}
        self._shared_vlists = {}
        self._hooks = {}
        for c in VCLS.values():
            if c is not Vertex and "NEIGHBOR_CACHING" in vars(c):
                del c.NEIGHBOR_CACHING
        return "ok"

    def maybe_in_thread(self, fn):
        """every other builder call is made from a WORKER thread (an executor, a request handler): state the library
        keeps per thread must be there for threads other than the one that imported it"""
        import threading
        n = self._bcalls = getattr(self, "_bcalls", 0) + 1
        if n % 2:
            return fn()
        box = {}

        def run():
            try:
                box["r"] = fn()
            except BaseException as exc:  # noqa: BLE001
                box["e"] = exc
        t = threading.Thread(target=run)
        t.start()
        t.join()
        if "e" in box:
            raise box["e"]
        return box["r"]

    def reload(self):
        """the caller SAVES the whole graph and goes on working with the LOADED copy (in turn: pickle, copy.deepcopy,
        nrpickler + pickle.loads); the copies are registered under the names of their originals, the originals are
        dropped.  Anything the library keys by `id()` or keeps outside the objects must survive this."""
        import copy
        if self.keep_mode:
            return "ok"                       # the caller's containers refer to the originals
        n = self._reloads = getattr(self, "_reloads", 0) + 1
        old = (self.V, self.L, self.W)
        try:
            if n % 3 == 1:
                new = pickle.loads(pickle.dumps(old))
            elif n % 3 == 2:
                new = copy.deepcopy(old)
            else:
                from edgegraph.output import nrpickler
                new = pickle.loads(nrpickler.dumps(old))
        except (pickle.PicklingError, AttributeError, TypeError):
            # objects of the HARNESS that cannot be pickled by reference (classes / functions made at run time)
            new = copy.deepcopy(old)
        self.V, self.L, self.W = [], [], []
        self._vid, self._lid, self._wid = {}, {}, {}
        for v in new[0]:
            self.reg_v(v)
        for l in new[1]:
            self.reg_l(l)
        for w in new[2]:
            self.reg_w(w)
        return "ok"

    def vname(self, v):
        return self._vid[id(v)]

    def lname(self, l):
        return self._lid[id(l)]

    def reg_v(self, v):
        self._vid[id(v)] = len(self.V)
        self.V.append(v)
        return len(self.V) - 1

    def reg_l(self, l):
        if id(l) in self._lid:
            return self._lid[id(l)]
        self._lid[id(l)] = len(self.L)
        self.L.append(l)
        return len(self.L) - 1

    def reg_w(self, w):
        if id(w) in self._wid:
            return self._wid[id(w)]
        self._wid[id(w)] = len(self.W)
        self.W.append(w)
        return len(self.W) - 1

    def filt2(self, k):
        if k is None:
            return None
        if k in TYPED_FILTERS and self.plain_filters:
            # `functools.partial(f, True)` and `functools.partial(f, 1)` of ONE function: the bound arguments are equal
            # (True == 1) yet the two filters accept different links; a new partial object per call, as in user code
            import functools
            if not hasattr(self, "_typed_fn"):
                def typed(sel, link, x=None, _ad=self):
                    kk = K_TYPED_BOOL if type(sel) is bool else K_TYPED_INT
                    code = 0 if x is None else _ad.vname(x) + 1
                    return bool((kk >> ((7 * _ad.lname(link) + code) % 64)) & 1)
                self._typed_fn = typed
            return functools.partial(self._typed_fn, TYPED_FILTERS[k])
        if k % 5 == 2 and not self.long_lived_filters:
            # a SHORT-LIVED callable (an inline lambda in user code): a new object per call, dropped
            # afterwards, so that its address can be reused by the next one
            return TableFilter(self, k, 2)
        if k % 13 == 5:
            if k not in self.filters2:
                self.filters2[k] = UnhashableTableFilter(self, k, 2)
            return self.filters2[k]
        if k not in self.filters2:
            if k % 7 == 3 and self.plain_filters and not self.long_lived_filters:
                self.filters2[k] = plain_filter(self, k)
            elif k % 11 == 4 and self.plain_filters and not self.long_lived_filters:
                self.filters2[k] = ReentrantTableFilter(self, k, 2)
            else:
                self.filters2[k] = (FalsyTableFilter if k % 3 == 1 else TableFilter)(self, k, 2)
        return self.filters2[k]

    def filt1(self, k):
        if k is None:
            return None
        if k % 5 == 2 and not self.long_lived_filters:
            return TableFilter(self, k, 1)
        if k % 13 == 5:
            if k not in self.filters1:
                self.filters1[k] = UnhashableTableFilter(self, k, 1)
            return self.filters1[k]
        if k not in self.filters1:
            if k % 7 == 3 and self.plain_filters and not self.long_lived_filters:
                self.filters1[k] = plain_filter(self, k)
            elif k % 11 == 4 and self.plain_filters and not self.long_lived_filters:
                self.filters1[k] = ReentrantTableFilter(self, k, 1)
            else:
                self.filters1[k] = (FalsyTableFilter if k % 3 == 1 else TableFilter)(self, k, 1)
        return self.filters1[k]

    def hook_of(self, uni):
        """ONE bound-method object per universe (callers store the same callback on several vertices)"""
        return self._hooks.setdefault(id(uni), uni.add_vertex)

    def inst_name(self, table, obj, prefix):
        for i, o in enumerate(table):
            if o is obj:
                return "%s%d" % (prefix, i)
        table.append(obj)
        return "%s%d" % (prefix, len(table) - 1)

    def sargs_index(self, args, kwargs):
        for k, (a, kw) in SARGS.items():
            if a == args and kw == kwargs and [type(x) for x in a] == [type(x) for x in args] \
                    and list(kw) == list(kwargs) and repr(kw) == repr(kwargs):
                return k
        return 99

    def inits_of(self, table, classes):
        out = []
        for obj, args, kwargs in self.sg_log:
            if type(obj) in classes:
                i = [j for j, o in enumerate(table) if o is obj]
                out.append("%s:%d:%d" % (i[0] if i else "?", classes.index(type(obj)), self.sargs_index(args, kwargs)))
        return out

    @staticmethod
    def puml_options(o):
        """fresh option tables (the library compiles show_attrs in place)"""
        from edgegraph.structure import DirectedEdge, UnDirectedEdge
        vdef = lambda typ="object", fmt="$id": {  # noqa: E731
            "type": typ, "show_attrs": ["a.*"], "title_format": fmt,
            "stereotype_skinparams": {"BackgroundColor": "White"}}
        opts = {"skinparams": {"dpi": "300"}, Vertex: vdef(),
                DirectedEdge: {"v1side": "", "v2side": ">"}, UnDirectedEdge: {"v1side": "", "v2side": ""}}
        if o == 1:
            opts[pool.SV] = vdef("class")
            opts[pool.DD] = {"v1side": "<", "v2side": ">"}
        elif o == 2:
            opts[Vertex] = vdef(fmt="T{a0}")
        elif o == 3:
            opts[pool.X] = {"v1side": "o", "v2side": "o"}
        elif o == 4:
            opts[pool.SV] = vdef("class", "T{a0}")
        elif o == 5:
            # only the SECOND base of MV(SV, MX) is configured
            opts[pool.MX] = vdef("entity", "T{a0}")
        elif o == 6:
            opts[pool.SV] = vdef("class")
            opts[pool.MX] = vdef("entity", "T{a0}")
        elif o == 7:
            # a replacement field that reads an attribute OF the value (legal str.format syntax);
            # only numbers have `.real` (and it equals them), anything else makes the render raise
            opts[Vertex] = vdef(fmt="T{a0.real}")
        return opts

    def parse_puml(self, text):
        """parse the source back into declaration and relation records (titles -> tokens)"""
        import re
        assert text.startswith("@startuml\n") and text.endswith("@enduml\n"), "not enclosed in @startuml/@enduml"
        ids = {hex(id(v)): "id%d" % i for i, v in enumerate(self.V)}

        def tok(t):
            if t in ids:
                return ids[t]
            m = re.fullmatch(r"T(.*)", t)
            if m:
                for k, reps in VALREPS.items():
                    if any(str(r) == m.group(1) for r in reps):
                        return "T%d" % k
            return t
        decls, rels = [], []
        for line in text.split("\n"):
            m = re.fullmatch(r"(\S+) (\S+) <<(\w+)>> \{", line)
            if m:
                decls.append("%s %s <<%s>>" % (m.group(1), tok(m.group(2)), m.group(3)))
                continue
            m = re.fullmatch(r"(\S+) (\S*)--(\S*) (\S+)", line)
            if m:
                rels.append("%s %s--%s %s" % (tok(m.group(1)), m.group(2), m.group(3), tok(m.group(4))))
        return "decls=[%s] rels=[%s]" % (",".join(decls), ",".join(sorted(rels)))

    def register_built(self, u, pairs, nL):
        """register the universe, its law set and the links a builder created; `pairs` lists the
        (v1, v2) entries in the order the builder is documented to create their links, and the
        link of an entry is the first not-yet-registered link of v1 with exactly these ends"""
        n = self.reg_v(u)
        if u.laws is not None:
            self.reg_w(u.laws)
        for a, b in pairs:
            for l in a.links:
                vs = l.vertices
                if id(l) not in self._lid and len(vs) == 2 and vs[0] is a and vs[1] is b:
                    self.reg_l(l)
                    break
        self.scan_new_links()
        return n

    @staticmethod
    def forced_randgraph(rgmod, count, cls, conn, ens, draws):
        """run the real randgraph with the RNG answering exactly `draws` (one (r, sample) per vertex)"""
        import random as _random
        state = {"i": 0}

        class Forced:
            @staticmethod
            def randint(a, b):
                r = draws[state["i"]][0]
                assert a <= r <= b, "draw outside randint range"
                return r

            @staticmethod
            def sample(pop, k):
                smp = draws[state["i"]][1]
                state["i"] += 1
                if k > len(pop) or k < 0:
                    raise ValueError("Sample larger than population or is negative")
                assert len(smp) == k, "sample size differs from what the code asked for (%d vs %d)" % (len(smp), k)
                return [pop[j] for j in smp]

        old = rgmod.random
        rgmod.random = Forced
        try:
            return rgmod.randgraph(count, cls, conn, ens)
        finally:
            rgmod.random = old

    @staticmethod
    def logged_randgraph(rgmod, seed, count, cls, conn, ens):
        """run the real randgraph under random.seed(seed), logging what the RNG answered"""
        import random as _random
        log = []

        class Logging:
            """stands in for the `random` module inside randgraph.py: randint / sample are logged; any OTHER use of
            the generator is passed through and recorded as a deviation from the draw protocol the model replays
            (one randint, one sample per vertex) — the model tie is then unavailable for this run, nothing else"""
            deviated = False

            @staticmethod
            def randint(a, b):
                r = _random.randint(a, b)
                log.append([r, None])
                return r

            @staticmethod
            def sample(pop, k):
                smp = _random.sample(pop, k)
                if not log or log[-1][1] is not None:
                    Logging.deviated = True
                    return smp
                log[-1][1] = [next(j for j, x in enumerate(pop) if x is y) for y in smp]
                return smp

            def __getattr__(self, name):
                Logging.deviated = True
                return getattr(_random, name)

        _random.seed(seed)
        if getattr(rgmod, "random", None) is not _random:
            # the module no longer reaches the generator through `random.<fn>`: it cannot be tapped
            Logging.deviated = True
            u = rgmod.randgraph(count, cls, conn, ens)
            return u, None
        rgmod.random = Logging()
        try:
            u = rgmod.randgraph(count, cls, conn, ens)
        finally:
            rgmod.random = _random
        if Logging.deviated or any(s is None for _r, s in log):
            return u, None
        return u, log

    def vfilt(self, k):
        if k is None:
            return None
        if k not in self.vfilters:
            self.vfilters[k] = VertexFilter(self, k)
        return self.vfilters[k]

    # ---------------------------------------------------------------- parsing
    def pv(self, tok):
        if tok == "-":
            return None
        if tok == "!":
            return NotAVertex()
        return self.V[int(tok[1:])]

    def pl(self, tok):
        return self.L[int(tok[1:])]

    def pw(self, tok):
        if tok == "-":
            return None
        return self.W[int(tok[1:])]

    @staticmethod
    def opt(toks, key):
        for t in toks:
            if t.startswith(key + "="):
                return t[len(key) + 1:]
        return ""

    @staticmethod
    def pnat(tok):
        return None if tok == "-" else int(tok)

    def pattrs(self, s, vid):
        out = {}
        if s:
            for t in s.split(","):
                a, b = t.split(":")
                reps = VALREPS[int(b)]
                out[attrname(a)] = reps[(vid + int(a)) % len(reps)]
        return out

    # -------------------------------------------------------------- rendering
    @staticmethod
    def rf_attr(x):
        """render function that reads the vertex (value class of attribute a0)"""
        if x is None:
            return "none"
        if not hasattr(x, "a0"):
            return "a-"
        return "a%d" % Real.valclass(x.a0)

    def sv(self, v):
        return "-" if v is None else "V%d" % self.vname(v)

    def obs(self):
        vs = []
        for i, v in enumerate(self.V):
            links = ",".join(str(self.lname(l)) for l in v.links)
            unis = ",".join(str(self.vname(u)) for u in v.universes)
            if isinstance(v, Universe):
                mem = ",".join(str(self.vname(m)) for m in v.vertices)
                laws = "-" if v.laws is None else str(self._wid[id(v.laws)])
            else:
                mem, laws = "", "-"
            attrs = []
            for k, val in vars(v).items():
                if k.startswith("a") and k[1:].isdigit():
                    attrs.append("%s:%d" % (k[1:], self.valclass(val)))
                elif k == "i" and type(val) is int:
                    attrs.append("99:%d" % val)
            vs.append("V%d:%s l=[%s] u=[%s] m=[%s] w=%s a=[%s]" % (
                i, next(VCLS_NAME[c] for c in type(v).__mro__ if c in VCLS_NAME), links, unis, mem, laws, ",".join(attrs)))
        ls = []
        for i, l in enumerate(self.L):
            ends = ",".join("-" if e is None else str(self.vname(e)) for e in l.vertices)
            ls.append("L%d:%s[%s]" % (i, LCLS_NAME[type(l)], ends))
        ws = []
        for i, w in enumerate(self.W):
            ws.append("W%d:%s:r%d" % (i, "-" if w.applies_to is None else str(self.vname(w.applies_to)),
                                      rules_index(w)))
        return "obs " + "|".join(vs) + "#" + "|".join(ls) + "#" + "|".join(ws) + "#c=" + (
            "1" if Vertex.NEIGHBOR_CACHING else "0")

    @staticmethod
    def valclass(val):
        for k, reps in VALREPS.items():
            if type(val) in [type(r) for r in reps] and (val is reps[0] or val == reps[0]):
                return k
        return 99

    def scan_new_links(self):
        """register links that became reachable without having been returned"""
        for v in self.V:
            for l in v.links:
                if id(l) not in self._lid:
                    self.reg_l(l)

    # -------------------------------------------------------------------- ops
    keep_mode = False
    double_init = False             # every other plain vertex is built by a class whose initialiser runs twice (C02)
    plain_filters = False           # filters number k with k % 7 == 3 are plain functions sharing one code object (never in pickled worlds)
    long_lived_filters = False      # C13 injects faults through the filter object: it must be the memo's key

    def keep(self, *containers):
        if self.keep_mode:
            for c in containers:
                self.kept.append(c)

    def mutate_kept(self, n, how):
        """caller-side edit of exchanged container number n; immutability (TypeError / AttributeError) is fine"""
        if not self.kept:
            return
        c = self.kept[n % len(self.kept)]
        junk = self.V[how % len(self.V)] if self.V else None
        try:
            if isinstance(c, list):
                [lambda: c.append(junk), c.clear, c.reverse, lambda: c.pop() if c else None,
                 lambda: c.insert(0, junk), lambda: c.__setitem__(0, junk) if c else c.append(junk)][how % 6]()
            elif isinstance(c, set):
                [lambda: c.add(junk), c.clear, lambda: c.discard(next(iter(c))) if c else None][how % 3]()
            elif isinstance(c, dict):
                [c.clear, lambda: c.__setitem__(Vertex, {Universe: Universe}), lambda: c.pop(next(iter(c))) if c else None,
                 lambda: [v.clear() for v in c.values() if isinstance(v, dict)],
                 lambda: [v.__setitem__(Universe, Vertex) for v in c.values() if isinstance(v, dict)]][how % 5]()
            elif isinstance(c, tuple):
                c[0:0] = (junk,)      # noqa  -- must raise TypeError
            else:
                # mapping proxies and the like
                try:
                    c[Vertex] = {}
                except TypeError:
                    for v in list(c.values()):
                        v[Universe] = Vertex
        except (TypeError, AttributeError, KeyError, IndexError, StopIteration):
            pass

    def step(self, line):
        toks = line.split()
        if not toks:
            return ""
        try:
            return self.dispatch(toks)
        except pool.Interrupt:
            return "err ValueError"          # "the constructor raised": which class it raised is not part of the protocol
        except pool.HardFault:
            return "err Fault"
        except Exception as exc:  # noqa: BLE001
            return "err " + errname(exc)

    def dispatch(self, toks):
        op = toks[0]
        if op == "reset":
            r = self.reset()
            # `reset byvalue`: every other SV / FV vertex is an instance of a twin class that dill pickles BY VALUE
            # (defined inside a function) and whose methods use zero-argument super()
            self.byvalue = len(toks) > 1 and toks[1] == "byvalue"
            return r
        if op == "reload":
            return self.reload()
        if op == "obs":
            return self.obs()
        if op == "vertex":
            cls = VCLS[toks[1]]
            if getattr(self, "byvalue", False) and toks[1] in BYVALUE and len(self.V) % 2 == 1:
                cls = BYVALUE[toks[1]]
            opts = toks[2:]
            ls = [self.pl(t) for t in self.opt(opts, "l").split(",") if t]
            us = [self.pv(t) for t in self.opt(opts, "u").split(",") if t]
            attrs = self.pattrs(self.opt(opts, "a"), len(self.V))
            self.keep(ls, us, attrs)
            uid = self.opt(opts, "x")
            # `universes=` is any iterable: a one-shot generator, a list or a tuple in turn
            # (a list in keep-mode, where the caller goes on to edit it)
            kind = 1 if self.keep_mode else len(self.V) % 3
            if kind == 1 and not self.keep_mode:
                # the caller passes the SAME list object to several constructor calls
                key = tuple(id(u_) for u_ in us)
                us = self._shared_ulists.setdefault(key, us)
            uarg = (u_ for u_ in us) if kind == 0 else us if kind == 1 else tuple(us)
            if self.double_init and toks[1] in ("V", "SV") and len(self.V) % 2 == 0:
                # the initialiser runs twice with the same (re-iterable) arguments
                cls = self._di.setdefault(cls, double_init_class(cls))
                uarg = us if kind == 1 else tuple(us)
            uf = self.opt(opts, "uf")
            if uf:
                # `universes=` is a generator that RAISES after yielding `uf` of the universes (a lookup of an unknown
                # name in the middle of a comprehension): the constructor must raise without having touched anything
                def failing(us_=list(us), k=int(uf)):
                    for i_, u_ in enumerate(us_):
                        if i_ == k:
                            raise Fault("universes iterable")
                        yield u_
                    raise Fault("universes iterable")
                uarg = failing()
            hook = self.opt(opts, "h")
            if hook:
                # a bound method of a universe among the constructor's attributes (so that it precedes the
                # private attributes in the instance dict)
                attrs = dict(attrs or {})
                attrs["hook"] = self.hook_of(self.pv(hook))
            v = cls(links=ls, universes=uarg, attributes=attrs,
                    uid=(int(uid) if uid else None))
            return "ok V%d" % self.reg_v(v)
        if op == "universe":
            opts = toks[1:]
            ms = [self.pv(t) for t in self.opt(opts, "m").split(",") if t]
            wtok = self.opt(opts, "w")
            laws = self.pw(wtok) if wtok else None
            attrs = self.pattrs(self.opt(opts, "a"), len(self.V))
            self.keep(ms, attrs)
            uid = self.opt(opts, "x")
            u = Universe(vertices=ms, laws=laws, attributes=attrs, uid=(int(uid) if uid else None))
            n = self.reg_v(u)
            if u.laws is not None:
                self.reg_w(u.laws)
            return "ok V%d" % n
        if op == "lawset":
            r = int(toks[1]) if len(toks) > 1 else 0
            import copy
            kw = dict(RULES[r])
            if "edge_whitelist" in kw:
                kw["edge_whitelist"] = {k: dict(v) for k, v in kw["edge_whitelist"].items()}
                self.keep(kw["edge_whitelist"], *kw["edge_whitelist"].values())
                import types
                if len(self.W) % 4 in (1, 3):
                    # inner rule sets handed in as read-only VIEWS of dicts the caller still owns
                    kw["edge_whitelist"] = {k: types.MappingProxyType(v) for k, v in kw["edge_whitelist"].items()}
                    self.keep(kw["edge_whitelist"])
                if len(self.W) % 4 in (2, 3):
                    # … or the whole table handed in as a read-only view of the caller's dict
                    kw["edge_whitelist"] = types.MappingProxyType(kw["edge_whitelist"])
            return "ok W%d" % self.reg_w(UniverseLaws(**kw))
        if op == "edge":
            opts = toks[4:]
            kw = {}
            if self.opt(opts, "x"):
                kw["uid"] = int(self.opt(opts, "x"))          # caller-supplied, possibly equal, uids on LINKS
            if self.opt(opts, "la"):
                kw["attributes"] = dict(LINK_ATTRS[int(self.opt(opts, "la"))])
            if self.opt(opts, "bad"):
                # `attributes=` that the constructor rejects: it must raise before it touches anything
                kw["attributes"] = BAD_ATTRS[int(self.opt(opts, "bad"))]
            l = LCLS[toks[1]](self.pv(toks[2]), self.pv(toks[3]), **kw)
            return "ok L%d" % self.reg_l(l)
        if op == "nlink":
            vs = [] if toks[1] == "." else [self.pv(t) for t in toks[1].split(",")]
            self.keep(vs)
            if not self.keep_mode and len(self.L) % 2 == 1:
                # the caller passes the SAME list object to several constructor calls
                vs = self._shared_vlists.setdefault(tuple(id(x) for x in vs), vs)
            l = pool.N(vertices=vs)
            return "ok L%d" % self.reg_l(l)
        if op == "setv1":
            self.pl(toks[1]).v1 = self.pv(toks[2])
            return "ok"
        if op == "setv2":
            self.pl(toks[1]).v2 = self.pv(toks[2])
            return "ok"
        if op == "ladd":
            self.pl(toks[1]).add_vertex(self.pv(toks[2]))
            return "ok"
        if op == "lunlink":
            self.pl(toks[1]).unlink_from(self.pv(toks[2]))
            return "ok"
        if op == "addtolink":
            self.pv(toks[1]).add_to_link(self.pl(toks[2]))
            return "ok"
        if op == "rmfromlink":
            self.pv(toks[1]).remove_from_link(self.pl(toks[2]))
            return "ok"
        if op == "uadd":
            self.pv(toks[1]).add_vertex(self.pv(toks[2]))
            return "ok"
        if op == "urem":
            self.pv(toks[1]).remove_vertex(self.pv(toks[2]))
            return "ok"
        if op == "vadd":
            self.pv(toks[1]).add_to_universe(self.pv(toks[2]))
            return "ok"
        if op == "vrem":
            self.pv(toks[1]).remove_from_universe(self.pv(toks[2]))
            return "ok"
        if op == "setlaws":
            self.pv(toks[1]).laws = self.pw(toks[2])
            return "ok"
        if op == "setapplies":
            self.pw(toks[1]).applies_to = self.pv(toks[2])
            return "ok"
        if op == "flag":
            Vertex.NEIGHBOR_CACHING = toks[1] == "on"
            return "ok"
        if op == "cflag":
            # caching switched on / off for ONE vertex class only (a class attribute of the subclass)
            VCLS[toks[1]].NEIGHBOR_CACHING = toks[2] == "on"
            return "ok"
        if op == "linkft":
            a, c, b, dd = self.pv(toks[1]), toks[2], self.pv(toks[3]), toks[4] == "1"
            if c == "D" and len(toks) > 5 and toks[5] == "via":
                l = explicit.link_directed(a, b, dontdup=dd)
            elif c == "U" and len(toks) > 5 and toks[5] == "via":
                l = explicit.link_undirected(a, b, dontdup=dd)
            else:
                l = explicit.link_from_to(a, LCLS[c], b, dontdup=dd)
            return "ok L%d" % self.reg_l(l)
        if op == "unlink":
            a, b = self.pv(toks[1]), self.pv(toks[2])
            r = explicit.unlink(a, b, destroy=(toks[3] != "keep"))
            if toks[3] == "keep":
                self.keep(r)
                return "ok [" + ",".join("L%d" % i for i in sorted(self.lname(l) for l in r)) + "]"
            assert r is None
            return "ok -"
        if op == "nbrs":
            v, d, u = self.pv(toks[1]), int(toks[2]), int(toks[3])
            f = self.filt2(self.pnat(toks[4]))
            if f is not None:
                f.count = 0
                f.fault_at = int(toks[5]) if len(toks) > 5 else None
            try:
                r = helpers.neighbors(v, d, u, f)
            finally:
                if f is not None:
                    f.fault_at = None
            out = "ok [" + ",".join(self.sv(x) for x in r) + "]"
            self.keep(r)
            return out
        if op == "flinks":
            a, b, ds, u = self.pv(toks[1]), self.pv(toks[2]), toks[3] == "1", int(toks[4])
            f = self.filt1(self.pnat(toks[5]))
            if f is not None:
                f.count = 0
                f.fault_at = int(toks[6]) if len(toks) > 6 else None
            try:
                r = helpers.find_links(a, b, ds, u, f)
            finally:
                if f is not None:
                    f.fault_at = None
            assert isinstance(r, set)
            out = "ok [" + ",".join("L%d" % i for i in sorted(self.lname(l) for l in r)) + "]"
            self.keep(r)
            return out
        if op in ("getlinks", "getunis", "getmembers", "getends", "getwl"):
            if op == "getlinks":
                c = self.pv(toks[1]).links
                out = "ok [" + ",".join("L%d" % self.lname(l) for l in c) + "]"
            elif op == "getunis":
                c = self.pv(toks[1]).universes
                out = "ok [" + ",".join(self.sv(x) for x in c) + "]"
            elif op == "getmembers":
                c = self.pv(toks[1]).vertices
                out = "ok [" + ",".join(self.sv(x) for x in c) + "]"
            elif op == "getends":
                c = self.pl(toks[1]).vertices
                out = "ok [" + ",".join(self.sv(x) for x in c) + "]"
            else:
                w = self.pw(toks[1])
                c = w.edge_whitelist
                out = "ok r%d" % rules_index(w)
                if c is not None:
                    self.keep(*c.values())
            if c is not None:
                self.keep(c)
            return out
        if op == "sattr":
            reps = VALREPS[int(toks[3])]
            setattr(self.pv(toks[1]), attrname(toks[2]), reps[len(self.V) % len(reps)])
            return "ok"
        if op == "attr":
            # attr V<b> <name> tup:V<a> | fs:V<a> | nest:V<a>:V<c> | lst:V<a>:V<c> | same:V<c>.<name>
            b, name, spec = self.pv(toks[1]), toks[2], toks[3].split(":")
            if spec[0] == "tup":
                val = (self.pv(spec[1]),)
            elif spec[0] == "fs":
                val = frozenset([self.pv(spec[1])])
            elif spec[0] == "nest":
                val = (self.pv(spec[1]), (self.pv(spec[2]), 1), "s")
            elif spec[0] == "lst":
                val = [self.pv(spec[1]), {"k": self.pv(spec[2])}]
            elif spec[0] == "cons":
                # a cons list (item, (item, (... None))) nested far deeper than the recursion limit allows
                val = None
                for i in range(int(spec[1])):
                    val = (i % 7, val)
            elif spec[0] == "bound":
                val = self.hook_of(self.pv(spec[1]))
            elif spec[0] == "clos":
                # a local closure (pickled by value) whose cell holds an importable CLASS (pickled by reference)
                def mk(X):
                    def excluding(e, v=None):
                        return not isinstance(e, X)
                    return excluding
                from edgegraph.structure import UnDirectedEdge as _U, DirectedEdge as _D
                val = mk([_U, _D, Vertex][int(spec[1]) % 3])
            elif spec[0] == "ghost":
                # a function pickled BY VALUE together with its globals (its module cannot be imported by name)
                val = getattr(_ghost_module(), ["gf", "lone", "helper"][int(spec[1]) % 3])
            elif spec[0] == "byval":
                val = BYVALUE["Tag"](int(spec[1]))
            elif spec[0] == "big":
                # a large atom (str / bytes): pickle writes payloads >= 64 KiB through a separate path
                n = int(spec[1])
                val = ("\u00e9" * (n // 2)) if spec[2] == "s" else bytes(range(256)) * (n // 256)
            else:
                owner, attr = spec[1].split(".")
                val = getattr(self.pv(owner), attr)
            setattr(b, name, val)
            return "ok"
        if op == "pktrace":
            import props_pickle
            opts = dict(t.split("=") for t in toks[3:])
            sel = opts.get("root", "all")
            root = (self.V, self.L, self.W) if sel == "all" else self.V if sel == "verts" else self.V[int(sel[1:])]
            events, heap, unsupported, _ = props_pickle.spy_dump(root, protocol=int(opts.get("proto", "4")))
            if unsupported or heap != toks[2]:
                return "err HeapDiffers"
            return "ok " + events
        if op == "pkskel":
            import props_pickle
            from edgegraph.output import nrpickler
            opts = dict(t.split("=") for t in toks[3:])
            sel = opts.get("root", "all")
            root = (self.V, self.L, self.W) if sel == "all" else self.V if sel == "verts" else self.V[int(sel[1:])]
            data = nrpickler.dumps(root, protocol=int(opts.get("proto", "4")))
            return "ok " + props_pickle.skeleton(data)
        if op == "mut":
            self.mutate_kept(int(toks[1]), int(toks[2]))
            return "ok"
        if op == "ghold":
            # the GENERATOR form of the traversal named by the rest of the line is requested now and consumed by a later
            # line (`for v in g:` after other statements): nothing is read before the first element is asked for
            t = toks[1:]
            via, res = self.filt2(self.pnat(t[5])), self.vfilt(self.pnat(t[6]))
            fn = {"bft": breadthfirst.ibft, "dftr": depthfirst.idft_recursive, "dfti": depthfirst.idft_iterative}[t[0]]
            kw = dict(direction_sensitive=int(t[3]), unknown_handling=int(t[4]), ff_via=via, ff_result=res)
            held = []
            for _ in range(2):
                try:
                    held.append(fn(self.pv(t[1]), self.pv(t[2]), **kw))
                except Exception as exc:  # noqa: BLE001   (requesting a generator reads nothing, so it cannot fail)
                    held.append(exc)
            if not hasattr(self, "_held"):
                self._held = {}
            self._held[tuple(t[:7])] = (held, via, res)
            return "ok"
        if op in ("bft", "dftr", "dfti"):
            uni, start = self.pv(toks[1]), self.pv(toks[2])
            d, u = int(toks[3]), int(toks[4])
            via, res = self.filt2(self.pnat(toks[5])), self.vfilt(self.pnat(toks[6]))
            held = getattr(self, "_held", {}).pop(tuple(toks[:7]), None) if toks[7] == "gen" else None
            if held:
                held, via, res = held
            for f in (via, res):
                if f is not None:
                    f.count, f.fault_at = 0, None
            kw = dict(direction_sensitive=d, unknown_handling=u, ff_via=via, ff_result=res)
            if toks[7] == "gen":
                fn = {"bft": breadthfirst.ibft, "dftr": depthfirst.idft_recursive,
                      "dfti": depthfirst.idft_iterative}[op]
                out, twin = [], []
                cap = 4 * (len(self.V) + 2) + 8
                try:
                    if held:
                        # requested by an earlier `ghold` line
                        if isinstance(held[0], Exception):
                            raise held[0]
                        it, it2 = held[0], (iter(()) if isinstance(held[1], Exception) else held[1])
                    else:
                        it = fn(uni, start, **kw)
                    # a SECOND generator of the same call is consumed in lock-step with the first
                    # (`zip(ibft(..), ibft(..))`): traversals in flight must not disturb one another
                    try:
                        it2 = it2 if held else fn(uni, start, **kw)
                    except Exception:  # noqa: BLE001   (eager pre-flight failure: the first one raises it too)
                        it2 = iter(())
                    while len(out) <= cap:
                        try:
                            out.append(next(it))
                        except StopIteration:
                            break
                        try:
                            twin.append(next(it2))
                        except StopIteration:
                            twin.append(StopIteration)
                        except Exception:  # noqa: BLE001   (the first generator raises at the same point, below)
                            twin.append(None)
                except Exception as exc:  # noqa: BLE001
                    return "gen [" + ",".join(self.sv(x) for x in out) + "] err " + errname(exc)
                if len(out) > cap:
                    return "gen [" + ",".join(self.sv(x) for x in out[:cap]) + "] lockstep-does-not-terminate"
                if any(a is not b for a, b in zip(out, twin)):
                    return "gen [" + ",".join(self.sv(x) for x in out) + "] lockstep-differs"
                return "gen [" + ",".join(self.sv(x) for x in out) + "] end"
            fn = {"bft": breadthfirst.bft, "dftr": depthfirst.dft_recursive,
                  "dfti": depthfirst.dft_iterative}[op]
            r = fn(uni, start, **kw)
            assert isinstance(r, list)
            out = "ok [" + ",".join(self.sv(x) for x in r) + "]"
            self.keep(r)
            return out
        if op in ("bfs", "dfsr", "dfsi"):
            uni, start = self.pv(toks[1]), self.pv(toks[2])
            attr = attrname(toks[3])
            val = VALREPS[int(toks[4])][0]
            fn = {"bfs": breadthfirst.bfs, "dfsr": depthfirst.dfs_recursive,
                  "dfsi": depthfirst.dfs_iterative}[op]
            r = fn(uni, start, attr, val)
            return "ok " + self.sv(r)
        if op == "adjdict":
            from edgegraph.builder import adjlist
            adj = {}
            if toks[2] != ".":
                for r in toks[2].split(";"):
                    k, vs = r.split(":")
                    adj[self.pv(k)] = [self.pv(v) for v in vs.split(",") if v]
            nL = len(self.L)
            self.keep(adj, *adj.values())
            pairs = [(k, v) for k, vs in adj.items() for v in vs]
            arg = adj
            if not self.keep_mode:
                # the value lists "don't have to be lists -- only iterable objects": generators, tuples
                arg = {k: ((x for x in vs) if i % 3 == 0 else tuple(vs) if i % 3 == 1 else vs)
                       for i, (k, vs) in enumerate(adj.items())}
            u = self.maybe_in_thread(lambda: adjlist.load_adj_dict(arg, linktype=LCLS[toks[1]]))
            return "ok V%d" % self.register_built(u, pairs, nL)
        if op == "adjmat":
            from edgegraph.builder import adjmatrix
            vs = [] if toks[2] == "." else [self.pv(v) for v in toks[2].split(",")]
            # arbitrary truthy / falsy cell values
            # (float('nan') is truthy although it is not equal to itself)
            truthy, falsy = [1, True, 2, "x", [0], float("nan")], [0, False, "", [], None, 0.0]
            matrix = []
            if toks[3] != ".":
                for i, r in enumerate(toks[3].split("/")):
                    matrix.append([(truthy if ch == "1" else falsy)[(i + j) % 6] for j, ch in enumerate(r)])
            nL = len(self.L)
            self.keep(matrix, vs, *matrix)
            u = self.maybe_in_thread(lambda: adjmatrix.load_adj_matrix(matrix, vs, linktype=LCLS[toks[1]]))
            pairs = [(vs[i], vs[j]) for i, row in enumerate(matrix) for j, cell in enumerate(row) if cell]
            return "ok V%d" % self.register_built(u, pairs, nL)
        if op == "randgraph":
            from edgegraph.builder import randgraph as rgmod
            count = int(toks[1])
            conn = None
            if toks[3] != "-":
                p_, q_ = toks[3].split("/")
                conn = int(p_) / int(q_)
            draws = [] if toks[5] == "." else [
                (int(d.split(":")[0]), [int(x) for x in d.split(":")[1].split(",") if x]) for d in toks[5].split(";")]
            u = self.forced_randgraph(rgmod, count, LCLS[toks[2]], conn, toks[4] == "1", draws)
            members = sorted(u.vertices, key=lambda v: v.i)
            for v in members:
                self.reg_v(v)
            pairs = [(members[i], members[j]) for i, (_r, smp) in enumerate(draws) for j in smp]
            return "ok V%d" % self.register_built(u, pairs, len(self.L))
        if op == "plain":
            from edgegraph.output import plaintext
            u = self.pv(toks[1])
            code = lambda x: 0 if x is None else self.vname(x) + 1  # noqa: E731
            if toks[2] == "repr":
                rf = None
            elif toks[2] == "attr":
                rf = self.rf_attr       # ONE long-lived callable that reads the vertex's attribute a0
            elif toks[2] == "dup":
                # labels shared by several vertices; the render function returns OBJECTS (dates, enum members, Decimals in
                # user code) whose str() — what the rendering is — differs from their repr()
                rf = lambda x: _Label("none" if x is None else "w%d" % (self.vname(x) % 2))  # noqa: E731
            elif toks[2] == "num":
                rf = lambda x: code(x) * 5  # noqa: E731
            elif toks[2] == "pad":
                rf = lambda x: "none" if x is None else ("v%d, ", "v%d ", "v%d\n\n")[self.vname(x) % 3] % self.vname(x)  # noqa: E731
            else:
                rf = lambda x: "none" if x is None else "v%d" % self.vname(x)  # noqa: E731
            sort = None
            if toks[2] == "num":
                sort = None if toks[3] == "-" else rf          # the SAME callable object as render function and sort key
            elif toks[3] != "-":
                k = int(toks[3])
                sort = lambda x: (code(x) * (k + 1)) % (3 if k == 1 else 7)  # noqa: E731
            r = plaintext.basic_render(u, rfunc=rf, sort=sort)
            if r is None:
                return "ok none"
            if rf is None:
                for v in self.V:
                    r = r.replace(repr(v), "r%d" % self.vname(v))
            return "ok " + r.replace("\n", "|")
        if op == "puml":
            from edgegraph.output import plantuml
            u = self.pv(toks[1])
            try:
                r = plantuml.render_to_plantuml_src(u, self.puml_options(int(toks[2])))
            except Exception:  # noqa: BLE001
                return "err Error"
            if r is None:
                return "ok none"
            return "ok " + self.parse_puml(r)
        if op in ("pyvis", "pyvisd", "pyvisc"):
            from edgegraph.output import pyvis as egpyvis
            u = self.pv(toks[1])
            rv = lambda v: "v%d" % self.vname(v)  # noqa: E731
            re_ = None if toks[2] == "-" else (lambda e: "e%d" % self.lname(e))
            if op == "pyvisd":
                # the caller's own Network options, among them directed=True
                net = egpyvis.make_pyvis_net(u, rv, re_, network_kwargs={"directed": True, "height": "300px"})
            elif op == "pyvisc":
                net = egpyvis.pyvis_render_customizable(u, rv, re_)
            else:
                net = egpyvis.make_pyvis_net(u, rv, re_)
            nodes = ",".join("%s:%s" % (n["id"], n["label"]) for n in net.nodes)
            edges = ",".join("%s%s%s:%s" % (e["from"], ">" if e.get("arrows") == "to" else "-", e["to"],
                                            e.get("title", "-")) for e in net.get_edges())
            return "ok nodes=[%s] edges=[%s]" % (nodes, edges)
        if op in ("tsnew", "ssnew"):
            classes = self.TS if op == "tsnew" else self.SS
            args, kwargs = SARGS[int(toks[2][1:])]
            self.last_ts = None
            obj = classes[int(toks[1][1:])](*args, **kwargs)
            if op == "tsnew":
                # the object is named by the number its first `__init__` gave it and is NOT kept
                n = getattr(obj, "_eg_n", None)
                name = "T?" if n is None else "T%d" % n
                if n is not None:
                    w = self.Tw.get(n)
                    if w is not None and w() is not None and w() is not obj:
                        name += "'"               # a different object carrying the same number
                    self.Tw[n] = weakref.ref(obj)
                self.last_ts = (n, self.TS.index(type(obj)) if type(obj) in self.TS else -1)
                del obj
                return "ok " + name
            return "ok " + self.inst_name(self.S, obj, "S")
        if op == "tsclear":
            from edgegraph.structure import singleton
            singleton.clear_true_singleton(None if toks[1] == "*" else self.TS[int(toks[1][1:])])
            return "ok"
        if op == "tsobs":
            # public observation only (the instance table is private): the log of `__init__` runs
            names = [c.__name__ for c in self.TS]
            inits = ["%d:%d:%d" % (n, names.index(cn), self.sargs_index(a, kw)) for (n, cn, a, kw) in self.ts_log]
            return "ts inits=[%s]" % ",".join(inits)
        if op == "ssalli":
            # get_all consumed INCREMENTALLY: one item is taken, then another class on the same metaclass
            # constructs, then the rest is taken — the report is the snapshot of the moment of the first item
            from edgegraph.structure import singleton
            it = singleton.get_all_semi_singleton_instances(self.SS[int(toks[1][1:])])
            got = []
            first = next(it, None)
            if first is not None:
                got.append(first)
            args, kwargs = SARGS[int(toks[3][1:])]
            new = self.SS[int(toks[2][1:])](*args, **kwargs)
            got += list(it)
            return "ok [%s] %s" % (",".join(self.inst_name(self.S, o, "S") for o in got), self.inst_name(self.S, new, "S"))
        if op in ("ssadd", "ssdrop", "sscheck", "ssall", "ssclear"):
            from edgegraph.structure import singleton
            if op == "ssadd":
                args, kwargs = SARGS[int(toks[2][1:])]
                singleton.add_mapping(self.S[int(toks[1][1:])], *args, **kwargs)
                return "ok"
            cls = self.SS[int(toks[1][1:])]
            if op == "ssall":
                r = list(singleton.get_all_semi_singleton_instances(cls))
                return "ok [" + ",".join(self.inst_name(self.S, o, "S") for o in r) + "]"
            if op == "ssclear":
                singleton.clear_semi_singleton(cls)
                return "ok"
            args, kwargs = SARGS[int(toks[2][1:])]
            if op == "ssdrop":
                singleton.drop_semi_singleton_mapping(cls, *args, **kwargs)
                return "ok"
            r = singleton.check_semi_singleton_entry_exists(cls, *args, **kwargs)
            return "ok " + ("-" if r is None else self.inst_name(self.S, r, "S"))
        if op == "ssobs":
            # through the PUBLIC functions only (the instance maps are private)
            from edgegraph.structure import singleton
            alls, chks = [], []
            for ci, c in enumerate(self.SS):
                got = sorted(int(self.inst_name(self.S, o, "S")[1:]) for o in singleton.get_all_semi_singleton_instances(c))
                alls.append("%d:%s" % (ci, "+".join(map(str, got))))
            for ci, c in enumerate(self.SS):
                for ai in sorted(SARGS):
                    args, kwargs = SARGS[ai]
                    o = singleton.check_semi_singleton_entry_exists(c, *args, **kwargs)
                    if o is not None:
                        chks.append("%d/%d:%s" % (ci, ai, self.inst_name(self.S, o, "S")[1:]))
            cls = ",".join(str(self.SS.index(type(o))) for o in self.S)
            return "ss all=[%s] chk=[%s] cls=[%s] inits=[%s]" % (",".join(alls), ",".join(chks), cls, ",".join(self.inits_of(self.S, self.SS)))
        return "bad-op " + " ".join(toks)

