"""
tables_ts.py — translation by exhaustive execution for the TRUE SINGLETONS (C18): the complete one-step
transition table over the pool of four classes (16 live-sets x 17 calls = 272 rows), evaluated on the REAL
metaclass on every run of the C18 check and written to lean/EG/Generated/TrueSingletonTable.lean.
"""
import os
import sys

HERE = os.path.dirname(os.path.abspath(__file__))
sys.path.insert(0, HERE)
from tables import write_if_changed, GEN  # noqa: E402
import pool  # noqa: E402

HEADER = """import EG.SingleTableSpec
/-
  GENERATED on every run of the C18 check by harness/tables_ts.py from the real edgegraph code
  in /repo.  Do not edit by hand.
-/
namespace EG
namespace Tab

"""
KIND_ARGS = {0: 1, 1: 9, 2: 10}      # indices into adapter.SARGS: ordinary / __init__ raises / __init__ clears all


def scenario(live, op):
    """fresh classes, the live set built, the call made: (classes, outcome)"""
    from adapter import make_singleton_classes, SARGS
    from edgegraph.structure import singleton
    singleton.clear_true_singleton()
    tlog = []
    ts, _ss = make_singleton_classes([], tlog)
    held = {}
    for c in range(4):
        if live >> c & 1:
            held[c] = ts[c](*SARGS[0][0], **SARGS[0][1])
    n_before = len(tlog)
    if op < 12:
        c, kind = divmod(op, 3)
        args, kwargs = SARGS[KIND_ARGS[kind]]
        try:
            obj = ts[c](*args, **kwargs)
            ran = len(tlog) - n_before
            if c in held and obj is held[c] and ran == 0:
                outcome = 0
            elif (c not in held or obj is not held[c]) and ran == 1 and type(obj) is ts[c]:
                outcome = 1
            else:
                outcome = 9
        except (Exception, pool.Interrupt):  # noqa: BLE001
            outcome = 2
    else:
        singleton.clear_true_singleton(None if op == 16 else ts[op - 12])
        outcome = 3
    return ts, held, tlog, outcome


def rows():
    from adapter import SARGS
    from edgegraph.structure import singleton
    out = []
    for live in range(16):
        for op in range(17):
            _ts, _held, _tlog, outcome = scenario(live, op)
            after = 0
            for c in range(4):
                # replay the same scenario, then ask class c: an existing instance (no __init__) or a new one?
                ts, _h, tlog, _o = scenario(live, op)
                n = len(tlog)
                ts[c](*SARGS[0][0], **SARGS[0][1])
                if len(tlog) == n:
                    after |= 1 << c
            out.append("  ⟨%d, %d, %d, %d⟩" % (live, op, outcome, after))
    singleton.clear_true_singleton()
    return out


def regenerate():
    r = rows()
    text = HEADER + "def implTS : List TSRow := [\n" + ",\n".join(r) + "\n]\n\nend Tab\nend EG\n"
    changed = write_if_changed(os.path.join(GEN, "TrueSingletonTable.lean"), text)
    return len(r), changed


if __name__ == "__main__":
    print(regenerate())
