"""
drift.py — source-drift trigger (no alarm by itself).  For every file a property is anchored in
(properties.jsonl: anchors.files) the hash of its normalised AST (docstrings and comments
removed) is compared with the hash recorded when the mirror model was last transcribed
(harness/ast_hashes.json, committed).  When an anchored file differs, the transcription is most
likely to be out of date, so the check repeats its random correspondence with fresh seeds
(`escalation` times) and says so in the evidence.  A harmless rewrite then costs time, not a
violation.

  /venv/bin/python harness/drift.py --record   (same interpreter as the checks: ast.dump differs between Python versions)
      rewrites ast_hashes.json from the current /repo
"""
import ast
import hashlib
import json
import os
import sys

HERE = os.path.dirname(os.path.abspath(__file__))
VERIF = os.path.dirname(HERE)
HASHES = os.path.join(HERE, "ast_hashes.json")


def norm_hash(path):
    try:
        tree = ast.parse(open(path).read())
    except (OSError, SyntaxError):
        return "unreadable"
    for n in ast.walk(tree):
        if isinstance(n, (ast.FunctionDef, ast.ClassDef, ast.Module, ast.AsyncFunctionDef)):
            b = n.body
            if b and isinstance(b[0], ast.Expr) and isinstance(getattr(b[0], "value", None), ast.Constant) \
                    and isinstance(b[0].value.value, str):
                n.body = b[1:] or [ast.Pass()]
    return hashlib.sha1(ast.dump(tree, include_attributes=False).encode()).hexdigest()


def anchored_files():
    out = {}
    for line in open(os.path.join(VERIF, "properties.jsonl")):
        p = json.loads(line)
        out[p["id"]] = list(p["anchors"]["files"])
    return out


def current(repo):
    files = sorted({f for fs in anchored_files().values() for f in fs})
    return {f: norm_hash(os.path.join(repo, f)) for f in files}


def drifted(prop, repo):
    """anchored files of `prop` whose normalised AST differs from the recorded one"""
    if not os.path.exists(HASHES):
        return []
    rec = json.load(open(HASHES))
    return [f for f in anchored_files().get(prop, []) if rec.get(f) != norm_hash(os.path.join(repo, f))]


if __name__ == "__main__":
    repo = os.environ.get("EG_REPO", "/repo")
    if "--record" in sys.argv:
        json.dump(current(repo), open(HASHES, "w"), indent=1, sort_keys=True)
        print("recorded", len(current(repo)), "files")
    else:
        for p in sorted(anchored_files()):
            print(p, drifted(p, repo))
