"""
props_query.py — checks of C04 (neighbors rules), C09 (find_links), C05 (cache transparency).
"""
import os
import pickle
from adapter import K_TYPED_BOOL, K_TYPED_INT
import subprocess
import sys

import gen
import tables
import witnesses as W
from engine import Check, Violation
from props_struct import all_ops
from edgegraph.structure import Vertex, Universe, TwoEndedLink, DirectedEdge, UnDirectedEdge
from edgegraph.traversal import helpers

HERE = os.path.dirname(os.path.abspath(__file__))


class Unspecified(Exception):
    pass


def rule_neighbors(v, d, u, f):
    """the rule of the C04 statement, re-evaluated link by link (model-free)"""
    res = []
    for link in v.links:
        if not isinstance(link, TwoEndedLink) or len(link.vertices) != 2:
            raise Unspecified()
        a, b = link.vertices
        if a is not v and b is not v:
            raise Unspecified()
        other = b if a is v else a
        if d not in (0, 1, 2):
            raise ValueError()
        if d == 1:
            q = True
        elif issubclass(type(link), UnDirectedEdge):
            q = True
        elif issubclass(type(link), DirectedEdge):
            q = (a is v) if d == 0 else (b is v)
        elif u == 0:
            q = False
        elif u == 1:
            q = True
        else:
            raise NotImplementedError()
        if q and (f is None or f(link, other)):
            res.append(other)
    return res


def rule_find_links(a, b, ds, u, f):
    res = []
    for link in a.links:
        if not isinstance(link, TwoEndedLink) or len(link.vertices) != 2:
            raise Unspecified()
        x, y = link.vertices
        if x is not a and y is not a:
            raise Unspecified()
        other = y if x is a else x
        if other is not b:
            continue
        if not ds:
            q = True
        elif issubclass(type(link), UnDirectedEdge):
            q = True
        elif issubclass(type(link), DirectedEdge):
            q = x is a
        elif u == 0:
            q = False
        elif u == 1:
            q = True
        else:
            raise NotImplementedError()
        if q and (f is None or f(link)):
            res.append(link)
    return res


def query_lines(p, rng, n_filters=2, dirs=(0, 1, 2, 3), unks=(0, 1, 2, 3), flinks=False):
    def short():        # k % 5 == 2 : the adapter passes a NEW callable object for each call
        r = rng.getrandbits(63)
        return str(r - r % 5 + 2)
    def plain():        # k % 7 == 3 : plain functions without closure sharing ONE code object (differing in defaults only)
        r = rng.getrandbits(63)
        r = r - r % 7 + 3
        return str(r + 7 if r % 5 == 2 else r)
    def reentrant():    # k % 11 == 4 : a read-only callback that queries the library while it is being consulted
        r = rng.getrandbits(63)
        r = r - r % 11 + 4
        while r % 5 == 2 or r % 7 == 3:
            r += 11
        return str(r)
    def unhash():       # k % 13 == 5 : a filter callable that cannot be hashed (never cached, nothing raises)
        r = rng.getrandbits(63)
        return str(r - r % 13 + 5)
    masks = ["-"] + [str(rng.getrandbits(64)) for _ in range(n_filters)] + ["0", str(2 ** 64 - 1), short(), short(), short(),
                                                                             plain(), plain(), reentrant(), unhash()]
    out = []
    # a filter that raises (an ordinary exception, or a StopIteration: `next(it)` on an exhausted iterator) at its
    # first or second invocation: the call must propagate it, never return a partial answer
    fm = rng.getrandbits(63)
    while fm % 5 == 2 or fm % 7 == 3 or fm % 11 == 4:
        fm += 1
    for v in p.verts():
        for k in (1, 2):
            if not flinks:
                out.append("nbrs %s %d 1 %d %d" % (v, rng.choice([0, 1, 2]), fm, k))
            else:
                for b in p.verts()[:2]:
                    out.append("flinks %s %s %d 1 %d %d" % (v, b, rng.choice([0, 1]), fm, k))
    for v in p.verts():
        if not flinks:
            for d in dirs:
                for u in unks:
                    for m in masks:
                        out.append("nbrs %s %d %d %s" % (v, d, u, m))
        else:
            for b in p.verts():
                for ds in (0, 1):
                    for u in unks:
                        for m in masks:
                            out.append("flinks %s %s %d %d %s" % (v, b, ds, u, m))
    return out


class QueryBase(Check):
    flinks = False
    assumptions = ["filter callbacks are pure functions of the identities of their arguments",
                   "vertices/links use the default identity __eq__/__hash__"]

    def worlds(self, tier, rng, real):
        """yield (lines, pool) of graph-building scripts (already run on `real`)"""
        quick = tier == "quick"
        for _name, lines, pool in gen.struct_seeds():
            outs = [real.step(l) for l in lines]
            yield lines, outs, pool
            for op in list(gen.struct_ops(pool, classes=("D", "U", "X", "DD", "UU", "DU"), with_bad=False)):
                if quick and rng.random() < 0.8:
                    continue
                ls = lines + [op]
                outs = [real.step(l) for l in ls]
                yield ls, outs, pool.after(op, outs[-1])
        for _ in range(180 if quick else 2500):
            lines, outs = gen.random_history(rng, real, all_ops, rng.randint(3, 25), audit=())
            p = gen.Pool()
            for l, o in zip(lines, outs):
                p = p.after(l, o)
            yield lines, outs, p

    def batches(self, tier, rng, real):
        real.inner.plain_filters = True      # no faults and no pickling in these scripts
        for lines, outs, pool in self.worlds(tier, rng, real):
            qs = query_lines(pool, rng, flinks=self.flinks)
            cap = 400 if tier == "quick" else 1500
            if len(qs) > cap:
                qs = rng.sample(qs, cap)
            if rng.random() < 0.3:
                qs = ["flag on"] + qs
            sc, so = lines + qs, outs + [real.step(q) for q in qs]
            # second phase: a few more mutations (memos may be warm by now), then the queries again
            if rng.random() < 0.5:
                p2 = pool
                for _ in range(rng.randint(1, 3)):
                    cands = list(gen.struct_ops(p2, classes=("D", "U", "X", "DU"), with_bad=False, with_vertex=False))
                    op = rng.choice(cands)
                    sc.append(op)
                    so.append(real.step(op))
                    p2 = p2.after(op, so[-1])
                q2 = query_lines(p2, rng, flinks=self.flinks)
                q2 = rng.sample(q2, min(len(q2), cap // 2))
                sc += q2
                so += [real.step(q) for q in q2]
            yield sc, so

    def search(self, tier, rng, real, v):
        yield from self.batches("quick", rng, real)


class C04(QueryBase):
    id = "C04"
    modules = ["EG.Props.C04Table", "EG.Props.C04"]

    def witnesses(self):
        return [("D5", W.D5)]

    def regenerate(self, log):
        n, changed = tables.regenerate_nb()
        log["table_rows"] = n
        log["table_changed_since_last_run"] = changed
        return None

    def oracle(self, real, line, out, pre):
        t = line.split()
        if t[0] == "nbrs" and len(t) > 5:
            f = real.filt2(real.pnat(t[4]))
            if out.startswith("ok") and getattr(f, "count", 0) >= int(t[5]):
                return "%s returned (%s) although its filter raised at invocation %s" % (line, out, t[5])
            return None
        if t[0] != "nbrs" or len(t) > 5:
            return None
        v, d, u = real.pv(t[1]), int(t[2]), int(t[3])
        f = real.filt2(real.pnat(t[4]))
        try:
            want = rule_neighbors(v, d, u, f)
            wout = "ok [" + ",".join(real.sv(x) for x in want) + "]"
        except Unspecified:
            return None
        except NotImplementedError:
            wout = "err NotImplementedError"
        except ValueError:
            wout = "err ValueError"
        if out != wout:
            return "%s answered %s, the documented rule gives %s" % (line, out, wout)
        # FORWARD / BACKWARD duality (no filter)
        if d == 0 and f is None and out.startswith("ok"):
            for w in real.V:
                try:
                    back = helpers.neighbors(w, 2, u, None)
                    rule_neighbors(w, 2, u, None)
                except Exception:  # noqa: BLE001
                    continue
                if sum(1 for x in want if x is w) != sum(1 for x in back if x is v):
                    return "duality: %s occurs %d times FORWARD of %s but %s occurs %d times BACKWARD" % (
                        real.sv(w), sum(1 for x in want if x is w), real.sv(v), real.sv(v),
                        sum(1 for x in back if x is v))
        return None


class C09(QueryBase):
    id = "C09"
    modules = ["EG.Props.C09Table", "EG.Props.C09", "EG.Props.C09Unlink"]
    flinks = True

    def witnesses(self):
        return [("D5", W.D5)]

    def regenerate(self, log):
        n, changed = tables.regenerate_fl()
        log["table_rows"] = n
        log["table_changed_since_last_run"] = changed
        return None

    def batches(self, tier, rng, real):
        yield from QueryBase.batches(self, tier, rng, real)
        # after unlink(a, b): empty for every setting; other pairs still found
        for lines, outs, pool in self.worlds("quick", rng, real):
            vs = pool.verts()
            if len(vs) < 2:
                continue
            a, b = rng.choice(vs), rng.choice(vs)
            more = ["unlink %s %s %s" % (a, b, rng.choice(["keep", "destroy"]))]
            for x in vs:
                for y in vs:
                    for ds in (0, 1):
                        for u in (0, 1, 2):
                            more.append("flinks %s %s %d %d -" % (x, y, ds, u))
            yield lines + more, outs + [real.step(q) for q in more]

    def pre(self, real, line):
        t = line.split()
        if t[0] == "unlink":
            snap = {}
            for x in real.V:
                for y in real.V:
                    try:
                        rule_find_links(x, y, False, 0, None)      # only pairs the statement speaks about
                        snap[(id(x), id(y))] = set(map(id, helpers.find_links(x, y, direction_sensitive=False)))
                    except Exception:  # noqa: BLE001
                        snap[(id(x), id(y))] = None
            return snap
        return None

    def oracle(self, real, line, out, pre):
        t = line.split()
        if t[0] == "unlink" and out.startswith("ok") and pre is not None:
            a, b = real.pv(t[1]), real.pv(t[2])
            for ds in (False, True):
                for u in (0, 1, 2):
                    try:
                        r = helpers.find_links(a, b, ds, u)
                    except Exception as exc:  # noqa: BLE001
                        return "after %s find_links raised %s" % (line, type(exc).__name__)
                    if len(r) != 0:
                        return "after %s find_links(ds=%s, unk=%d) is not empty" % (line, ds, u)
            for x in real.V:
                for y in real.V:
                    if {id(x), id(y)} == {id(a), id(b)} or pre[(id(x), id(y))] is None:
                        continue
                    try:
                        rule_find_links(x, y, False, 0, None)     # only pairs the statement speaks about
                        now = set(map(id, helpers.find_links(x, y, direction_sensitive=False)))
                    except Unspecified:
                        continue
                    except Exception:  # noqa: BLE001
                        now = None
                    if now != pre[(id(x), id(y))]:
                        return "%s changed the links found between another pair" % line
            return None
        if t[0] == "flinks" and len(t) > 6:
            f = real.filt1(real.pnat(t[5]))
            if out.startswith("ok") and getattr(f, "count", 0) >= int(t[6]):
                return "%s returned (%s) although its filter raised at invocation %s" % (line, out, t[6])
            return None
        if t[0] != "flinks" or len(t) > 6:
            return None
        a, b, ds, u = real.pv(t[1]), real.pv(t[2]), t[3] == "1", int(t[4])
        f = real.filt1(real.pnat(t[5]))
        try:
            want = rule_find_links(a, b, ds, u, f)
            wout = "ok [" + ",".join("L%d" % i for i in sorted(real.lname(l) for l in want)) + "]"
        except Unspecified:
            return None
        except NotImplementedError:
            wout = "err NotImplementedError"
        if out != wout:
            return "%s answered %s, the statement gives %s" % (line, out, wout)
        if out.startswith("ok"):
            f2 = None if f is None else (lambda e, v, f=f: f(e))
            try:
                nb = helpers.neighbors(a, 0 if ds else 1, u, f2)
            except Exception:  # noqa: BLE001
                return None
            if sum(1 for x in nb if x is b) != len(want):
                return "%s has %d links but %s occurs %d times in neighbors()" % (
                    line, len(want), real.sv(b), sum(1 for x in nb if x is b))
        return None


# ---------------------------------------------------------------------------
# C05

AUDIT_KEYS = [(0, 2, "-"), (1, 1, "-"), (2, 0, "-"), (0, 1, "F"), (1, 0, "F")]


def cache_extra(p, rng):
    yield "flag on"
    yield "flag on"
    yield "flag off"
    vs = p.verts()
    if vs:
        v = rng.choice(vs)
        d, u, m = rng.choice(AUDIT_KEYS)
        yield "nbrs %s %d %d %s" % (v, d, u, "-" if m == "-" else "12297829382473034410")
        if len(vs) > 0:
            yield "bft - %s %d %d - - list" % (v, rng.choice([0, 1, 2]), rng.choice([0, 1]))
            yield "dfti - %s 1 1 - - list" % v
            yield "bfs - %s 0 1" % v
        us = p.universes()
        if us:
            # membership changes from either side (what a universe-restricted traversal lists depends on them)
            u, x = rng.choice(us), rng.choice(vs)
            yield "%s %s %s" % (rng.choice(["uadd", "urem"]), u, x)
            yield "%s %s %s" % (rng.choice(["vadd", "vrem"]), x, u)


class C05(Check):
    id = "C05"
    modules = ["EG.Props.C05", "EG.Props.C05Trav", "EG.Props.C05Copy"]
    assumptions = QueryBase.assumptions + [
        "a filter on a vertex ATTRIBUTE that later changes is outside 'graph mutations'",
        "fresh-interpreter loading is modelled as an isomorphic copy of the world (EG.Copy; theorems in C05Copy) and exercised "
        "in a subprocess; that un-pickling restores exactly the pickled attribute dictionaries is trusted (pickle/dill) / C10's subject"]

    def witnesses(self):
        return [("D6", W.D6), ("D7", W.D7), ("D7b", W.D7b), ("D18", W.D18)]

    def audit(self, real, p, rng):
        lines = []
        mask = "12297829382473034410"
        for v in p.verts():
            if rng.random() < 0.5:
                # FIRST (memos possibly cold): a read-only filter that calls neighbors() on the vertex being expanded
                # while it is consulted (k % 11 == 4); then the plain query whose memo slot the nested call used
                e = rng.getrandbits(62)
                e = e - e % 11 + 4
                while e % 5 == 2 or e % 7 == 3:
                    e += 11
                lines.append("nbrs %s %d 1 %d" % (v, rng.choice([0, 2]), e))
                lines.append("nbrs %s 1 1 -" % v)
            for d, u, m in AUDIT_KEYS:
                lines.append("nbrs %s %d %d %s" % (v, d, u, "-" if m == "-" else mask))
            # a filter callable that cannot be hashed (k % 13 == 5), twice: answered, never cached, nothing raises
            g = rng.getrandbits(62)
            g = g - g % 13 + 5
            lines.append("nbrs %s 1 1 %d" % (v, g))
            lines.append("nbrs %s 1 1 %d" % (v, g))
            # two different SHORT-LIVED filter objects (k % 5 == 2) under the same other arguments, back to back
            a, b = rng.getrandbits(62), rng.getrandbits(62)
            lines.append("nbrs %s 1 1 %d" % (v, a - a % 5 + 2))
            lines.append("nbrs %s 1 1 %d" % (v, b - b % 5 + 2))
            # two different PLAIN functions compiled from the same code (k % 7 == 3; defaults differ), back to back
            c, d = rng.getrandbits(62), rng.getrandbits(62)
            for k in (c - c % 7 + 3, d - d % 7 + 3):
                lines.append("nbrs %s 1 1 %d" % (v, k + 7 if k % 5 == 2 else k))
            # partial(f, True) and partial(f, 1): equal bound arguments, different filters, back to back
            lines.append("nbrs %s 1 1 %d" % (v, K_TYPED_BOOL))
            lines.append("nbrs %s 1 1 %d" % (v, K_TYPED_INT))
        # traversals and searches RESTRICTED TO A UNIVERSE: what they list depends on membership as well as on links,
        # and membership changes (from either side) are among the mutations of the histories
        # (the SAME queries in every audit of a history: an answer remembered before a membership change is asked again)
        for u in p.universes()[:2]:
            for v in p.verts()[:4]:
                lines.append("bft %s %s 1 1 - - list" % (u, v))
                if rng.random() < 0.3:
                    lines.append("%s %s %s 0 1" % (rng.choice(["bfs", "dfsr"]), u, v))
        return lines

    def history(self, rng, real, length, fresh_at=None):
        lines, outs = [], []
        p = gen.Pool()

        def do(op):
            nonlocal p
            lines.append(op)
            outs.append(real.step(op))
            p = p.after(op, outs[-1])
        do("reset")
        if rng.random() < 0.7:
            do("flag on")
        for _ in range(rng.randint(2, 4)):
            do("universe" if rng.random() < 0.2 else "vertex " + rng.choice(["V", "SV", "FV"]))
        for u in p.universes():
            for x in p.verts():
                if rng.random() < 0.7:
                    do("uadd %s %s" % (u, x))        # universes start populated
        for _ in range(length):
            cands = list(all_ops(p)) if rng.random() < 0.3 else list(gen.struct_ops(p, classes=("D", "U", "X")))
            cands = [c for c in cands if not c.startswith("vertex V l=")] or cands
            if rng.random() < 0.35:
                cands = list(cache_extra(p, rng))
            if rng.random() < 0.12:
                # the caller edits a list it was handed earlier; no later answer may change
                cands = ["mut %d %d" % (rng.randrange(10 ** 6), rng.randrange(10 ** 6))]
            do(rng.choice(cands))
            if rng.random() < 0.6:
                was_on = Vertex.NEIGHBOR_CACHING
                if not was_on and rng.random() < 0.5:
                    continue
                for q in self.audit(real, p, rng):
                    do(q)
        return lines, outs

    def batches(self, tier, rng, real):
        real.inner.keep_mode = True        # results handed out are kept so that the caller can edit them (`mut`)
        try:
            yield from self._batches(tier, rng, real)
        finally:
            real.inner.keep_mode = False

    def _batches(self, tier, rng, real):
        quick = tier == "quick"
        # audit mode on the structure seeds: every op instance, caches warmed before and audited after
        for _name, lines, pool in gen.struct_seeds():
            for op in gen.struct_ops(pool, classes=("D", "X"), with_bad=False):
                if quick and rng.random() < 0.6:
                    continue
                sc = [lines[0], "flag on"] + lines[1:]
                outs = [real.step(l) for l in sc]
                warm = self.audit(real, pool, rng)
                outs += [real.step(l) for l in warm]
                outs.append(real.step(op))
                p2 = pool.after(op, outs[-1])
                aud = self.audit(real, p2, rng)
                outs += [real.step(l) for l in aud]
                yield sc + warm + [op] + aud, outs
        real.inner.plain_filters = True
        for _ in range(1000 if quick else 8000):
            yield self.history(rng, real, rng.randint(3, 14 if quick else 40))
        real.inner.plain_filters = False
        # process boundary: pickle with warm caches, load in a fresh interpreter, query with caching on
        for _ in range(4 if quick else 60):
            v = self.fresh_roundtrip(rng, real)
            if v is not None:
                self._fresh_violations.append(v)

    def memo_traffic_probe(self, rng, n):
        """SOFT tie (never an alarm): the model's traversals and searches go through the memo exactly where the real
        ones do (EG.TravState).  What a traversal wrote is visible through a later neighbors() call whose filter raises
        at its first invocation: a memo hit answers without consulting the filter.  Real code and model are compared
        on such scripts; the counts go into the evidence.  A disagreement only means that the code's memo TRAFFIC is
        no longer the modelled one (e.g. traversals bypass the memo) — the property does not speak about that."""
        import run as runmod
        from adapter import Real
        real = Real()
        real.long_lived_filters = True      # one filter object per table (a new object per call is a new memo key)
        agree = total = 0
        first = None
        for _ in range(n):
            nv = rng.randint(2, 4)
            sc = ["reset", "flag on"] + ["vertex V"] * nv
            for _e in range(rng.randint(1, 5)):
                sc.append("edge %s V%d V%d" % (rng.choice(["D", "U", "X"]), rng.randrange(nv), rng.randrange(nv)))
            m = str(rng.getrandbits(64))
            d, u = rng.choice([0, 1, 2]), rng.choice([0, 1])
            kind = rng.choice(["bft", "dftr", "dfti"])
            sc.append("%s - V%d %d %d %s - %s" % (kind, rng.randrange(nv), d, u, m, rng.choice(["list", "gen"])))
            sc.append("%s - V%d 0 %d" % (rng.choice(["bfs", "dfsr", "dfsi"]), rng.randrange(nv), rng.choice([0, 1])))
            for v in range(nv):
                sc.append("nbrs V%d %d %d %s 1" % (v, d, u, m))
            outs = [real.step(l) for l in sc]
            _n, divs = runmod.compare([sc], [outs])
            total += 1
            if not divs:
                agree += 1
            elif first is None:
                first = repr(divs[0])[:300]
        return {"scripts": total, "agree": agree, "first_disagreement": first,
                "note": "soft tie of the memo traffic of traversals (EG.TravState); never raises an alarm"}

    def extra_violations(self, stats):
        stats.extra["fresh_interpreter_roundtrips"] = getattr(self, "fresh_runs", 0)
        try:
            import random as _r
            stats.extra["memo_traffic"] = self.memo_traffic_probe(_r.Random(12345), 40)
        except Exception as exc:  # noqa: BLE001
            stats.extra["memo_traffic"] = {"error": repr(exc)[:200]}
        v, self._fresh_violations = self._fresh_violations, []
        for m in self.many_keys_probe(stats):
            v.append(Violation("oracle", m, ["sweep:" + m[:70]]))
        return v

    @staticmethod
    def many_keys_probe(stats):
        """hundreds of DISTINCT long-lived filters on one vertex (every one a memo key), flag toggles and mutations in
        between, a builder call that fails half-way before it all: every cached answer equals a recomputation"""
        from edgegraph.builder import adjlist
        out = []
        old = Vertex.NEIGHBOR_CACHING
        try:
            # a builder that raises in the middle of its loop (a lazily parsed adjacency hitting a malformed record)
            Vertex.NEIGHBOR_CACHING = True
            p, q = Vertex(), Vertex()

            class Lazy(dict):
                def items(self):
                    yield p, [q]
                    raise KeyError("malformed record")
            try:
                adjlist.load_adj_dict(Lazy({p: [q]}))
            except Exception:  # noqa: BLE001
                pass
            hub = Vertex()
            leaves = [Vertex() for _ in range(4)]
            es = [DirectedEdge(hub, x) for x in leaves[:3]]
            filters = [(lambda e, x, i=i: (i + id(x)) % 3 != 0) for i in range(300)]

            def audit(label):
                for i, f in enumerate(filters):
                    got = [id(x) for x in helpers.neighbors(hub, 1, 1, f)]
                    Vertex.NEIGHBOR_CACHING = False
                    want = [id(x) for x in helpers.neighbors(hub, 1, 1, f)]
                    Vertex.NEIGHBOR_CACHING = True
                    if got != want:
                        return "%s: neighbors(hub) with filter %d of 300 answers %d vertices cached, %d recomputed" % (label, i, len(got), len(want))
                got = [id(x) for x in helpers.neighbors(hub)]
                Vertex.NEIGHBOR_CACHING = False
                want = [id(x) for x in helpers.neighbors(hub)]
                Vertex.NEIGHBOR_CACHING = True
                return None if got == want else "%s: neighbors(hub) answers %d vertices cached, %d recomputed" % (label, len(got), len(want))
            steps = [("300 filters asked", lambda: None),
                     ("then a link added", lambda: es.append(DirectedEdge(hub, leaves[3]))),
                     ("then the flag switched off, a link re-pointed, the flag switched on",
                      lambda: (setattr(Vertex, "NEIGHBOR_CACHING", False), setattr(es[0], "v2", leaves[3]), setattr(Vertex, "NEIGHBOR_CACHING", True))),
                     ("then a link removed from the vertex side", lambda: hub.remove_from_link(es[1])),
                     ("then explicit.unlink", lambda: __import__("edgegraph.builder.explicit", fromlist=["x"]).unlink(hub, leaves[2]))]
            label = ""
            for name, act in steps:
                act()
                label = (label + "; " + name) if label else name
                for _rep in range(2):
                    m = audit(label)
                    if m:
                        out.append(m)
                        break
                if out:
                    break
        finally:
            Vertex.NEIGHBOR_CACHING = old
        stats.extra["many_keys_probe"] = "run"
        return out

    _fresh_violations = []

    def fresh_roundtrip(self, rng, real):
        from edgegraph.output import nrpickler
        real.inner.plain_filters = False     # these worlds are pickled with warm memos (keys hold the filter objects)
        lines, outs = self.history(rng, real, rng.randint(3, 10))
        inner = real.inner
        p = gen.Pool()
        for l, o in zip(lines, outs):
            p = p.after(l, o)
        queries = self.audit(real, p, rng)
        expected = []
        old = Vertex.NEIGHBOR_CACHING
        Vertex.NEIGHBOR_CACHING = False
        try:
            for q in queries:
                expected.append(inner.step(q))
        finally:
            Vertex.NEIGHBOR_CACHING = old
        # warm some caches, then pickle
        Vertex.NEIGHBOR_CACHING = True
        for q in queries[::2]:
            inner.step(q)
        try:
            data = nrpickler.dumps((inner.V, inner.L, inner.W))
        except Exception as exc:  # noqa: BLE001
            return Violation("oracle", "nrpickler.dumps raised %s on a graph built by: %s" % (
                type(exc).__name__, lines), lines + ["fresh"])
        finally:
            Vertex.NEIGHBOR_CACHING = old
        # queries with unpicklable filter objects are asked without the filter
        qs = [q for q in queries if q.endswith(" -")]
        exp = [e for q, e in zip(queries, expected) if q.endswith(" -")]
        code = (
            "import sys, pickle\n"
            "sys.path.insert(0, %r); sys.path.insert(0, %r)\n"
            "import adapter\n"
            "from edgegraph.structure import Vertex\n"
            "r = adapter.Real()\n"
            "n, mode = sys.stdin.buffer.readline().split()\n"
            "n = int(n)\n"
            "V, L, W = pickle.loads(sys.stdin.buffer.read(n))\n"
            "for v in V: r.reg_v(v)\n"
            "for l in L: r.reg_l(l)\n"
            "for w in W: r.reg_w(w)\n"
            "Vertex.NEIGHBOR_CACHING = True\n"
            "qs = [q for q in sys.stdin.buffer.read().decode().split('\\n') if q]\n"
            "# mode b'qfirst': the loaded graph is queried first; b'mutfirst': it is MUTATED before its first query\n"
            "if mode == b'qfirst':\n"
            "    for q in qs: print(r.step(q)); print(r.step(q))\n"
            "# mutate the loaded graph here, then every answer must still equal a recomputation\n"
            "muts = ['edge D V0 V%%d' %% (len(V) - 1), 'setv2 L0 V0', 'unlink V0 V%%d destroy' %% (len(V) - 1), 'edge U V0 V0']\n"
            "for m in muts:\n"
            "    r.step(m)\n"
            "    for q in qs:\n"
            "        a = r.step(q)\n"
            "        Vertex.NEIGHBOR_CACHING = False\n"
            "        b = r.step(q)\n"
            "        Vertex.NEIGHBOR_CACHING = True\n"
            "        if a != b: print('STALE after %%s: %%s answered %%s, recomputed %%s' %% (m, q, a, b))\n"
        ) % (os.environ.get("EG_REPO", "/repo"), HERE)
        mutfirst = getattr(self, "fresh_runs", 0) % 2 == 1
        inp = str(len(data)).encode() + (b" mutfirst" if mutfirst else b" qfirst") + b"\n" + data + "\n".join(qs).encode()
        pr = subprocess.run([sys.executable, "-c", code], input=inp, stdout=subprocess.PIPE,
                            stderr=subprocess.PIPE, check=False)
        got = pr.stdout.decode().split("\n")
        self.fresh_runs = getattr(self, "fresh_runs", 0) + 1
        stale = [g for g in got if g.startswith("STALE")]
        if stale:
            return Violation("oracle", "in a fresh interpreter (caching on) after un-pickling: " + stale[0], lines + ["fresh"])
        if pr.returncode != 0:
            return Violation("oracle", "the fresh interpreter failed on the un-pickled graph: " + pr.stderr.decode()[-300:], lines + ["fresh"])
        for i, q in enumerate([] if mutfirst else qs):
            for rep in (0, 1):
                g = got[2 * i + rep] if 2 * i + rep < len(got) else "<no answer: %s>" % pr.stderr.decode()[-300:]
                if g != exp[i] and not (g.startswith("err ") and exp[i].startswith("err ")):
                    return Violation(
                        "oracle",
                        "after un-pickling in a fresh interpreter with caching on, %s answered %s (call %d); "
                        "recomputed in the original: %s" % (q, g, rep + 1, exp[i]), lines + ["fresh", q])
        return None

    def search(self, tier, rng, real, v):
        for _ in range(300):
            yield self.history(rng, real, rng.randint(3, 12))

    def oracle(self, real, line, out, pre):
        t = line.split()
        if not Vertex.NEIGHBOR_CACHING:
            return None
        if t[0] == "nbrs" and len(t) <= 5:
            v, d, u = real.pv(t[1]), int(t[2]), int(t[3])
            f = real.filt2(real.pnat(t[4]))
            Vertex.NEIGHBOR_CACHING = False
            try:
                try:
                    want = "ok [" + ",".join(real.sv(x) for x in helpers.neighbors(v, d, u, f)) + "]"
                except Exception as exc:  # noqa: BLE001
                    from adapter import errname
                    want = "err " + errname(exc)
            finally:
                Vertex.NEIGHBOR_CACHING = True
            if out != want:
                return "with caching on %s answered %s; recomputed with caching off: %s" % (line, out, want)
        elif t[0] in ("bft", "dftr", "dfti", "bfs", "dfsr", "dfsi"):
            Vertex.NEIGHBOR_CACHING = False
            try:
                want = real.step(line)
            finally:
                Vertex.NEIGHBOR_CACHING = True
            if out != want:
                return "with caching on %s answered %s; with caching off: %s" % (line, out, want)
        return None


CHECKS = {c.id: c for c in (C04, C09, C05)}
