#!/usr/bin/env python3
"""
Minimal witnesses of the genuine defects D1..D15 found on the pinned tree
(DESIGN.md section 1).  Each function returns True when the *property holds*
on the witness, False when the defect shows.  Used (a) to confirm each `fix:`
commit (fails before, passes after) and (b) as the regression corpus that every
check runs first.

Run:  /venv/bin/python harness/witnesses.py        (prints one line per witness)
"""
import sys, os, subprocess, pickle

sys.path.insert(0, os.environ.get("EG_REPO", "/repo"))

from edgegraph.structure import (  # noqa: E402
    Vertex, Universe, DirectedEdge, UnDirectedEdge, TwoEndedLink, Link,
)
from edgegraph.structure import singleton  # noqa: E402
from edgegraph.structure.universe import UniverseLaws  # noqa: E402
from edgegraph.traversal import helpers, breadthfirst, depthfirst  # noqa: E402
from edgegraph.builder import explicit, randgraph  # noqa: E402
from edgegraph.output import plaintext, nrpickler  # noqa: E402


class Unk(TwoEndedLink):
    pass


class NLink(Link):
    pass


def sym(verts, links):
    for v in verts:
        if len(set(map(id, v.links))) != len(v.links):
            return False
        for l in links:
            if (l in v.links) != any(x is v for x in l.vertices):
                return False
    return True


def D1():
    a, b = Vertex(), Vertex()
    e = DirectedEdge(a, a)
    e.v2 = b
    ok = sym([a, b], [e]) and e.vertices == (a, b)
    a2, b2 = Vertex(), Vertex()
    e2 = DirectedEdge(a2, a2)
    e2.v1 = b2
    return ok and sym([a2, b2], [e2]) and e2.vertices == (b2, a2)


def D2():
    a = Vertex()
    e = DirectedEdge(a, a)
    a.remove_from_link(e)
    ok = sym([a], [e])
    b = Vertex()
    n = NLink(vertices=[b, b, b])
    n.unlink_from(b)
    return ok and sym([b], [n])


def D3():
    a, b, c, d = Vertex(), Vertex(), Vertex(), Vertex()
    e = DirectedEdge(a, b)
    e.add_vertex(c)
    e.v2 = d
    return sym([a, b, c, d], [e])


def D4():
    a, b, c = Vertex(), Vertex(), Vertex()
    e = DirectedEdge(a, b)
    f = DirectedEdge(a, c)
    e.v1 = a
    return a.links == (e, f)


def D5():
    a, b = Vertex(), Vertex()
    u = Unk(a, b)
    rej = lambda e, v: False
    r1 = helpers.neighbors(a, helpers.DIR_SENS_FORWARD, helpers.LNK_UNKNOWN_NEIGHBOR, rej)
    r2 = helpers.neighbors(b, helpers.DIR_SENS_BACKWARD, helpers.LNK_UNKNOWN_NEIGHBOR, rej)
    r3 = helpers.find_links(a, b, True, helpers.LNK_UNKNOWN_NEIGHBOR, lambda e: False)
    return r1 == [] and r2 == [] and len(r3) == 0


def _with_cache(fn):
    old = Vertex.NEIGHBOR_CACHING
    Vertex.NEIGHBOR_CACHING = True
    try:
        return fn()
    finally:
        Vertex.NEIGHBOR_CACHING = old


def D6():
    def run():
        ok = True
        a, b, c = Vertex(), Vertex(), Vertex()
        e = DirectedEdge(a, b)
        helpers.neighbors(a)
        e.v2 = c
        ok &= helpers.neighbors(a) == [c]
        a, b, c = Vertex(), Vertex(), Vertex()
        e = DirectedEdge(a, b)
        helpers.neighbors(b, helpers.DIR_SENS_BACKWARD)
        e.v1 = c
        ok &= helpers.neighbors(b, helpers.DIR_SENS_BACKWARD) == [c]
        a, b, c = Vertex(), Vertex(), Vertex()
        n = Unk(a, b)
        n.add_vertex(c)
        helpers.neighbors(b, helpers.DIR_SENS_ANY)
        n.unlink_from(a)
        Vertex.NEIGHBOR_CACHING = False
        want = helpers.neighbors(b, helpers.DIR_SENS_ANY)
        Vertex.NEIGHBOR_CACHING = True
        ok &= helpers.neighbors(b, helpers.DIR_SENS_ANY) == want
        # flag toggling
        a, b = Vertex(), Vertex()
        helpers.neighbors(a)
        Vertex.NEIGHBOR_CACHING = False
        DirectedEdge(a, b)
        Vertex.NEIGHBOR_CACHING = True
        ok &= helpers.neighbors(a) == [b]
        return ok
    return _with_cache(run)


def D7():
    a, b = Vertex(), Vertex()
    DirectedEdge(a, b)
    data = nrpickler.dumps([a, b])
    code = (
        "import sys,pickle; sys.path.insert(0, %r)\n"
        "from edgegraph.structure import Vertex\n"
        "from edgegraph.traversal import helpers\n"
        "Vertex.NEIGHBOR_CACHING=True\n"
        "a,b=pickle.loads(sys.stdin.buffer.read())\n"
        "assert helpers.neighbors(a)==[b]\n"
        "assert helpers.neighbors(a)==[b]\n"
    ) % os.environ.get("EG_REPO", "/repo")
    p = subprocess.run([sys.executable, "-c", code], input=data, capture_output=True)
    return p.returncode == 0


def D7b():
    """a graph pickled WITH a warm neighbor cache, loaded in a fresh interpreter with caching on:
    the first query is a cache hit there"""
    def run():
        a, b = Vertex(), Vertex()
        DirectedEdge(a, b)
        helpers.neighbors(a)
        helpers.neighbors(b, helpers.DIR_SENS_BACKWARD)
        return nrpickler.dumps([a, b])
    data = _with_cache(run)
    code = (
        "import sys,pickle; sys.path.insert(0, %r)\n"
        "from edgegraph.structure import Vertex\n"
        "from edgegraph.traversal import helpers, breadthfirst\n"
        "Vertex.NEIGHBOR_CACHING=True\n"
        "a,b=pickle.loads(sys.stdin.buffer.read())\n"
        "assert helpers.neighbors(a)==[b]\n"
        "assert helpers.neighbors(b, helpers.DIR_SENS_BACKWARD)==[a]\n"
        "assert breadthfirst.bft(None, a)==[a,b]\n"
    ) % os.environ.get("EG_REPO", "/repo")
    p = subprocess.run([sys.executable, "-c", code], input=data, capture_output=True)
    return p.returncode == 0


def D8():
    def run():
        a, b, c = Vertex(), Vertex(), Vertex()
        DirectedEdge(a, b)
        r = helpers.neighbors(a)
        r.append(c)
        ok = helpers.neighbors(a) == [b]
        r2 = helpers.neighbors(a)
        r2.append(c)
        ok &= helpers.neighbors(a) == [b]
        return ok
    ok = _with_cache(run)
    wl = {Vertex: {Vertex: DirectedEdge}}
    L = UniverseLaws(edge_whitelist=wl)
    wl[Vertex][Universe] = UnDirectedEdge
    wl[Universe] = {}
    ew = L.edge_whitelist
    return ok and set(ew.keys()) == {Vertex} and set(ew[Vertex].keys()) == {Vertex}


class Falsy(Vertex):
    def __bool__(self):
        return False


def D9():
    s, m, t = Vertex(), Vertex(), Falsy(attributes={"i": 2})
    DirectedEdge(s, m)
    DirectedEdge(m, t)
    return depthfirst.dfs_recursive(None, s, "i", 2) is t


def D10():
    a, b = Vertex(), Vertex()
    t = (a,)
    b.ref = t
    a.t = t
    try:
        data = nrpickler.dumps([b, a])
    except AssertionError:
        return False
    b2, a2 = pickle.loads(data)
    ok = b2.ref is a2.t and b2.ref[0] is a2
    a, b = Vertex(), Vertex()
    t = frozenset([a])
    b.ref = t
    a.t = t
    try:
        data = nrpickler.dumps([b, a])
    except AssertionError:
        return False
    b2, a2 = pickle.loads(data)
    return ok and b2.ref is a2.t and list(b2.ref)[0] is a2


def D11():
    from edgegraph.output import pyvis as egpyvis
    ok = True
    a, b = Vertex(), Vertex()
    DirectedEdge(a, b)
    u = Universe(vertices=[a, b])
    before = (set(vars(a)), set(vars(b)))

    def boom(e):
        raise RuntimeError("x")
    try:
        egpyvis.make_pyvis_net(u, None, boom)
    except RuntimeError:
        pass
    ok &= (set(vars(a)), set(vars(b))) == before
    # outsider that carries the temporary attribute name
    a, b, o = Vertex(), Vertex(), Vertex()
    setattr(o, "_make_pyvis_net_i", 1)
    setattr(o, "__make_pyvis_net_i", 1)
    DirectedEdge(a, o)
    u = Universe(vertices=[a, b])
    net = egpyvis.make_pyvis_net(u)
    ok &= len(net.get_edges()) == 0
    # self loop
    a = Vertex()
    DirectedEdge(a, a)
    u = Universe(vertices=[a])
    net = egpyvis.make_pyvis_net(u)
    ok &= len(net.get_edges()) == 1
    return ok


def D12():
    z = Vertex()
    u = Universe(vertices=[z])
    return plaintext.basic_render(u, rfunc=lambda v: "z") == "z -> "


def D13():
    ok = True
    M = singleton.semi_singleton_metaclass()

    class A(metaclass=M):
        def __init__(self, x=None):
            self.x = x
    ok &= A(-1) is not A(-2)
    M2 = singleton.semi_singleton_metaclass()

    class P(metaclass=M2):
        def __init__(self, x=None):
            self.x = x

    class Q(P):
        pass

    class R(metaclass=M2):
        def __init__(self, x=None):
            self.x = x
    q = Q(7)
    p = P(7)
    r = R(7)
    ok &= type(p) is P and type(q) is Q and type(r) is R
    singleton.clear_semi_singleton(Q)
    ok &= P(7) is p
    return ok


def D14():
    ok = True
    U = Universe()
    L = UniverseLaws()
    U.laws = None
    try:
        U.laws = L
    except AttributeError:
        return False
    ok &= U.laws is L and L.applies_to is U
    A, B = Universe(), Universe()
    la = A.laws
    B.laws = la
    ok &= (A.laws is la) == (la.applies_to is A) and B.laws is la and la.applies_to is B
    A, B = Universe(), Universe()
    la = A.laws
    la.applies_to = B
    ok &= (A.laws is la) == (la.applies_to is A) and B.laws is la
    A = Universe()
    la = A.laws
    la.applies_to = None
    ok &= (A.laws is la) == (la.applies_to is A)
    A = Universe()
    la = A.laws
    C = Universe(laws=la)
    ok &= (A.laws is la) == (la.applies_to is A) and C.laws is la and la.applies_to is C
    return ok


def D15():
    import random
    for seed in range(5):
        random.seed(seed)
        try:
            u = randgraph.randgraph(count=1)
        except ValueError:
            return False
        if len(u.vertices) != 1:
            return False
    return True


def D16():
    """a graph with instances of classes pickled BY VALUE (defined in the main script) whose methods use
    zero-argument super(): nrpickler.dumps must return (it looped for ever), and the copy must work"""
    code = (
        "import sys, signal, pickle; sys.path.insert(0, %r)\n"
        "from edgegraph.structure import Vertex, Universe, DirectedEdge\n"
        "from edgegraph.output import nrpickler\n"
        "from edgegraph.traversal import helpers\n"
        "class MyV(Vertex):\n"
        "    def __init__(self, name):\n"
        "        super().__init__(attributes={'name': name})\n"
        "    def hello(self):\n"
        "        return 'hello ' + super().__repr__()[:1]\n"
        "class Sub(MyV):\n"
        "    def __init__(self, name):\n"
        "        super().__init__(name + '!')\n"
        "def mk():\n"
        "    def fact(n):\n"
        "        return 1 if n < 2 else n * fact(n - 1)\n"
        "    return fact\n"
        "signal.signal(signal.SIGALRM, lambda *a: sys.exit(3))\n"
        "a, b = MyV('a'), Sub('b')\n"
        "DirectedEdge(a, b)\n"
        "a.f = mk()\n"
        "u = Universe(vertices=[a, b])\n"
        "signal.alarm(25)\n"
        "for proto in range(6):\n"
        "    u2 = pickle.loads(nrpickler.dumps(u, protocol=proto))\n"
        "    x, y = u2.vertices\n"
        "    assert (x.name, y.name, x.hello(), x.f(5)) == ('a', 'b!', 'hello <', 120)\n"
        "    assert helpers.neighbors(x) == [y] and type(y).__mro__[1] is type(x)\n"
    ) % os.environ.get("EG_REPO", "/repo")
    p = subprocess.run([sys.executable, "-c", code], capture_output=True)
    return p.returncode == 0


def D17():
    """a function pickled BY VALUE together with its globals (a function of a module that cannot be imported by
    name: code loaded with exec / a plug-in loader) as a runtime attribute, and as the filterfunc key of a cached
    neighbors() answer: nrpickler.dumps must succeed (it raised KeyError where dill.dumps succeeds) and the copy work"""
    import types
    import dill
    from edgegraph.structure import Vertex, DirectedEdge
    from edgegraph.traversal import helpers
    from edgegraph.output import nrpickler
    m = types.ModuleType("eg_verif_ghost")
    exec("def gf(e, v):\n    return helper(e)\ndef helper(e):\n    return True\ndef lone(x):\n    return x + 1\n", m.__dict__)
    old = Vertex.NEIGHBOR_CACHING
    try:
        for proto in range(6):
            Vertex.NEIGHBOR_CACHING = False
            a, b = Vertex(), Vertex()
            DirectedEdge(a, b)
            a.cb, b.cb = m.gf, m.lone
            c = dill.loads(nrpickler.dumps(a, protocol=proto))
            if c.cb(None, None) is not True or helpers.neighbors(c)[0].cb(1) != 2:
                return False
            Vertex.NEIGHBOR_CACHING = True
            x, y = Vertex(), Vertex()
            DirectedEdge(x, y)
            helpers.neighbors(x, filterfunc=m.gf)
            z = dill.loads(nrpickler.dumps(x, protocol=proto))
            if len(helpers.neighbors(z)) != 1:
                return False
    except Exception:  # noqa: BLE001
        return False
    finally:
        Vertex.NEIGHBOR_CACHING = old
    return True


def D18():
    """with caching on, neighbors() / a traversal / a search whose filter callable cannot be hashed (a callable
    dataclass) must answer what it answers with caching off (it raised TypeError: the arguments are the memo key)"""
    from dataclasses import dataclass
    from edgegraph.structure import Vertex, DirectedEdge
    from edgegraph.traversal import helpers, breadthfirst, depthfirst

    @dataclass
    class Keep:
        limit: int

        def __call__(self, e, v):
            return True
    old = Vertex.NEIGHBOR_CACHING
    try:
        a, b = Vertex(), Vertex()
        DirectedEdge(a, b)
        f = Keep(3)
        res = {}
        for flag in (False, True, True):
            Vertex.NEIGHBOR_CACHING = flag
            try:
                got = (helpers.neighbors(a, filterfunc=f), breadthfirst.bft(None, a, ff_via=f), depthfirst.dft_iterative(None, a, ff_via=f))
            except TypeError:
                return False
            res.setdefault(flag, got)
            if got != res[flag]:
                return False
        return res[False] == res[True] == ([b], [a, b], [a, b])
    finally:
        Vertex.NEIGHBOR_CACHING = old


ALL = [D1, D2, D3, D4, D5, D6, D7, D7b, D8, D9, D10, D11, D12, D13, D14, D15, D16, D17, D18]

if __name__ == "__main__":
    bad = 0
    for f in ALL:
        try:
            r = f()
        except Exception as exc:  # pragma: no cover
            r = False
            print(f.__name__, "EXC", type(exc).__name__, exc)
        print(f.__name__, "holds" if r else "DEFECT")
        bad += not r
    sys.exit(1 if bad else 0)
