"""
gen.py — generators of operation scripts: exhaustive small-scope enumeration,
seeded random histories, hand-picked seed states.
Every random choice comes from the one `random.Random` handed in.
"""
import itertools


class Pool:
    """static summary of which objects exist (ids are creation indices on both sides)"""

    def __init__(self, nV=0, unis=(), two=(), nary=(), nW=0):
        self.nV, self.unis, self.two, self.nary, self.nW = nV, tuple(unis), tuple(two), tuple(nary), nW

    @property
    def nL(self):
        return len(self.two) + len(self.nary)

    def verts(self):
        return ["V%d" % i for i in range(self.nV)]

    def plain(self):
        return ["V%d" % i for i in range(self.nV)]

    def universes(self):
        return ["V%d" % i for i in self.unis]

    def links(self):
        return ["L%d" % i for i in sorted(self.two + self.nary)]

    def with_vertex(self, uni=False):
        return Pool(self.nV + 1, self.unis + ((self.nV,) if uni else ()), self.two, self.nary,
                    self.nW + (1 if uni else 0))

    def with_link(self, nary=False):
        n = self.nL
        return Pool(self.nV, self.unis, self.two + (() if nary else (n,)), self.nary + ((n,) if nary else ()), self.nW)

    def with_law(self):
        return Pool(self.nV, self.unis, self.two, self.nary, self.nW + 1)

    @staticmethod
    def from_real(inner):
        """exact summary read off the adapter's registries (used where ops create several objects)"""
        from edgegraph.structure import Universe, TwoEndedLink
        unis = tuple(i for i, v in enumerate(inner.V) if isinstance(v, Universe))
        two = tuple(i for i, l in enumerate(inner.L) if isinstance(l, TwoEndedLink))
        nary = tuple(i for i, l in enumerate(inner.L) if not isinstance(l, TwoEndedLink))
        return Pool(len(inner.V), unis, two, nary, len(inner.W))

    def after(self, op, answer):
        """pool after `op` was answered `answer` by the real code"""
        if not answer.startswith("ok "):
            return self
        tok = answer.split()[1]
        kind, num = tok[0], tok[1:]
        if not num.isdigit():
            return self
        k = int(num)
        word = op.split()[0]
        if kind == "L" and k >= self.nL and word in ("edge", "nlink", "linkft"):
            return self.with_link(nary=(word == "nlink"))
        if kind == "V" and k >= self.nV and word in ("vertex", "universe"):
            q = self.with_vertex(uni=(word == "universe"))
            if word == "universe" and " w=" in op:
                q = Pool(q.nV, q.unis, q.two, q.nary, self.nW)
            return q
        if kind == "W" and k >= self.nW and word == "lawset":
            return self.with_law()
        return self


# ---------------------------------------------------------------------------
# seed states: (name, lines, pool)

def base3():
    """V0: Vertex, V1: subclass, V2: Universe (with its own law set W0)"""
    return ["vertex V", "vertex SV", "universe"], Pool(3, (2,), (), (), 1)


def struct_seeds():
    b, p = base3()
    seeds = []

    def add(name, lines, two=0, nary=0):
        q = p
        for _ in range(two):
            q = q.with_link()
        for _ in range(nary):
            q = q.with_link(nary=True)
        seeds.append((name, ["reset"] + b + lines, q))

    add("empty", [])
    add("one-edge", ["edge D V0 V1"], 1)
    add("self-loop", ["edge D V0 V0"], 1)
    add("parallel", ["edge D V0 V1", "edge U V0 V1"], 2)
    add("antiparallel", ["edge D V0 V1", "edge D V1 V0"], 2)
    add("half", ["edge D V0 -"], 1)
    add("half-first", ["edge X - V1"], 1)
    add("unassigned", ["edge U - -"], 1)
    add("three-ary-two-ended", ["edge X V0 V1", "ladd L0 V2"], 1)
    add("three-ary-dup", ["edge D V0 V1", "ladd L0 V0"], 1)
    add("lost-end", ["edge D V0 V1", "lunlink L0 V1"], 1)
    add("lost-both", ["edge D V0 V1", "lunlink L0 V1", "lunlink L0 V0"], 1)
    add("nary-dup", ["nlink V0,V0,V1"], 0, 1)
    add("nary-triple", ["nlink V0,V0,V0"], 0, 1)
    add("nary-none", ["nlink V0,-,-,V1"], 0, 1)
    add("chain", ["edge D V0 V1", "edge D V1 V2"], 2)
    add("uni-member-loop", ["uadd V2 V0", "uadd V2 V2", "edge U V2 V2"], 1)
    add("mixed", ["edge D V0 V1", "nlink V1,V2"], 1, 1)
    # order: two-ended links were allocated first in `add`, so fix ids for mixed seeds
    return seeds


def struct_ops(p, classes=("D", "X"), with_bad=True, with_vertex=True):
    """every structure-op instance applicable in pool p: yields (line, pool_after)"""
    vs = p.verts()
    ends = vs + ["-"]
    for c in classes:
        for a in ends:
            for b in ends:
                yield "edge %s %s %s" % (c, a, b)
    if with_bad:
        yield "edge D ! V0"
        yield "edge U V0 !"
        # `attributes=` that the constructor rejects (a non-dict, a read-only name, a non-string key):
        # it raises, and must have touched nothing
        if len(vs) >= 2:
            yield "edge D V0 V1 bad=1"
            yield "edge U V1 V0 bad=2"
            yield "edge D V0 V0 bad=3"
            yield "edge X V1 V1 bad=4"
    if len(vs) >= 2:
        # caller-supplied EQUAL uids on distinct links, and links carrying user attributes
        yield "edge D V0 V1 x=7"
        yield "edge U V0 V1 x=7"
        yield "edge D V1 V0 x=7 la=1"
        yield "edge D V0 V1 la=3"
        yield "edge U V1 V1 la=2"
        if "X" in classes:
            yield "edge X V0 V1 la=1"        # a link of an unknown class carrying a data field named `directed`
            yield "edge X V1 V0 la=3"
    yield "nlink ."
    yield "nlink V0"
    yield "nlink V0,V0"
    yield "nlink V1,-,V0"
    for l in p.two:
        for x in ends:
            yield "setv1 L%d %s" % (l, x)
            yield "setv2 L%d %s" % (l, x)
    for l in sorted(p.two + p.nary):
        for x in ends:
            yield "ladd L%d %s" % (l, x)
            yield "lunlink L%d %s" % (l, x)
        for v in vs:
            yield "addtolink %s L%d" % (v, l)
            yield "rmfromlink %s L%d" % (v, l)
    for a in vs:
        for b in vs:
            yield "linkft %s D %s 0" % (a, b)
            yield "linkft %s X %s 1" % (a, b)
            yield "unlink %s %s keep" % (a, b)
            yield "unlink %s %s destroy" % (a, b)
    yield "linkft V0 D V1 1 via"
    yield "linkft V0 U V1 0 via"
    if with_vertex:
        ls = p.links()
        if ls:
            yield "vertex V l=%s" % ",".join(ls)
            yield "vertex V l=%s,%s" % (ls[0], ls[0])


def uni_ops(p):
    us = p.universes()
    for u in us:
        for v in p.verts():
            yield "uadd %s %s" % (u, v)
            yield "urem %s %s" % (u, v)
            yield "vadd %s %s" % (v, u)
            yield "vrem %s %s" % (v, u)
    if us:
        yield "vertex V u=%s" % ",".join(us)
        yield "vertex SV u=%s,%s" % (us[0], us[0])
        yield "vertex V u=%s uf=%d" % (",".join(us), len(us) - 1)      # the `universes=` iterable raises part-way
        yield "vertex V u=%s uf=%d" % (",".join(us), len(us))
        yield "vertex V u=%s x=7" % us[-1]          # caller-supplied uids, equal for several objects
        yield "vertex V x=7"
        yield "universe x=7"
        yield "universe m=%s" % ",".join(p.verts()[:2] + p.verts()[:1])
    yield "universe"


def laws_ops(p):
    us = p.universes()
    ws = ["W%d" % i for i in range(p.nW)]
    for u in us:
        for w in ws + ["-"]:
            yield "setlaws %s %s" % (u, w)
    for w in ws:
        for u in us + ["-"]:
            yield "setapplies %s %s" % (w, u)
    yield "universe"
    yield "lawset"
    yield "lawset 2"           # laws with an edge_whitelist naming the vertex and link classes of the pool (documented as not enforced)
    for w in ws:
        yield "universe w=%s" % w


def enumerate_histories(real, seed_lines, pool, opsfn, depth, audit=("obs",)):
    """all histories of exactly `depth` ops after the seed, audit lines after every op.
    The real adapter is run alongside so that the pool summary (which ids exist) is
    exact even for ops whose effect on it is not statically known (dontdup).
    Yields (lines, real_answers)."""
    def replay(lines):
        return [real.step(l) for l in lines]

    base = list(seed_lines) + list(audit)

    def rec(lines, p, d):
        if d == 0:
            yield lines, replay(lines)
            return
        for op in opsfn(p):
            ext = lines + [op] + list(audit)
            if d == 1:
                yield ext, replay(ext)
            else:
                outs = replay(lines + [op])
                q = p.after(op, outs[-1])
                yield from rec(ext, q, d - 1)
    yield from rec(base, pool, depth)


def random_history(rng, real, opsfn, length, audit=("obs",), nverts=(2, 5), extra=None, attr_values=None, reset_line="reset",
                   reload_p=0.04):
    """one random history, generated while running the real code (for exact pools).
    Returns (lines, real_answers)."""
    lines, outs = [], []
    p = Pool()

    def do(op):
        nonlocal p
        lines.append(op)
        outs.append(real.step(op))
        p = p.after(op, outs[-1])

    do(reset_line)
    for _ in range(rng.randint(*nverts)):
        r = rng.random()
        a = ""
        if attr_values and rng.random() < 0.7:
            a = " a=0:%d" % rng.choice(attr_values)
        do("universe" if r < 0.25 else "vertex " + rng.choice(["V", "SV", "FV"]) + a)
    for a in audit:
        do(a)
    for _ in range(length):
        cands = list(opsfn(p))
        if extra:
            cands += list(extra(p, rng))
        if not cands:
            break
        if reload_p and rng.random() < reload_p:
            # the caller saves the graph and continues on the loaded copy (pickle / deepcopy / nrpickler in turn)
            do("reload")
            for a in audit:
                do(a)
        do(rng.choice(cands))
        for a in audit:
            do(a)
    return lines, outs
