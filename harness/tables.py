"""
tables.py — translation by exhaustive execution: evaluates the REAL `neighbors` and
`find_links` on every row of their finite per-link decision domains and writes the
results as Lean literals under lean/EG/Generated/.  Run on every check of C04 / C09;
a file is rewritten only when its content changes.
"""
import os
import sys

HERE = os.path.dirname(os.path.abspath(__file__))
sys.path.insert(0, HERE)
import pool  # noqa: E402
from edgegraph.structure import Vertex  # noqa: E402
from edgegraph.traversal import helpers  # noqa: E402

GEN = os.path.join(os.path.dirname(HERE), "lean", "EG", "Generated")
CLASSES = ["D", "U", "DD", "UU", "X", "DU"]
ERR = {TypeError: ".type", IndexError: ".index", AttributeError: ".attribute", ValueError: ".value",
       NotImplementedError: ".notImpl", KeyError: ".key", AssertionError: ".assertion",
       RecursionError: ".recursion"}
FILTS = ["none", "acc", "rej"]


def lean_err(exc):
    return ERR.get(type(exc), ".other")


def nb_rows():
    rows = []
    for c in CLASSES:
        for pos in ["v1", "v2", "both", "neither"]:
            for d in range(4):
                for u in range(4):
                    for f in FILTS:
                        Vertex.NEIGHBOR_CACHING = False
                        a, b = Vertex(), Vertex()
                        cls = pool.LCLS[c]
                        if pos == "v1":
                            cls(a, b)
                        elif pos == "v2":
                            cls(b, a)
                        elif pos == "both":
                            cls(a, a)
                        else:
                            cls(b, b).add_vertex(a)
                        ff = {"none": None, "acc": (lambda e, v: True), "rej": (lambda e, v: False)}[f]
                        try:
                            r = helpers.neighbors(a, d, u, ff)
                            if len(r) == 0:
                                out = ".skip"
                            elif len(r) == 1:
                                x = r[0]
                                out = ".emit " + ("none" if x is None else "(some 0)" if x is a else
                                                  "(some 1)" if x is b else "(some 99)")
                            else:
                                out = ".raise .other"
                        except Exception as exc:  # noqa: BLE001
                            out = ".raise " + lean_err(exc)
                        rows.append("  ⟨.%s, .%s, %d, %d, .%s, %s⟩" % (c, pos, d, u, f, out))
    return rows


def fl_rows():
    rows = []
    for c in CLASSES:
        for rel in ["ab", "ba", "loop", "away"]:
            for ds in (False, True):
                for u in range(4):
                    for f in FILTS:
                        Vertex.NEIGHBOR_CACHING = False
                        a, b, x = Vertex(), Vertex(), Vertex()
                        cls = pool.LCLS[c]
                        if rel == "ab":
                            cls(a, b)
                        elif rel == "ba":
                            cls(b, a)
                        elif rel == "loop":
                            cls(a, a)
                        else:
                            cls(a, x)
                        q = a if rel == "loop" else b
                        ff = {"none": None, "acc": (lambda e: True), "rej": (lambda e: False)}[f]
                        try:
                            r = helpers.find_links(a, q, ds, u, ff)
                            out = ".found" if len(r) == 1 else ".absent" if len(r) == 0 else ".raise .other"
                        except Exception as exc:  # noqa: BLE001
                            out = ".raise " + lean_err(exc)
                        rows.append("  ⟨.%s, .%s, %s, %d, .%s, %s⟩" % (
                            c, rel, "true" if ds else "false", u, f, out))
    return rows


def write_if_changed(path, text):
    os.makedirs(os.path.dirname(path), exist_ok=True)
    if os.path.exists(path) and open(path).read() == text:
        return False
    tmp = path + ".tmp%d" % os.getpid()
    open(tmp, "w").write(text)
    os.replace(tmp, path)
    return True


HEADER = """import EG.TableSpec
/-
  GENERATED on every run of the C04 / C09 checks by harness/tables.py from the real
  edgegraph code in /repo (one row per point of the per-link decision domain).
  Do not edit by hand.
-/
namespace EG
namespace Tab

"""


def regenerate_nb():
    rows = nb_rows()
    text = HEADER + "def implNb : List NbRow := [\n" + ",\n".join(rows) + "\n]\n\nend Tab\nend EG\n"
    changed = write_if_changed(os.path.join(GEN, "NeighborsTable.lean"), text)
    return len(rows), changed


def regenerate_fl():
    rows = fl_rows()
    text = HEADER + "def implFl : List FlRow := [\n" + ",\n".join(rows) + "\n]\n\nend Tab\nend EG\n"
    changed = write_if_changed(os.path.join(GEN, "FindLinksTable.lean"), text)
    return len(rows), changed


if __name__ == "__main__":
    print(regenerate_nb(), regenerate_fl())
