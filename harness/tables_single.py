"""
tables_single.py — translation by exhaustive execution for the semi-singleton KEY relation (C17):
for every pair (a, b) of the pool's argument tuples (adapter.SARGS, the raising ones excepted) and
for the default and the custom hash function, a FRESH semi-singleton class is constructed with a
and then with b; the row records whether the same object came back.  Written as a Lean literal to
lean/EG/Generated/SingleKeyTable.lean on every run of the C17 check.
"""
import os
import sys

HERE = os.path.dirname(os.path.abspath(__file__))
sys.path.insert(0, HERE)
from tables import write_if_changed, GEN  # noqa: E402
import pool  # noqa: E402

HEADER = """import EG.SingleCfg
/-
  GENERATED on every run of the C17 check by harness/tables_single.py from the real edgegraph
  code in /repo.  Do not edit by hand.
-/
namespace EG
namespace Tab

"""
ARGS = [0, 1, 2, 3, 4, 5, 6, 7, 8, 11, 12, 13, 14]      # 9 raises in __init__, 10 is for true singletons


def rows():
    from adapter import SARGS
    from edgegraph.structure import singleton
    out = []
    for meta in (0, 2):
        for a in ARGS:
            for b in ARGS:
                if meta == 0:
                    M = singleton.semi_singleton_metaclass()
                else:
                    M = singleton.semi_singleton_metaclass(hashfunc=lambda args, kwargs: len(args) + len(kwargs))
                C = M("K", (), {"__init__": lambda self, *x, **y: None})
                (aa, ak), (ba, bk) = SARGS[a], SARGS[b]
                try:
                    same = C(*aa, **ak) is C(*ba, **bk)
                except (Exception, pool.Interrupt):  # noqa: BLE001
                    same = None
                out.append("  ⟨%d, %d, %d, %s⟩" % (meta, a, b, "true" if same else "false"))
    return out


def regenerate():
    r = rows()
    text = HEADER + "def implKey : List KeyRow := [\n" + ",\n".join(r) + "\n]\n\nend Tab\nend EG\n"
    changed = write_if_changed(os.path.join(GEN, "SingleKeyTable.lean"), text)
    return len(r), changed


if __name__ == "__main__":
    print(regenerate())
