"""
covrep.py — measures which lines of the ANCHORED source files (properties.jsonl: anchors.files) the
correspondence run of a check actually executed, per function.  Reported in the evidence
(`anchored_code_coverage`); a gap is information about the generators' reach, never an alarm.
Disabled with VERIF_COVERAGE=0.
"""
import ast
import json
import os

HERE = os.path.dirname(os.path.abspath(__file__))
VERIF = os.path.dirname(HERE)


def anchored_files(prop):
    for l in open(os.path.join(VERIF, "properties.jsonl")):
        d = json.loads(l)
        if d["id"] == prop:
            return list((d.get("anchors") or {}).get("files") or [])
    return []


def start(repo):
    if os.environ.get("VERIF_COVERAGE", "1") == "0":
        return None
    try:
        os.environ.setdefault("COVERAGE_CORE", "sysmon")     # sys.monitoring: no measurable slowdown (the C tracer triples the run time)
        import coverage
        cov = coverage.Coverage(data_file=None, include=[os.path.join(repo, "edgegraph", "*")], branch=False,
                                config_file=False)
        cov.start()
        return cov
    except Exception:  # noqa: BLE001
        return None


def report(cov, repo, prop):
    if cov is None:
        return {"measured": False}
    try:
        cov.stop()
        out = {"measured": True, "files": {}, "functions_with_unexecuted_lines": {}}
        tot_e = tot_x = 0
        for rel in anchored_files(prop):
            path = os.path.join(repo, rel)
            if not os.path.exists(path):
                continue
            try:
                _f, executable, _excl, missing, _fmt = cov.analysis2(path)
            except Exception:  # noqa: BLE001
                continue
            executable, missing = set(executable), set(missing)
            tree = ast.parse(open(path).read())
            body_exec = body_miss = 0
            for node in ast.walk(tree):
                if isinstance(node, (ast.FunctionDef, ast.AsyncFunctionDef)):
                    first = node.body[0].lineno
                    if isinstance(node.body[0], ast.Expr) and isinstance(getattr(node.body[0], "value", None), ast.Constant) \
                            and isinstance(node.body[0].value.value, str):
                        first = node.body[1].lineno if len(node.body) > 1 else node.end_lineno + 1
                    # lines of nested functions are attributed to the nested function only
                    inner = set()
                    for sub in ast.walk(node):
                        if sub is not node and isinstance(sub, (ast.FunctionDef, ast.AsyncFunctionDef)):
                            inner |= set(range(sub.lineno, sub.end_lineno + 1))
                    lines = {n for n in executable if first <= n <= node.end_lineno} - inner
                    miss = lines & missing
                    body_exec += len(lines)
                    body_miss += len(miss)
                    if miss:
                        out["functions_with_unexecuted_lines"]["%s:%s" % (rel, node.name)] = sorted(miss)
            out["files"][rel] = {"function_body_lines": body_exec, "executed": body_exec - body_miss}
            tot_e += body_exec
            tot_x += body_exec - body_miss
        out["function_body_lines"] = tot_e
        out["executed"] = tot_x
        out["note"] = ("lines inside function bodies of the anchored files executed while this check drove the real code "
                       "(module-level lines run at import and are not counted); information only")
        return out
    except Exception as exc:  # noqa: BLE001
        return {"measured": False, "error": repr(exc)[:200]}
