"""
Importable helper classes for the harness (kept in a real module so that
instances pickle by reference and can be loaded in a fresh interpreter).
"""
import os
import sys

sys.path.insert(0, os.environ.get("EG_REPO", "/repo"))

from edgegraph.structure import (  # noqa: E402
    Vertex, Universe, DirectedEdge, UnDirectedEdge, TwoEndedLink, Link,
)


class SV(Vertex):
    """a plain Vertex subclass; str() / format() of an instance differ from its repr()"""

    def __str__(self):
        return "str-of-SV"

    def __format__(self, spec):
        return "fmt-of-SV"


class FV(Vertex):
    """a Vertex subclass whose instances are falsy"""

    def __bool__(self):
        return False

    def __str__(self):
        return "str-of-FV"


class MX(Vertex):
    """a mixin-like Vertex subclass (second base of MV)"""


class MV(SV, MX):
    """a vertex class with TWO bases: MRO = MV, SV, MX, Vertex"""


class DD(DirectedEdge):
    """subclass of DirectedEdge with a constructor of its own: positional ends and an option, no `**kwargs`
    (code that builds links for the caller may pass the two ends and nothing else)"""

    def __init__(self, v1=None, v2=None, lanes=2):
        super().__init__(v1, v2)
        self.lanes = lanes


class UU(UnDirectedEdge):
    """subclass of UnDirectedEdge whose constructor REQUIRES its two ends (code that builds links for the caller
    must hand them to the constructor, as documented: `lnktype(v1, v2)`)"""

    def __init__(self, v1, v2, **kwargs):
        super().__init__(v1, v2, **kwargs)


class DU(DirectedEdge, UnDirectedEdge):
    """a link class deriving from BOTH edge classes (neighbors / find_links test UnDirectedEdge
    first: undirected there; pyvis tests DirectedEdge only)"""


class X(TwoEndedLink):
    """a two-ended link class that is neither directed nor undirected; its constructor names its
    two (positional) ends differently"""

    def __init__(self, src=None, dst=None, **kwargs):
        super().__init__(src, dst, **kwargs)


class N(Link):
    """an n-ary link class"""


class Fault(Exception):
    """the exception raised by fault-injecting callbacks"""


class StopFault(StopIteration):
    """a fault that is a StopIteration (a callback using `next(it)` on an exhausted iterator): code that wraps
    the callback in an iterator pipeline (`set(filter(...))`, a generator expression) swallows or converts it"""


class Slotted(Vertex):
    """a Vertex subclass that adds `__slots__` on top of the inherited instance dict: its pickled state is the PAIR
    (dict state, slots state) from protocol 2 on"""
    __slots__ = ("weight",)


class SlottedU(Universe):
    __slots__ = ("region",)


class Interrupt(BaseException):
    """an exception that is NOT an `Exception` (KeyboardInterrupt / SystemExit style) raised by a constructor:
    code that cleans up after a failed construction in `except Exception` misses it"""


class HardFault(BaseException):
    """a fault that is not an `Exception` (Ctrl-C during a slow callback): a rollback written as `except Exception`
    does not see it"""


class NotAVertex:
    """an object that is not a Vertex (ill-typed constructor argument)"""


VCLS = {"V": Vertex, "SV": SV, "FV": FV, "UNI": Universe, "MX": MX, "MV": MV}
LCLS = {"D": DirectedEdge, "U": UnDirectedEdge, "DD": DD, "UU": UU, "X": X, "N": N, "DU": DU}
VCLS_NAME = {v: k for k, v in VCLS.items()}
LCLS_NAME = {v: k for k, v in LCLS.items()}
