"""
props_render.py — checks of the renderer properties C14 (PlantUML source), C15 (PyVis export),
C16 (plain text).
"""
import re

import gen
import witnesses as W
from engine import Check
from props_struct import all_ops
from edgegraph.structure import Universe, Vertex, TwoEndedLink, DirectedEdge, UnDirectedEdge
from edgegraph.traversal import helpers
import pool as poolmod


def worlds(tier, rng, real, classes, attrs=False, nmax=6):
    """graph-building scripts followed by a few universes over subsets of the vertices"""
    quick = tier == "quick"
    for _ in range(800 if quick else 6000):
        nv = rng.randint(1, nmax)
        lines = ["reset"]
        for i in range(nv):
            c = rng.choice(["V", "V", "SV", "FV", "MX", "MV"])
            a = ""
            if attrs and rng.random() < 0.85:
                a = " a=0:%d" % rng.choice([0, 1, 2, 3])
            x = " x=%d" % rng.choice([7, 7, 8]) if rng.random() < 0.25 else ""     # caller-supplied (possibly equal) uids
            lines.append("vertex %s%s%s" % (c, a, x))
        for _ in range(rng.randint(0, 9)):
            k = rng.choice(classes)
            a = rng.randrange(nv)
            b = a if rng.random() < 0.2 else rng.randrange(nv)
            # links carry user data too — fields named `directed`, `kind`, `name`, … that the renderers must not consult
            la = " la=%d" % rng.choice([1, 2, 3]) if (k in ("D", "U", "UU", "X", "DU") and rng.random() < 0.3) else ""
            lines.append("edge %s V%d V%d%s%s" % (k, a, b, " x=7" if (k in ("D", "U") and rng.random() < 0.3) else "", la))
        if rng.random() < 0.08:
            lines.append("edge D V0 -")
        if rng.random() < 0.05:
            lines.append("nlink V0,V0")
        nu = 0
        unis = []
        lines.append("universe")
        unis.append(nv)
        lines.append("universe m=%s" % ",".join("V%d" % i for i in range(nv)))
        unis.append(nv + 1)
        for k in range(rng.randint(1, 3)):
            ms = [i for i in range(nv) if rng.random() < 0.6]
            rng.shuffle(ms)
            if ms and rng.random() < 0.3:
                ms = ms + [ms[0]]            # the constructor argument names a vertex twice
            lines.append("universe" + ((" m=" + ",".join("V%d" % i for i in ms)) if ms else ""))
            unis.append(nv + 2 + k)
        if rng.random() < 0.3:
            lines.append("flag on")
        yield lines, unis


def run(real, lines):
    return lines, [real.step(l) for l in lines]


class C16(Check):
    id = "C16"
    modules = ["EG.Props.C16", "EG.Props.C05Trav"]
    assumptions = ["renderings are token strings without ', ' or ' -> ' (the exact string is compared with the model; the oracle recomputes it from neighbors())",
                   "sorted() is stable (CPython, trusted)"]

    def witnesses(self):
        return [("D12", W.D12)]

    def batches(self, tier, rng, real):
        for lines, unis in worlds(tier, rng, real, ["D", "U", "DD", "UU"] + (["X"] if rng.random() < 0.1 else [])):
            qs = []
            for u in unis:
                for rf in ("tok", "repr", "dup"):
                    for s in ("-", "0", "1", "2", "4"):
                        qs.append("plain V%d %s %s" % (u, rf, s))
                qs.append("plain V%d pad -" % u)
                qs.append("plain V%d pad 2" % u)
                qs.append("plain V%d num -" % u)
                qs.append("plain V%d num same" % u)
            # a render function that reads the vertices; what it reads changes between renders
            nv = unis[0]
            for _ in range(3):
                qs.append("sattr V%d 0 %d" % (rng.randrange(nv), rng.choice([0, 1, 2, 3, 5])))
                for u in unis[:3]:
                    for s in ("-", "1", "2"):
                        qs.append("plain V%d attr %s" % (u, s))
            yield run(real, lines + qs)

    def search(self, tier, rng, real, v):
        yield from self.batches("quick", rng, real)

    def extra_violations(self, stats):
        """a render / sort callback that raises — an ordinary exception or a StopIteration (`next(it)` on an exhausted
        iterator) — at its k-th invocation: the render must raise too, or return the COMPLETE text; never a shortened one"""
        from engine import Violation
        from edgegraph.output import plaintext
        from edgegraph.structure import DirectedEdge as D_, UnDirectedEdge as U_
        import random as _r
        rng = _r.Random(4711)
        out, probes = [], 0
        for _ in range(40):
            n = rng.randint(2, 5)
            vs = [Vertex() for _ in range(n + 1)]
            u = Universe(vertices=vs[:n])                    # the last vertex is an outsider
            for _e in range(rng.randint(1, 8)):
                rng.choice([D_, U_])(rng.choice(vs[:n]), rng.choice(vs))
            name = {id(v): "v%d" % i for i, v in enumerate(vs)}
            full = plaintext.basic_render(u, rfunc=lambda x: name[id(x)])
            calls = [0]
            for exc in (StopIteration, KeyError):
                for k in range(1, 12):
                    calls[0] = 0

                    def rf(x, k=k, exc=exc):
                        calls[0] += 1
                        if calls[0] == k:
                            raise exc()
                        return name[id(x)]
                    probes += 1
                    try:
                        got = plaintext.basic_render(u, rfunc=rf)
                    except BaseException:  # noqa: BLE001   (propagating is what is expected)
                        continue
                    if calls[0] >= k and got != full and len(out) < 3:
                        out.append(Violation("oracle", "basic_render returned %r although its rfunc raised %s at invocation %d "
                                             "(the complete text is %r)" % (got, exc.__name__, k, full), ["sweep:basic_render rfunc fault@%d" % k]))
        stats.extra["raising_rfunc_probes"] = probes
        return out

    def oracle(self, real, line, out, pre):
        t = line.split()
        if t[0] != "plain" or not out.startswith("ok"):
            return None
        u = real.pv(t[1])
        if len(u.vertices) == 0:
            return None if out == "ok none" else "empty universe rendered as %r" % out
        code = lambda x: 0 if x is None else real.vname(x) + 1  # noqa: E731
        if t[2] == "num":
            key = None if t[3] == "-" else (lambda x: code(x) * 5)
        else:
            key = None if t[3] == "-" else (lambda x, k=int(t[3]): (code(x) * (k + 1)) % (3 if k == 1 else 7))
        pre_ = "r" if t[2] == "repr" else "v"
        if t[2] == "num":
            r = lambda x: str(code(x) * 5)  # noqa: E731
        elif t[2] == "pad":
            r = lambda x: "none" if x is None else ("v%d, ", "v%d ", "v%d\n\n")[real.vname(x) % 3] % real.vname(x)  # noqa: E731
        elif t[2] == "attr":
            r = lambda x: "none" if x is None else ("a%d" % real.valclass(x.a0) if hasattr(x, "a0") else "a-")  # noqa: E731
        elif t[2] == "dup":
            r = lambda x: "none" if x is None else "w%d" % (real.vname(x) % 2)  # noqa: E731
        else:
            r = lambda x: ("None" if pre_ == "r" else "none") if x is None else "%s%d" % (pre_, real.vname(x))  # noqa: E731
        verts = sorted(u.vertices, key=key) if key else u.vertices
        want = []
        caching = Vertex.NEIGHBOR_CACHING
        for v in verts:
            Vertex.NEIGHBOR_CACHING = False       # neighbours in neighbors() order = link order
            try:
                # "its FORWARD neighbours": the documented rule evaluated link by link (model-free, independent of
                # helpers.neighbors); where the rule does not speak (n-ary links, half-assigned edges) the real function
                try:
                    from props_query import rule_neighbors, Unspecified
                    try:
                        nbs = rule_neighbors(v, 0, 2, None)
                    except Unspecified:
                        nbs = helpers.neighbors(v)
                except (NotImplementedError, ValueError):
                    return None      # the render itself would have raised
            finally:
                Vertex.NEIGHBOR_CACHING = caching
            if key:
                nbs = sorted(nbs, key=key)
            want.append(r(v) + " -> " + ", ".join(r(n) for n in nbs))
        got = out[3:]
        want = "\n".join(want).replace("\n", "|")          # (labels may contain line breaks themselves)
        if got != want:
            return "%s rendered %r, the statement gives %r" % (line, got, want)
        return None


class C14(Check):
    id = "C14"
    modules = ["EG.Props.C14Table", "EG.Props.C14"]

    def regenerate(self, log):
        import tables_render
        n, changed = tables_render.regenerate_puml()
        log["table_rows"] = n
        log["table_changed_since_last_run"] = changed
        self.table_scripts = list(tables_render.LAST_CHANGED["rel"])
        return None
    assumptions = ["the text layer (skinparams, note, attribute lines) is not modelled: the adapter parses declaration and relation lines back; "
                   "titles are injective on the pool (hex(id) or one distinct attribute value per vertex when the attribute format is used)",
                   "single-inheritance class chains in the option lookup"]

    table_scripts = []

    def batches(self, tier, rng, real):
        # rows of the regenerated decision table that differ from the previous run's table come first:
        # each is a concrete one-link world on which the real code now answers differently
        for sc in self.table_scripts:
            yield run(real, sc)
        self.table_scripts = []
        for lines, unis in worlds(tier, rng, real, ["D", "U", "DD", "UU"] + (["X"] if rng.random() < 0.15 else []) + (["DU"] if rng.random() < 0.3 else []), attrs=True, nmax=4):
            qs = ["puml V%d %d" % (u, o) for u in unis for o in (0, 1, 2, 3, 4, 5, 6, 7)]
            # an attribute used by the title format changes between two renders of the same vertices
            nv = unis[0]
            more = []
            for _ in range(2):
                more.append("sattr V%d 0 %d" % (rng.randrange(nv), rng.choice([0, 1, 2, 3])))
                more += ["puml V%d %d" % (u, o) for u in unis[:2] for o in (2, 4, 5, 7)]
            yield run(real, lines + qs + more)

    def search(self, tier, rng, real, v):
        yield from self.batches("quick", rng, real)

    @staticmethod
    def renderable(real, u, o):
        """conservative: True only when the statement clearly promises a text for this universe and option table"""
        from adapter import Real
        by_attr = {2: (Vertex,), 7: (Vertex,), 4: (poolmod.SV,), 5: (poolmod.MX,), 6: (poolmod.MX,)}.get(o, ())
        conf = [Vertex] + {1: [poolmod.SV], 4: [poolmod.SV], 5: [poolmod.MX], 6: [poolmod.SV, poolmod.MX]}.get(o, [])
        involved = list(u.vertices)
        for v in u.vertices:
            for l in v.links:
                ok_cls = isinstance(l, (DirectedEdge, UnDirectedEdge)) or (o == 3 and isinstance(l, poolmod.X))
                vs = l.vertices
                if not ok_cls or len(vs) != 2 or any(e is None for e in vs):
                    return False
                involved += list(vs)
        for v in involved:
            if not isinstance(v, Vertex):
                return False
            near = next(c for c in type(v).__mro__ if c in conf)
            if near in by_attr:
                if not hasattr(v, "a0"):
                    return False
                if o == 7 and Real.valclass(v.a0) not in (0, 1, 2):
                    return False
        return True

    def oracle(self, real, line, out, pre):
        t = line.split()
        if t[0] != "puml":
            return None
        u, o = real.pv(t[1]), int(t[2])
        if len(u.vertices) == 0:
            return None if out == "ok none" else "empty universe gave %r" % out
        if not out.startswith("ok decls="):
            # raising inputs are outside the statement (unconfigured class, missing end / attribute, a format that does
            # not apply to the value) — but a universe in which EVERYTHING is renderable must produce text
            if out.startswith("err") and self.renderable(real, u, o):
                return "%s raised (%s) although every member is configured, every attached link is a configured two-ended " \
                       "link with two ends, and every title can be formatted" % (line, out)
            return None
        m = re.fullmatch(r"ok decls=\[(.*)\] rels=\[(.*)\]", out)
        decls = [d for d in m.group(1).split(",") if d]
        rels = [r for r in m.group(2).split(",") if r]
        members = u.vertices

        # the option tables as the statement reads them: configured class -> (type, title from attribute a0?)
        conf = {Vertex: ("object", False)}
        conf.update({1: {poolmod.SV: ("class", False)}, 2: {Vertex: ("object", True)}, 7: {Vertex: ("object", True)},
                     4: {poolmod.SV: ("class", True)}, 5: {poolmod.MX: ("entity", True)},
                     6: {poolmod.SV: ("class", False), poolmod.MX: ("entity", True)}}.get(o, {}))

        def nearest(v):
            # nearest configured class in the hierarchy = first configured class of the linearised hierarchy
            return conf[next(c for c in type(v).__mro__ if c in conf)]

        def title(v):
            if nearest(v)[1]:
                from adapter import Real
                return "T%d" % Real.valclass(getattr(v, "a0"))
            return "id%d" % real.vname(v)
        try:
            everyone = list(members) + [e for v in members for l in v.links for e in l.vertices if e is not None]
            titles = {id(v): title(v) for v in everyone}
        except AttributeError:
            return None      # an attribute-based title of a vertex without the attribute: raising input
        if len(set(titles.values())) != len(titles):
            return None      # titles not injective: outside the statement's reading
        vtype = lambda v: nearest(v)[0]  # noqa: E731
        want_decls = ["%s %s <<%s>>" % (vtype(v), title(v), type(v).__name__) for v in members]
        if decls != want_decls:
            return "%s: declarations %r, members give %r" % (line, decls, want_decls)
        # relation lines: exactly one per link attached to a member
        links = []
        for v in members:
            for l in v.links:
                if not any(l is x for x in links):
                    links.append(l)

        def arrow(l):
            if o == 1 and isinstance(l, poolmod.DD):
                return "<", ">"
            if o == 3 and isinstance(l, poolmod.X):
                return "o", "o"
            if isinstance(l, DirectedEdge):
                return "", ">"
            return "", ""
        want = []
        for l in links:
            a, b = l.vertices[0], l.vertices[1]
            s1, s2 = arrow(l)
            if o == 2:
                ta, tb = title(a), title(b)
            else:
                ta, tb = title(a), title(b)
            want.append("%s %s--%s %s" % (ta, s1, s2, tb))
        if sorted(rels) != sorted(want):
            return "%s: relation lines %r, links give %r" % (line, sorted(rels), sorted(want))
        return None


class C15(Check):
    id = "C15"
    modules = ["EG.Props.C15Table", "EG.Props.C15"]
    assumptions = ["pyvis.network.Network.add_node / add_edge behave as modelled from their source (validated by the correspondence on every call "
                   "and by the regenerated two-link decision table, re-proved equal to the model by the kernel on every run)"]
    table_scripts = []

    def witnesses(self):
        return [("D11", W.D11)]

    def regenerate(self, log):
        import tables_render
        n, changed = tables_render.regenerate_pyvis()
        log["table_rows"] = n
        log["table_changed_since_last_run"] = changed
        self.table_scripts = list(tables_render.LAST_CHANGED["pv"])
        return None

    def batches(self, tier, rng, real):
        for sc in self.table_scripts:
            yield run(real, sc)
        self.table_scripts = []
        # a universe with 300 members (sizes at which small-integer / small-table shortcuts stop holding): a ring
        # with chords, self-loops and parallel links among the members beyond position 256
        n = 300
        lines = ["reset"] + ["vertex V"] * n
        for i in list(range(0, n, 7)) + list(range(250, n)):
            lines.append("edge %s V%d V%d" % (rng.choice("DU"), i, (i + 1) % n))
        for i in range(255, n, 3):
            lines.append("edge D V%d V%d" % (i, i))
            lines.append("edge %s V%d V%d" % (rng.choice("DU"), i, rng.randrange(250, n)))
            lines.append("edge D V%d V%d" % ((i + 1) % n, i))
        lines.append("universe m=%s" % ",".join("V%d" % i for i in range(n)))
        yield run(real, lines + ["pyvis V%d -" % n, "pyvisd V%d e" % n])
        for lines, unis in worlds(tier, rng, real, ["D", "U", "DD", "UU", "X"]):
            qs = ["%s V%d %s" % (pv, u, re_) for u in unis for re_ in ("-", "e") for pv in ("pyvis", "pyvisd", "pyvisc")]
            yield run(real, lines + qs)

    def search(self, tier, rng, real, v):
        yield from self.batches("quick", rng, real)

    def pre(self, real, line):
        if line.startswith("pyvis"):
            return [set(vars(v)) for v in real.V]
        return None

    def oracle(self, real, line, out, pre):
        t = line.split()
        if t[0] not in ("pyvis", "pyvisd", "pyvisc"):
            return None
        if [set(vars(v)) for v in real.V] != pre:
            return "%s changed the attribute set of a vertex" % line
        if not out.startswith("ok nodes="):
            return None
        u = real.pv(t[1])
        members = u.vertices
        m = re.fullmatch(r"ok nodes=\[(.*)\] edges=\[(.*)\]", out)
        nodes = [z for z in m.group(1).split(",") if z]
        edges = [z for z in m.group(2).split(",") if z]
        if nodes != ["%d:v%d" % (i, real.vname(v)) for i, v in enumerate(members)]:
            return "%s: nodes %r are not the members in universe order" % (line, nodes)
        idx = {id(v): i for i, v in enumerate(members)}
        links = []
        for v in members:
            for l in v.links:
                if not any(l is x for x in links) and isinstance(l, TwoEndedLink) and len(l.vertices) == 2:
                    links.append(l)
        internal = [l for l in links if all(e is not None and id(e) in idx for e in l.vertices)]
        arrowed, plain = {}, set()
        for e in edges:
            mm = re.fullmatch(r"(\d+)([>-])(\d+):(.*)", e)
            i, j = int(mm.group(1)), int(mm.group(3))
            if i >= len(members) or j >= len(members):
                return "%s: edge %s names a node that is not a member" % (line, e)
            if mm.group(2) == ">":
                arrowed[(i, j)] = arrowed.get((i, j), 0) + 1
            else:
                plain.add((i, j))
        want = {}
        for l in internal:
            if isinstance(l, DirectedEdge):
                k = (idx[id(l.vertices[0])], idx[id(l.vertices[1])])
                want[k] = want.get(k, 0) + 1
        if arrowed != want:
            return "%s: arrowed edges %r, directed links between members %r" % (line, arrowed, want)
        for (i, j) in plain:
            if not any((not isinstance(l, DirectedEdge)) and {idx[id(l.vertices[0])], idx[id(l.vertices[1])]} == {i, j}
                       for l in internal):
                return "%s: arrow-less edge %d-%d corresponds to no non-directed link" % (line, i, j)
        joined = {frozenset(k) for k in arrowed} | {frozenset(k) for k in plain}
        for l in internal:
            k = frozenset((idx[id(l.vertices[0])], idx[id(l.vertices[1])]))
            if k not in joined:
                return "%s: link L%d between members leaves its pair of nodes unjoined" % (line, real.lname(l))
        return None


CHECKS = {c.id: c for c in (C14, C15, C16)}
