"""
run.py — runs operation scripts on the real code (adapter.Real, in-process) and on
the Lean mirror model (the compiled driver), and compares the answers line by line.
"""
import os
import subprocess
import sys

HERE = os.path.dirname(os.path.abspath(__file__))
VERIF = os.path.dirname(HERE)
DRIVER = os.path.join(VERIF, "lean", ".lake", "build", "bin", "driver")

# exception classes that properties name explicitly: compared strictly
STRICT_ERR = {"NotImplementedError", "ValueError", "Fault"}


def same(real, model):
    """canonical comparison of one answer line"""
    if real == model:
        return True
    if real.startswith("err ") and model.startswith("err "):
        r, m = real[4:], model[4:]
        if r in STRICT_ERR or m in STRICT_ERR:
            return r == m
        return True
    return False


def run_model(lines):
    """feed all lines to the Lean driver, return its answer lines"""
    p = subprocess.run([DRIVER], input=("\n".join(lines) + "\n").encode(),
                       stdout=subprocess.PIPE, stderr=subprocess.PIPE, check=False)
    if p.returncode != 0:
        raise RuntimeError("driver failed: rc=%s %s" % (p.returncode, p.stderr.decode()[:500]))
    out = p.stdout.decode().split("\n")
    if out and out[-1] == "":
        out.pop()
    return out


def run_real(scripts, real=None):
    """run every script (list of lines) on the real code; returns list of answer lists"""
    from adapter import Real
    real = real or Real()
    outs = []
    for sc in scripts:
        outs.append([real.step(line) for line in sc])
    return outs


class Divergence:
    def __init__(self, script, index, real, model):
        self.script, self.index, self.real, self.model = script, index, real, model

    def __repr__(self):
        return "Divergence(at op %d %r: real=%r model=%r)" % (
            self.index, self.script[self.index], self.real, self.model)


def compare(scripts, real_outs=None):
    """returns (n_lines_compared, [Divergence…]) — first divergence of each script"""
    if real_outs is None:
        real_outs = run_real(scripts)
    flat = [line for sc in scripts for line in sc]
    mout = run_model(flat)
    if len(mout) != len(flat):
        raise RuntimeError("driver answered %d lines for %d ops" % (len(mout), len(flat)))
    divs = []
    k = 0
    for sc, ro in zip(scripts, real_outs):
        for i, line in enumerate(sc):
            if mout[k + i].startswith("bad-op") or ro[i].startswith("bad-op"):
                divs.append(Divergence(sc, i, ro[i], mout[k + i]))
                break
            if not same(ro[i], mout[k + i]):
                divs.append(Divergence(sc, i, ro[i], mout[k + i]))
                break
        k += len(sc)
    return len(flat), divs


def shrink(script, still_diverges):
    """delta-debugging on the op list (keeps line 0 = reset and every trailing obs)"""
    cur = list(script)
    changed = True
    while changed:
        changed = False
        for i in range(len(cur) - 1, 0, -1):
            cand = cur[:i] + cur[i + 1:]
            if len(cand) > 1 and still_diverges(cand):
                cur = cand
                changed = True
    return cur


if __name__ == "__main__":
    sc = [l.rstrip("\n") for l in sys.stdin if l.strip()]
    n, divs = compare([sc])
    print(n, divs)
