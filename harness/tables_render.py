"""
tables_render.py — translation by exhaustive execution for the renderers (C14, C15): evaluates the
REAL `render_to_plantuml_src` and `make_pyvis_net` on every row of the finite domains described in
lean/EG/RenderTableSpec.lean and writes the outcomes as Lean literals under lean/EG/Generated/.
Run on every check of C14 / C15; a file is rewritten only when its content changes.
Only the public entry points are called; titles (`hex(id(v))`) are tokenised to `id<k>`.
"""
import os
import re
import sys

HERE = os.path.dirname(os.path.abspath(__file__))
sys.path.insert(0, HERE)
import pool  # noqa: E402
from tables import write_if_changed, GEN  # noqa: E402
from edgegraph.structure import Vertex, Universe, DirectedEdge, UnDirectedEdge  # noqa: E402

LNAMES = ["D", "U", "DD", "UU", "X", "DU"]
VNAMES = ["V", "SV", "FV", "UNI", "MX", "MV"]

HEADER = """import EG.RenderTableSpec
/-
  GENERATED on every run of the %s check by harness/tables_render.py from the real edgegraph
  code in /repo (one row per point of the decision domain).  Do not edit by hand.
-/
namespace EG
namespace Tab

"""


def vdef(typ="object"):
    return {"type": typ, "show_attrs": ["a.*"], "title_format": "$id",
            "stereotype_skinparams": {"BackgroundColor": "White"}}


def world(c0="V"):
    """members V0 (of class c0), V1; outsider V2; the universe"""
    Vertex.NEIGHBOR_CACHING = False
    u = Universe()
    v0 = pool.VCLS[c0]() if c0 != "UNI" else Universe()
    v1, v2 = Vertex(), Vertex()
    u.add_vertex(v0)
    u.add_vertex(v1)
    return u, [v0, v1, v2]


def relation_lines(text, vs):
    ids = {hex(id(v)): "id%d" % i for i, v in enumerate(vs)}
    out = []
    for line in text.split("\n"):
        m = re.fullmatch(r"(\S+) (\S*)--(\S*) (\S+)", line)
        if m:
            out.append("%s %s--%s %s" % (ids.get(m.group(1), m.group(1)), m.group(2), m.group(3),
                                         ids.get(m.group(4), m.group(4))))
    return out


def decl_lines(text):
    return [m.group(1) for m in re.finditer(r"(?m)^(\S+) \S+ <<\w+>> \{$", text)]


def rel_rows():
    from edgegraph.output import plantuml
    rows = []
    for c, name in enumerate(LNAMES):
        for a in range(3):
            for b in range(3):
                u, vs = world()
                pool.LCLS[name](vs[a], vs[b])
                opts = {"skinparams": {"dpi": "300"}, Vertex: vdef(),
                        DirectedEdge: {"v1side": "", "v2side": ">"}, UnDirectedEdge: {"v1side": "", "v2side": ""}}
                try:
                    text = plantuml.render_to_plantuml_src(u, opts)
                    rels = relation_lines(text, vs)
                    out = ".absent" if not rels else '.line "%s"' % rels[0] if len(rels) == 1 else ".raise .other"
                except Exception:  # noqa: BLE001
                    out = ".raise .other"
                rows.append("  ⟨%d, %d, %d, %s⟩" % (c, a, b, out))
    return rows


def resv_rows():
    from edgegraph.output import plantuml
    rows = []
    for c, name in enumerate(VNAMES):
        for mask in range(64):
            Vertex.NEIGHBOR_CACHING = False
            u = Universe()
            v0 = pool.VCLS[name]() if name != "UNI" else Universe()
            u.add_vertex(v0)
            opts = {"skinparams": {"dpi": "300"}}
            for k, kn in enumerate(VNAMES):
                if mask >> k & 1:
                    opts[pool.VCLS[kn]] = vdef("t%d" % k)
            try:
                text = plantuml.render_to_plantuml_src(u, opts)
                d = decl_lines(text)
                m = re.fullmatch(r"t(\d)", d[0]) if len(d) == 1 else None
                out = "some %s" % m.group(1) if m else "some 99"
            except Exception:  # noqa: BLE001
                out = "none"
            rows.append("  ⟨%d, %d, %s⟩" % (c, mask, out))
    return rows


def resl_rows():
    from edgegraph.output import plantuml
    rows = []
    for c, name in enumerate(LNAMES):
        for mask in range(64):
            u, vs = world()
            pool.LCLS[name](vs[0], vs[1])
            opts = {"skinparams": {"dpi": "300"}, Vertex: vdef()}
            for k, kn in enumerate(LNAMES):
                if mask >> k & 1:
                    opts[pool.LCLS[kn]] = {"v1side": "m%d" % k, "v2side": "x"}
            try:
                text = plantuml.render_to_plantuml_src(u, opts)
                rels = relation_lines(text, vs)
                m = re.fullmatch(r"id0 m(\d)--x id1", rels[0]) if len(rels) == 1 else None
                out = "some %s" % m.group(1) if m else "some 99"
            except Exception:  # noqa: BLE001
                out = "none"
            rows.append("  ⟨%d, %d, %s⟩" % (c, mask, out))
    return rows


def pv_rows():
    from edgegraph.output import pyvis as egpyvis
    rows = []
    for c1, n1 in enumerate(LNAMES):
        for a1 in range(3):
            for b1 in range(3):
                for c2, n2 in enumerate(LNAMES):
                    for a2 in range(2):
                        for b2 in range(2):
                            u, vs = world()
                            pool.LCLS[n1](vs[a1], vs[b1])
                            pool.LCLS[n2](vs[a2], vs[b2])
                            try:
                                net = egpyvis.make_pyvis_net(u)
                                es = ["(%d, %d, %s)" % (e["from"], e["to"], "true" if e.get("arrows") == "to" else "false")
                                      for e in net.get_edges()]
                                out = ".edges [%s]" % ", ".join(es)
                            except Exception:  # noqa: BLE001
                                out = ".raise .other"
                            rows.append("  ⟨%d, %d, %d, %d, %d, %d, %s⟩" % (c1, a1, b1, c2, a2, b2, out))
    return rows


def changed_rows(path, rows):
    """rows of the new table that the file written by the previous run does not contain (as scripts' sources)"""
    try:
        old = set(l.rstrip(",") for l in open(path).read().split("\n") if l.startswith("  ⟨"))
    except OSError:
        return []
    return [r for r in rows if r not in old]


def rel_script(row):
    m = re.match(r"  ⟨(\d), (\d), (\d),", row)
    c, a, b = (int(x) for x in m.groups())
    return ["reset", "vertex V", "vertex V", "vertex V", "edge %s V%d V%d" % (LNAMES[c], a, b),
            "universe m=V0,V1", "puml V3 0"]


def pv_script(row):
    m = re.match(r"  ⟨(\d), (\d), (\d), (\d), (\d), (\d),", row)
    c1, a1, b1, c2, a2, b2 = (int(x) for x in m.groups())
    return ["reset", "vertex V", "vertex V", "vertex V", "edge %s V%d V%d" % (LNAMES[c1], a1, b1),
            "edge %s V%d V%d" % (LNAMES[c2], a2, b2), "universe m=V0,V1", "pyvis V3 -"]


LAST_CHANGED = {"rel": [], "pv": []}


def regenerate_puml():
    rel, rv, rl = rel_rows(), resv_rows(), resl_rows()
    LAST_CHANGED["rel"] = [rel_script(r) for r in changed_rows(os.path.join(GEN, "PumlTables.lean"), rel)[:40]]
    text = (HEADER % "C14"
            + "def implRel : List RelRow := [\n" + ",\n".join(rel) + "\n]\n\n"
            + "def implResV : List ResRow := [\n" + ",\n".join(rv) + "\n]\n\n"
            + "def implResL : List ResRow := [\n" + ",\n".join(rl) + "\n]\n\nend Tab\nend EG\n")
    changed = write_if_changed(os.path.join(GEN, "PumlTables.lean"), text)
    return len(rel) + len(rv) + len(rl), changed


def regenerate_pyvis():
    rows = pv_rows()
    LAST_CHANGED["pv"] = [pv_script(r) for r in changed_rows(os.path.join(GEN, "PyvisTable.lean"), rows)[:60]]
    text = HEADER % "C15" + "def implPv : List PvRow := [\n" + ",\n".join(rows) + "\n]\n\nend Tab\nend EG\n"
    changed = write_if_changed(os.path.join(GEN, "PyvisTable.lean"), text)
    return len(rows), changed


if __name__ == "__main__":
    import time
    t = time.time()
    print(regenerate_puml(), regenerate_pyvis(), round(time.time() - t, 1))
