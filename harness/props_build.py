"""
props_build.py — checks of C11 (adjacency builders) and C20 (randgraph).
"""
import itertools
import os

import witnesses as W
from engine import Check
from pool import LCLS
from edgegraph.structure import Universe, Vertex, DirectedEdge, UnDirectedEdge
from edgegraph.traversal import helpers

CLASSES = ["D", "U", "DD", "UU", "X"]


def seeds():
    base = ["reset", "vertex V", "vertex SV", "vertex V"]
    return [
        base,
        base + ["edge D V0 V1", "edge U V1 V1"],
        base + ["universe m=V0,V2", "edge X V2 V0", "flag on", "nbrs V0 1 1 -"],
    ]


def dict_bodies(nv=3, maxlen=2):
    vs = ["V%d" % i for i in range(nv)]
    vals = [[]] + [[a] for a in vs] + [[a, b] for a in vs for b in vs]
    for n in range(nv + 1):
        for keys in itertools.permutations(vs, n):
            for combo in itertools.product(vals, repeat=n):
                if n == 0:
                    yield "."
                else:
                    yield ";".join("%s:%s" % (k, ",".join(v)) for k, v in zip(keys, combo))


def readback(nv_before, extra=0):
    qs = ["obs"]
    n = nv_before
    for i in range(n):
        qs.append("nbrs V%d 1 1 -" % i)
        qs.append("nbrs V%d 0 1 -" % i)
        for j in range(n):
            qs.append("flinks V%d V%d 1 1 -" % (i, j))
            qs.append("flinks V%d V%d 0 1 -" % (i, j))
    return qs


def snap(real):
    return {
        "links": [tuple(map(id, v.links)) for v in real.V],
        "unis": [tuple(map(id, v.universes)) for v in real.V],
        "members": [tuple(map(id, v.vertices)) if isinstance(v, Universe) else () for v in real.V],
        "ends": [tuple(None if x is None else id(x) for x in l.vertices) for l in real.L],
        "nV": len(real.V), "nL": len(real.L),
    }


class C11(Check):
    id = "C11"
    modules = ["EG.Props.C11", "EG.Props.C11Readback"]
    assumptions = ["matrix cells are reduced to their truth value by the adapter (arbitrary truthy / falsy Python values are passed to the real code)",
                   "adjacency dict keys / values and the side array hold Vertex objects"]

    def batches(self, tier, rng, real):
        quick = tier == "quick"
        bodies = list(dict_bodies())
        mats = ["."]
        for n in (1, 2, 3):
            for bits in itertools.product("01", repeat=n * n):
                mats.append("/".join("".join(bits[i * n:(i + 1) * n]) for i in range(n)))
        for sd in seeds():
            pick = rng.sample(bodies, 1500) if quick else bodies
            for body in pick:
                c = rng.choice(CLASSES)
                yield self.run(real, sd + ["obs", "adjdict %s %s" % (c, body)] + readback(3))
            pickm = rng.sample(mats, 150) if quick else mats
            for m in pickm:
                n = 0 if m == "." else len(m.split("/"))
                vs = [rng.choice(["V0", "V1", "V2"]) for _ in range(n)] if rng.random() < 0.3 else ["V%d" % i for i in range(n)]
                c = rng.choice(CLASSES)
                yield self.run(real, sd + ["obs", "adjmat %s %s %s" % (c, ",".join(vs) or ".", m)] + readback(3))
            # malformed: non-square, wrong side length
            for m, vs in [("10/0", "V0,V1"), ("1/11", "V0,V1"), ("11/11", "V0"), ("1", "V0,V1"), ("111/111", "V0,V1"),
                          (".", "V0"), ("1", "."), ("10/01/11", "V0,V1,V2"), ("100/010", "V0,V1"),
                          # ragged rows whose lengths add up to n*n all the same
                          ("1/111", "V0,V1"), ("111/1", "V0,V1"), ("0/000", "V0,V1"), ("000/1", "V0,V1"),
                          ("11/111/1111", "V0,V1,V2"), ("1/1111/1111", "V0,V1,V2"), ("0000/0000/1", "V0,V1,V2"),
                          ("1111/1/1111", "V0,V1,V0"),
                          # BOTH defects at once: a side array that is too short and a ragged row at an index beyond it
                          ("111/111/1", "V0,V1"), ("11/11/1", "V0"), ("1111/1111/1111/11", "V0,V1"), ("11/1", "."), ("111/111/11", "V0")]:
                yield self.run(real, sd + ["obs", "adjmat D %s %s" % (vs, m)] + readback(3))
        # larger random inputs
        for _ in range(400 if quick else 3000):
            nv = rng.randint(1, 6)
            lines = ["reset"] + ["vertex " + rng.choice(["V", "SV"]) for _ in range(nv)]
            for _ in range(rng.randint(0, 3)):
                lines.append("edge %s V%d V%d" % (rng.choice(CLASSES), rng.randrange(nv), rng.randrange(nv)))
            if rng.random() < 0.5:
                keys = rng.sample(range(nv), rng.randint(0, nv))
                body = ";".join("V%d:%s" % (k, ",".join("V%d" % rng.randrange(nv) for _ in range(rng.randint(0, 4)))) for k in keys) or "."
                lines += ["obs", "adjdict %s %s" % (rng.choice(CLASSES), body)]
            else:
                n = rng.randint(0, min(nv, 5))
                vs = [rng.randrange(nv) for _ in range(n)]
                lens = [n] * n
                if n >= 2 and rng.random() < 0.25:
                    # ragged, possibly with the right total number of cells
                    i, j = rng.sample(range(n), 2)
                    d = rng.randint(1, n - 1)
                    lens[i] -= d
                    if rng.random() < 0.7:
                        lens[j] += d
                m = "/".join("".join(rng.choice("01") for _ in range(k)) for k in lens) or "."
                lines += ["obs", "adjmat %s %s %s" % (rng.choice(CLASSES), ",".join("V%d" % v for v in vs) or ".", m)]
            yield self.run(real, lines + readback(nv))

    @staticmethod
    def run(real, lines):
        return lines, [real.step(l) for l in lines]

    def search(self, tier, rng, real, v):
        yield from self.batches("quick", rng, real)

    def pre(self, real, line):
        if line.startswith(("adjdict", "adjmat")):
            return snap(real)
        return None

    def oracle(self, real, line, out, pre):
        if pre is None:
            return None
        t = line.split()
        post = snap(real)
        cls = LCLS[t[1]]
        if t[0] == "adjmat":
            vs = [] if t[2] == "." else [real.V[int(z[1:])] for z in t[2].split(",")]
            rows = [] if t[3] == "." else t[3].split("/")
            bad = len(vs) != len(rows) or any(len(r) != len(rows) for r in rows)
            if bad:
                if out != "err ValueError":
                    return "%s: malformed input answered %s" % (line, out)
                if post != pre:
                    return "%s raised but touched vertices / links" % line
                return None
            pairs = [(vs[i], vs[j]) for i, r in enumerate(rows) for j, ch in enumerate(r) if ch == "1"]
            mention = list(vs)
        else:
            pairs, mention = [], []
            if t[2] != ".":
                for r in t[2].split(";"):
                    k, vals = r.split(":")
                    kv = real.V[int(k[1:])]
                    mention.append(kv)
                    for z in vals.split(","):
                        if z:
                            pairs.append((kv, real.V[int(z[1:])]))
                            mention.append(real.V[int(z[1:])])
        if not out.startswith("ok V"):
            return "%s answered %s" % (line, out)
        u = real.V[int(out.split()[1][1:])]
        if not isinstance(u, Universe) or id(u) in [id(x) for x in real.V[:pre["nV"]]]:
            return "%s did not return a new universe" % line
        want_members = []
        for x in mention:
            if not any(x is y for y in want_members):
                want_members.append(x)
        if [id(x) for x in u.vertices] != [id(x) for x in want_members]:
            return "%s: members are not the named vertices in first-mention order" % line
        new = real.L[pre["nL"]:]
        if len(new) != len(pairs):
            return "%s created %d links for %d entries" % (line, len(new), len(pairs))
        for l, (a, b) in zip(new, pairs):
            if type(l) is not cls or len(l.vertices) != 2 or l.vertices[0] is not a or l.vertices[1] is not b:
                return "%s: a new link is not %s(%s -> %s) in input order" % (line, t[1], real.sv(a), real.sv(b))
        # frame: pre-existing links / universes in place
        if post["ends"][:pre["nL"]] != pre["ends"]:
            return "%s changed a pre-existing link" % line
        for i in range(pre["nV"]):
            if post["links"][i][:len(pre["links"][i])] != pre["links"][i]:
                return "%s disturbed the existing links of V%d" % (line, i)
            if post["unis"][i][:len(pre["unis"][i])] != pre["unis"][i] or post["members"][i] != pre["members"][i]:
                return "%s disturbed existing universe membership of V%d" % (line, i)
        # read back (only for vertices that had no links before)
        und = issubclass(cls, UnDirectedEdge)
        directed = issubclass(cls, DirectedEdge)
        for x in want_members:
            i = real.vname(x)
            if i < pre["nV"] and pre["links"][i]:
                continue
            for y in want_members:
                mult = sum(1 for (a, b) in pairs if a is x and b is y)
                if not directed and x is not y:
                    mult += sum(1 for (a, b) in pairs if a is y and b is x)
                j = real.vname(y)
                if j < pre["nV"] and pre["links"][j]:
                    continue
                try:
                    nb = helpers.neighbors(x, 0, 1)
                except Exception as exc:  # noqa: BLE001
                    return "%s: reading back neighbors raised %s" % (line, type(exc).__name__)
                if sum(1 for z in nb if z is y) != mult:
                    return "%s: %s occurs %d times among the neighbours of %s, input says %d" % (
                        line, real.sv(y), sum(1 for z in nb if z is y), real.sv(x), mult)
                if len(helpers.find_links(x, y, True, 1)) != mult:
                    return "%s: find_links(%s, %s) has %d links, input says %d" % (
                        line, real.sv(x), real.sv(y), len(helpers.find_links(x, y, True, 1)), mult)
        return None


class C20(Check):
    id = "C20"
    modules = ["EG.Props.C20"]
    assumptions = ["random.randint(a, b) returns an integer in [a, b]; random.sample(pop, k) returns k distinct positions of pop for 0 <= k <= len(pop) "
                   "and raises otherwise (stdlib, trusted); the RNG is an oracle whose answers are logged from a real seeded run and replayed on both sides",
                   "IEEE-754 double arithmetic of CPython and of Lean's Float agree on r * (p / q) and truncation (checked by the correspondence on every k)"]

    def witnesses(self):
        return [("D15", W.D15)]

    def batches(self, tier, rng, real):
        from edgegraph.builder import randgraph as rgmod
        from adapter import Real
        quick = tier == "quick"
        counts = list(range(1, 13)) + [15, 20, 33, 40] if quick else list(range(1, 41))
        conns = ["-", "0/1", "3/10", "1/1", "1/2", "7/10"]
        reps = 3 if quick else 10
        self.reprod = 0
        for count in counts:
            for conn in conns:
                for ens in ("0", "1"):
                    for _ in range(reps):
                        c = rng.choice(CLASSES)
                        seed = rng.getrandbits(32)
                        cv = None if conn == "-" else int(conn.split("/")[0]) / int(conn.split("/")[1])
                        try:
                            _u, log = Real.logged_randgraph(rgmod, seed, count, LCLS[c], cv, ens == "1")
                            _u2, log2 = Real.logged_randgraph(rgmod, seed, count, LCLS[c], cv, ens == "1")
                        except Exception as exc:  # noqa: BLE001
                            self._viol.append("randgraph(count=%d, edge=%s, connectivity=%s, ensurelink=%s) under random.seed(%d) raised %s: %s" % (
                                count, c, conn, ens, seed, type(exc).__name__, exc))
                            continue
                        self.reprod += 1
                        if log != log2 or self.shape(_u) != self.shape(_u2):
                            self._viol.append("randgraph(count=%d, edge=%s, connectivity=%s, ensurelink=%s) under the same seed %d gave two different results: %s / %s" % (
                                count, c, conn, ens, seed, self.shape(_u), self.shape(_u2)))
                        # the statement itself, judged directly on the seeded run (no model involved)
                        msg = self.judge(_u, count, LCLS[c], ens == "1")
                        if msg:
                            self._viol.append("randgraph(count=%d, edge=%s, connectivity=%s, ensurelink=%s) under random.seed(%d): %s" % (
                                count, c, conn, ens, seed, msg))
                        if log is None:
                            # the code no longer draws one randint + one sample per vertex through `random.<fn>`: the
                            # replay of the draws on the model is unavailable (recorded in the evidence, not an alarm)
                            self.untapped = getattr(self, "untapped", 0) + 1
                            continue
                        draws = ";".join("%d:%s" % (r, ",".join(map(str, smp))) for r, smp in log) or "."
                        lines = ["reset"]
                        if rng.random() < 0.3:
                            lines += ["vertex V", "vertex V", "edge D V0 V1"]
                        lines += ["randgraph %d %s %s %s %s" % (count, c, conn, ens, draws), "obs"]
                        yield lines, [real.step(l) for l in lines]

    _viol = []

    def extra_violations(self, stats):
        from engine import Violation
        stats.extra["seeded_runs_checked_for_reproducibility"] = getattr(self, "reprod", 0)
        stats.extra["seeded_runs_whose_draws_could_not_be_replayed_on_the_model"] = getattr(self, "untapped", 0)
        v = [Violation("oracle", m, ["randgraph-direct: " + m]) for m in self._viol[:5]]
        self._viol = []
        for m in self.large_counts(stats) + self.first_call_of_a_process(stats):
            v.append(Violation("oracle", m, ["randgraph-direct: " + m]))
        return v

    def large_counts(self, stats):
        """"for every count >= 1": sparse graphs beyond a thousand vertices, judged directly (no model replay)"""
        import random as _random
        from edgegraph.builder import randgraph as rgmod
        out, n = [], 0
        for count, conn, seed in ((1001, 0.002, 1078), (1500, 0.001, 1577), (2049, 0.0005, 2126), (4300, None, 11), (4600, None, 12), (4300, 0.0003, 4377)):
            for c in (("D",) if count > 4000 else ("D", "UU")):
                _random.seed(seed)
                try:
                    u = rgmod.randgraph(count, LCLS[c], conn, True)
                except Exception as exc:  # noqa: BLE001
                    out.append("randgraph(count=%d, edge=%s, connectivity=%s, ensurelink=True) under random.seed(%d) raised %s: %s" % (
                        count, c, conn, seed, type(exc).__name__, exc))
                    continue
                n += 1
                m = self.judge(u, count, LCLS[c], True)
                if m:
                    out.append("randgraph(count=%d, edge=%s, connectivity=%s): %s" % (count, c, conn, m))
        stats.extra["large_counts_judged"] = n
        return out[:2]

    def first_call_of_a_process(self, stats):
        """reproducibility when the seeded call is the FIRST thing a process does with the library (nothing has been
        constructed before it): a fresh interpreter runs the same seeded call twice and prints both shapes"""
        import subprocess
        import sys
        code = (
            "import sys, random\n"
            "sys.path.insert(0, %r)\n"
            "from edgegraph.structure import DirectedEdge\n"
            "from edgegraph.builder import randgraph\n"
            "def shape(u):\n"
            "    return [(v.i, [tuple(getattr(e, 'i', None) for e in l.vertices) for l in v.links]) for v in u.vertices]\n"
            "ok = True\n"
            "for seed in (7, 99, 20260930):\n"
            "    random.seed(seed); a = randgraph.randgraph(15, DirectedEdge, None, True)\n"
            "    random.seed(seed); b = randgraph.randgraph(15, DirectedEdge, None, True)\n"
            "    ok = ok and shape(a) == shape(b)\n"
            "print(ok)\n"
        ) % os.environ.get("EG_REPO", "/repo")
        pr = subprocess.run([sys.executable, "-c", code], stdout=subprocess.PIPE, stderr=subprocess.PIPE, check=False)
        stats.extra["fresh_process_reproducibility_probe"] = pr.stdout.decode().strip()
        if pr.returncode != 0:
            return ["a fresh interpreter failed on randgraph(15, DirectedEdge, None, True): " + pr.stderr.decode()[-300:]]
        if pr.stdout.decode().strip() != "True":
            return ["in a fresh interpreter whose first use of the library is the seeded call, random.seed(s); randgraph(15, DirectedEdge, None, True) "
                    "run twice gives different graphs (s in 7, 99, 20260930)"]
        return []

    def search(self, tier, rng, real, v):
        yield from self.batches("quick", rng, real)

    def pre(self, real, line):
        return len(real.V) if line.startswith("randgraph") else None

    @staticmethod
    def shape(u):
        """the structure of a result, independent of object identities: per vertex (by i) the ordered links as (class, i of v1, i of v2)"""
        return [(v.i, [(type(l).__name__,) + tuple(getattr(e, "i", None) for e in l.vertices) for l in v.links]) for v in u.vertices]

    def oracle(self, real, line, out, pre):
        if pre is None:
            return None
        t = line.split()
        count, cls, ens = int(t[1]), LCLS[t[2]], t[4] == "1"
        if not out.startswith("ok V"):
            return "%s answered %s" % (line[:60], out)
        return self.judge(real.V[int(out.split()[1][1:])], count, cls, ens)

    @staticmethod
    def judge(u, count, cls, ens):
        vs = u.vertices
        if len(vs) != count:
            return "universe has %d vertices, count=%d" % (len(vs), count)
        if sorted(v.i for v in vs) != list(range(count)):
            return "vertices do not carry i = 0..count-1"
        for v in vs:
            first = False
            for l in v.links:
                if type(l) is not cls:
                    return "a link is of type %s" % type(l).__name__
                if len(l.vertices) != 2 or any(not any(e is m for m in vs) for e in l.vertices):
                    return "a link has an end outside the universe"
                if l.vertices[0] is v:
                    first = True
            if ens and not first:
                return "ensurelink: vertex i=%d is v1 of no link" % v.i
        return None


CHECKS = {c.id: c for c in (C11, C20)}
