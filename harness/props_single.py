"""
props_single.py — checks of the singleton properties C17 (semi-singletons) and C18 (true singletons).
Fresh classes are created for every history (reset): own metaclass, shared metaclass object,
subclasses, custom hash function.
"""
import itertools

import witnesses as W
from engine import Check
from adapter import SARGS

NARGS = len(SARGS)
KEYCLS_DEFAULT = [0, 1, 1, 1, 2, 3, 4, 4, 5, 6, 7, 8, 8, 9, 10]
KEYCLS_CUSTOM = [0, 1, 1, 1, 1, 1, 2, 2, 2, 1, 1, 1, 1, 2, 2]
MAPOF = [0, 0, 0, 1, 2, 2, 0]


def ts_ops():
    for c in range(4):
        for a in (0, 1, 4, 6, 8, 9, 10):
            yield "tsnew C%d A%d" % (c, a)
        yield "tsclear C%d" % c
    yield "tsclear *"


# the instance table is private: every script ends by constructing each class once, which shows
# (same object / new object, __init__ run or not) what the table held
PROBES = ["tsnew C0 A0", "tsnew C1 A1", "tsnew C2 A0", "tsnew C3 A1", "tsobs"]


def ss_ops(ninst):
    for c in range(7):
        for a in range(NARGS):
            yield "ssnew C%d A%d" % (c, a)
            yield "ssdrop C%d A%d" % (c, a)
            yield "sscheck C%d A%d" % (c, a)
        yield "ssall C%d" % c
        yield "ssclear C%d" % c
        for d in (0, 1, 2, 4, 5, 6):
            yield "ssalli C%d C%d A%d" % (c, d, (c + 2 * d) % 9)
    for i in range(ninst):
        for a in range(NARGS):
            yield "ssadd S%d A%d" % (i, a)


def run_lines(real, lines):
    return lines, [real.step(l) for l in lines]


class C18(Check):
    id = "C18"
    modules = ["EG.Props.C18Table", "EG.Props.C18"]

    def regenerate(self, log):
        import tables_ts
        n, changed = tables_ts.regenerate()
        log["table_rows"] = n
        log["table_changed_since_last_run"] = changed
        return None
    assumptions = ["the only re-entrancy exercised is a global clear issued from inside a constructor; constructors do not construct other singletons"]

    def batches(self, tier, rng, real):
        ops = list(ts_ops())
        depth = 2 if tier == "quick" else 3
        for combo in itertools.product(ops, repeat=depth):
            lines = ["reset"]
            for op in combo:
                lines += [op, "tsobs"]
            yield run_lines(real, lines + PROBES)
        for _ in range(5000 if tier == "quick" else 30000):
            lines = ["reset"]
            for _ in range(rng.randint(3, 25)):
                lines += [rng.choice(ops), "tsobs"]
            yield run_lines(real, lines + PROBES)

    def search(self, tier, rng, real, v):
        yield from self.batches("quick", rng, real)

    def extra_violations(self, stats):
        """an ALIAS class in the pool: a singleton class `L` whose `__new__` forwards to another singleton class `S`
        (a deprecated name kept for callers). `L` itself is outside the statement (it has no instance of its own);
        the statement is judged for `S`: one object per clear-period of `S`, its `__init__` run exactly once, with
        the arguments of the call that created it — however often, and with whatever arguments, `L` is called"""
        import random as _r
        from engine import Violation
        from edgegraph.structure import singleton
        rng = _r.Random(2718)
        out, probes = [], 0
        for _ in range(400):
            singleton.clear_true_singleton()
            log, keep = [], []

            class S(metaclass=singleton.TrueSingleton):
                def __init__(self, *a):
                    log.append((id(self), a))

            class L(metaclass=singleton.TrueSingleton):
                def __new__(cls, *a):
                    return S(*a)

                def __init__(self, *a):            # never runs: `__new__` does not return an instance of L
                    log.append((id(self), ("L",) + a))
            cur, first, l_set, hist, msg = None, None, False, [], None
            for _s in range(rng.randint(2, 10)):
                r, a = rng.random(), (rng.randrange(100),)
                if r < 0.3 or (r < 0.6 and l_set):
                    hist.append("S%r" % (a,))
                    o = S(*a)
                    keep.append(o)
                    if cur is None:
                        cur, first = o, a
                    elif o is not cur:
                        msg = "S returned a different object within one clear-period"
                elif r < 0.6:
                    hist.append("L%r" % (a,))
                    o = L(*a)
                    keep.append(o)
                    l_set = True
                    if cur is None:
                        cur, first = o, a
                    elif o is not cur:
                        msg = "the alias, constructed for the first time since its clear, did not return S's instance"
                elif r < 0.66:
                    # a SIBLING class is defined in the middle of the history: same name, module and qualified name as S
                    # (classes made by one factory function / one `type()` call site): S keeps its instance
                    hist.append("define another class named S")
                    sib = singleton.TrueSingleton("S", (), {"__init__": lambda self, *a: None, "__qualname__": S.__qualname__,
                                                            "__module__": S.__module__})
                    keep.append(sib)
                    if rng.random() < 0.5:
                        keep.append(sib())
                elif r < 0.75:
                    hist.append("clear(S)")
                    singleton.clear_true_singleton(S)
                    cur = None
                elif r < 0.9:
                    hist.append("clear(L)")
                    singleton.clear_true_singleton(L)
                    l_set = False
                else:
                    hist.append("clear()")
                    singleton.clear_true_singleton()
                    cur, l_set = None, False
                probes += 1
                if msg is None and cur is not None:
                    inits = [x for (i, x) in log if i == id(cur)]
                    if inits != [first]:
                        msg = "__init__ of S's instance ran with %r in this period; the first call's arguments were %r" % (inits, first)
                if msg:
                    if len(out) < 3:
                        out.append(Violation("oracle", "alias class, after [%s]: %s" % ("; ".join(hist), msg), ["sweep:alias class: " + "; ".join(hist)]))
                    break
        singleton.clear_true_singleton()
        stats.extra["alias_class_probes"] = probes
        return out

    # model-free bookkeeping: per class, the instance of the current clear-period and its init count
    def on_reset(self):
        self.book = {}

    def oracle(self, real, line, out, pre):
        t = line.split()
        if t[0] == "tsnew":
            c = int(t[1][1:])
            if out.startswith("err"):
                # only a first construction of a period whose __init__ raises may raise
                if t[2] != "A9" or out != "err ValueError":
                    return "%s raised (%s)" % (line, out)
                if c in self.book:
                    return "%s raised although the class has an instance (__init__ must not run again)" % line
                return None
            if out.endswith("'"):
                return "%s returned a second object passing for the instance" % line
            n, ci = real.last_ts
            if n is None:
                return "%s returned an object whose __init__ never completed" % line
            if ci != c:
                return "%s returned an instance of class index %s" % (line, ci)
            obj = n                # the harness keeps no reference: the object is known by its number
            inits = [(o, a, k) for (o, _cn, a, k) in real.ts_log if o == obj]
            if c in self.book:
                if self.book[c] != obj:
                    return "%s returned a different object than earlier in this clear-period" % line
            else:
                for c2, o2 in self.book.items():
                    if o2 == obj:
                        return "%s returned the instance of another class" % line
                if t[2] == "A10":
                    self.book = {}         # this __init__ issued a global clear: every other period ends here
                self.book[c] = obj
                first = SARGS[int(t[2][1:])]
                if len(inits) != 1 or (inits[0][1], inits[0][2]) != first:
                    return "%s: __init__ did not run exactly once with the first call's arguments" % line
            if len(inits) != 1:
                return "%s: __init__ ran %d times for this instance" % (line, len(inits))
        elif t[0] == "tsclear":
            if not out.startswith("ok"):
                return "%s raised" % line
            if t[1] == "*":
                self.book = {}
            else:
                self.book.pop(int(t[1][1:]), None)
        return None


class C17(Check):
    id = "C17"
    modules = ["EG.Props.C17Table", "EG.Props.C17"]

    def regenerate(self, log):
        import tables_single
        n, changed = tables_single.regenerate()
        log["table_rows"] = n
        log["table_changed_since_last_run"] = changed
        return None
    assumptions = ["argument values are hashable; the key of a construction is the value returned by the metaclass's hash function "
                   "(default: the (args, json(kwargs)) pair itself), compared with ==",
                   "the instance maps are private: model and code are compared through get_all / check_semi_singleton_entry_exists for every class and argument tuple"]

    def witnesses(self):
        return [("D13", W.D13)]

    def batches(self, tier, rng, real):
        ops0 = list(ss_ops(0))
        if tier == "thorough":
            small = [o for o in ops0 if o.split()[1] in ("C0", "C1", "C2", "C4") and (len(o.split()) < 3 or o.split()[2] in ("A1", "A2", "A4", "A5"))]
            for combo in itertools.product(small, repeat=3):
                lines = ["reset"]
                for op in combo:
                    lines += [op, "ssobs"]
                yield run_lines(real, lines)
        else:
            small = [o for o in ops0 if o.split()[1] in ("C0", "C1", "C2", "C4") and (len(o.split()) < 3 or o.split()[2] in ("A1", "A4", "A5", "A9"))]
            for combo in itertools.product(small, repeat=2):
                lines = ["reset"]
                for op in combo:
                    lines += [op, "ssobs"]
                yield run_lines(real, lines)
        for _ in range(1500 if tier == "quick" else 30000):
            lines, outs = ["reset"], [real.step("reset")]
            for _ in range(rng.randint(3, 30)):
                ops = list(ss_ops(len(real.inner.S)))
                r = rng.random()
                if r < 0.5:
                    ops = [o for o in ops if o.startswith("ssnew")]
                op = rng.choice(ops)
                for l in (op, "ssobs"):
                    lines.append(l)
                    outs.append(real.step(l))
            yield lines, outs

    def search(self, tier, rng, real, v):
        yield from self.batches("quick", rng, real)

    @staticmethod
    def key(c, a):
        m = MAPOF[c]
        return (c, (KEYCLS_CUSTOM if m == 2 else KEYCLS_DEFAULT)[a])

    def on_reset(self):
        self.live = {}          # (class, key) -> instance : the statement's own bookkeeping

    def pre(self, real, line):
        # answers of every OTHER class before the op (isolation)
        t = line.split()
        if t[0] in ("ssnew", "ssdrop", "ssclear", "ssadd", "ssalli"):
            from edgegraph.structure import singleton
            snap = {}
            for c, cls in enumerate(real.SS):
                snap[c] = [id(o) for o in singleton.get_all_semi_singleton_instances(cls)]
            return (snap, len(real.sg_log))
        return None

    def oracle(self, real, line, out, pre):
        from edgegraph.structure import singleton
        t = line.split()
        op = t[0]
        if op == "ssobs":
            return None
        if op == "ssalli":
            if not out.startswith("ok ["):
                return "%s answered %s" % (line, out)
            c = int(t[1][1:])
            body, newtok = out[4:].rsplit("] ", 1)
            want = [o for k, o in self.live.items() if k[0] == c]
            got = [real.S[int(z[1:])] for z in body.split(",") if z]
            if sorted(map(id, got)) != sorted(map(id, want)):
                return "%s: consumed incrementally, get_all reported %d instances, live mappings were %d" % (line, len(got), len(want))
            return self.oracle(real, "ssnew C%s A%s" % (t[2][1:], t[3][1:]), "ok " + newtok, pre)
        if op == "ssnew":
            c, a = int(t[1][1:]), int(t[2][1:])
            k = self.key(c, a)
            ninit = len(real.sg_log) - pre[1]
            if out.startswith("err"):
                if a != 9 or out != "err ValueError":
                    return "%s raised (%s)" % (line, out)
                if k in self.live:
                    return "%s: live key, but __init__ ran (and raised)" % line
                obj = None
            else:
                obj = real.S[int(out.split()[1][1:])]
                if type(obj) is not real.SS[c]:
                    return "%s returned an instance of %s" % (line, type(obj).__name__)
            if obj is None:
                pass        # nothing may have been registered: checked by the reports below
            elif k in self.live:
                if self.live[k] is not obj:
                    return "%s: live key, but a different instance was returned" % line
                if ninit != 0:
                    return "%s: live key, but __init__ ran again" % line
            else:
                if any(o is obj for o in self.live.values()):
                    return "%s: new key, but an existing instance was returned" % line
                if ninit != 1:
                    return "%s: new key, __init__ ran %d times" % (line, ninit)
                self.live[k] = obj
            touched = c
        elif op == "ssadd":
            obj = real.S[int(t[1][1:])]
            c = real.SS.index(type(obj))
            self.live[self.key(c, int(t[2][1:]))] = obj
            touched = c
        elif op == "ssdrop":
            c, a = int(t[1][1:]), int(t[2][1:])
            k = self.key(c, a)
            if k in self.live:
                if out != "ok":
                    return "%s on a live mapping answered %s" % (line, out)
                del self.live[k]
            elif out != "err KeyError":
                return "%s on a missing mapping answered %s" % (line, out)
            touched = c
        elif op == "ssclear":
            c = int(t[1][1:])
            for k in [k for k in self.live if k[0] == c]:
                del self.live[k]
            touched = c
        elif op == "sscheck":
            c, a = int(t[1][1:]), int(t[2][1:])
            want = self.live.get(self.key(c, a))
            got = None if out == "ok -" else real.S[int(out.split()[1][1:])]
            if got is not want:
                return "%s answered %s, live mapping says %s" % (line, out, want)
            return None
        elif op == "ssall":
            c = int(t[1][1:])
            want = [o for k, o in self.live.items() if k[0] == c]
            got = [real.S[int(z[1:])] for z in out[4:-1].split(",") if z]
            if sorted(map(id, got)) != sorted(map(id, want)):
                return "%s reports %d instances, live mappings are %d" % (line, len(got), len(want))
            return None
        else:
            return None
        # reports exact + isolation
        for c, cls in enumerate(real.SS):
            now = [id(o) for o in singleton.get_all_semi_singleton_instances(cls)]
            want = [id(o) for k, o in self.live.items() if k[0] == c]
            if sorted(now) != sorted(want):
                return "after %s class C%d reports %d instances but %d mappings are live" % (line, c, len(now), len(want))
            if c != touched and pre is not None and now != pre[0][c]:
                return "%s changed what class C%d reports" % (line, c)
        return None


CHECKS = {c.id: c for c in (C17, C18)}
