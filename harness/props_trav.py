"""
props_trav.py — checks of the traversal / search properties C06, C07, C08.
Exhaustive part: every ORDERED list of links (order is what C07 is about) over
{directed, undirected, other two-ended} on a small vertex set, with every start vertex,
universe patterns {none, all, all-but-one} and the 3 x 3 direction / unknown modes.
Random part: larger multigraphs with self-loops, parallel and mixed-class links,
half-assigned edges, ff_via / ff_result filter tables, falsy vertices, attribute values
that are equal but not identical.
"""
import itertools

from engine import Check
import witnesses as W
from edgegraph.traversal import helpers, breadthfirst, depthfirst

KINDS = ["D", "U", "X"]
TRAV = {"bft": breadthfirst.bft, "dftr": depthfirst.dft_recursive, "dfti": depthfirst.dft_iterative}
SEARCH = {"bfs": breadthfirst.bfs, "dfsr": depthfirst.dfs_recursive, "dfsi": depthfirst.dfs_iterative}
SEARCH2TRAV = {"bfs": "bft", "dfsr": "dftr", "dfsi": "dfti"}


def graph_lines(nv, links, attrs=None, classes=None):
    lines = ["reset"]
    for i in range(nv):
        c = (classes or {}).get(i, "V")
        a = (attrs or {}).get(i)
        lines.append("vertex %s%s" % (c, "" if a is None else (" a=" + a) if isinstance(a, str) else (" a=0:%d" % a)))
    for (k, a, b) in links:
        lines.append("edge %s %s %s" % (k, "-" if a is None else "V%d" % a, "-" if b is None else "V%d" % b))
    # universes: all, and all-but-i; the first one is governed by laws that DECLARE multipath=False (nothing enforces them)
    lines.append("universe m=%s" % ",".join("V%d" % i for i in range(nv)))
    lines.append("lawset 2")
    lines.append("setlaws V%d W1" % nv)
    for i in range(nv):
        ms = ",".join("V%d" % j for j in range(nv) if j != i)
        lines.append("universe" + ((" m=" + ms) if ms else ""))
    return lines


def trav_queries(nv, starts, unis, modes, kinds=("bft", "dftr", "dfti"), via="-", res="-", listmode="list"):
    for s in starts:
        for u in unis:
            for (d, k) in modes:
                for t in kinds:
                    yield "%s %s V%d %d %d %s %s %s" % (t, u, s, d, k, via, res, listmode)


def search_queries(nv, starts, unis, vals=(0, 1, 2, 5, 6, 7, 8)):
    for s in starts:
        for u in unis:
            for t in ("bfs", "dfsr", "dfsi"):
                for val in vals:
                    yield "%s %s V%d 0 %d" % (t, u, s, val)
                for val in (1, 2):
                    # attribute 3 has a dotted name (`a0.real`); a vertex whose a0 is the number 1 HAS `.a0.real == 1`
                    yield "%s %s V%d 3 %d" % (t, u, s, val)


ALLMODES = [(d, k) for d in (0, 1, 2) for k in (0, 1, 2)]


def link_options(nv, kinds=KINDS):
    return [(k, a, b) for k in kinds for a in range(nv) for b in range(nv)]


def exhaustive_graphs(nv, maxlinks, kinds=KINDS):
    opts = link_options(nv, kinds)
    for n in range(maxlinks + 1):
        for combo in itertools.product(opts, repeat=n):
            yield list(combo)


def run_script(real, lines):
    return lines, [real.step(l) for l in lines]


class TravBase(Check):
    searches = False
    kinds = KINDS
    assumptions = [
        "filter callbacks are pure functions of the identities of their arguments",
        "no mutation while a generator is being consumed",
        "theorems quantify over an arbitrary resolved neighbour function nb, universe test inU and result filter; "
        "errors raised by neighbors() and None neighbours are encoded as pseudo-vertices by the driver (lean/Main.lean), "
        "an encoding validated by the correspondence",
    ]

    def queries(self, nv, rng, full):
        unis = ["-", "V%d" % nv, "V%d" % (nv + 1)]     # none, all, all-but-V0
        if full:
            unis += ["V%d" % (nv + 1 + i) for i in range(1, nv)]
        qs = []
        if not self.searches:
            qs += list(trav_queries(nv, range(nv), unis, ALLMODES))
            qs += list(trav_queries(nv, range(nv), unis[:2], [(0, 0), (1, 1)], listmode="gen"))
            via = rng.getrandbits(64)
            res = rng.getrandbits(64)
            for _ in range(3):      # short-lived filter objects (k % 5 == 2), different tables back to back
                r_ = rng.getrandbits(63)
                qs += list(trav_queries(nv, range(nv), unis[:1], [(1, 1)], via=str(r_ - r_ % 5 + 2)))
            qs += list(trav_queries(nv, range(nv), unis[:2], [(0, 1), (1, 0), (2, 1)], via=str(via)))
            # a read-only ff_via that itself calls neighbors() on the vertex being expanded (k % 11 == 4)
            r_ = rng.getrandbits(63)
            r_ = r_ - r_ % 11 + 4
            while r_ % 5 == 2 or r_ % 7 == 3:
                r_ += 11
            qs += list(trav_queries(nv, range(nv), unis[:1], [(0, 1), (2, 1)], via=str(r_)))
            # an ff_via that cannot be hashed (k % 13 == 5)
            r_ = rng.getrandbits(63)
            qs += list(trav_queries(nv, range(nv), unis[:1], [(1, 1)], via=str(r_ - r_ % 13 + 5)))
            qs += list(trav_queries(nv, range(nv), unis[:2], [(0, 1), (1, 0)], res=str(res)))
            qs += list(trav_queries(nv, range(nv), unis[:1], [(1, 1)], via=str(via), res=str(res), listmode="gen"))
        else:
            qs += list(search_queries(nv, range(nv), unis))
            qs += list(trav_queries(nv, range(nv), unis, [(0, 2)]))
        return qs

    def batches(self, tier, rng, real):
        quick = tier == "quick"
        real.inner.plain_filters = True      # no faults and no pickling in these scripts
        # exhaustive: ordered link lists
        plan = [(2, 2, None), (3, 2, None)] if quick else [(2, 3, None), (3, 3, None), (4, 2, None)]
        for nv, ml, _ in plan:
            for links in exhaustive_graphs(nv, ml, self.kinds):
                yield self.one(real, rng, nv, links, full=not quick)
        # sampled 3-link graphs over 3 vertices (quick) / 4-link over 3 (thorough)
        opts3 = link_options(3, self.kinds)
        for _ in range(600 if quick else 20000):
            links = [rng.choice(opts3) for _ in range(3 if quick else 4)]
            yield self.one(real, rng, 3, links, full=False)
        # worlds reached by arbitrary histories (members removed again, ends reassigned, …)
        for _ in range(150 if quick else 6000):
            yield self.history_world(real, rng, quick)
        # large worlds (depth / size thresholds)
        for _ in range(1 if quick else 4):
            yield from self.big_worlds(real, rng, quick)
        # random larger multigraphs
        for _ in range(150 if quick else 4000):
            nv = rng.randint(2, 7)
            nl = rng.randint(0, 12)
            links = []
            for _ in range(nl):
                k = rng.choice(["D", "D", "U", "DD", "UU", "DU"] + (["X"] if rng.random() < (0.15 if self.searches else 1) else []))
                a = rng.randrange(nv)
                b = a if rng.random() < 0.15 else rng.randrange(nv)
                if rng.random() < 0.04:
                    b = None
                links.append((k, a, b))
            yield self.one(real, rng, nv, links, full=False, sample=60)

    def big_worlds(self, real, rng, quick):
        """sizes at which 'optimised' code paths switch: a path far deeper than 200 levels with branching and
        an out-of-universe vertex hanging below that depth; a dense graph whose pending stack of the iterative
        DFS passes several thousand entries"""
        # --- deep chain with gadgets ---
        n = 215 + rng.randint(0, 60)
        lines = ["reset"] + ["vertex V"] * n
        for i in range(n - 1):
            lines.append("edge D V%d V%d" % (i, i + 1))
        x = n - 1
        p_, q_, r_, y_, z_ = n, n + 1, n + 2, n + 3, n + 4
        lines += ["vertex V", "vertex V", "vertex V a=0:1", "vertex V", "vertex V a=0:1"]
        for a, b in [(x, p_), (x, q_), (p_, q_), (p_, r_)]:
            lines.append("edge %s V%d V%d" % (rng.choice(["D", "D", "U"]), a, b))
        hang = rng.randint(205, n - 2)
        lines += ["edge D V%d V%d" % (hang, y_), "edge D V%d V%d" % (y_, z_)]
        total = n + 5
        lines.append("universe m=%s" % ",".join("V%d" % i for i in range(total) if i != y_))
        u = total
        qs = []
        kinds = ("bfs", "dfsr", "dfsi") if self.searches else ("bft", "dftr", "dfti")
        for uni in ("V%d" % u, "-"):
            for t in kinds:
                if self.searches:
                    qs += ["%s %s V0 0 1" % (t, uni), "%s %s V%d 0 1" % (t, uni, hang - 3)]
                else:
                    qs += ["%s %s V0 0 1 - - list" % (t, uni), "%s %s V%d 1 1 - - gen" % (t, uni, hang - 3)]
        yield run_script(real, lines + qs)
        if not quick or rng.random() < 0.5:
            # --- a chain 880 levels deep (the recursive forms still manage it) with links from its far end back
            #     to vertices listed hundreds of levels earlier, and a branch hanging below that depth
            n = 880
            lines = ["reset"] + ["vertex V"] * (n + 6)
            for i in range(n - 1):
                lines.append("edge D V%d V%d" % (i, i + 1))
            lines += ["edge D V%d V3" % (n - 1), "edge D V%d V%d" % (n - 2, n), "edge D V%d V%d" % (n, n + 1),
                      "edge U V%d V500" % (n + 1)]
            # a diamond at the far end (u -> a, u -> b, a -> b, a -> e, b -> d): b is a neighbour of two expansions that are
            # pending at the same time, hundreds of levels down
            u_, a_, b_, e_, d_ = n - 1, n + 2, n + 3, n + 4, n + 5
            lines += ["edge D V%d V%d" % pq for pq in [(u_, a_), (u_, b_), (a_, b_), (a_, e_), (b_, d_)]]
            kinds_ = ("bfs", "dfsr", "dfsi") if self.searches else ("bft", "dftr", "dfti")
            qs = ["%s - V0 0 1" % t for t in kinds_] if self.searches else ["%s - V0 0 1 - - list" % t for t in kinds_]
            yield run_script(real, lines + qs)
        if self.searches:
            return
        if not quick and not getattr(self, "_k262_done", False):
            # --- thorough tier only (the model needs a minute and a half for it): the complete graph on 262 vertices,
            #     links created in a shuffled order: the pending stack of the iterative DFS passes 65536 entries
            self._k262_done = True
            n = 262
            pairs = [(i, j) for i in range(n) for j in range(i + 1, n)]
            rng.shuffle(pairs)
            lines = ["reset"] + ["vertex V"] * n + ["edge U V%d V%d" % pq for pq in pairs]
            yield run_script(real, lines + ["dfti - V0 0 1 - - list", "bft - V0 0 1 - - list"])
        # --- dense graph ---
        nv, deg = (130, 60) if quick else (170, 80)
        lines = ["reset"] + ["vertex V"] * nv
        for i in range(nv):
            outs = list(range(nv))
            rng.shuffle(outs)
            for j in outs[:deg]:
                lines.append("edge %s V%d V%d" % ("D" if rng.random() < 0.8 else "U", i, j))
        lines.append("universe m=%s" % ",".join("V%d" % i for i in range(nv) if i % 17 != 3))
        qs = []
        for t in kinds:
            qs += ["%s - V0 0 1 - - list" % t, "%s V%d V1 0 1 - - list" % (t, nv)]
        if not self.searches:
            # a BALANCED swap of members (one out, one in: the size of the universe is what it was), then the same again
            qs += ["urem V%d V5" % nv, "uadd V%d V3" % nv] + ["%s V%d V1 0 1 - - list" % (t, nv) for t in kinds]
        yield run_script(real, lines + qs)

    def history_world(self, real, rng, quick):
        """a world reached by an arbitrary history of structure / membership / law operations
        (vertices leave universes again, ends are reassigned, links are unlinked …), then queried"""
        import gen
        from props_struct import all_ops

        def clean_ops(p):
            """well-formed graphs only (so that traversals return rather than raise), but with
            every kind of later change: ends reassigned, links removed, members removed again"""
            vs = p.verts()
            for a in vs:
                for b in vs:
                    for c in self.kinds:
                        yield "edge %s %s %s" % (c, a, b)
                    yield "unlink %s %s destroy" % (a, b)
                    yield "linkft %s D %s 1" % (a, b)
            for l in p.two:
                for x in vs:
                    yield "setv1 L%d %s" % (l, x)
                    yield "setv2 L%d %s" % (l, x)
            for _ in range(3):
                yield from gen.uni_ops(p)
        opsfn = all_ops if rng.random() < 0.3 else clean_ops
        lines, outs = gen.random_history(rng, real, opsfn, rng.randint(4, 25), audit=(),
                                         attr_values=([0, 1, 1, 5] if self.searches else None))
        p = gen.Pool()
        for l, o in zip(lines, outs):
            p = p.after(l, o)
        unis = ["-"] + p.universes()
        vs = p.verts()
        qs = []
        if self.searches:
            for v in vs:
                for u in unis:
                    for t in ("bfs", "dfsr", "dfsi"):
                        qs.append("%s %s %s 0 %d" % (t, u, v, rng.choice([0, 1, 5, 6])))
        for v in vs:
            for u in unis:
                for (d, k) in [(0, 0), (0, 1), (1, 1), (2, 0), (0, 2)]:
                    for t in ("bft", "dftr", "dfti"):
                        qs.append("%s %s %s %d %d - - %s" % (t, u, v, d, k, rng.choice(["list", "list", "gen"])))
        if len(qs) > 80:
            keep = [q for q in qs if q.split()[0] in SEARCH] if self.searches else []
            rest = [q for q in qs if q not in keep]
            qs = keep[:90] + rng.sample(rest, min(len(rest), max(0, 80 - len(keep))))
        if rng.random() < 0.3:
            qs = ["flag on"] + qs
        more = [real.step(q) for q in qs]
        lines, outs = lines + qs, outs + more
        # second phase: the graph / the memberships change again after the first queries
        if rng.random() < 0.6:
            for _ in range(rng.randint(1, 3)):
                cands = list(clean_ops(p))
                if not cands:
                    break
                op = rng.choice(cands)
                lines.append(op)
                outs.append(real.step(op))
                p = p.after(op, outs[-1])
            q2 = rng.sample(qs, min(len(qs), 40))
            q2 = [q for q in q2 if q != "flag on"]
            # a member leaves a universe through the VERTEX-side call; everything is asked again there
            inner = real.inner
            withm = [i for i in p.unis if inner.V[i].vertices]
            if withm and rng.random() < 0.7:
                ui = rng.choice(withm)
                m = rng.choice(inner.V[ui].vertices)
                op = "%s V%d V%d" % (("vrem", inner.vname(m), ui) if rng.random() < 0.7 else ("urem", ui, inner.vname(m)))
                lines.append(op)
                outs.append(real.step(op))
                for v in vs:
                    for t in (("bfs", "dfsr", "dfsi") if self.searches else ("bft", "dftr", "dfti")):
                        if self.searches:
                            for val in (0, 1, 5, 6):
                                q2.append("%s V%d %s 0 %d" % (t, ui, v, val))
                        else:
                            q2.append("%s V%d %s %d %d - - list" % (t, ui, v, rng.choice([0, 1, 2]), rng.choice([0, 1])))
            lines += q2
            outs += [real.step(q) for q in q2]
        return lines, outs

    def one(self, real, rng, nv, links, full, sample=None):
        attrs, classes = {}, {}
        if self.searches:
            for i in range(nv):
                r = rng.random()
                if r < 0.6:
                    attrs[i] = rng.choice([0, 1, 1, 2, 5, 8])
                    if rng.random() < 0.3:
                        attrs[i] = rng.choice(["3:1", "3:2", "0:1,3:2", "0:2,3:1"])
                if rng.random() < 0.3:
                    classes[i] = "FV"
                elif rng.random() < 0.2:
                    classes[i] = "SV"
        lines = graph_lines(nv, links, attrs, classes)
        qs = self.queries(nv, rng, full)
        if sample and len(qs) > sample:
            qs = rng.sample(qs, sample)
        if not self.searches and nv >= 2 and rng.random() < 0.5:
            # a generator requested BEFORE the universe changes and consumed after: it reads membership when it runs
            for _ in range(2):
                t, s, j = rng.choice(["bft", "dftr", "dfti"]), rng.randrange(nv), rng.randrange(nv)
                q = "%s V%d V%d %d 1 - -" % (t, nv, s, rng.choice([0, 1]))
                qs += ["ghold " + q, rng.choice(["urem V%d V%d", "uadd V%d V%d"]) % (nv, j), q + " gen", q + " list"]
        if rng.random() < 0.3:
            lines.append("flag on")
            # read-only calls of other kinds in between must not disturb the order of later traversals
            for _ in range(min(6, len(qs) // 8)):
                qs.insert(rng.randrange(len(qs) + 1), "plain V%d tok %d" % (nv, rng.choice([0, 1, 2, 4])))
        return run_script(real, lines + qs)

    def search(self, tier, rng, real, v):
        for _ in range(200):
            nv = rng.randint(2, 5)
            links = [(rng.choice(KINDS), rng.randrange(nv), rng.randrange(nv)) for _ in range(rng.randint(0, 6))]
            yield self.one(real, rng, nv, links, full=False, sample=80)

    # ---- helpers for the direct oracles -----------------------------------
    @staticmethod
    def parse_trav(real, line):
        t = line.split()
        uni, start = real.pv(t[1]), real.pv(t[2])
        d, k = int(t[3]), int(t[4])
        via, res = real.filt2(real.pnat(t[5])), real.vfilt(real.pnat(t[6]))
        return t[0], uni, start, d, k, via, res, t[7]

    @staticmethod
    def parse_list(real, out):
        body = out[out.index("[") + 1: out.index("]")]
        return [None if z == "-" else real.V[int(z[1:])] for z in body.split(",") if z]


def reach_set(uni, start, d, k, via):
    """naive fixpoint over neighbors(); returns None if some reachable vertex's neighbors() raises"""
    members = None if uni is None else uni.vertices
    seen, todo = [start], [start]
    while todo:
        x = todo.pop()
        if x is None:
            return None
        try:
            ns = helpers.neighbors(x, d, k, via)
        except Exception:  # noqa: BLE001
            return None
        for y in ns:
            if members is not None and not any(y is m for m in members):
                continue
            if not any(y is z for z in seen):
                seen.append(y)
                todo.append(y)
    return seen


class C06(TravBase):
    id = "C06"
    modules = ["EG.Props.C06", "EG.Props.C06World", "EG.Props.C07World"]

    def oracle(self, real, line, out, pre):
        w = line.split()[0]
        if w in TRAV and out.startswith("err ") and out != "err ValueError":
            kind, uni, start, d, k, via, res, mode = self.parse_trav(real, line)
            from edgegraph.structure import Vertex
            caching = Vertex.NEIGHBOR_CACHING
            Vertex.NEIGHBOR_CACHING = False
            try:
                fine = (uni is None or any(start is m for m in uni.vertices)) and reach_set(uni, start, d, k, via) is not None
            finally:
                Vertex.NEIGHBOR_CACHING = caching
            if fine:
                return "%s raised (%s) although neighbors() of every reachable in-universe vertex returns" % (line, out)
            return None
        if w not in TRAV or not out.startswith(("ok ", "gen ")):
            return None
        if out.endswith(("lockstep-differs", "lockstep-does-not-terminate")):
            return "%s: two generators of this traversal consumed in lock-step do not both list the vertices once and stop (%s)" % (
                line, out[-40:])
        kind, uni, start, d, k, via, res, mode = self.parse_trav(real, line)
        if mode == "gen" and not out.endswith(" end"):
            return None
        got = self.parse_list(real, out)
        if uni is not None and len(uni.vertices) == 0:
            return None
        from edgegraph.structure import Vertex
        caching = Vertex.NEIGHBOR_CACHING
        Vertex.NEIGHBOR_CACHING = False
        try:
            want = reach_set(uni, start, d, k, via)
        finally:
            Vertex.NEIGHBOR_CACHING = caching
        if want is None:
            return "%s returned although neighbors() of a reachable vertex raises" % line
        if res is not None:
            want = [x for x in want if res(x)]
        if len(set(map(id, got))) != len(got):
            return "%s lists a vertex twice: %s" % (line, out)
        if {id(x) for x in got} != {id(x) for x in want}:
            return "%s: listed %s but reachable set has %d members" % (line, out, len(want))
        if res is None and (not got or got[0] is not start):
            return "%s does not start with the start vertex" % line
        return None


def textbook(kind, uni, start, d, k, via):
    members = None if uni is None else uni.vertices
    inu = (lambda y: True) if members is None else (lambda y: any(y is m for m in members))
    nb = lambda x: helpers.neighbors(x, d, k, via)  # noqa: E731
    if kind == "bft":
        out = [start]
        i = 0
        while i < len(out):
            for y in nb(out[i]):
                if inu(y) and not any(y is z for z in out):
                    out.append(y)
            i += 1
        return out
    if kind == "dftr":
        out = []

        def visit(x):
            out.append(x)
            for y in nb(x):
                if inu(y) and not any(y is z for z in out):
                    visit(y)
        visit(start)
        return out
    out, stack = [], [start]
    while stack:
        x = stack.pop()
        if any(x is z for z in out) or not inu(x):
            continue
        out.append(x)
        stack.extend(nb(x))
    return out


class C07(TravBase):
    id = "C07"
    modules = ["EG.Props.C07", "EG.Props.C07World", "EG.Props.C07Rename"]

    def oracle(self, real, line, out, pre):
        w = line.split()[0]
        if w not in TRAV or not out.startswith("ok "):
            return None
        kind, uni, start, d, k, via, res, mode = self.parse_trav(real, line)
        got = self.parse_list(real, out)
        if uni is not None and len(uni.vertices) == 0:
            return None
        from edgegraph.structure import Vertex
        caching = Vertex.NEIGHBOR_CACHING
        Vertex.NEIGHBOR_CACHING = False        # the order is a function of the graph's LINK ORDER alone
        try:
            want = textbook(kind, uni, start, d, k, via)
        except Exception as exc:  # noqa: BLE001
            return "textbook %s raised %s but the call returned" % (kind, type(exc).__name__)
        finally:
            Vertex.NEIGHBOR_CACHING = caching
        if res is not None:
            want = [x for x in want if res(x)]
        if len(got) != len(want) or any(a is not b for a, b in zip(got, want)):
            return "%s: order differs from the textbook %s order" % (line, kind)
        # repeating the call gives the same sequence
        again = TRAV[kind](uni, start, direction_sensitive=d, unknown_handling=k, ff_via=via, ff_result=res)
        if len(again) != len(got) or any(a is not b for a, b in zip(again, got)):
            return "%s: repeating the call gave a different sequence" % line
        return None


class C08(TravBase):
    id = "C08"
    modules = ["EG.Props.C08", "EG.Props.C06World"]
    searches = True
    kinds = ["D", "U"]      # searches run with LNK_UNKNOWN_ERROR: other classes only in the random part

    def witnesses(self):
        return [("D9", W.D9)]

    def oracle(self, real, line, out, pre):
        t = line.split()
        if t[0] not in SEARCH or not out.startswith("ok "):
            return None
        from adapter import VALREPS, attrname
        uni, start = real.pv(t[1]), real.pv(t[2])
        attr, val = attrname(t[3]), VALREPS[int(t[4])][0]
        if uni is not None and len(uni.vertices) == 0:
            return None
        try:
            listing = TRAV[SEARCH2TRAV[t[0]]](uni, start)
        except Exception as exc:  # noqa: BLE001
            # the traversal raises somewhere; the search may legitimately have returned before that point
            listing = None
        got = real.pv(out.split()[1])
        if listing is None:
            if got is None:
                return "%s returned None although the traversal raises" % line
            ok = hasattr(got, attr) and got[attr] == val
            return None if ok else "%s returned a vertex that does not match" % line
        want = None
        for x in listing:
            if hasattr(x, attr) and x[attr] == val:
                want = x
                break
        if got is not want:
            return "%s returned %s, first match of the traversal is %s" % (line, out, real.sv(want))
        return None


CHECKS = {c.id: c for c in (C06, C07, C08)}
