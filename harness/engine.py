"""
engine.py — the generic check procedure (DESIGN.md section 2.5):

  1  regenerate tables the property needs         (property hook `regenerate`)
  2  lake build  -> every theorem re-checked by the kernel
  3  axiom audit + forbidden-construct scan
  4  corpus (past failures) -> correspondence (exhaustive + random) with the
     property's direct oracle evaluated on the real objects after every call
  5  classify: proof obligation broken / correspondence broken / oracle failed
  6  evidence, KNOWN-FINDING lines, exit code
"""
import json
import os
import sys
import time
import traceback

import core
import run as runmod


QUERY_OPS = {"nbrs", "flinks", "bft", "dftr", "dfti", "bfs", "dfsr", "dfsi", "plain", "puml", "pyvis", "dumps"}


class Stats:
    def __init__(self):
        self.evaluations = 0          # answer lines compared real vs model
        self.scripts = 0
        self.distinct = set()         # hashes of distinct non-trivial (state, op, answer) triples
        self.ops = {}
        self.errors = {}
        self.sizes = {}
        self.samples = []
        self.oracle_checks = 0
        self.extra = {}

    def note_script(self, script, outs):
        self.scripts += 1
        n = len(script)
        b = "%d-%d" % ((n // 10) * 10, (n // 10) * 10 + 9)
        self.sizes[b] = self.sizes.get(b, 0) + 1
        h = 0
        for line, out in zip(script, outs):
            w = line.split()[0] if line else ""
            if w == "reset":
                h = 0
                continue
            if w == "obs":
                continue
            self.ops[w] = self.ops.get(w, 0) + 1
            if out.startswith("err "):
                self.errors[out[4:]] = self.errors.get(out[4:], 0) + 1
            # distinct = (history so far, operation, answer); non-trivial = evaluated in a non-empty world
            if h != 0:
                self.distinct.add(hash((h, line, out)))
            if w not in QUERY_OPS:
                h = hash((h, line, out))
        if len(self.samples) < 3 or (self.scripts % 997 == 0 and len(self.samples) < 8):
            self.samples.append({"script": script[:40], "real_answers": outs[:40]})


class Violation:
    def __init__(self, kind, detail, script=None, index=None, real=None, model=None, failing_input=True):
        self.kind, self.detail = kind, detail
        self.script, self.index, self.real, self.model = script, index, real, model
        self.failing_input = failing_input

    def payload(self, prop):
        return {
            "property": prop, "kind": self.kind, "detail": self.detail,
            "script": self.script, "first_divergent_op_index": self.index,
            "real_answer": self.real, "model_answer": self.model,
            "failing_input_found": self.failing_input,
            "how_to_replay": "cd /verif && ./check %s --replay <this file>" % prop,
        }

    def key(self):
        return core.script_hash([self.kind] + (self.script or [self.detail]))


class Check:
    """base class of one property's check"""
    id = "C00"
    modules = []            # Lean property modules
    assumptions = []
    trusted_base = [
        "Lean 4.33 kernel (lake build re-checks every theorem; thorough tier: leanchecker)",
        "axioms: propext, Classical.choice, Quot.sound only (audited with #print axioms every run)",
        "hand-written mirror model lean/EG/*.lean and harness/adapter.py; their agreement with /repo is CHECKED by the correspondence run, within the generators' reach",
        "CPython list/dict/set semantics, default identity __eq__/__hash__ of graph objects",
    ]

    def regenerate(self, log):
        return None

    def targets(self):
        return ["EG", "driver"] + list(self.modules)

    def witnesses(self):
        """[(name, fn)] direct regression witnesses on the real code: fn() -> True if the property holds"""
        return []

    def batches(self, tier, rng, real):
        """yield (scripts, real_outs) batches; the direct oracle is attached to `real`"""
        return []

    def on_reset(self):
        """a new history starts (oracle bookkeeping is reset here)"""

    def pre(self, real, line):
        """snapshot taken before `line` is executed (handed to `oracle`)"""
        return None

    def oracle(self, real, line, answer, pre):
        """direct oracle on the real objects after `line` was answered `answer`; None or a message"""
        return None

    def extra_violations(self, stats):
        """violations found by parts of the check that do not go through the line protocol"""
        return []

    def search(self, tier, rng, real, divergence):
        """extra search for a failing input around a divergence; yields (scripts, real_outs)"""
        return []


def run_scripts_with_oracle(check, real, scripts_iter, stats, violations, max_viol=5):
    """consume (script, outs) pairs produced while running the real code; compare with the model"""
    batch_s, batch_o = [], []

    def flush():
        if not batch_s:
            return
        n, divs = runmod.compare(batch_s, batch_o)
        stats.evaluations += n
        for d in divs:
            if sum(1 for v in violations if v.kind == "correspondence") < max_viol:
                violations.append(Violation("correspondence", "code != model", d.script, d.index, d.real, d.model,
                                            failing_input=False))
        batch_s.clear()
        batch_o.clear()

    for script, outs in scripts_iter:
        stats.note_script(script, outs)
        batch_s.append(script)
        batch_o.append(outs)
        if len(batch_s) >= 4000:
            flush()
        # a broken correspondence alone does not end the run: the search for an input on which the
        # property itself fails (direct oracle) goes on over the whole volume
        if sum(1 for v in violations if v.kind == "oracle") >= 3:
            break
    flush()


QUICK_ROUNDS = {"C01": 3, "C02": 2, "C03": 3, "C04": 3, "C05": 4, "C06": 1, "C07": 1, "C08": 3, "C09": 2, "C10": 2,
                "C11": 3, "C12": 5, "C13": 3, "C14": 3, "C15": 8, "C16": 5, "C17": 2, "C18": 5, "C19": 3, "C20": 8}


class OracleReal:
    """wraps adapter.Real so that the property's direct oracle runs after every op"""

    def __init__(self, check, stats, violations):
        from adapter import Real
        self.inner = Real()
        self.check, self.stats, self.violations = check, stats, violations
        self.history = []

    def step(self, line):
        if line.startswith("reset"):
            self.history = []
            self.check.on_reset()
        self.history.append(line)
        audit = line.startswith(("obs", "reset", "reload"))     # `reload`: the objects are replaced by their loaded copies
        pre = None if audit else self.check.pre(self.inner, line)
        out = self.inner.step(line)
        if not audit:
            self.stats.oracle_checks += 1
            try:
                msg = self.check.oracle(self.inner, line, out, pre)
            except Exception as exc:  # noqa: BLE001
                msg = "oracle raised %s: %s" % (type(exc).__name__, exc)
            if msg and sum(1 for v in self.violations if v.kind == "oracle") < 5:
                self.violations.append(Violation("oracle", msg, list(self.history), len(self.history) - 1, out, None))
        return out


def main_check(check, tier, seed, replay=None):
    t0 = time.time()
    log = {}
    stats = Stats()
    violations = []
    prop = check.id
    if os.environ.get("EG_DEV_SKIP_PROPS"):   # development only: run the correspondence without the Props modules
        check.modules = [m for m in check.modules if os.path.exists(os.path.join(core.LEAN, *m.split(".")) + ".lean")]
    try:
        # 1 regenerate
        regen_viol = check.regenerate(log)
        # 2 build
        ok0, out0 = core.build(["EG", "driver"], {})
        if not ok0:
            raise core.Infra("the model / driver does not build: " + out0[-1500:])
        ok, out = core.build(check.targets(), log)
        obligations = discharged = 0
        proof_broken = None
        if not ok:
            errs = [l for l in out.split("\n") if l.startswith("error:")]
            proof_broken = "lake build of %s failed (a proof obligation no longer checks): %s" % (
                check.modules, " | ".join(errs[:6])[:1500])
        else:
            # 3 audit
            hits = core.forbidden_scan()
            obligations, discharged, bad = core.audit(check.modules, log)
            if hits:
                proof_broken = "forbidden constructs: %s" % hits
            elif bad:
                proof_broken = "axiom audit failed for %s" % bad
        if not os.path.exists(runmod.DRIVER):
            raise core.Infra("driver executable missing: %s" % runmod.DRIVER)
        # 4 corpus + correspondence + oracle
        for name, fn in check.witnesses():
            stats.oracle_checks += 1
            try:
                okw = fn()
            except Exception as exc:  # noqa: BLE001
                okw = False
                name += " (raised %s)" % type(exc).__name__
            if not okw:
                violations.append(Violation("witness", "regression witness %s fails on the real code" % name,
                                            ["witness:" + name]))
        real = OracleReal(check, stats, violations)
        rng = core.rng_for(prop, seed)
        import covrep
        cov = covrep.start(os.environ.get("EG_REPO", "/repo"))
        PSEUDO = ("witness:", "exchange:", "sweep:", "randgraph-direct:", "theorems:", "fresh", "dumps")
        if replay:
            payload = json.load(open(replay))
            sc = payload.get("script") or []
            if sc and any(l.startswith(PSEUDO) for l in sc):
                # the failing input was produced by a part of the check that does not go through the line protocol
                # (a regression witness, a regenerated table row, a fault sweep, a seeded randgraph run, a fresh
                # interpreter): that part is deterministic, so the replay is the check itself
                replay = None
            elif sc:
                outs = [real.step(l) for l in sc]
                run_scripts_with_oracle(check, real, [(sc, outs)], stats, violations)
        if replay:
            pass
        else:
            import drift
            moved = drift.drifted(prop, os.environ.get("EG_REPO", "/repo"))
            # quick tier: several rounds with independent random streams, sized so that every quick check
            # takes roughly 20-30 s; two more when the anchored source changed since the model was transcribed
            rounds = (QUICK_ROUNDS.get(prop, 1) if tier == "quick" else 1) + (2 if (moved and tier == "quick") else 0)
            log["regen_source_drift"] = {"anchored_files_changed_since_transcription": moved, "correspondence_rounds": rounds}
            for rnd in range(rounds):
                r = rng if rnd == 0 else core.rng_for("%s/drift%d" % (prop, rnd), seed)
                run_scripts_with_oracle(check, real, check.batches(tier, r, real), stats, violations)
                violations += check.extra_violations(stats)
        log["anchored_code_coverage"] = covrep.report(cov, os.environ.get("EG_REPO", "/repo"), prop)
        # 5 classify
        final = []
        corr = [v for v in violations if v.kind == "correspondence"]
        direct = [v for v in violations if v.kind in ("oracle", "witness")]
        if regen_viol:
            direct = list(regen_viol) + direct
        for v in direct:
            final.append(v)
        if corr and not direct:
            # correspondence broken but the property's oracle held everywhere explored: search around
            found = []
            for v in corr[:3]:
                run_scripts_with_oracle(check, real, check.search(tier, rng, real, v), stats, found)
            found = [x for x in found if x.kind == "oracle"]
            if found:
                final += found
            else:
                v = corr[0]
                v.detail = ("correspondence no longer checks: code != model at op %d (%r): real=%r model=%r; "
                            "the direct oracle of %s held on every input explored") % (
                                v.index, v.script[v.index], v.real, v.model, prop)
                v.failing_input = False
                final.append(v)
        if proof_broken and not final:
            final.append(Violation("proof", proof_broken, ["theorems:" + ",".join(check.modules)],
                                   failing_input=False))
        # thorough: independent re-check of the compiled property modules
        if tier == "thorough" and ok and not replay:
            t = time.time()
            rc, outl = core.sh(["lake", "env", "leanchecker"] + list(check.modules), cwd=core.LEAN, timeout=3000)
            log["leanchecker_s"] = round(time.time() - t, 1)
            log["leanchecker_rc"] = rc
            if rc != 0:
                log["leanchecker_tail"] = outl[-1500:]
                final.append(Violation("proof", "leanchecker rejected %s: %s" % (check.modules, outl[-500:]),
                                       ["theorems:" + ",".join(check.modules)], failing_input=False))
        # 6 known findings, evidence, exit
        known = {k["key"]: k for k in core.known_findings() if k.get("property") == prop and k.get("kind") == "known"}
        reported = 0
        for v in final:
            if v.key() in known:
                print("KNOWN-FINDING: property=%s %s" % (prop, known[v.key()].get("what", v.detail)))
                continue
            path = core.write_replay(prop, v.payload(prop))
            tail = "" if v.failing_input else " no-failing-input-found"
            print("VIOLATION property=%s replay=%s%s" % (prop, path, tail))
            print("  " + v.detail[:600])
            reported += 1
        coverage = {
            "obligations": max(obligations, 1) if ok else max(len(check.modules), 1),
            "discharged": discharged if not proof_broken else 0,
            "checker_cmd": log.get("build_cmd", "") + " && lake env lean <#print axioms of every theorem in %s>" % ",".join(check.modules),
            "trusted_base": check.trusted_base,
            "evaluations": stats.evaluations,
            "distinct_nontrivial": len(stats.distinct),
            "rule": "correspondence: every answer line of the real code compared with the Lean mirror model after every call; "
                    "non-trivial = distinct (observed world, operation, answer) triples; direct oracle of the property evaluated on the real objects after every call",
            "samples": stats.samples[:6],
            "scripts": stats.scripts,
            "oracle_checks": stats.oracle_checks,
            "op_histogram": stats.ops,
            "error_histogram": stats.errors,
            "script_length_histogram": stats.sizes,
            "theorems": log.get("axioms", {}),
            "build_s": log.get("build_s"),
            "explanation": getattr(check, "explanation", ""),
        }
        coverage.update(stats.extra)
        coverage.update({k: v for k, v in log.items() if k.startswith(("leanchecker", "table", "regen", "anchored"))})
        core.write_evidence(prop, tier, seed, coverage, check.assumptions, time.time() - t0, reported)
        return 1 if reported else 0
    except core.Infra as exc:
        print("INFRASTRUCTURE ERROR: %s" % exc, file=sys.stderr)
        return 2
    except Exception:  # noqa: BLE001
        traceback.print_exc()
        return 2
