"""
core.py — what every check run does around the property-specific correspondence:
  build the Lean project (kernel re-checks every theorem), audit axioms and forbidden
  constructs, hand out seeded RNGs, classify divergences, write replay + evidence files,
  apply the known-findings list.
"""
import hashlib
import json
import os
import random
import re
import subprocess
import sys
import time

HERE = os.path.dirname(os.path.abspath(__file__))
VERIF = os.path.dirname(HERE)
LEAN = os.path.join(VERIF, "lean")
EVID = os.path.join(VERIF, "evidence")
REPLAYS = os.path.join(VERIF, "replays")
KNOWN = os.path.join(VERIF, "known_findings.json")
ACCEPTED_AXIOMS = {"propext", "Classical.choice", "Quot.sound"}
FORBIDDEN = re.compile(
    r"\bsorry\b|\badmit\b|^\s*axiom\s|\bnative_decide\b|\bbv_decide\b|\bimplemented_by\b|\bunsafe\s|maxHeartbeats\s+0\b",
    re.M)


class Infra(Exception):
    """infrastructure error: exit code 2, never a violation"""


def sh(cmd, cwd=None, timeout=3600):
    p = subprocess.run(cmd, cwd=cwd, stdout=subprocess.PIPE, stderr=subprocess.STDOUT,
                       timeout=timeout, check=False)
    return p.returncode, p.stdout.decode(errors="replace")


def strip_comments(src):
    """remove Lean block and line comments (forbidden-token grep ignores comments)"""
    out, i, depth = [], 0, 0
    while i < len(src):
        if src.startswith("/-", i):
            depth += 1
            i += 2
        elif depth and src.startswith("-/", i):
            depth -= 1
            i += 2
        elif depth:
            i += 1
        elif src.startswith("--", i):
            while i < len(src) and src[i] != "\n":
                i += 1
        else:
            out.append(src[i])
            i += 1
    return "".join(out)


def lean_sources():
    res = []
    for root, _dirs, files in os.walk(LEAN):
        if ".lake" in root:
            continue
        for f in files:
            if f.endswith(".lean"):
                res.append(os.path.join(root, f))
    return sorted(res)


def forbidden_scan():
    hits = []
    for path in lean_sources():
        src = strip_comments(open(path).read())
        for m in FORBIDDEN.finditer(src):
            line = src.count("\n", 0, m.start()) + 1
            hits.append("%s:%d:%s" % (os.path.relpath(path, VERIF), line, m.group(0).strip()))
    return hits


def theorems_of(module_path):
    """(qualified name, is_theorem) for every theorem in a Props file"""
    src = strip_comments(open(module_path).read())
    ns, names = [], []
    for line in src.split("\n"):
        m = re.match(r"\s*namespace\s+(\S+)", line)
        if m:
            ns.append(m.group(1))
            continue
        m = re.match(r"\s*end\s+(\S+)", line)
        if m and ns and ns[-1] == m.group(1):
            ns.pop()
            continue
        m = re.match(r"\s*(?:private\s+)?theorem\s+(\S+)", line)
        if m:
            names.append(".".join(ns + [m.group(1)]))
    return names


def build(targets, log):
    """lake build: every theorem of the targets is re-checked by the kernel"""
    t = time.time()
    rc, out = sh(["lake", "build"] + targets, cwd=LEAN)
    log["build_s"] = round(time.time() - t, 2)
    log["build_cmd"] = "cd lean && lake build " + " ".join(targets)
    if rc != 0:
        log["build_output_tail"] = out[-3000:]
        return False, out
    return True, out


def audit(prop_modules, log):
    """#print axioms on every theorem of the property modules; returns (obligations, discharged, detail)"""
    names = []
    for mod in prop_modules:
        path = os.path.join(LEAN, *mod.split(".")) + ".lean"
        names += theorems_of(path)
    src = "".join("import %s\n" % m for m in prop_modules) + "".join("#print axioms %s\n" % n for n in names)
    tmp = os.path.join(LEAN, ".lake", "audit_%d.lean" % os.getpid())
    os.makedirs(os.path.dirname(tmp), exist_ok=True)
    open(tmp, "w").write(src)
    try:
        rc, out = sh(["lake", "env", "lean", tmp], cwd=LEAN)
    finally:
        try:
            os.remove(tmp)
        except OSError:
            pass
    detail, ok = {}, 0
    blocks = re.split(r"(?m)^(?=')", out)
    for b in blocks:
        m = re.match(r"'([^']+)' (depends on axioms: \[([^\]]*)\]|does not depend on any axioms)", b.replace("\n", " "))
        if not m:
            continue
        axs = [a.strip() for a in (m.group(3) or "").split(",") if a.strip()]
        detail[m.group(1)] = axs
    bad = []
    for n in names:
        if n in detail and set(detail[n]) <= ACCEPTED_AXIOMS:
            ok += 1
        else:
            bad.append((n, detail.get(n, "not reported (does not compile?)")))
    log["axioms"] = {n: detail.get(n) for n in names}
    if rc != 0:
        log["audit_output_tail"] = out[-2000:]
    return len(names), ok, bad


def rng_for(prop, seed):
    return random.Random("%s/%d" % (prop, seed))


def known_findings():
    if not os.path.exists(KNOWN):
        return []
    return json.load(open(KNOWN)).get("findings", [])


def script_hash(script):
    return hashlib.sha256("\n".join(script).encode()).hexdigest()[:16]


def write_replay(prop, payload):
    os.makedirs(REPLAYS, exist_ok=True)
    h = hashlib.sha256(json.dumps(payload, sort_keys=True, default=str).encode()).hexdigest()[:12]
    path = os.path.join(REPLAYS, "%s-%s.json" % (prop, h))
    json.dump(payload, open(path, "w"), indent=1, default=str)
    return path


def write_evidence(prop, tier, seed, coverage, assumptions, wall, violations):
    os.makedirs(EVID, exist_ok=True)
    ev = {
        "property_id": prop, "tier": tier, "seed": seed, "level": "proof",
        "coverage": coverage, "assumptions": assumptions,
        "wall_s": round(wall, 2), "violations": violations,
    }
    path = os.path.join(EVID, "%s.json" % prop)
    tmp = path + ".tmp%d" % os.getpid()
    json.dump(ev, open(tmp, "w"), indent=1, default=str)
    os.replace(tmp, path)
    return path
