"""
tables_uni.py — translation by exhaustive execution for universe membership (C02): every state of a pool of
two vertices and two universes that is reachable through the four public membership calls is found by exploring
the REAL code breadth-first; from each state each of the 16 calls is made.  Written to
lean/EG/Generated/UniTable.lean on every run of the C02 check.
"""
import os
import sys

HERE = os.path.dirname(os.path.abspath(__file__))
sys.path.insert(0, HERE)
from tables import write_if_changed, GEN  # noqa: E402
from edgegraph.structure import Vertex, Universe  # noqa: E402

HEADER = """import EG.UniTableSpec
/-
  GENERATED on every run of the C02 check by harness/tables_uni.py from the real edgegraph code
  in /repo.  Do not edit by hand.
-/
namespace EG
namespace Tab

"""


def build(path):
    Vertex.NEIGHBOR_CACHING = False
    vs = [Vertex(), Vertex()]
    us = [Universe(), Universe()]
    objs = vs + us
    for k in path:
        try:
            call(objs, k)
        except Exception:  # noqa: BLE001
            pass
    return objs


def call(objs, k):
    u, v = objs[2 + (k // 2) % 2], objs[k % 2]
    kind = k // 4
    if kind == 0:
        u.add_vertex(v)
    elif kind == 1:
        u.remove_vertex(v)
    elif kind == 2:
        v.add_to_universe(u)
    else:
        v.remove_from_universe(u)


def observe(objs):
    name = {id(o): i for i, o in enumerate(objs)}
    return (tuple(name[id(x)] for x in objs[2].vertices), tuple(name[id(x)] for x in objs[3].vertices),
            tuple(name[id(x)] for x in objs[0].universes), tuple(name[id(x)] for x in objs[1].universes))


def rows():
    seen = {observe(build([])): []}
    frontier = [[]]
    out = []
    while frontier:
        nxt = []
        for path in frontier:
            for k in range(16):
                objs = build(path)
                raised = False
                try:
                    call(objs, k)
                except Exception:  # noqa: BLE001
                    raised = True
                obs = observe(objs)
                out.append("  ⟨[%s], %d, %s, [%s]⟩" % (", ".join(map(str, path)), k, "true" if raised else "false",
                                                    ", ".join("[%s]" % ", ".join(map(str, l)) for l in obs)))
                if obs not in seen and len(seen) < 400:
                    seen[obs] = path + [k]
                    nxt.append(path + [k])
        frontier = nxt
    return out, len(seen)


def regenerate():
    r, nstates = rows()
    text = (HEADER + "def implUni : List UniRow := [\n" + ",\n".join(r) + "\n]\n\n"
            + "def implUniStates : Nat := %d\n\nend Tab\nend EG\n" % nstates)
    changed = write_if_changed(os.path.join(GEN, "UniTable.lean"), text)
    return len(r), nstates, changed


if __name__ == "__main__":
    print(regenerate())
