"""
props_pickle.py — check of C10 (nrpickler round-trips any graph).

Three layers of correspondence (DESIGN.md 3/C10):
  1  the real `_NonrecursivePickler` is sub-classed inside the harness; for every real
     `realsave(o)` the items it enqueued are recorded — this EXTRACTS the abstract heap from the
     real run — and the real sequence of save / memoize / POP+GET events is compared with the
     Lean queue machine run on that heap (`pktrace`);
  2  the opcode stream of nrpickler.dumps equals that of dill.dumps (FRAME dropped), protocols 0-5;
  3  loading (pickle and dill, same process and a fresh interpreter, caching on/off on either
     side) gives a copy whose full observation, classes, uids, attributes and sharing equal the
     original's, and every structural query answers the same; chains far deeper than the
     recursion limit are serialised.
"""
import io
import os
import pickle
import pickletools
import subprocess
import sys

import dill

import gen
import witnesses as W
from engine import Check, Violation
from props_struct import all_ops
from edgegraph.output import nrpickler
from edgegraph.structure import Vertex, Universe
from edgegraph.traversal import helpers

HERE = os.path.dirname(os.path.abspath(__file__))


class Spy(nrpickler._NonrecursivePickler):
    """records what the real pickler does; changes nothing"""

    def __init__(self, file, **kw):
        super().__init__(file, **kw)
        self.events = []
        self.heap = {}
        self.names = {}
        self.keep = []
        self.unsupported = None
        inner = self.realwrite

        def rw(data, *a):
            if isinstance(data, (bytes, bytearray)) and data[:1] == pickle.POP and len(data) > 1:
                self.events.append(["P", None])
            return inner(data, *a)
        self.realwrite = rw

    def name(self, obj):
        if id(obj) not in self.names:
            self.names[id(obj)] = len(self.names)
            self.keep.append(obj)
        return self.names[id(obj)]

    def realmemoize(self, obj):
        self.events.append(["M", self.name(obj)])
        return dill.Pickler.memoize(self, obj)

    def realsave(self, obj, save_persistent_id=True):
        n0 = len(self.lazywrites)
        me = self.name(obj)
        if id(obj) in self.memo:
            self.events.append(["H", me])
            return dill.Pickler.save(self, obj)
        ev = ["?", me]
        self.events.append(ev)
        mark = len(self.events)
        dill.Pickler.save(self, obj)
        added = self.lazywrites[n0:]
        immediate = any(e[0] == "M" and e[1] == me for e in self.events[mark:])
        saves = [i for i, x in enumerate(added) if isinstance(x, nrpickler._LazySave)]
        memos = [i for i, x in enumerate(added) if isinstance(x, nrpickler._LazyMemo) and x.obj is obj]
        other_memos = [x for x in added if isinstance(x, nrpickler._LazyMemo) and x.obj is not obj]
        if other_memos or len(memos) > 1 or (immediate and memos):
            self.unsupported = "memo pattern"
        if not saves and not memos and not immediate:
            ev[0] = "A"
            self.heap[me] = "a"
            return
        ev[0] = "E"
        if immediate:
            cut = -1
        elif memos:
            cut = memos[0]
        else:
            self.unsupported = "node without memo"
            cut = len(added)
        before = [self.name(added[i].obj) for i in saves if i < cut]
        after = [self.name(added[i].obj) for i in saves if i > cut]
        tup = cut >= 0 and cut == len(added) - 1 if not immediate else (len(added) == 0)
        desc = "%s:0:%s:%s" % ("t" if (tup and not after) else "n", ",".join(map(str, before)), ",".join(map(str, after)))
        if me in self.heap and self.heap[me] != desc:
            self.unsupported = "object expanded differently the second time"
        self.heap[me] = desc


class time_limit:
    """`with time_limit(s):` raises TimeoutError inside the block after s seconds (main thread, SIGALRM):
    a pickler that does not terminate must end as a reported violation, not as a hanging check"""

    def __init__(self, seconds):
        self.seconds = seconds

    def __enter__(self):
        import signal

        def handler(_sig, _frm):
            raise TimeoutError("no result within %d s" % self.seconds)
        self.old = signal.signal(signal.SIGALRM, handler)
        signal.alarm(self.seconds)

    def __exit__(self, *exc):
        import signal
        signal.alarm(0)
        signal.signal(signal.SIGALRM, self.old)
        return False


class RefSpy(dill.Pickler):
    """the STANDARD recursive pickler (dill.Pickler — nothing of edgegraph), instrumented through
    pickle's own extension points `save` / `memoize`: records for every object which objects are
    saved before and which after its own memoisation.  This is the abstract heap of EG.Pickle,
    obtained without looking inside nrpickler."""

    def __init__(self, file, **kw):
        super().__init__(file, **kw)
        self.names = {}
        self.keep = []
        self.heap = {}
        self.frames = []
        self.unsupported = None

    def name(self, obj):
        if id(obj) not in self.names:
            self.names[id(obj)] = len(self.names)
            self.keep.append(obj)
        return self.names[id(obj)]

    def memoize(self, obj):
        if self.frames and self.frames[-1][0] is obj:
            self.frames[-1][3] = True
        else:
            self.unsupported = "memo pattern"
        return super().memoize(obj)

    def save(self, obj, save_persistent_id=True):
        me = self.name(obj)
        if self.frames:
            fr = self.frames[-1]
            (fr[2] if fr[3] else fr[1]).append(me)
        if id(obj) in self.memo:
            return super().save(obj, save_persistent_id)
        fr = [obj, [], [], False]
        self.frames.append(fr)
        try:
            super().save(obj, save_persistent_id)
        finally:
            self.frames.pop()
        if not fr[1] and not fr[2] and not fr[3]:
            desc = "a"
        else:
            desc = "%s:0:%s:%s" % ("n" if fr[2] else "t", ",".join(map(str, fr[1])), ",".join(map(str, fr[2])))
        if me in self.heap and self.heap[me] != desc:
            self.unsupported = "object expanded differently the second time"
        self.heap[me] = desc
        return None


def ref_heap(root, protocol=None):
    """(heap text, name of the root, unsupported?) from the instrumented standard pickler"""
    sp = RefSpy(io.BytesIO(), protocol=protocol)
    sp.dump(root)
    heap = ";".join("%d=%s" % (k, v) for k, v in sorted(sp.heap.items()))
    return heap, sp.names[id(root)], sp.unsupported


def canon_graph(root, nodes):
    """canonical text of a rooted abstract graph {name: (tup?, before names, after names)} (atoms: name not in
    `nodes`): nodes renamed in depth-first order from the root (before children first, then after children)"""
    order, seen = [], {}
    stack = [root]
    while stack:
        x = stack.pop()
        if x not in nodes or x in seen:
            continue
        seen[x] = len(order)
        order.append(x)
        _t, bs, as_ = nodes[x]
        for c in reversed(list(bs) + list(as_)):
            stack.append(c)
    nm = lambda c: ("n%d" % seen[c]) if c in seen else "a"  # noqa: E731
    return "root=%s " % nm(root) + ";".join(
        "%s|%s|%s" % ("t" if nodes[x][0] else "n", ",".join(nm(c) for c in nodes[x][1]), ",".join(nm(c) for c in nodes[x][2]))
        for x in order)


def canon_of_heap_text(heap, root):
    """RefSpy heap text -> canonical text"""
    nodes = {}
    for e in heap.split(";"):
        i, d = e.split("=")
        if d == "a":
            continue
        t, _k, bs, as_ = d.split(":")
        nodes[int(i)] = (t == "t", [int(x) for x in bs.split(",") if x], [int(x) for x in as_.split(",") if x])
    return canon_graph(root, nodes)


def canon_of_model_answer(ans):
    """answer of the driver's `pkload` -> canonical text"""
    assert ans.startswith("ok root="), ans
    head, _, body = ans[3:].partition(" ")
    root = head[len("root="):]
    nodes = {}
    for e in body.split(";"):
        if not e:
            continue
        r, d = e.split("=")
        k, bs, as_ = d.split("|")
        nodes["r" + r] = (k == "1", [x for x in bs.split(",") if x], [x for x in as_.split(",") if x])
    return canon_graph(root, nodes)


def skeleton(data):
    """memo skeleton of a pickle stream: MEMOIZE/PUT, GET i, POP, POP_MARK in stream order"""
    out = []
    for op, arg, _pos in pickletools.genops(data):
        n = op.name
        if n in ("MEMOIZE", "PUT", "BINPUT", "LONG_BINPUT"):
            out.append("M")
        elif n in ("GET", "BINGET", "LONG_BINGET"):
            out.append("G%d" % arg)
        elif n == "POP":
            out.append("P")
        elif n == "POP_MARK":
            out.append("D")
    return ",".join(out)


def spy_dump(root, protocol=None):
    f = io.BytesIO()
    sp = Spy(f, protocol=protocol)
    sp.dump(root)
    events = ",".join(e[0] if e[0] == "P" else "%s%d" % (e[0], e[1]) for e in sp.events)
    heap = ";".join("%d=%s" % (k, v) for k, v in sorted(sp.heap.items()))
    return events, heap, sp.unsupported, f.getvalue()


def opstream(data):
    return [(op.name, arg) for op, arg, _pos in pickletools.genops(data) if op.name != "FRAME"]


def describe(V, L, W, caching=None):
    """full observation of a graph given as object lists (classes by qualified name, uids, user
    attributes with sharing, ordered links / ends / members / universes, laws)"""
    vid = {id(v): i for i, v in enumerate(V)}
    lid = {id(l): i for i, l in enumerate(L)}
    wid = {id(w): i for i, w in enumerate(W)}
    shared = {}

    def val(x):
        if id(x) in vid:
            return "V%d" % vid[id(x)]
        if id(x) in lid:
            return "L%d" % lid[id(x)]
        if isinstance(x, tuple) and len(x) == 2 and isinstance(x[1], tuple) and len(x[1]) == 2 and isinstance(x[1][1], (tuple, type(None))):
            # a cons list: flattened iteratively (it may be nested deeper than the recursion limit)
            items, n = [], 0
            while isinstance(x, tuple) and len(x) == 2:
                items.append(repr(x[0]))
                x = x[1]
                n += 1
            return "cons/%d/%s/%r" % (n, ",".join(items[:20]), x)
        if hasattr(x, "__self__") and hasattr(x, "__func__"):
            return "bound(%s.%s)" % (val(x.__self__), x.__func__.__name__)
        import types as _types
        if isinstance(x, _types.FunctionType):
            # a function pickled by value is a NEW function object in the copy: it is judged by what it is
            # (name, code) and by what it does on a probe, not by its address
            try:
                probe = x(1)
            except Exception as exc:  # noqa: BLE001
                probe = type(exc).__name__
            return "function(%s, %d bytes of code, probe=%r)" % (x.__qualname__, len(x.__code__.co_code), probe)
        if isinstance(x, (tuple, frozenset, list)):
            tag = shared.setdefault(id(x), len(shared))
            return "%s#%d(%s)" % (type(x).__name__, tag, ",".join(sorted(val(y) for y in x) if isinstance(x, frozenset) else [val(y) for y in x]))
        if isinstance(x, (str, bytes)) and len(x) > 200:
            import hashlib
            return "%s/%d/%s" % (type(x).__name__, len(x), hashlib.sha1(x.encode() if isinstance(x, str) else x).hexdigest()[:12])
        if isinstance(x, dict):
            tag = shared.setdefault(id(x), len(shared))
            return "dict#%d{%s}" % (tag, ",".join("%s:%s" % (val(k), val(y)) for k, y in x.items()))
        return repr(x)
    out = []
    for v in V:
        attrs = ";".join("%s=%s" % (k, val(x)) for k, x in vars(v).items() if not k.startswith("_"))
        mem = ",".join(str(vid.get(id(m), "?")) for m in v.vertices) if isinstance(v, Universe) else ""
        laws = wid.get(id(v.laws), "?") if isinstance(v, Universe) and v.laws is not None else "-"
        out.append("%s.%s uid=%d l=[%s] u=[%s] m=[%s] w=%s {%s}" % (
            type(v).__module__, type(v).__qualname__, v.uid,
            ",".join(str(lid.get(id(l), "?")) for l in v.links),
            ",".join(str(vid.get(id(u), "?")) for u in v.universes), mem, laws, attrs))
    for l in L:
        out.append("%s.%s uid=%d [%s]" % (type(l).__module__, type(l).__qualname__, l.uid,
                                          ",".join("-" if e is None else str(vid.get(id(e), "?")) for e in l.vertices)))
    for w in W:
        out.append("laws uid=%d applies=%s" % (w.uid, "-" if w.applies_to is None else vid.get(id(w.applies_to), "?")))
    # structural queries
    for v in V:
        for d, u in ((0, 1), (1, 1), (2, 0)):
            try:
                out.append("nb %s" % ",".join("-" if x is None else str(vid.get(id(x), "?")) for x in helpers.neighbors(v, d, u)))
            except Exception as exc:  # noqa: BLE001
                out.append("nb err " + type(exc).__name__)
    return out


CHILD = r"""
import sys, pickle, dill
sys.path.insert(0, %r); sys.path.insert(0, %r)
import props_pickle
from edgegraph.structure import Vertex
Vertex.NEIGHBOR_CACHING = %r
n = int(sys.stdin.buffer.readline())
loader = pickle if %r == "pickle" else dill
V, L, W = loader.loads(sys.stdin.buffer.read(n))
for line in props_pickle.describe(V, L, W):
    print(line)
for line in props_pickle.describe(V, L, W):    # a second time: the copy stays usable (caches)
    print(line)
"""


class C10(Check):
    id = "C10"
    modules = ["EG.Props.C10", "EG.Props.C10Load", "EG.Props.C10Sim"]
    assumptions = [
        "PARTIAL: the theorem is about the scheduling (queue machine = recursive pickler, for every heap and depth, in a flat loop); "
        "that CPython's unpickler applied to the recursive pickler's stream yields an isomorphic copy is pickle's / dill's and is trusted; "
        "`normalize` (build-pop-GET = discard-GET) preserving the unpickler's stack effect is trusted",
        "tuples, frozensets and reduce arguments are the only `before` children; a cycle always passes through an `after` edge (CPython facts)",
        "layer 1 (event trace): the abstract heap is extracted from the real run by an instrumented subclass of the private pickler inside the harness; "
        "runs whose memo pattern the abstraction cannot express are counted and skipped for layer 1 only; if the private names it needs are gone "
        "(a rewrite of nrpickler's internals) layer 1 is counted as unavailable and the tie rests on layer 1b",
        "layer 1b (memo skeleton of the bytes, black box): the heap is taken from an instrumented STANDARD dill.Pickler (save / memoize hooks of pickle itself)",
    ]

    def witnesses(self):
        return [("D10", W.D10), ("D7", W.D7), ("D7b", W.D7b), ("D16", W.D16), ("D17", W.D17)]

    def build(self, rng, real, big=False, byvalue=False):
        """a graph built through the protocol, plus runtime attributes with shared tuples / frozensets"""
        lines, outs = gen.random_history(rng, real, all_ops, rng.randint(3, 30 if big else 14), audit=(),
                                         reset_line=("reset byvalue" if byvalue else "reset"))
        nv = len(real.inner.V)
        if nv:
            for _ in range(rng.randint(0, 3)):
                a, b, c = (rng.randrange(nv) for _ in range(3))
                kind = rng.random()
                spec = "tup:V%d" % a if kind < 0.4 else "fs:V%d" % a if kind < 0.7 else "nest:V%d:V%d" % (a, b)
                more = ["attr V%d ref %s" % (b, spec)]
                if rng.random() < 0.7:
                    more.append("attr V%d t same:V%d.ref" % (a, b))
                if rng.random() < 0.3:
                    more.append("attr V%d lst lst:V%d:V%d" % (c, a, b))
                if rng.random() < 0.25:
                    more.append("attr V%d blob big:%d:%s" % (c, rng.choice([300, 65535, 65536, 70000, 200000]), rng.choice("sb")))
                if rng.random() < 0.2:
                    more.append("attr V%d chain cons:%d" % (c, rng.choice([3, 40, 600, 2500])))
                if byvalue and rng.random() < 0.5:
                    more.append("attr V%d flt clos:%d" % (a, rng.randrange(3)))
                if byvalue and rng.random() < 0.5:
                    # (definitions pickled by value are outside the abstract heap of the model: these graphs go
                    # through the load-and-compare layers only, like the by-value classes)
                    more.append("attr V%d gfn ghost:%d" % (c, rng.randrange(3)))
                us_ = [i for i in range(nv) if isinstance(real.inner.V[i], Universe)]
                if us_ and rng.random() < 0.3:
                    u_ = rng.choice(us_)
                    more.append("vertex V u=V%d h=V%d" % (u_, u_))
                    more.append("vertex SV u=V%d h=V%d" % (u_, u_))
                    if rng.random() < 0.5:
                        more.append("attr V%d cb bound:V%d" % (a, u_))
                if byvalue and rng.random() < 0.6:
                    more.append("attr V%d tag byval:%d" % (a, rng.randint(0, 2)))
                    more.append("attr V%d tag2 byval:%d" % (b, rng.randint(0, 2)))
                for l in more:
                    lines.append(l)
                    outs.append(real.step(l))
        return lines, outs

    def batches(self, tier, rng, real):
        quick = tier == "quick"
        self.stats10 = dict(graphs=0, layer1_compared=0, layer1_unsupported=0, layer1_unavailable=0, layer1b_compared=0, layer1b_unsupported=0, byvalue_graphs=0, streams_equal=0, streams_differ=0,
                            loads=0, fresh_loads=0, deep_chains=0)
        for gi in range(100 if quick else 1500):
            if getattr(self, "timed_out", False):
                break
            byvalue = gi % 4 == 3
            lines, outs = self.build(rng, real, big=(gi % 5 == 0), byvalue=byvalue)
            inner = real.inner
            if rng.random() < 0.4:
                for l in ["flag on"] + ["nbrs V%d 1 1 -" % i for i in range(min(4, len(inner.V)))] + ["flag off"]:
                    lines.append(l)
                    outs.append(real.step(l))
            root = (inner.V, inner.L, inner.W)
            self.stats10["graphs"] += 1
            try:
                with time_limit(40):
                    msg = self.check_graph(rng, inner, root, lines, fresh=(gi % (6 if quick else 10) == 0))
            except TimeoutError:
                msg = "nrpickler.dumps / loading did not finish within 40 s on this graph (the pickler does not terminate?)"
            if msg:
                self._viol.append((msg, lines + ["dumps"]))
                if "did not finish within" in msg or "TimeoutError" in msg:
                    self.timed_out = True
                    break               # every further graph of this kind would take the full time limit too
            # layer 1 through the protocol: real event trace vs the Lean queue machine
            sel = rng.choice(["all", "verts"] + (["V0"] if inner.V else []))
            proto = rng.choice([2, 3, 4, 5])
            r = (inner.V, inner.L, inner.W) if sel == "all" else inner.V if sel == "verts" else inner.V[0]
            # layer 1b (black box): the memo skeleton of the BYTES the real nrpickler writes vs the skeleton
            # of the stream the Lean queue machine writes on the heap seen by the standard pickler
            more, mouts = [], []
            if byvalue:
                # class / function definitions pickled by value contain cycles through closure cells, which
                # dill and nrpickler break in their own ways: outside the abstract heap of the model
                self.stats10["byvalue_graphs"] += 1
                continue
            try:
                heap_b, root_b, unsup_b = ref_heap(r, protocol=proto)
            except RecursionError:
                heap_b, root_b, unsup_b = None, None, "recursion depth of the reference pickler"
            if unsup_b:
                self.stats10["layer1b_unsupported"] += 1
            else:
                self.stats10["layer1b_compared"] += 1
                line = "pkskel %d %s root=%s proto=%d" % (root_b, heap_b, sel, proto)
                more.append(line)
                mouts.append(real.step(line))
                self.loader_tie(r, proto, heap_b, root_b)
            # layer 1 (white box, finer): the event trace of the real queue loop vs the Lean queue machine.
            # It needs the internals of _NonrecursivePickler; when a rewrite of those internals makes the
            # instrumentation impossible it is counted as unavailable — layers 1b, 2 and 3 remain.
            try:
                events, heap, unsupported, _ = spy_dump(r, protocol=proto)
            except (AttributeError, TypeError, NameError) as exc:
                self.stats10["layer1_unavailable"] += 1
                self.stats10["layer1_unavailable_reason"] = "%s: %s" % (type(exc).__name__, exc)
                events = None
            except Exception as exc:  # noqa: BLE001
                self._viol.append(("the instrumented nrpickler raised %s: %s" % (type(exc).__name__, exc), lines + ["dumps"]))
                continue
            if events is not None and (not events or not heap):
                # the hooks of the instrumented subclass were never called: the pickler no longer goes
                # through the private methods the instrumentation overrides
                self.stats10["layer1_unavailable"] += 1
                self.stats10["layer1_unavailable_reason"] = "the private hooks (realsave / realmemoize) are not called any more"
                events = None
            if events is not None:
                if unsupported:
                    self.stats10["layer1_unsupported"] += 1
                else:
                    self.stats10["layer1_compared"] += 1
                    line = "pktrace 0 %s root=%s proto=%d" % (heap, sel, proto)
                    more.append(line)
                    mouts.append(real.step(line))
            if more:
                yield lines + more, outs + mouts
        # depth: a chain far longer than the recursion limit
        for n in ([] if getattr(self, "timed_out", False) else [400] if quick else [400, 3000, 20000]):
            m = self.deep_chain(n)
            self.stats10["deep_chains"] += 1
            if m:
                self._viol.append((m, ["deep-chain %d" % n]))

    _viol = []

    def loader_tie(self, r, proto, heap_b, root_b):
        """SOFT tie of the abstract unpickler (EG.PickleLoad; theorem C10_load_roundtrip): the graph the Lean
        machine builds from the queue machine's stream on the abstract heap of the ORIGINAL is compared, up to
        renaming, with the abstract heap of the COPY that pickle really loads from nrpickler's bytes (both
        abstractions come from the instrumented standard pickler).  Counts go into the evidence; never an alarm."""
        import run as runmod
        tie = self.stats10.setdefault("loader_tie", {"compared": 0, "agree": 0, "skipped": 0, "first_disagreement": None})
        if len(heap_b) > 60000 or tie["compared"] >= 60:
            tie["skipped"] += 1
            return
        try:
            from edgegraph.output import nrpickler
            with time_limit(20):
                copy = pickle.loads(nrpickler.dumps(r, protocol=proto))
                heap_c, root_c, unsup_c = ref_heap(copy, protocol=proto)
            if unsup_c:
                tie["skipped"] += 1
                return
            ans = runmod.run_model(["pkload %d %s" % (root_b, heap_b)])[0]
            if not ans.startswith("ok root="):
                tie["compared"] += 1
                tie["first_disagreement"] = tie["first_disagreement"] or ("model: " + ans[:80])
                return
            tie["compared"] += 1
            if canon_of_model_answer(ans) == canon_of_heap_text(heap_c, root_c):
                tie["agree"] += 1
            elif tie["first_disagreement"] is None:
                tie["first_disagreement"] = "graph of %d nodes" % heap_b.count(";")
        except Exception as exc:  # noqa: BLE001
            tie["skipped"] += 1
            tie.setdefault("errors", []).append(repr(exc)[:120])

    def extra_violations(self, stats):
        stats.extra["pickle_layers"] = getattr(self, "stats10", {})
        v = [Violation("oracle", m, sc) for (m, sc) in self._viol[:5]]
        self._viol = []
        m = self.slotted_probe(stats)
        if m:
            v.append(Violation("oracle", m, ["sweep:slotted subclasses"]))
        return v

    @staticmethod
    def slotted_probe(stats):
        """user subclasses that add `__slots__` (state = (dict, slots) from protocol 2 on) and objects none of whose
        uids has been read before the dump: the copy has the same classes, slot values, uids and structure"""
        import pool
        from edgegraph.structure import DirectedEdge as D_
        n = 0
        for proto in (2, 3, 4, 5):
            for loader in (pickle, dill):
                a, b = pool.Slotted(), pool.Slotted(attributes={"name": "b"})
                a.weight = 5
                u = pool.SlottedU(vertices=[a, b])
                u.region = ("eu", 1)
                e = D_(a, b)
                root = [u, a, b, e]
                try:
                    data = nrpickler.dumps(root, protocol=proto)       # before anything has read a uid of these objects
                    u2, a2, b2, e2 = loader.loads(data)
                except Exception as exc:  # noqa: BLE001
                    return "slotted subclasses, protocol %d, %s: %s: %s" % (proto, loader.__name__, type(exc).__name__, exc)
                n += 1
                want = (5, ("eu", 1), "b", [a.uid, b.uid], [u.uid], e.uid, u.uid, u.laws.uid, [a.uid, b.uid], False)
                got = (getattr(a2, "weight", None), getattr(u2, "region", None), getattr(b2, "name", None), [x.uid for x in u2.vertices],
                       [x.uid for x in a2.universes], e2.uid, u2.uid, u2.laws.uid, [x.uid for x in e2.vertices], hasattr(b2, "weight"))
                if got != want or type(a2) is not pool.Slotted or type(u2) is not pool.SlottedU or a2.links != (e2,):
                    return "slotted subclasses, protocol %d, %s: the copy reads %r, the original %r" % (proto, loader.__name__, got, want)
        stats.extra["slotted_roundtrips"] = n
        return None

    def search(self, tier, rng, real, v):
        return []

    def check_graph(self, rng, inner, root, lines, fresh):
        V, L, W = root
        before = describe(V, L, W)
        for proto in range(0, 6):
            try:
                data = nrpickler.dumps(root, protocol=proto)
                f = io.BytesIO()
                nrpickler.dump(root, f, protocol=proto)
            except Exception as exc:  # noqa: BLE001
                return "nrpickler.dumps(protocol=%d) raised %s: %s" % (proto, type(exc).__name__, exc)
            if f.getvalue() != data:
                return "nrpickler.dump and dumps disagree (protocol %d)" % proto
            if proto in (2, 4):
                # the two entry points given the same OPTIONS (dill's `recurse`, `byref`): the same bytes, or the same refusal
                import warnings
                for kw in ({"recurse": True}, {"byref": True}, {"recurse": True, "byref": True}):
                    with warnings.catch_warnings():
                        warnings.simplefilter("ignore")         # dill warns about classes it cannot find by name
                        try:
                            a_ = nrpickler.dumps(root, protocol=proto, **kw)
                        except Exception as exc:  # noqa: BLE001
                            a_ = ("raised", type(exc).__name__)
                        f2 = io.BytesIO()
                        try:
                            nrpickler.dump(root, f2, protocol=proto, **kw)
                            b_ = f2.getvalue()
                        except Exception as exc:  # noqa: BLE001
                            b_ = ("raised", type(exc).__name__)
                    if a_ != b_:
                        return "nrpickler.dump and dumps disagree when called with %r (protocol %d)" % (kw, proto)
            try:
                ref = dill.dumps(root, protocol=proto)
                if opstream(ref) == opstream(data):
                    self.stats10["streams_equal"] += 1
                else:
                    self.stats10["streams_differ"] += 1
            except RecursionError:
                pass
            for loader in (pickle, dill):
                for caching in (False, True):
                    Vertex.NEIGHBOR_CACHING = caching
                    try:
                        V2, L2, W2 = loader.loads(data)
                        after = describe(V2, L2, W2)
                        again = describe(V2, L2, W2)
                    except Exception as exc:  # noqa: BLE001
                        return "loading the bytes of protocol %d with %s raised %s: %s" % (
                            proto, loader.__name__, type(exc).__name__, exc)
                    finally:
                        Vertex.NEIGHBOR_CACHING = False
                    self.stats10["loads"] += 1
                    if proto in (2, 5) and loader is pickle and not caching:
                        m = self.usable(V2, L2, W2, after)
                        if m:
                            return "the copy (protocol %d) is not fully usable: %s" % (proto, m)
                    if any(a is b for a, b in zip(V, V2)):
                        return "the copy shares an object with the original"
                    if after != before or again != before:
                        d = [(x, y) for x, y in zip(before, after) if x != y][:2]
                        return "the copy loaded with %s (protocol %d, caching %s) differs from the original: %r" % (
                            loader.__name__, proto, caching, d)
        # every object of the graph is a possible ROOT: pickle single vertices / links too
        for obj in rng.sample(list(V) + list(L), min(4, len(V) + len(L))):
            for proto in (0, 2, 4, 5):
                try:
                    o2 = pickle.loads(nrpickler.dumps(obj, protocol=proto))
                except Exception as exc:  # noqa: BLE001
                    return "pickling a single %s as the root (protocol %d) raised %s: %s" % (
                        type(obj).__name__, proto, type(exc).__name__, exc)
                same = type(o2).__qualname__ == type(obj).__qualname__ and o2.uid == obj.uid and [u.uid for u in o2.universes] == [u.uid for u in obj.universes]
                if same and isinstance(obj, Vertex):
                    same = [l.uid for l in o2.links] == [l.uid for l in obj.links] and sorted(k for k in vars(o2) if not k.startswith("_")) == sorted(
                        k for k in vars(obj) if not k.startswith("_"))
                elif same:
                    same = [None if x is None else x.uid for x in o2.vertices] == [None if x is None else x.uid for x in obj.vertices]
                if not same:
                    return "a single %s pickled as the root (protocol %d) came back different" % (type(obj).__name__, proto)
        if describe(V, L, W) != before:
            return "serialising changed the original graph"
        if fresh:
            proto = rng.choice([0, 2, 4, 5])
            data = nrpickler.dumps(root, protocol=proto)
            for loader in ("pickle", "dill"):
                caching = rng.random() < 0.5
                code = CHILD % (os.environ.get("EG_REPO", "/repo"), HERE, caching, loader)
                pr = subprocess.run([sys.executable, "-c", code], input=str(len(data)).encode() + b"\n" + data,
                                    stdout=subprocess.PIPE, stderr=subprocess.PIPE, check=False)
                self.stats10["fresh_loads"] += 1
                got = pr.stdout.decode().split("\n")[:-1]
                if pr.returncode != 0 or got != before + before:
                    return "loading in a fresh interpreter (%s, protocol %d, caching %s) failed or differs: rc=%d %s" % (
                        loader, proto, caching, pr.returncode, pr.stderr.decode()[-300:])
        return None

    @staticmethod
    def usable(V2, L2, W2, desc):
        """the copy behaves like a graph built in this interpreter: no-op calls are no-ops, a new
        vertex / link can be added and removed again, leaving the copy as it was"""
        from edgegraph.structure import DirectedEdge
        from edgegraph.builder import explicit
        for u in V2:
            if isinstance(u, Universe):
                for m in u.vertices:
                    u.add_vertex(m)                  # already present: no action
                    m.add_to_universe(u)
        for v in V2:
            for l in v.links:
                v.add_to_link(l)                     # already associated: no action
        if describe(V2, L2, W2) != desc:
            return "repeating add_vertex / add_to_universe / add_to_link for existing associations changed the copy"
        fresh = Vertex()
        for u in V2:
            if isinstance(u, Universe):
                u.add_vertex(fresh)
                if sum(1 for x in u.vertices if x is fresh) != 1 or not any(x is u for x in fresh.universes):
                    return "a new vertex could not be added to a loaded universe exactly once"
                u.remove_vertex(fresh)
        if V2:
            e = DirectedEdge(V2[0], fresh)
            try:
                seen = any(x is fresh for x in helpers.neighbors(V2[0], 0, 1))
            except (AttributeError, IndexError):
                seen = True          # the graph holds an n-ary / one-ended link: neighbors() raises on the original too
            if not seen:
                return "a new edge on a loaded vertex is not seen by neighbors()"
            e.unlink_from(fresh)
            e.unlink_from(V2[0])
            if any(x is e for x in V2[0].links):
                return "unlinking on a loaded vertex left the link attached"
        if describe(V2, L2, W2) != desc:
            return "adding and removing a vertex / an edge did not leave the copy as it was"
        return None

    @staticmethod
    def deep_chain(n):
        from edgegraph.structure import DirectedEdge
        vs = [Vertex(attributes={"i": i}) for i in range(n)]
        for a, b in zip(vs, vs[1:]):
            DirectedEdge(a, b)
        u = Universe(vertices=vs)
        old = sys.getrecursionlimit()
        sys.setrecursionlimit(max(200, min(old, 300)))
        try:
            try:
                data = nrpickler.dumps(u)
            except RecursionError:
                return "nrpickler.dumps raised RecursionError on a chain of %d vertices" % n
        finally:
            sys.setrecursionlimit(old)
        u2 = pickle.loads(data)
        vs2 = u2.vertices
        if [v.i for v in vs2] != list(range(n)):
            return "deep chain: members differ after the round trip"
        x = vs2[0]
        for k in range(1, min(n, 500)):
            nb = helpers.neighbors(x)
            if len(nb) != 1 or nb[0].i != k:
                return "deep chain: neighbor structure differs at %d" % k
            x = nb[0]
        return None


CHECKS = {"C10": C10}
