import EG.Basic
import EG.World
import EG.Struct
import EG.Uni
import EG.Query
import EG.Trav
