import EG.Query
import EG.Trav
/-
  Main — line-protocol driver of the mirror model M.
  One operation per input line, one answer line per operation
  (`ok …` / `err <Class>` / `bad-op …`).  The Python harness (harness/adapter.py)
  performs the same operations on the real edgegraph code and compares the two
  output streams line by line.  Nothing here imports Mathlib, so this file is
  linked as a native executable (`lake build driver`).
-/
open EG

/-- table-driven filter family: filter `k` accepts (link `l`, other end `x`) iff bit
    `(7*l + code x) mod 64` of `k` is set (`code none = 0`, `code (some v) = v+1`) -/
def filterTable (k : Nat) (l : LId) (x : Option VId) : Bool :=
  let c := match x with | none => 0 | some v => v + 1
  k.testBit ((7 * l + c) % 64)

structure DState where
  w : World := World.init

def showOptV : Option VId → String
  | none => "-"
  | some v => s!"V{v}"

def showList (f : α → String) (l : List α) : String :=
  "[" ++ ",".intercalate (l.map f) ++ "]"

def showNatList (l : List Nat) : String := showList toString l

def obs (w : World) : String :=
  let vs := (List.range w.nV).map fun v =>
    s!"V{v}:{(w.vcls v).name} l={showNatList (w.links v)} u={showNatList (w.unis v)} " ++
    s!"m={showNatList (w.members v)} w={match w.laws v with | none => "-" | some x => toString x} " ++
    s!"a={showList (fun (p : Nat × Nat) => s!"{p.1}:{p.2}") (w.attrs v)}"
  let ls := (List.range w.nL).map fun l =>
    s!"L{l}:{(w.lcls l).name}{showList (fun (o : Option VId) => match o with | none => "-" | some v => toString v) (w.ends l)}"
  let ws := (List.range w.nW).map fun x =>
    s!"W{x}:{match w.appliesTo x with | none => "-" | some v => toString v}"
  "obs " ++ "|".intercalate vs ++ "#" ++ "|".intercalate ls ++ "#" ++ "|".intercalate ws ++
    "#c=" ++ (if w.caching then "1" else "0")

/-! ### token parsing -/

def parseId (pfx : Char) (s : String) : Option Nat :=
  if s.length ≥ 2 && s.front == pfx then (s.drop 1).toNat? else none

/-- `Vn` ↦ some (some n); `-` ↦ some none -/
def parseOptV (s : String) : Option (Option VId) :=
  if s == "-" then some none else (parseId 'V' s).map some

def parseOptW (s : String) : Option (Option WId) :=
  if s == "-" then some none else (parseId 'W' s).map some

def parseOptNat (s : String) : Option (Option Nat) :=
  if s == "-" then some none else s.toNat?.map some

def parseListWith (f : String → Option α) (s : String) : Option (List α) :=
  if s == "" then some [] else (s.splitOn ",").mapM f

/-- `key=value` options after the positional tokens -/
def optArg (toks : List String) (key : String) : String :=
  match toks.find? (fun t => t.startsWith (key ++ "=")) with
  | some t => (t.drop (key.length + 1)).toString
  | none => ""

def parseAttrs (s : String) : Option (List (Nat × Nat)) :=
  parseListWith (fun t => match t.splitOn ":" with
    | [a, b] => do let x ← a.toNat?; let y ← b.toNat?; pure (x, y)
    | _ => none) s

def errLine (e : Err) : String := "err " ++ e.name

def okW (st : DState) (w : World) (msg : String := "ok") : DState × String :=
  ({ st with w := w }, msg)

def ofOpt (st : DState) (r : Option World) : DState × String :=
  match r with
  | none => (st, errLine .recursion)
  | some w => okW st w

def ofExc (st : DState) (r : Except Err World) : DState × String :=
  match r with
  | .error e => (st, errLine e)
  | .ok w => okW st w

def vOK (w : World) (v : VId) : Bool := v < w.nV
def lOK (w : World) (l : LId) : Bool := l < w.nL
def isUni (w : World) (v : VId) : Bool := v < w.nV && w.vcls v == .UNI

/-! ### graph resolution for traversals: pseudo-vertices for `None` and for raising `neighbors` -/

/-- resolved view of the world for one traversal call.  Ids: `0 … nV-1` real vertices,
    `nV` = Python `None`, `nV+1+x` = "`neighbors(x)` raised" (x ≤ nV). -/
structure Resolved where
  n : Nat                    -- nV
  nbs : Array (List Nat)     -- indexed by id < 2n+2
  errs : Array (Option Err)  -- error raised by neighbors(x), x ≤ n
  w : World                  -- world after the neighbor calls (cache updates)

def resolve (w : World) (dir unk : Nat) (filt : Option Nat) : Resolved := Id.run do
  let n := w.nV
  let mut w := w
  let mut nbs : Array (List Nat) := Array.replicate (2 * n + 2) []
  let mut errs : Array (Option Err) := Array.replicate (n + 1) none
  for v in [0:n] do
    let (w', r) := M.neighbors w filterTable v dir unk filt
    w := w'
    match r with
    | .ok l => nbs := nbs.set! v (l.map fun o => match o with | none => n | some x => x)
    | .error e =>
      nbs := nbs.set! v [n + 1 + v]
      errs := errs.set! v (some e)
  -- `neighbors(None)` : AttributeError
  nbs := nbs.set! n [n + 1 + n]
  errs := errs.set! n (some .attribute)
  return { n := n, nbs := nbs, errs := errs, w := w }

def Resolved.nb (r : Resolved) (x : Nat) : List Nat := r.nbs.getD x []

def Resolved.fuel (r : Resolved) : Nat :=
  r.nbs.foldl (fun a l => a + l.length + 1) 2

/-- cut a pure traversal output at the first pseudo-error vertex -/
def cutOutput (r : Resolved) : List Nat → List Nat × Option Err
  | [] => ([], none)
  | x :: xs =>
    if x > r.n then ([], (r.errs.getD (x - r.n - 1) none).orElse fun _ => some .other)
    else let (p, e) := cutOutput r xs; (x :: p, e)

def showTravId (n : Nat) (x : Nat) : String := if x == n then "-" else s!"V{x}"

/-! ### the operations -/

def step (st : DState) (line : String) : DState × String :=
  let w := st.w
  let toks := (line.trimAscii.toString.splitOn " ").filter (· ≠ "")
  let bad : DState × String := (st, "bad-op " ++ line.trimAscii.toString)
  match toks with
  | [] => (st, "")
  | ["reset"] => ({ st with w := World.init }, "ok")
  | ["obs"] => (st, obs w)
  | "vertex" :: cls :: opts =>
    match VCls.ofString? cls, parseListWith (parseId 'L') (optArg opts "l"),
          parseListWith (parseId 'V') (optArg opts "u"), parseAttrs (optArg opts "a") with
    | some c, some ls, some us, some attrs =>
      if c == .UNI || !(ls.all (lOK w)) || !(us.all (isUni w)) then bad else
      match M.newVertex M.fuel w c attrs ls us with
      | .error e => (st, errLine e)
      | .ok (w, v) => okW st w s!"ok V{v}"
    | _, _, _, _ => bad
  | "universe" :: opts =>
    match parseListWith (parseId 'V') (optArg opts "m"), parseOptW (if optArg opts "w" == "" then "-" else optArg opts "w"),
          parseAttrs (optArg opts "a") with
    | some ms, some L, some attrs =>
      if !(ms.all (vOK w)) || !(match L with | none => true | some x => x < w.nW) then bad else
      match M.newUniverse M.fuel w attrs ms L with
      | .error e => (st, errLine e)
      | .ok (w, v) => okW st w s!"ok V{v}"
    | _, _, _ => bad
  | ["lawset"] =>
    let (w, L) := M.allocLaws w
    okW st w s!"ok W{L}"
  | ["edge", cls, a, b] =>
    match LCls.ofString? cls with
    | none => bad
    | some c =>
      if c.kind == .nary then bad else
      if a == "!" || b == "!" then (st, errLine .type) else
      match parseOptV a, parseOptV b with
      | some x, some y =>
        if !((x.all (vOK w)) && (y.all (vOK w))) then bad else
        match M.newLink M.fuel w c [x, y] with
        | .error e => (st, errLine e)
        | .ok (w, l) => okW st w s!"ok L{l}"
      | _, _ => bad
  | ["nlink", vs] =>
    match parseListWith parseOptV (if vs == "." then "" else vs) with
    | none => bad
    | some xs =>
      if !(xs.all fun x => x.all (vOK w)) then bad else
      match M.newLink M.fuel w .N xs with
      | .error e => (st, errLine e)
      | .ok (w, l) => okW st w s!"ok L{l}"
  | [op, l, x] =>
    if op == "setv1" || op == "setv2" || op == "ladd" || op == "lunlink" then
      match parseId 'L' l, parseOptV x with
      | some l, some x =>
        if !(lOK w l && x.all (vOK w)) then bad else
        if op == "setv1" then (if (w.lcls l).kind == .nary then bad else ofExc st (M.setEnd M.fuel w l 0 x))
        else if op == "setv2" then (if (w.lcls l).kind == .nary then bad else ofExc st (M.setEnd M.fuel w l 1 x))
        else if op == "ladd" then ofOpt st (M.addVertex M.fuel w l x)
        else ofOpt st (M.unlinkFrom M.fuel w l x)
      | _, _ => bad
    else if op == "addtolink" || op == "rmfromlink" then
      match parseId 'V' l, parseId 'L' x with
      | some v, some l =>
        if !(vOK w v && lOK w l) then bad else
        if op == "addtolink" then ofOpt st (M.addToLink M.fuel w v l)
        else ofOpt st (M.removeFromLink M.fuel w v l)
      | _, _ => bad
    else if op == "uadd" || op == "urem" then
      match parseId 'V' l, parseId 'V' x with
      | some u, some v =>
        if !(isUni w u && vOK w v) then bad else
        if op == "uadd" then ofOpt st (M.uniAddVertex M.fuel w u v)
        else match M.uniRemoveVertex M.fuel w u v with
          | none => (st, errLine .recursion)
          | some r => ofExc st r
      | _, _ => bad
    else if op == "vadd" || op == "vrem" then
      match parseId 'V' l, parseId 'V' x with
      | some v, some u =>
        if !(isUni w u && vOK w v) then bad else
        if op == "vadd" then ofOpt st (M.addToUniverse M.fuel w v u)
        else match M.removeFromUniverse M.fuel w v u with
          | none => (st, errLine .recursion)
          | some r => ofExc st r
      | _, _ => bad
    else if op == "setlaws" then
      match parseId 'V' l, parseOptW x with
      | some u, some L =>
        if !(isUni w u && (match L with | none => true | some k => k < w.nW)) then bad else
        ofOpt st (M.setLaws M.fuel w u L)
      | _, _ => bad
    else if op == "setapplies" then
      match parseId 'W' l, parseOptV x with
      | some L, some u =>
        if !(L < w.nW && (match u with | none => true | some k => isUni w k)) then bad else
        ofOpt st (M.setAppliesTo M.fuel w L u)
      | _, _ => bad
    else bad
  | ["flag", x] => okW st { w with caching := x == "on" }
  | "linkft" :: a :: cls :: b :: dd :: _ =>
    match parseId 'V' a, LCls.ofString? cls, parseId 'V' b with
    | some a, some c, some b =>
      if !(vOK w a && vOK w b) || c.kind == .nary then bad else
      match M.linkFromTo M.fuel w a c b (dd == "1") with
      | .error e => (st, errLine e)
      | .ok (w, l) => okW st w s!"ok L{l}"
    | _, _, _ => bad
  | ["unlink", a, b, mode] =>
    match parseId 'V' a, parseId 'V' b with
    | some a, some b =>
      if !(vOK w a && vOK w b) then bad else
      match M.unlink M.fuel w filterTable a b with
      | .error e => (st, errLine e)
      | .ok (w, J) =>
        okW st w (if mode == "keep" then "ok " ++ showList (fun l => s!"L{l}") (J.mergeSort (· ≤ ·)) else "ok -")
    | _, _ => bad
  | "nbrs" :: v :: dir :: unk :: filt :: rest =>
    match parseId 'V' v, dir.toNat?, unk.toNat?, parseOptNat filt with
    | some v, some dir, some unk, some filt =>
      if !(vOK w v) then bad else
      let fault := match rest with | [k] => k.toNat? | _ => none
      let (w, r) := M.neighbors w filterTable v dir unk filt fault
      match r with
      | .error e => okW st w (errLine e)
      | .ok l => okW st w ("ok " ++ showList showOptV l)
    | _, _, _, _ => bad
  | "flinks" :: a :: b :: ds :: unk :: filt :: rest =>
    match parseId 'V' a, parseId 'V' b, unk.toNat?, parseOptNat filt with
    | some a, some b, some unk, some filt =>
      if !(vOK w a && vOK w b) then bad else
      let fault := match rest with | [k] => k.toNat? | _ => none
      match M.findLinks w filterTable a b (ds == "1") unk filt fault with
      | .error e => (st, errLine e)
      | .ok J => (st, "ok " ++ showList (fun l => s!"L{l}") (J.mergeSort (· ≤ ·)))
    | _, _, _, _ => bad
  | _ => bad

partial def loop (h : IO.FS.Stream) (out : IO.FS.Stream) (st : DState) : IO Unit := do
  let line ← h.getLine
  if line.isEmpty then return ()
  let (st', ans) := step st line
  out.putStrLn ans
  loop h out st'

def main : IO Unit := do
  let stdin ← IO.getStdin
  let stdout ← IO.getStdout
  loop stdin stdout {}
  stdout.flush
