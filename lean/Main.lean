import EG.Step
import EG.Build
import EG.Render
import EG.Trav
import EG.TravOps
import EG.StepX
import EG.Single
import EG.SingleCfg
import EG.Pickle
import EG.PickleLoad
import EG.Copy
/-
  Main — line-protocol driver of the mirror model M.
  One operation per input line, one answer line per operation
  (`ok …` / `err <Class>` / `bad-op …`).  The Python harness (harness/adapter.py)
  performs the same operations on the real edgegraph code and compares the two
  output streams line by line.  Nothing here imports Mathlib, so this file is
  linked as a native executable (`lake build driver`).
-/
open EG

/-- table-driven filter family: filter `k` accepts (link `l`, other end `x`) iff bit
    `(7*l + code x) mod 64` of `k` is set (`code none = 0`, `code (some v) = v+1`) -/
def filterTable (k : Nat) (l : LId) (x : Option VId) : Bool :=
  let c := match x with | none => 0 | some v => v + 1
  k.testBit ((7 * l + c) % 64)

/-! ### renderer argument families (the adapter builds the same Python callables) -/

def codeOf : Option VId → Nat
  | none => 0
  | some v => v + 1

def rfTok : R.RFun := fun x => match x with | none => "none" | some v => s!"v{v}"
def rfRepr : R.RFun := fun x => match x with | none => "None" | some v => s!"r{v}"
/-- a render function that READS the vertex: the value class of its attribute `a0` (`a-` when it has none) -/
def rfAttr (w : World) : R.RFun := fun x => match x with
  | none => "none"
  | some v => match (w.attrs v).find? (·.1 == 0) with
    | some p => s!"a{p.2}"
    | none => "a-"
/-- labels that END in a separator character or a line break (fixed-width padding, "Smith, J., ", a line read from a file) -/
def rfPad : R.RFun := fun x => match x with
  | none => "none"
  | some v => if v % 3 == 0 then s!"v{v}, " else if v % 3 == 1 then s!"v{v} " else s!"v{v}\n\n"
def rfDup : R.RFun := fun x => match x with | none => "none" | some v => s!"w{v % 2}"   -- not injective
/-- sort keys of the protocol; key 1 maps many vertices to the same value (ties: `sorted` is stable) -/
def sortKey (k : Nat) : Option VId → Nat := fun x => (codeOf x * (k + 1)) % (if k == 1 then 3 else 7)

def pumlOpts : Nat → R.POpts
  | 1 => { vopt := fun c => match c with
             | .V => some ⟨"object", false, false⟩ | .SV => some ⟨"class", false, false⟩ | _ => none
           lopt := fun c => match c with
             | .D => some ⟨"", ">"⟩ | .U => some ⟨"", ""⟩ | .DD => some ⟨"<", ">"⟩ | _ => none }
  | 2 => { vopt := fun c => match c with | .V => some ⟨"object", true, false⟩ | _ => none
           lopt := fun c => match c with
             | .D => some ⟨"", ">"⟩ | .U => some ⟨"", ""⟩ | _ => none }
  | 3 => { vopt := fun c => match c with | .V => some ⟨"object", false, false⟩ | _ => none
           lopt := fun c => match c with
             | .D => some ⟨"", ">"⟩ | .U => some ⟨"", ""⟩ | .X => some ⟨"o", "o"⟩ | _ => none }
  | 4 => { vopt := fun c => match c with
             | .V => some ⟨"object", false, false⟩ | .SV => some ⟨"class", true, false⟩ | _ => none
           lopt := fun c => match c with
             | .D => some ⟨"", ">"⟩ | .U => some ⟨"", ""⟩ | _ => none }
  | 5 => { vopt := fun c => match c with
             | .V => some ⟨"object", false, false⟩ | .MX => some ⟨"entity", true, false⟩ | _ => none
           lopt := fun c => match c with
             | .D => some ⟨"", ">"⟩ | .U => some ⟨"", ""⟩ | _ => none }
  | 6 => { vopt := fun c => match c with
             | .V => some ⟨"object", false, false⟩ | .SV => some ⟨"class", false, false⟩ | .MX => some ⟨"entity", true, false⟩ | _ => none
           lopt := fun c => match c with
             | .D => some ⟨"", ">"⟩ | .U => some ⟨"", ""⟩ | _ => none }
  | 7 => { vopt := fun c => match c with | .V => some ⟨"object", true, true⟩ | _ => none
           lopt := fun c => match c with
             | .D => some ⟨"", ">"⟩ | .U => some ⟨"", ""⟩ | _ => none }
  | _ => { vopt := fun c => match c with | .V => some ⟨"object", false, false⟩ | _ => none
           lopt := fun c => match c with
             | .D => some ⟨"", ">"⟩ | .U => some ⟨"", ""⟩ | _ => none }

structure DState where
  w : World := World.init
  ts : Sg.TS := {}
  ss : Sg.SS := {}

def showOptV : Option VId → String
  | none => "-"
  | some v => s!"V{v}"

def showList (f : α → String) (l : List α) : String :=
  "[" ++ ",".intercalate (l.map f) ++ "]"

def showNatList (l : List Nat) : String := showList toString l

def obs (w : World) : String :=
  let vs := (List.range w.nV).map fun v =>
    s!"V{v}:{(w.vcls v).name} l={showNatList (w.links v)} u={showNatList (w.unis v)} " ++
    s!"m={showNatList (w.members v)} w={match w.laws v with | none => "-" | some x => toString x} " ++
    s!"a={showList (fun (p : Nat × Nat) => s!"{p.1}:{p.2}") (w.attrs v)}"
  let ls := (List.range w.nL).map fun l =>
    s!"L{l}:{(w.lcls l).name}{showList (fun (o : Option VId) => match o with | none => "-" | some v => toString v) (w.ends l)}"
  let ws := (List.range w.nW).map fun x =>
    s!"W{x}:{match w.appliesTo x with | none => "-" | some v => toString v}:r{w.rules x}"
  "obs " ++ "|".intercalate vs ++ "#" ++ "|".intercalate ls ++ "#" ++ "|".intercalate ws ++
    "#c=" ++ (if w.caching then "1" else "0")

/-! ### token parsing -/

def parseId (pfx : Char) (s : String) : Option Nat :=
  if s.length ≥ 2 && s.front == pfx then (s.drop 1).toNat? else none

/-- `Vn` ↦ some (some n); `-` ↦ some none -/
def parseOptV (s : String) : Option (Option VId) :=
  if s == "-" then some none else (parseId 'V' s).map some

def parseOptW (s : String) : Option (Option WId) :=
  if s == "-" then some none else (parseId 'W' s).map some

def parseOptNat (s : String) : Option (Option Nat) :=
  if s == "-" then some none else s.toNat?.map some

def parseListWith (f : String → Option α) (s : String) : Option (List α) :=
  if s == "" then some [] else (s.splitOn ",").mapM f

/-- C10: run the queue machine of EG.Pickle on an abstract heap given as text
    (`;`-separated `id=a` (atom) | `id=t:k:b,b:` (tuple-like) | `id=n:k:b,b:a,a`).
    `skel = false`: the event trace of the run (compared with the instrumented real pickler);
    `skel = true`: the memo skeleton of the STREAM it writes — MEMOIZE / GET i / POP in order —
    compared with the same skeleton of the bytes the real nrpickler produced (black-box). -/
def pkAnswer (skel : Bool) (root heap : String) : Option String :=
  let entries : Option (List (Nat × Pk.Node)) := (heap.splitOn ";").mapM fun e =>
    match e.splitOn "=" with
    | [i, d] => do
      let i ← i.toNat?
      if d == "a" then pure (i, Pk.Node.atom 0) else
      match d.splitOn ":" with
      | [t, k, bs, as] => do
        let k ← k.toNat?
        let bs ← parseListWith String.toNat? bs
        let as ← parseListWith String.toNat? as
        pure (i, Pk.Node.node (t == "t") k bs as)
      | _ => none
    | _ => none
  match root.toNat?, entries with
  | some root, some es =>
    let H : Pk.Heap := fun o => match es.find? (·.1 == o) with | some (_, n) => n | none => .atom 0
    let fuel := 4 * (es.foldl (fun a (_, n) => a + (match n with | .atom _ => 1 | .node _ _ b c => 4 + b.length + c.length)) 4) + 16
    if skel then
      match Pk.nrDump H (fuel * (es.length + 2)) root with
      | none => some "err OutOfFuel"
      | some (out, _) =>
        let sk := out.filterMap fun op => match op with
          | .memo => some "M" | .get i => some s!"G{i}" | .pop => some "P" | .discard _ _ => some "D" | _ => none
        some ("ok " ++ ",".intercalate sk)
    else
      let tr := Pk.nrTrace H (fuel * (es.length + 2)) ⟨[.save root], [], []⟩
      let showE : Pk.Event → String
        | .expand o => s!"E{o}" | .atom o => s!"A{o}" | .hit o => s!"H{o}" | .memo o => s!"M{o}" | .popget _ => "P"
      some ("ok " ++ ",".intercalate (tr.map showE))
  | _, _ => none

/-- C10, loading side: the queue machine's stream for the abstract heap is fed to the abstract
    unpickler of EG.PickleLoad; the answer lists the heap it builds (`ref=kind|before|after`, values
    `a` = atom, `rN` = reference) and the value left on the stack.  Tuple-like nodes get kind 1, the
    others kind 0 (the instrumented pickler does not report kinds), so `tupK k = (k == 1)`. -/
def pkLoadAnswer (root heap : String) : Option String :=
  let entries : Option (List (Nat × Pk.Node)) := (heap.splitOn ";").mapM fun e =>
    match e.splitOn "=" with
    | [i, d] => do
      let i ← i.toNat?
      if d == "a" then pure (i, Pk.Node.atom 0) else
      match d.splitOn ":" with
      | [t, _, bs, as] => do
        let bs ← parseListWith String.toNat? bs
        let as ← parseListWith String.toNat? as
        pure (i, Pk.Node.node (t == "t") (if t == "t" then 1 else 0) bs as)
      | _ => none
    | _ => none
  match root.toNat?, entries with
  | some root, some es =>
    let H : Pk.Heap := fun o => match es.find? (·.1 == o) with | some (_, n) => n | none => .atom 0
    let fuel := 4 * (es.foldl (fun a (_, n) => a + (match n with | .atom _ => 1 | .node _ _ b c => 4 + b.length + c.length)) 4) + 16
    match Pk.nrDump H (fuel * (es.length + 2)) root with
    | none => some "err OutOfFuel"
    | some (out, _) =>
      match Pk.vmLoad (fun k => k == 1) out with
      | none => some "err LoadFailed"
      | some (v, S) =>
        let showV : Pk.Val → String := fun v => match v with | .atom _ => "a" | .ref r => s!"r{r}"
        let nodes := (List.range S.next).map fun r =>
          let n := S.heap r
          s!"{r}={n.kind}|" ++ ",".intercalate (n.before.map showV) ++ "|" ++ ",".intercalate (n.after.map showV)
        some ("ok root=" ++ showV v ++ " " ++ ";".intercalate nodes)
  | _, _ => none

/-- `key=value` options after the positional tokens -/
def optArg (toks : List String) (key : String) : String :=
  match toks.find? (fun t => t.startsWith (key ++ "=")) with
  | some t => (t.drop (key.length + 1)).toString
  | none => ""

def parseAttrs (s : String) : Option (List (Nat × Nat)) :=
  parseListWith (fun t => match t.splitOn ":" with
    | [a, b] => do let x ← a.toNat?; let y ← b.toNat?; pure (x, y)
    | _ => none) s

def errLine (e : Err) : String := "err " ++ e.name

/-- `make_pyvis_net(uni, rvfunc, refunc)` rendered as an answer line -/
def pyvisAnswer (w : World) (u re : String) : Option String :=
  match parseId 'V' u with
  | some u =>
    if !(w.isUni u) then none else
    match R.pyvisNet w u (fun v => s!"v{v}") (if re == "-" then none else some fun l => s!"e{l}") with
    | .error e => some (errLine e)
    | .ok (nodes, edges) =>
      some ("ok nodes=" ++ showList (fun (p : Nat × String) => s!"{p.1}:{p.2}") nodes ++ " edges=" ++
        showList (fun (e : R.PEdge) => s!"{e.src}{if e.arrows then ">" else "-"}{e.dst}:{e.title.getD "-"}") edges)
  | none => none


def showAns : Ans → String
  | .ok => "ok"
  | .vertex v => s!"ok V{v}"
  | .link l => s!"ok L{l}"
  | .laws L => s!"ok W{L}"
  | .links ls => "ok " ++ showList (fun l => s!"L{l}") (ls.mergeSort (· ≤ ·))
  | .nothing => "ok -"
  | .verts vs => "ok " ++ showList showOptV vs
  | .err e => errLine e
  | .bad => "bad-op"

/-- parse one protocol line into an operation of the structure alphabet -/
def parseOp (toks : List String) : Option Op :=
  match toks with
  | "vertex" :: cls :: opts => do
    let c ← VCls.ofString? cls
    let ls ← parseListWith (parseId 'L') (optArg opts "l")
    let us ← parseListWith (parseId 'V') (optArg opts "u")
    let attrs ← parseAttrs (optArg opts "a")
    -- `uf=k`: the `universes=` iterable raises after k items; it is read completely before anything is touched
    if optArg opts "uf" != "" then pure (.rejected .fault) else
    pure (.newVertex c attrs ls us)
  | "universe" :: opts => do
    let ms ← parseListWith (parseId 'V') (optArg opts "m")
    let L ← parseOptW (if optArg opts "w" == "" then "-" else optArg opts "w")
    let attrs ← parseAttrs (optArg opts "a")
    pure (.newUniverse attrs ms L)
  | ["lawset"] => some (.newLaws 0)
  | ["lawset", r] => do pure (.newLaws (← r.toNat?))
  | "edge" :: cls :: a :: b :: opts => do
    let c ← LCls.ofString? cls
    -- `bad=k`: the constructor is given `attributes=` that it rejects (raises before anything is touched);
    -- `x=uid`, `la=k` (a caller-supplied uid, user attributes on the link) do not concern the model
    if a == "!" || b == "!" || optArg opts "bad" != "" then pure (.rejected .type) else
    let x ← parseOptV a
    let y ← parseOptV b
    pure (.newEdge c x y)
  | ["nlink", vs] => do
    let xs ← parseListWith parseOptV (if vs == "." then "" else vs)
    pure (.newNLink xs)
  | ["setv1", l, x] => do pure (.setV1 (← parseId 'L' l) (← parseOptV x))
  | ["setv2", l, x] => do pure (.setV2 (← parseId 'L' l) (← parseOptV x))
  | ["ladd", l, x] => do pure (.addVertex (← parseId 'L' l) (← parseOptV x))
  | ["lunlink", l, x] => do pure (.unlinkFrom (← parseId 'L' l) (← parseOptV x))
  | ["addtolink", v, l] => do pure (.addToLink (← parseId 'V' v) (← parseId 'L' l))
  | ["rmfromlink", v, l] => do pure (.removeFromLink (← parseId 'V' v) (← parseId 'L' l))
  | ["uadd", u, v] => do pure (.uniAdd (← parseId 'V' u) (← parseId 'V' v))
  | ["urem", u, v] => do pure (.uniRemove (← parseId 'V' u) (← parseId 'V' v))
  | ["vadd", v, u] => do pure (.vAdd (← parseId 'V' v) (← parseId 'V' u))
  | ["vrem", v, u] => do pure (.vRemove (← parseId 'V' v) (← parseId 'V' u))
  | ["setlaws", u, L] => do pure (.setLaws (← parseId 'V' u) (← parseOptW L))
  | ["setapplies", L, u] => do pure (.setAppliesTo (← parseId 'W' L) (← parseOptV u))
  | ["flag", x] => some (.flag (x == "on"))
  | "linkft" :: a :: cls :: b :: dd :: _ => do
    pure (.linkFromTo (← parseId 'V' a) (← LCls.ofString? cls) (← parseId 'V' b) (dd == "1"))
  | ["unlink", a, b, mode] => do
    pure (.unlink (← parseId 'V' a) (← parseId 'V' b) (mode != "keep"))
  | "nbrs" :: v :: dir :: unk :: filt :: rest => do
    let fault := match rest with | [k] => k.toNat? | _ => none
    pure (.neighbors (← parseId 'V' v) (← dir.toNat?) (← unk.toNat?) (← parseOptNat filt) fault)
  | "flinks" :: a :: b :: ds :: unk :: filt :: rest => do
    let fault := match rest with | [k] => k.toNat? | _ => none
    pure (.findLinks (← parseId 'V' a) (← parseId 'V' b) (ds == "1") (← unk.toNat?) (← parseOptNat filt) fault)
  | _ => none

def showTravId (n : Nat) (x : Nat) : String := if x == n then "-" else s!"V{x}"

/-! ### the operations -/

/-- vertex-filter family for `ff_result`: filter `k` accepts `x` iff bit `code x mod 64` of `k`
    is set (`code None = 0`, `code Vi = i+1`); pseudo-error vertices always pass -/
def vfilter (n : Nat) (k : Option Nat) (x : Nat) : Bool :=
  match k with
  | none => true
  | some k => if x > n then true else k.testBit ((if x == n then 0 else x + 1) % 64)

/-- the same family as a table over vertices (`none` = Python None), the form `M.stepX` takes -/
def resTable (k : Nat) (o : Option VId) : Bool :=
  k.testBit ((match o with | none => 0 | some v => v + 1) % 64)

def step (st : DState) (line : String) : DState × String :=
  let w := st.w
  let toks := (line.trimAscii.toString.splitOn " ").filter (· ≠ "")
  let bad : DState × String := (st, "bad-op " ++ line.trimAscii.toString)
  let generic : Unit → DState × String := fun _ =>
    match parseOp toks with
    | some op =>
      let (w', a) := M.step filterTable w op
      ({ st with w := w' }, showAns a)
    | none => bad
  match toks with
  | [] => (st, "")
  | ["reset"] => ({}, "ok")
  | "ghold" :: _ => (st, "ok")     -- a traversal GENERATOR is requested now and consumed by a later `… gen` line: nothing is read yet
  | ["reload"] =>
    -- the caller saves the graph and goes on with the LOADED copy (pickle / deepcopy / nrpickler): the isomorphic copy
    -- of EG.Copy; the harness names the copies as it named the originals, i.e. the identity renaming
    ({ st with w := st.w.copy ⟨id, id, id, id⟩ st.w.caching }, "ok")
  | ["reset", _] => ({}, "ok")      -- `reset byvalue`: some vertices are instances of classes pickled by value (C10); same model
  | ["adjdict", cls, body] =>
    match LCls.ofString? cls with
    | none => bad
    | some c =>
      let rows := if body == "." then some [] else (body.splitOn ";").mapM fun r =>
        match r.splitOn ":" with
        | [k, vs] => do
          let k ← parseId 'V' k
          let vs ← parseListWith (parseId 'V') vs
          pure (k, vs)
        | _ => none
      match rows with
      | none => bad
      | some adj =>
        if c.kind == .nary || !(adj.all fun (k, vs) => w.vOK k && vs.all w.vOK) then bad else
        match C.loadAdjDict M.prims w c adj with
        | .error e => (st, errLine e)
        | .ok (w', u) => ({ st with w := w' }, s!"ok V{u}")
  | ["adjmat", cls, verts, rows] =>
    match LCls.ofString? cls, parseListWith (parseId 'V') (if verts == "." then "" else verts) with
    | some c, some vs =>
      let matrix : List (List Bool) :=
        if rows == "." then [] else (rows.splitOn "/").map fun r => r.toList.map (· == '1')
      if c.kind == .nary || !(vs.all w.vOK) then bad else
      match C.loadAdjMatrix M.prims w c matrix vs with
      | .error e => (st, errLine e)
      | .ok (w', u) => ({ st with w := w' }, s!"ok V{u}")
    | _, _ => bad
  | ["randgraph", count, cls, conn, ens, draws] =>
    match count.toNat?, LCls.ofString? cls with
    | some count, some c =>
      let conn? : Option (Option (Nat × Nat)) :=
        if conn == "-" then some none else
          match conn.splitOn "/" with
          | [p, q] => do pure (some ((← p.toNat?), (← q.toNat?)))
          | _ => none
      let ds : Option (List C.Draw) :=
        if draws == "." then some [] else (draws.splitOn ";").mapM fun d =>
          match d.splitOn ":" with
          | [r, smp] => do
            let r ← r.toNat?
            let smp ← parseListWith String.toNat? smp
            pure { r := r, sample := smp }
          | _ => none
      match conn?, ds with
      | some conn, some ds =>
        if c.kind == .nary then bad else
        match C.randgraph M.prims w count c conn (ens == "1") ds with
        | .error e => (st, errLine e)
        | .ok (w', u) => ({ st with w := w' }, s!"ok V{u}")
      | _, _ => bad
    | _, _ => bad
  | ["plain", u, "num", sort] =>
    -- ONE callable serves as render function and as sort key; it returns numbers (0, 5, 10, 15, …: their text order
    -- differs from their numeric order), rendered with str()
    match parseId 'V' u with
    | some u =>
      if !(w.isUni u) then bad else
      let f : Option VId → Nat := fun x => codeOf x * 5
      match R.basicRenderS w filterTable u (fun x => toString (f x)) (if sort == "-" then none else some f) with
      | (w', .error e) => ({ st with w := w' }, errLine e)
      | (w', .ok none) => ({ st with w := w' }, "ok none")
      | (w', .ok (some str)) => ({ st with w := w' }, "ok " ++ str.replace "\n" "|")
    | none => bad
  | ["plain", u, rf, sort] =>
    match parseId 'V' u, parseOptNat sort with
    | some u, some sort =>
      if !(w.isUni u) then bad else
      -- the state-threading form: every `neighbors(vert)` call of the render goes through the memo
      match R.basicRenderS w filterTable u (if rf == "repr" then rfRepr else if rf == "dup" then rfDup else if rf == "pad" then rfPad else if rf == "attr" then rfAttr w else rfTok) (sort.map sortKey) with
      | (w', .error e) => ({ st with w := w' }, errLine e)
      | (w', .ok none) => ({ st with w := w' }, "ok none")
      | (w', .ok (some str)) => ({ st with w := w' }, "ok " ++ str.replace "\n" "|")
    | _, _ => bad
  | ["puml", u, o] =>
    match parseId 'V' u, o.toNat? with
    | some u, some o =>
      if !(w.isUni u) then bad else
      match R.pumlDoc w (pumlOpts o) u with
      | .error _ => (st, "err Error")
      | .ok none => (st, "ok none")
      | .ok (some (decls, rels)) =>
        (st, "ok decls=" ++ showList id decls ++ " rels=" ++ showList id (rels.mergeSort (· ≤ ·)))
    | _, _ => bad
  | ["pyvis", u, re] => match pyvisAnswer w u re with | some a => (st, a) | none => bad
  | ["pyvisd", u, re] => match pyvisAnswer w u re with | some a => (st, a) | none => bad   -- network_kwargs with directed=True: same network
  | ["pyvisc", u, re] => match pyvisAnswer w u re with | some a => (st, a) | none => bad   -- pyvis_render_customizable: same network
  | ["getlinks", v] =>
    match parseId 'V' v with
    | some v => if !(w.vOK v) then bad else (st, "ok " ++ showList (fun l => s!"L{l}") (w.links v))
    | none => bad
  | ["getunis", v] =>
    match parseId 'V' v with
    | some v => if !(w.vOK v) then bad else (st, "ok " ++ showList (fun u => s!"V{u}") (w.unis v))
    | none => bad
  | ["getmembers", u] =>
    match parseId 'V' u with
    | some u => if !(w.isUni u) then bad else (st, "ok " ++ showList (fun x => s!"V{x}") (w.members u))
    | none => bad
  | ["getends", l] =>
    match parseId 'L' l with
    | some l => if !(w.lOK l) then bad else (st, "ok " ++ showList showOptV (w.ends l))
    | none => bad
  | ["getwl", L] =>
    match parseId 'W' L with
    | some L => if !(w.wOK L) then bad else (st, s!"ok r{w.rules L}")
    | none => bad
  | ["cflag", _, _] => (st, "ok")   -- caching switched for one vertex class only: answers do not depend on it (C05)
  | "mut" :: _ => (st, "ok")        -- the caller edits a container it holds: nothing to do (C12)
  | ["sattr", v, a, val] =>
    -- `v.a<a> = <val>` : a user attribute is (re)assigned
    match parseId 'V' v, a.toNat?, val.toNat? with
    | some v, some a, some val =>
      if !(w.vOK v) then bad else
      let attrs' := if (w.attrs v).any (·.1 == a) then (w.attrs v).map (fun p => if p.1 == a then (a, val) else p)
                    else w.attrs v ++ [(a, val)]
      ({ st with w := { w with attrs := upd w.attrs v attrs' } }, "ok")
    | _, _, _ => bad
  | "attr" :: _ => (st, "ok")      -- runtime attributes holding shared tuples / frozensets (C10): not part of the world
  | "pktrace" :: root :: heap :: _ =>
    match pkAnswer false root heap with | some a => (st, a) | none => bad
  | "pkskel" :: root :: heap :: _ =>
    match pkAnswer true root heap with | some a => (st, a) | none => bad
  | "pkload" :: root :: heap :: _ =>
    match pkLoadAnswer root heap with | some a => (st, a) | none => bad
  | ["tsnew", c, a] =>
    match parseId 'C' c, parseId 'A' a with
    | some c, some a =>
      -- argument tuple 9 makes `__init__` raise
      -- … and argument tuple 10 makes `__init__` call `clear_true_singleton()`
      let (ts, r) := st.ts.step (if a == 9 then .constructFail c a else if a == 10 then .constructClearing c a else .construct c a)
      ({ st with ts := ts }, match r with | some i => s!"ok T{i}" | none => "err ValueError")
    | _, _ => bad
  | ["tsclear", c] =>
    if c == "*" then ({ st with ts := (st.ts.step (.clear none)).1 }, "ok")
    else match parseId 'C' c with
      | some c => ({ st with ts := (st.ts.step (.clear (some c))).1 }, "ok")
      | none => bad
  | ["tsobs"] =>
    -- what a user can observe without constructing: the log of `__init__` runs of his own classes
    -- (the instance table itself is private; scripts end with probing constructions instead)
    (st, "ts inits=" ++ showList (fun (p : Nat × Nat × Nat) => s!"{p.1}:{p.2.1}:{p.2.2}") st.ts.inits)
  | [op, x, a] =>
    if op == "ssnew" || op == "ssdrop" || op == "sscheck" || op == "ssadd" then
      match (if op == "ssadd" then parseId 'S' x else parseId 'C' x), parseId 'A' a with
      | some x, some a =>
        if op == "ssadd" && x ≥ st.ss.next then bad else
        let sop : Sg.SSOp := if op == "ssnew" then (if a == 9 then .constructFail x a else .construct x a) else if op == "ssdrop" then .drop x a
          else if op == "sscheck" then .check x a else .addMapping x a
        let (ss, r) := st.ss.step ssCfg sop
        ({ st with ss := ss }, match r with
          | .inst i => s!"ok S{i}" | .none => "ok -" | .ok => "ok" | .keyError => "err KeyError"
          | .raised => "err ValueError"
          | .bad => "bad-op"
          | .insts l => "ok " ++ showList (fun i => s!"S{i}") l)
      | _, _ => bad
    else generic ()
  | ["ssalli", c, d, a] =>
    -- get_all(c) consumed incrementally around a construction of class d: the report is the snapshot taken first
    match parseId 'C' c, parseId 'C' d, parseId 'A' a with
    | some c, some d, some a =>
      if a == 9 then bad else
      match (st.ss.step ssCfg (.getAll c)).2 with
      | .insts l =>
        let (ss, r) := st.ss.step ssCfg (.construct d a)
        ({ st with ss := ss }, "ok " ++ showList (fun i => s!"S{i}") l ++ (match r with | .inst i => s!" S{i}" | _ => " ?"))
      | _ => bad
    | _, _, _ => bad
  | ["ssall", c] =>
    match parseId 'C' c with
    | some c => match (st.ss.step ssCfg (.getAll c)).2 with
      | .insts l => (st, "ok " ++ showList (fun i => s!"S{i}") l)
      | _ => bad
    | none => bad
  | ["ssclear", c] =>
    match parseId 'C' c with
    | some c => ({ st with ss := (st.ss.step ssCfg (.clear c)).1 }, "ok")
    | none => bad
  | ["ssobs"] =>
    -- observed through the PUBLIC functions only: get_all per class (as a sorted list) and
    -- check_semi_singleton_entry_exists per (class, argument tuple)
    let alls := (List.range 7).map fun c => match (st.ss.step ssCfg (.getAll c)).2 with
      | .insts l => s!"{c}:" ++ "+".intercalate ((l.mergeSort (· ≤ ·)).map toString)
      | _ => s!"{c}:?"
    let chks := (List.range 7).flatMap fun c => (List.range 15).filterMap fun a =>
      match (st.ss.step ssCfg (.check c a)).2 with
      | .inst i => some s!"{c}/{a}:{i}"
      | _ => none
    (st, "ss all=" ++ showList id alls ++ " chk=" ++ showList id chks ++
      " cls=" ++ showList (fun i => toString (st.ss.instCls i)) (List.range st.ss.next) ++
      " inits=" ++ showList (fun (p : Nat × Nat × Nat) => s!"{p.1}:{p.2.1}:{p.2.2}") st.ss.inits)
  | ["obs"] => (st, obs w)
  | [kind, uni, start, dir, unk, via, res, mode] =>
    if kind == "bft" || kind == "dftr" || kind == "dfti" then
      match parseOptV uni, parseId 'V' start, dir.toNat?, unk.toNat?, parseOptNat via, parseOptNat res with
      | some uni, some start, some dir, some unk, some via, some res =>
        if !(w.vOK start) || !(uni.all w.isUni) then bad else
        let k : TO.TravKind := if kind == "bft" then .bft else if kind == "dftr" then .dftr else .dfti
        -- the state-threading entry point (EG.TravState via EG.StepX): every `neighbors()` call the
        -- loop makes goes through the memo, and the world afterwards carries what it wrote
        match M.stepX filterTable resTable w (.traverse k uni start dir unk via res) with
        | (w', .listing out e) =>
          let st := { st with w := w' }
          let lst := showList (showTravId w.nV) out
          if mode == "gen" then
            (st, "gen " ++ lst ++ (match e with | none => " end" | some e => " " ++ errLine e))
          else
            (st, match e with | none => "ok " ++ lst | some e => errLine e)
        | _ => bad
      | _, _, _, _, _, _ => bad
    else generic ()
  | [kind, uni, start, attr, val] =>
    if kind == "bfs" || kind == "dfsr" || kind == "dfsi" then
      match parseOptV uni, parseId 'V' start, attr.toNat?, val.toNat? with
      | some uni, some start, some attr, some val =>
        if !(w.vOK start) || !(uni.all w.isUni) then bad else
        let k : TO.SearchKind := if kind == "bfs" then .bfs else if kind == "dfsr" then .dfsr else .dfsi
        match M.stepX filterTable resTable w (.search k uni start attr val) with
        | (w', .found (.inl e)) => ({ st with w := w' }, errLine e)
        | (w', .found (.inr none)) => ({ st with w := w' }, "ok -")
        | (w', .found (.inr (some x))) => ({ st with w := w' }, s!"ok V{x}")
        | _ => bad
      | _, _, _, _ => bad
    else generic ()
  | _ => generic ()

/-- Re-tabulate the function-valued fields of the world (the model stores them as chains of point
    updates, so a lookup costs as many steps as there were updates).  The result is the SAME world
    extensionally on every id the protocol can name (ids below the counters; beyond them every field
    still has its initial value, `Fresh`): a representation change of the driver, not of the model. -/
def mkTab {α : Type} (n : Nat) (f : Nat → α) : Array α := Array.ofFn (n := n) (fun i => f i.val)

def _root_.EG.World.compact (w : World) : World :=
  let nv := w.nV + 4
  let nl := w.nL + 4
  let nw := w.nW + 4
  -- the arrays are computed here, once per call; the closures below only capture them
  let aVcls := mkTab nv w.vcls
  let aLinks := mkTab nv w.links
  let aUnis := mkTab nv w.unis
  let aMembers := mkTab nv w.members
  let aLaws := mkTab nv w.laws
  let aAttrs := mkTab nv w.attrs
  let aCache := mkTab nv w.cache
  let aLcls := mkTab nl w.lcls
  let aEnds := mkTab nl w.ends
  let aApplies := mkTab nw w.appliesTo
  let aRules := mkTab nw w.rules
  { w with
    vcls := fun i => aVcls.getD i .V, links := fun i => aLinks.getD i [], unis := fun i => aUnis.getD i []
    members := fun i => aMembers.getD i [], laws := fun i => aLaws.getD i none, attrs := fun i => aAttrs.getD i []
    cache := fun i => aCache.getD i []
    lcls := fun i => aLcls.getD i .N, ends := fun i => aEnds.getD i []
    appliesTo := fun i => aApplies.getD i none, rules := fun i => aRules.getD i 0 }

partial def loop (h : IO.FS.Stream) (out : IO.FS.Stream) (st : DState) (k : Nat := 0) : IO Unit := do
  let line ← h.getLine
  if line.isEmpty then return ()
  let st := if k % 48 == 47 then { st with w := st.w.compact } else st
  let (st', ans) := step st line
  out.putStrLn ans
  loop h out st' (k + 1)

def main : IO Unit := do
  let stdin ← IO.getStdin
  let stdout ← IO.getStdout
  loop stdin stdout {}
  stdout.flush
