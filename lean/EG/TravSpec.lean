import EG.Trav
/-
  EG.TravSpec — specification vocabulary for traversals and searches:
  reachability through in-universe vertices, bounded reachability (hop distance),
  sufficient fuels.  No Mathlib.
-/
namespace EG
namespace T

variable (nb : Nat → List Nat) (inU : Nat → Bool)

/-- `y` is reachable from `s` along links that `neighbors()` follows, through vertices
    belonging to the universe (the start itself is not re-checked: the pre-flight check
    of the real code has already established it) -/
inductive Reach (s : Nat) : Nat → Prop
  | refl : Reach s s
  | step {x y : Nat} : Reach s x → y ∈ nb x → inU y = true → Reach s y

/-- reachable in at most `k` hops -/
inductive ReachIn (s : Nat) : Nat → Nat → Prop
  | refl (k : Nat) : ReachIn s k s
  | step {k x y : Nat} : ReachIn s k x → y ∈ nb x → inU y = true → ReachIn s (k+1) y

/-- reachable from `s` along a path none of whose vertices (including `s` and the target)
    lies in `avoid` -/
inductive ReachAvoiding (avoid : List Nat) (s : Nat) : Nat → Prop
  | refl : s ∉ avoid → ReachAvoiding avoid s s
  | step {x y : Nat} : ReachAvoiding avoid s x → y ∈ nb x → inU y = true → y ∉ avoid →
      ReachAvoiding avoid s y

/-- all ids below `n`, neighbour lists stay below `n` -/
def Bounded (n : Nat) : Prop := ∀ x, x < n → ∀ y ∈ nb x, y < n

/-- total number of neighbour entries of the ids below `n` -/
def degSum (n : Nat) : Nat := ((List.range n).map fun v => (nb v).length).sum

end T
end EG
