import EG.Basic
/-
  EG.World — the shared state type.  Function-valued ("column") fields so that
  an update of one field leaves the others syntactically untouched and aliasing
  case splits (`v' = v`, `l' = l`, self-loop …) are closed by `grind`.

  Correspondence with Python (edgegraph):
    links v      = Vertex._links            (ordered)
    unis v       = BaseObject._universes    (ordered)
    members u    = Universe._vertices       (ordered)
    laws u       = Universe._laws
    ends l       = Link._vertices           (ordered; `none` = Python None)
    appliesTo W  = UniverseLaws._applies_to
    rules W      = (edge_whitelist, mixed_links, cycles, multipath, multiverse) as a table index
    cache v      = Vertex.__qa_nb_cache     (insertion-ordered assoc list)
    caching      = Vertex.NEIGHBOR_CACHING
    attrs v      = user attributes (name id ↦ value-class id)
-/
namespace EG

structure World where
  nV : Nat
  nL : Nat
  nW : Nat
  vcls : VId → VCls
  links : VId → List LId
  unis : VId → List VId
  members : VId → List VId
  laws : VId → Option WId
  attrs : VId → List (Nat × Nat)
  lcls : LId → LCls
  ends : LId → List (Option VId)
  appliesTo : WId → Option VId
  rules : WId → Nat          -- the (immutable) rule attributes given at construction
  caching : Bool
  cache : VId → List (Key × List (Option VId))

def World.init : World where
  nV := 0
  nL := 0
  nW := 0
  vcls := fun _ => .V
  links := fun _ => []
  unis := fun _ => []
  members := fun _ => []
  laws := fun _ => none
  attrs := fun _ => []
  lcls := fun _ => .N
  ends := fun _ => []
  appliesTo := fun _ => none
  rules := fun _ => 0
  caching := false
  cache := fun _ => []

instance : Inhabited World := ⟨World.init⟩

/-- `Vertex._qa_neighbors_invalidate` (after the repair: unconditional). -/
def World.invalidate (w : World) (v : VId) : World :=
  { w with cache := upd w.cache v [] }

/-- `Link._invalidate_ends` : every vertex currently listed by `l`. -/
def World.invalidateEnds (w : World) (l : LId) : World :=
  { w with cache := fun x => if some x ∈ w.ends l then [] else w.cache x }

def World.setLinks (w : World) (v : VId) (ls : List LId) : World :=
  { w with links := upd w.links v ls }

def World.setEnds (w : World) (l : LId) (es : List (Option VId)) : World :=
  { w with ends := upd w.ends l es }

def World.setUnis (w : World) (v : VId) (us : List VId) : World :=
  { w with unis := upd w.unis v us }

def World.setMembers (w : World) (u : VId) (ms : List VId) : World :=
  { w with members := upd w.members u ms }

def World.setLaws (w : World) (u : VId) (x : Option WId) : World :=
  { w with laws := upd w.laws u x }

def World.setAppliesTo (w : World) (W : WId) (x : Option VId) : World :=
  { w with appliesTo := upd w.appliesTo W x }

end EG
