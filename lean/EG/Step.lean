import EG.Query
/-
  EG.Step — the operation alphabet of the graph-structure API and the mirror model's
  step function over it.  `M.run` replays a whole history.  This is the function the
  protocol driver executes (Main.lean parses a line into an `Op` and calls `M.step`),
  and the function the history theorems of C01/C02/C03/C05/C19 quantify over.
-/
namespace EG

/-- public construction / mutation / query calls (arguments are ids; `none` = Python None) -/
inductive Op
  | newVertex (c : VCls) (attrs : List (Nat × Nat)) (ls : List LId) (us : List VId)
  | newUniverse (attrs : List (Nat × Nat)) (ms : List VId) (L : Option WId)
  | newLaws (r : Nat)
  | newEdge (c : LCls) (a b : Option VId)
  | rejected (e : Err)                    -- a call that raises before the library touches anything: an argument that is not a
                                          -- Vertex (TypeError), an argument iterable that raises while it is being read (Fault)
  | newNLink (vs : List (Option VId))
  | setV1 (l : LId) (x : Option VId)
  | setV2 (l : LId) (x : Option VId)
  | addToLink (v : VId) (l : LId)
  | removeFromLink (v : VId) (l : LId)
  | addVertex (l : LId) (x : Option VId)
  | unlinkFrom (l : LId) (x : Option VId)
  | linkFromTo (a : VId) (c : LCls) (b : VId) (dontdup : Bool)
  | unlink (a b : VId) (destroy : Bool)
  | uniAdd (u v : VId)
  | uniRemove (u v : VId)
  | vAdd (v u : VId)
  | vRemove (v u : VId)
  | setLaws (u : VId) (L : Option WId)
  | setAppliesTo (L : WId) (u : Option VId)
  | flag (on : Bool)
  | neighbors (v : VId) (dir unk : Nat) (filt : Option Nat) (fault : Option Nat)
  | findLinks (a b : VId) (ds : Bool) (unk : Nat) (filt : Option Nat) (fault : Option Nat)
  deriving Repr

/-- answers -/
inductive Ans
  | ok
  | vertex (v : VId)
  | link (l : LId)
  | laws (L : WId)
  | links (ls : List LId)       -- a set of links (find_links, unlink(destroy=False))
  | nothing                     -- Python None
  | verts (vs : List (Option VId))
  | err (e : Err)
  | bad                         -- ill-formed operation (unknown id …): rejected, world unchanged
  deriving Repr, DecidableEq

def World.vOK (w : World) (v : VId) : Bool := v < w.nV
def World.lOK (w : World) (l : LId) : Bool := l < w.nL
def World.wOK (w : World) (L : WId) : Bool := L < w.nW
def World.isUni (w : World) (v : VId) : Bool := v < w.nV && w.vcls v == .UNI
def World.ovOK (w : World) (x : Option VId) : Bool := match x with | none => true | some v => w.vOK v
def World.twoEnded (w : World) (l : LId) : Bool := w.lOK l && (w.lcls l).kind != .nary

namespace C

def ofOpt (w : World) (r : Option World) : World × Ans :=
  match r with
  | none => (w, .err .recursion)
  | some w' => (w', .ok)

def ofExc (w : World) (r : Except Err World) : World × Ans :=
  match r with
  | .error e => (w, .err e)
  | .ok w' => (w', .ok)

/-- one public call, generic in the primitives; `F` is the filter table -/
def step (P : Prims) (F : Nat → LId → Option VId → Bool) (w : World) : Op → World × Ans
  | .newVertex c attrs ls us =>
    if c == .UNI || !(ls.all w.lOK) || !(us.all w.isUni) then (w, .bad) else
    match newVertex P w c attrs ls us with
    | .error e => (w, .err e)
    | .ok (w', v) => (w', .vertex v)
  | .newUniverse attrs ms L =>
    if !(ms.all w.vOK) || !(match L with | none => true | some x => w.wOK x) then (w, .bad) else
    match newUniverse P w attrs ms L with
    | .error e => (w, .err e)
    | .ok (w', v) => (w', .vertex v)
  | .newLaws r => let (w', L) := M.allocLaws w r; (w', .laws L)
  | .newEdge c a b =>
    if c.kind == .nary || !(w.ovOK a) || !(w.ovOK b) then (w, .bad) else
    match newLink P w c [a, b] with
    | .error e => (w, .err e)
    | .ok (w', l) => (w', .link l)
  | .rejected e => (w, .err e)
  | .newNLink vs =>
    if !(vs.all w.ovOK) then (w, .bad) else
    match newLink P w .N vs with
    | .error e => (w, .err e)
    | .ok (w', l) => (w', .link l)
  | .setV1 l x =>
    if !(w.twoEnded l) || !(w.ovOK x) then (w, .bad) else ofExc w (setEnd P w l 0 x)
  | .setV2 l x =>
    if !(w.twoEnded l) || !(w.ovOK x) then (w, .bad) else ofExc w (setEnd P w l 1 x)
  | .addToLink v l =>
    if !(w.vOK v) || !(w.lOK l) then (w, .bad) else ofOpt w (P.addToLink w v l)
  | .removeFromLink v l =>
    if !(w.vOK v) || !(w.lOK l) then (w, .bad) else ofOpt w (P.removeFromLink w v l)
  | .addVertex l x =>
    if !(w.lOK l) || !(w.ovOK x) then (w, .bad) else ofOpt w (P.addVertex w l x)
  | .unlinkFrom l x =>
    if !(w.lOK l) || !(w.ovOK x) then (w, .bad) else ofOpt w (P.unlinkFrom w l x)
  | .linkFromTo a c b dd =>
    if c.kind == .nary || !(w.vOK a) || !(w.vOK b) then (w, .bad) else
    match linkFromTo P w a c b dd with
    | .error e => (w, .err e)
    | .ok (w', l) => (w', .link l)
  | .unlink a b destroy =>
    if !(w.vOK a) || !(w.vOK b) then (w, .bad) else
    match unlink P w F a b with
    | .error e => (w, .err e)
    | .ok (w', J) => (w', if destroy then .nothing else .links J)
  | .uniAdd u v =>
    if !(w.isUni u) || !(w.vOK v) then (w, .bad) else ofOpt w (P.uniAddVertex w u v)
  | .uniRemove u v =>
    if !(w.isUni u) || !(w.vOK v) then (w, .bad) else
    match P.uniRemoveVertex w u v with
    | none => (w, .err .recursion)
    | some r => ofExc w r
  | .vAdd v u =>
    if !(w.isUni u) || !(w.vOK v) then (w, .bad) else ofOpt w (P.addToUniverse w v u)
  | .vRemove v u =>
    if !(w.isUni u) || !(w.vOK v) then (w, .bad) else
    match P.removeFromUniverse w v u with
    | none => (w, .err .recursion)
    | some r => ofExc w r
  | .setLaws u L =>
    if !(w.isUni u) || !(match L with | none => true | some x => w.wOK x) then (w, .bad) else
    ofOpt w (P.setLaws w u L)
  | .setAppliesTo L u =>
    if !(w.wOK L) || !(match u with | none => true | some x => w.isUni x) then (w, .bad) else
    ofOpt w (P.setAppliesTo w L u)
  | .flag on => ({ w with caching := on }, .ok)
  | .neighbors v dir unk filt fault =>
    if !(w.vOK v) then (w, .bad) else
    match M.neighbors w F v dir unk filt fault with
    | (w', .error e) => (w', .err e)
    | (w', .ok l) => (w', .verts l)
  | .findLinks a b ds unk filt fault =>
    if !(w.vOK a) || !(w.vOK b) then (w, .bad) else
    match M.findLinks w F a b ds unk filt fault with
    | .error e => (w, .err e)
    | .ok J => (w, .links J)

/-- replay a history from a given world; returns the final world and all answers -/
def runFrom (P : Prims) (F : Nat → LId → Option VId → Bool) (w : World) : List Op → World × List Ans
  | [] => (w, [])
  | op :: ops =>
    let r := step P F w op
    let r' := runFrom P F r.1 ops
    (r'.1, r.2 :: r'.2)

end C

/-- the mirror model's step / run -/
def M.step := C.step M.prims
def M.runFrom := C.runFrom M.prims
def M.run (F : Nat → LId → Option VId → Bool) (ops : List Op) := C.runFrom M.prims F World.init ops

/-- the plain reference model's step / run -/
def S.step := C.step S.prims
def S.runFrom := C.runFrom S.prims
def S.run (F : Nat → LId → Option VId → Bool) (ops : List Op) := C.runFrom S.prims F World.init ops

end EG
