import EG.Query
import EG.Trav
/-
  EG.TravOps — the traversal and search ENTRY POINTS on a world (what `bft(uni, start, …)`,
  `bfs(uni, start, attrib, val)` … do), built from
    * the pre-flight checks of traversal/breadthfirst.py and depthfirst.py,
    * the resolution of `neighbors()` into a total neighbour function over an extended id
      space: ids `0 … nV-1` are vertices, `nV` stands for Python `None`, `nV+1+x` for
      "`neighbors(x)` raised" (x ≤ nV),
    * the pure loops of EG.Trav, and
    * cutting the listing at the first pseudo-error id (the generator has yielded exactly the
      prefix before it when the exception propagates).
  `neighborsPure` is used for the resolution: by C05 the memo is transparent.
-/
namespace EG
namespace TO

/-- the resolved neighbour function under direction `dir`, unknown-handling `unk`, ff_via `via` -/
def resolvedNb (w : World) (F : Nat → LId → Option VId → Bool) (dir unk : Nat) (via : Option Nat)
    (x : Nat) : List Nat :=
  if x < w.nV then
    match M.neighborsPure w F x dir unk via with
    | .ok l => l.map fun o => match o with | none => w.nV | some y => y
    | .error _ => [w.nV + 1 + x]
  else if x = w.nV then [w.nV + 1 + w.nV]     -- `neighbors(None)` : AttributeError
  else []

/-- the exception raised by `neighbors(x)` (x ≤ nV), if any -/
def errOf (w : World) (F : Nat → LId → Option VId → Bool) (dir unk : Nat) (via : Option Nat)
    (x : Nat) : Option Err :=
  if x < w.nV then
    match M.neighborsPure w F x dir unk via with
    | .ok _ => none
    | .error e => some e
  else if x = w.nV then some .attribute else none

/-- `uni is None or v in uni.vertices`, extended: `None` only passes when `uni is None`,
    pseudo-error ids always pass -/
def inUni (w : World) (uni : Option VId) (x : Nat) : Bool :=
  if x > w.nV then true
  else match uni with
    | none => true
    | some u => x < w.nV && (w.members u).contains x

/-- enough iterations for every loop on this world -/
def fuelFor (w : World) (nb : Nat → List Nat) : Nat :=
  ((List.range (2 * w.nV + 2)).map fun x => (nb x).length + 1).sum + 2

/-- cut a listing at the first pseudo-error id -/
def cutOutput (w : World) (F : Nat → LId → Option VId → Bool) (dir unk : Nat) (via : Option Nat) :
    List Nat → List Nat × Option Err
  | [] => ([], none)
  | x :: xs =>
    if x > w.nV then ([], some ((errOf w F dir unk via (x - w.nV - 1)).getD .other))
    else
      let r := cutOutput w F dir unk via xs
      (x :: r.1, r.2)

inductive TravKind | bft | dftr | dfti
  deriving DecidableEq

/-- one traversal call: (listed prefix, exception raised after it if any) -/
def traverse (w : World) (F : Nat → LId → Option VId → Bool) (ffr : Nat → Bool) (kind : TravKind)
    (uni : Option VId) (start : VId) (dir unk : Nat) (via : Option Nat) : List Nat × Option Err :=
  let emptyUni := match uni with | some u => (w.members u).isEmpty | none => false
  let startOut := match uni with | some u => !((w.members u).contains start) | none => false
  if emptyUni then (if kind = .bft then ([], none) else ([], some .value))
  else if startOut then ([], some .value)
  else
    let nb := resolvedNb w F dir unk via
    let fuel := fuelFor w nb
    let out := match kind with
      | .bft => T.bft nb (inUni w uni) ffr fuel start
      | .dftr => T.dftRecursive nb (inUni w uni) ffr fuel start
      | .dfti => T.dftIterative nb (inUni w uni) ffr fuel start
    cutOutput w F dir unk via out

inductive SearchKind | bfs | dfsr | dfsi
  deriving DecidableEq

/-- `hasattr(v, attrib) and v[attrib] == val` on a vertex.  Value class 6 stands for a sought value
    whose `__eq__` accepts everything (`unittest.mock.ANY`, a matcher object): it equals every
    attribute value — and still only vertices that HAVE the attribute can match.  Value class 8
    stands for a value that is not equal to itself (`math.nan`, the SAME object stored on the vertex
    and sought): the comparison is `==`, not identity, so it never matches -/
def hasAttrVal (w : World) (attr val : Nat) (x : VId) : Bool :=
  (w.attrs x).any (fun p => p.1 == attr && (val == 6 || (p.2 == val && val != 8)))

/-- … extended: `None` never attrMatch, a pseudo-error id always "attrMatch" (the exception
    propagates at that point) -/
def attrMatch (w : World) (attr val : Nat) (x : Nat) : Bool :=
  if x > w.nV then true else if x = w.nV then false else hasAttrVal w attr val x

/-- one search call (always default settings): `.inl e` = raised, `.inr x?` = returned -/
def search (w : World) (F : Nat → LId → Option VId → Bool) (kind : SearchKind) (uni : Option VId)
    (start : VId) (attr val : Nat) : Err ⊕ Option Nat :=
  let emptyUni := match uni with | some u => (w.members u).isEmpty | none => false
  let startOut := match uni with | some u => !((w.members u).contains start) | none => false
  if emptyUni then (if kind = .bfs then .inr none else .inl .value)
  else if startOut then .inl .value
  else
    let nb := resolvedNb w F 0 2 none
    let fuel := fuelFor w nb
    let res := match kind with
      | .bfs => T.bfs nb (inUni w uni) (attrMatch w attr val) fuel start
      | .dfsr => T.dfsRecursive nb (inUni w uni) (attrMatch w attr val) fuel start
      | .dfsi => T.dfsIterative nb (inUni w uni) (attrMatch w attr val) fuel start
    match res with
    | none => .inr none
    | some x =>
      if x > w.nV then .inl ((errOf w F 0 2 none (x - w.nV - 1)).getD .other) else .inr (some x)

end TO
end EG
