import EG.Single
/-
  EG.SingleCfg — the configuration of the semi-singleton classes of the harness pool, and the
  finite decision table that ties its KEY function to the real metaclasses:
  which of the pool's argument tuples (harness/adapter.py: SARGS) name the SAME mapping.
  The table EG/Generated/SingleKeyTable.lean is regenerated from the real code on every run of
  the C17 check (construct with tuple a, construct with tuple b, on a fresh class: same object?)
  and EG/Props/C17Table.lean re-proves, by kernel evaluation, that it is the model's key relation.
-/
namespace EG

/-- fixed configuration of the semi-singleton classes used by the harness
    (harness/adapter.py builds the same): classes 0,1,2 share metaclass 0 (1 is a subclass of 0),
    class 3 has its own metaclass 1, classes 4,5 (5 a subclass of 4) use metaclass 2 with a
    custom hash function -/
def ssCfg : Sg.SSCfg where
  mapOf := fun c => if c ≤ 2 || c = 6 then 0 else if c = 3 then 1 else 2     -- class 6: a metaclass DERIVED from metaclass 0
  keyOf := fun m a =>
    if m = 2 then [0, 1, 1, 1, 1, 1, 2, 2, 2, 1, 1, 1, 1, 2, 2].getD a 9      -- len(args) + len(kwargs)
    else [0, 1, 1, 1, 2, 3, 4, 4, 5, 6, 7, 8, 8, 9, 10].getD a 11            -- ==-class of (args, json(kwargs))


namespace Tab

structure KeyRow where
  mc : Nat           -- 0: default hash function; 2: the custom one of the pool (len(args) + len(kwargs))
  a : Nat
  b : Nat
  same : Bool        -- constructing with tuple a and then with tuple b returned the same object
  deriving DecidableEq, Repr

def keyRowOk (r : KeyRow) : Bool := r.same == (ssCfg.keyOf r.mc r.a == ssCfg.keyOf r.mc r.b)

end Tab
end EG
