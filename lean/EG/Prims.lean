import EG.StructSpec
/-
  EG.Prims — the primitive mutators as a record, so that every compound operation
  (constructors, end assignment, explicit.link_from_to / unlink, the step function) is
  written ONCE, generically, and instantiated with
    * `M.prims` : the mirror model (mutually recursive, fuelled), and
    * `S.prims` : the plain reference model (closed forms).
  `EG.Proofs.*` show the two records agree on every world satisfying the invariants,
  hence `M.step = S.step` and `M.run = S.run` (C03).
-/
namespace EG

structure Prims where
  addToLink : World → VId → LId → Option World
  addVertex : World → LId → Option VId → Option World
  removeFromLink : World → VId → LId → Option World
  unlinkFrom : World → LId → Option VId → Option World
  replaceEnd : World → LId → Nat → Option VId → Option World
  uniAddVertex : World → VId → VId → Option World
  addToUniverse : World → VId → VId → Option World
  uniRemoveVertex : World → VId → VId → Option (Except Err World)
  removeFromUniverse : World → VId → VId → Option (Except Err World)
  setLaws : World → VId → Option WId → Option World
  setAppliesTo : World → WId → Option VId → Option World

/-- fuel handed to every primitive by the mirror model (far above the constants shown
    sufficient in `EG.Proofs.StructRefine` / `UniRefine`) -/
def M.fuel : Nat := 8

def M.prims : Prims where
  addToLink := M.addToLink M.fuel
  addVertex := M.addVertex M.fuel
  removeFromLink := M.removeFromLink M.fuel
  unlinkFrom := M.unlinkFrom M.fuel
  replaceEnd := M.replaceEnd M.fuel
  uniAddVertex := M.uniAddVertex M.fuel
  addToUniverse := M.addToUniverse M.fuel
  uniRemoveVertex := M.uniRemoveVertex M.fuel
  removeFromUniverse := M.removeFromUniverse M.fuel
  setLaws := M.setLaws M.fuel
  setAppliesTo := M.setAppliesTo M.fuel

def S.prims : Prims where
  addToLink := fun w v l => some (S.addToLink w v l)
  addVertex := fun w l x => some (S.addVertex w l x)
  removeFromLink := fun w v l => some (S.removeFromLink w v l)
  unlinkFrom := fun w l x => some (S.unlinkFrom w l x)
  replaceEnd := fun w l i x => some (S.replaceEnd w l i x)
  uniAddVertex := fun w u v => some (S.uniAddVertex w u v)
  addToUniverse := fun w v u => some (S.addToUniverse w v u)
  uniRemoveVertex := fun w u v =>
    some (if v ∈ w.members u then .ok (S.uniRemoveVertex w u v) else .error .value)
  removeFromUniverse := fun w v u =>
    some (if u ∈ w.unis v then .ok (S.removeFromUniverse w v u) else .error .value)
  setLaws := fun w u L => some (S.setLaws w u L)
  setAppliesTo := fun w L u => some (S.setAppliesTo w L u)

/-! ### compound operations, generic in the primitives -/
namespace C
variable (P : Prims)

/-- `e.v1 = new` (idx 0) / `e.v2 = new` (idx 1) on a two-ended link: evaluates
    `self.v2` first (IndexError when an end is missing, nothing touched). -/
def setEnd (w : World) (l : LId) (idx : Nat) (new : Option VId) : Except Err World :=
  if (w.ends l).length < 2 then .error .index else
    match P.replaceEnd w l idx new with
    | none => .error .recursion
    | some w => .ok w

/-- `Link.__init__(vertices=vs)` after allocation: `for vert in vertices: self.add_vertex(vert)` -/
def addVertices (w : World) (l : LId) : List (Option VId) → Option World
  | [] => some w
  | x :: xs => match P.addVertex w l x with
    | none => none
    | some w => addVertices w l xs

/-- `cls(v1, v2)` for a two-ended class, `NLink(vertices=vs)` for the n-ary class.
    (Ill-typed arguments are rejected by the caller before anything is touched.) -/
def newLink (w : World) (c : LCls) (vs : List (Option VId)) : Except Err (World × LId) :=
  let (w, l) := M.allocLink w c
  match addVertices P w l vs with
  | none => .error .recursion
  | some w => .ok (w, l)

def addToLinks (w : World) (v : VId) : List LId → Option World
  | [] => some w
  | l :: ls => match P.addToLink w v l with
    | none => none
    | some w => addToLinks w v ls

def uniAddVertices (w : World) (u : VId) : List VId → Option World
  | [] => some w
  | v :: vs => match P.uniAddVertex w u v with
    | none => none
    | some w => uniAddVertices w u vs

/-- `for uni in self.universes: uni.add_vertex(self)` -/
def joinUniverses (w : World) (v : VId) : List VId → Option World
  | [] => some w
  | u :: us => match P.uniAddVertex w u v with
    | none => none
    | some w => joinUniverses w v us

/-- `cls(links=ls, universes=us, attributes=attrs)` for a non-universe vertex class -/
def newVertex (w : World) (c : VCls) (attrs : List (Nat × Nat))
    (ls : List LId) (us : List VId) : Except Err (World × VId) :=
  let (w, v) := M.allocVertex w c attrs us
  match addToLinks P w v ls with
  | none => .error .recursion
  | some w =>
    match joinUniverses P w v (w.unis v) with
    | none => .error .recursion
    | some w => .ok ((w.invalidate v), v)   -- `self.__qa_nb_cache = {}`

/-- `Universe(vertices=vs, laws=L?)` -/
def newUniverse (w : World) (attrs : List (Nat × Nat)) (vs : List VId)
    (L : Option WId) : Except Err (World × VId) :=
  let (w, u) := M.allocVertex w .UNI attrs []
  let w := w.invalidate u
  let (w, L) := match L with
    | some L => (w, L)
    | none => M.allocLaws w
  match P.setLaws w u (some L) with
  | none => .error .recursion
  | some w =>
    match uniAddVertices P w u vs with
    | none => .error .recursion
    | some w => .ok (w, u)

end C
end EG
