import EG.TravOps
import EG.Render
/-
  EG.TravState — the traversal and search entry points WITH their effect on the world.

  `EG.Trav` / `EG.TravOps` describe what the loops of traversal/breadthfirst.py and
  traversal/depthfirst.py list, as pure functions of a resolved neighbour function.  The real
  loops obtain every neighbour list by CALLING `helpers.neighbors(...)`, and with
  `Vertex.NEIGHBOR_CACHING` on each such call reads and writes the memo of the vertex it is
  asked about.  This file mirrors exactly that: the same six loops, threading a state through
  every `neighbors()` call, in the order in which the code makes those calls.

    nbS s x = (state after `neighbors(x)`, the list it returned)

  Instantiated (`nbW`) with state = (world, "an exception is propagating"):
    * a call goes through `M.neighbors` — memo hit, or recomputation + memo insertion;
    * once a call has raised, the real generator is dead: nothing else is called, so the world
      no longer changes (the pure loops of EG.Trav keep running after the pseudo-error id only
      to produce a listing that `cutOutput` cuts at that id; the flag makes the remaining
      "calls" read-only so that the modelled world stops where the real one does).

  `EG.Proofs.TravStateLemmas` proves that these are simulations of the pure loops under any
  state invariant that makes `nbS` answer like `nb`; `EG.Props.C05Trav` / `C13Trav` draw the
  conclusions (transparency of the memo for traversals and searches, read-only-ness).
  The driver (Main.lean) executes THESE functions, so memo entries written by traversals are
  part of the world the real code is compared with.
-/
namespace EG
namespace TS

section generic

variable {σ : Type} (nbS : σ → Nat → σ × List Nat) (inU : Nat → Bool) (ffr : Nat → Bool)

/-- the `while queue` loop of `ibft` -/
def bftLoop : Nat → σ → List Nat → List Nat → List Nat → σ × List Nat
  | 0, s, _, _, out => (s, out)
  | _+1, s, _, [], out => (s, out)
  | f+1, s, vis, u :: q, out =>
    let r := nbS s u
    let t := T.bftScan inU ffr vis q out r.2
    bftLoop f r.1 t.1 t.2.1 t.2.2

def bft (fuel : Nat) (s : σ) (start : Nat) : σ × List Nat :=
  bftLoop nbS inU ffr fuel s [start] [start] (if ffr start then [start] else [])

/-- `_dft_recur(v)`; state = (σ, visited, yielded) -/
def dftRec : Nat → σ × List Nat × List Nat → Nat → σ × List Nat × List Nat
  | 0, s, _ => s
  | f+1, s, v =>
    let r := nbS s.1 v
    r.2.foldl
      (fun s w => if !inU w then s else if w ∈ s.2.1 then s else dftRec f s w)
      (r.1, s.2.1 ++ [v], if ffr v then s.2.2 ++ [v] else s.2.2)

def dftRecursive (fuel : Nat) (s : σ) (start : Nat) : σ × List Nat :=
  let r := dftRec nbS inU ffr fuel (s, [], []) start
  (r.1, r.2.2)

/-- the `while len(stack) != 0` loop of `idft_iterative` -/
def dftIterLoop : Nat → σ → List Nat → List Nat → List Nat → σ × List Nat
  | 0, s, _, _, out => (s, out)
  | _+1, s, [], _, out => (s, out)
  | f+1, s, v :: st, disc, out =>
    if v ∈ disc then dftIterLoop f s st disc out
    else if !inU v then dftIterLoop f s st disc out
    else
      let r := nbS s v
      dftIterLoop f r.1 (r.2.reverse ++ st) (disc ++ [v]) (if ffr v then out ++ [v] else out)

def dftIterative (fuel : Nat) (s : σ) (start : Nat) : σ × List Nat :=
  dftIterLoop nbS inU ffr fuel s [start] [] []

variable (p : Nat → Bool)

def bfsLoop : Nat → σ → List Nat → List Nat → σ × Option Nat
  | 0, s, _, _ => (s, none)
  | _+1, s, _, [] => (s, none)
  | f+1, s, vis, u :: q =>
    let r := nbS s u
    match T.bfsScan inU p vis q r.2 with
    | .inl x => (r.1, some x)
    | .inr t => bfsLoop f r.1 t.1 t.2

def bfs (fuel : Nat) (s : σ) (start : Nat) : σ × Option Nat :=
  if p start then (s, some start) else bfsLoop nbS inU p fuel s [start] [start]

/-- `_dfs_recur(v)`; state = ((σ, visited), result) -/
def dfsRec : Nat → σ × List Nat → Nat → (σ × List Nat) × Option Nat
  | 0, s, _ => (s, none)
  | f+1, s, v =>
    let r := nbS s.1 v
    r.2.foldl
      (fun a w =>
        match a.2 with
        | some _ => a
        | none =>
          if !inU w then a else if w ∈ a.1.2 then a
          else if p w then (a.1, some w)
          else dfsRec f a.1 w)
      ((r.1, s.2 ++ [v]), none)

def dfsRecursive (fuel : Nat) (s : σ) (start : Nat) : σ × Option Nat :=
  if p start then (s, some start) else
    let r := dfsRec nbS inU p fuel (s, []) start
    (r.1.1, r.2)

def dfsIterLoop : Nat → σ → List Nat → List Nat → σ × Option Nat
  | 0, s, _, _ => (s, none)
  | _+1, s, [], _ => (s, none)
  | f+1, s, v :: st, disc =>
    if !inU v then dfsIterLoop f s st disc
    else if v ∈ disc then dfsIterLoop f s st disc
    else if p v then (s, some v)
    else
      let r := nbS s v
      dfsIterLoop f r.1 (r.2.reverse ++ st) (disc ++ [v])

def dfsIterative (fuel : Nat) (s : σ) (start : Nat) : σ × Option Nat :=
  dfsIterLoop nbS inU p fuel s [start] []

end generic

/-- one `helpers.neighbors(x, dir, unk, via)` call made by a traversal, on (world, raised) -/
def nbW (F : Nat → LId → Option VId → Bool) (dir unk : Nat) (via : Option Nat)
    (s : World × Bool) (x : Nat) : (World × Bool) × List Nat :=
  if s.2 then (s, TO.resolvedNb s.1 F dir unk via x)
  else if x < s.1.nV then
    let r := M.neighbors s.1 F x dir unk via none
    match r.2 with
    | .ok l => ((r.1, false), l.map fun o => match o with | none => s.1.nV | some y => y)
    | .error _ => ((r.1, true), [s.1.nV + 1 + x])
  else if x = s.1.nV then ((s.1, true), [s.1.nV + 1 + s.1.nV])
  else (s, [])

/-- one traversal call: the world afterwards, the listed prefix, the exception raised after it -/
def traverse (w : World) (F : Nat → LId → Option VId → Bool) (ffr : Nat → Bool) (kind : TO.TravKind)
    (uni : Option VId) (start : VId) (dir unk : Nat) (via : Option Nat) :
    World × (List Nat × Option Err) :=
  let emptyUni := match uni with | some u => (w.members u).isEmpty | none => false
  let startOut := match uni with | some u => !((w.members u).contains start) | none => false
  if emptyUni then (w, if kind = .bft then ([], none) else ([], some .value))
  else if startOut then (w, ([], some .value))
  else
    let fuel := TO.fuelFor w (TO.resolvedNb w F dir unk via)
    let r := match kind with
      | .bft => bft (nbW F dir unk via) (TO.inUni w uni) ffr fuel (w, false) start
      | .dftr => dftRecursive (nbW F dir unk via) (TO.inUni w uni) ffr fuel (w, false) start
      | .dfti => dftIterative (nbW F dir unk via) (TO.inUni w uni) ffr fuel (w, false) start
    (r.1.1, TO.cutOutput w F dir unk via r.2)

/-- one search call: the world afterwards, and `.inl e` = raised / `.inr x?` = returned -/
def search (w : World) (F : Nat → LId → Option VId → Bool) (kind : TO.SearchKind) (uni : Option VId)
    (start : VId) (attr val : Nat) : World × (Err ⊕ Option Nat) :=
  let emptyUni := match uni with | some u => (w.members u).isEmpty | none => false
  let startOut := match uni with | some u => !((w.members u).contains start) | none => false
  if emptyUni then (w, if kind = .bfs then .inr none else .inl .value)
  else if startOut then (w, .inl .value)
  else
    let fuel := TO.fuelFor w (TO.resolvedNb w F 0 2 none)
    let r := match kind with
      | .bfs => bfs (nbW F 0 2 none) (TO.inUni w uni) (TO.attrMatch w attr val) fuel (w, false) start
      | .dfsr => dfsRecursive (nbW F 0 2 none) (TO.inUni w uni) (TO.attrMatch w attr val) fuel (w, false) start
      | .dfsi => dfsIterative (nbW F 0 2 none) (TO.inUni w uni) (TO.attrMatch w attr val) fuel (w, false) start
    (r.1.1, match r.2 with
      | none => .inr none
      | some x =>
        if x > w.nV then .inl ((TO.errOf w F 0 2 none (x - w.nV - 1)).getD .other) else .inr (some x))

end TS
end EG

/-! ### `basic_render` with its memo traffic

  `basic_render` obtains the neighbours of every member by calling `helpers.neighbors(vert)`
  (default settings), one member after the other; with caching on each call reads / writes the
  memo of that member.  When a call raises, the render stops there. -/
namespace EG
namespace R

def renderLinesS (F : Nat → LId → Option VId → Bool) (rf : RFun) (sort : Option (Option VId → Nat)) :
    World → List VId → World × Except Err (List String)
  | w, [] => (w, .ok [])
  | w, v :: vs =>
    let r := M.neighbors w F v 0 2 none none
    match r.2 with
    | .error e => (r.1, .error e)
    | .ok nbs =>
      let nbs := match sort with | some key => sortBy key nbs | none => nbs
      let r' := renderLinesS F rf sort r.1 vs
      match r'.2 with
      | .error e => (r'.1, .error e)
      | .ok rest => (r'.1, .ok (line rf v nbs :: rest))

/-- `basic_render(uni=u, rfunc, sort)` : the world afterwards and the answer -/
def basicRenderS (w : World) (F : Nat → LId → Option VId → Bool) (u : VId) (rf : RFun)
    (sort : Option (Option VId → Nat)) : World × Except Err (Option String) :=
  if (w.members u).isEmpty then (w, .ok none) else
  let verts := match sort with
    | some key => (sortBy key ((w.members u).map some)).filterMap id
    | none => w.members u
  let r := renderLinesS F rf sort w verts
  match r.2 with
  | .error e => (r.1, .error e)
  | .ok ls => (r.1, .ok (some ("\n".intercalate ls)))

end R
end EG
