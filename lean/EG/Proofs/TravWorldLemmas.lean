import EG.Props.C06World
import EG.Props.C07
/-
  EG.Proofs.TravWorldLemmas — helper lemmas for C07 at the level of the world
  (EG.Props.C07World):
    1. the listing specs only consult `nb` / `inU` on ids below a bound closed under `nb`,
    2. partial correctness of the three loops for ANY fuel and ANY graph (no repetition, start
       first, only reachable vertices) — needed for the listing that precedes an exception,
    3. the three entry points on a total world in the canonical orders,
    4. `traverse` only reads `nV`, `links`, `ends`, `lcls`, `members` of the world,
    5. the prefix yielded before an exception.
-/
set_option linter.unusedSimpArgs false
set_option linter.unusedVariables false
namespace EG
namespace T

/-! ## 1. congruence below a closed bound -/

section congr

variable {nb nb' : Nat → List Nat} {inU inU' : Nat → Bool}

theorem bftChildren_sub (ws : List Nat) : ∀ (listed : List Nat),
    ∀ x ∈ bftChildren inU listed ws, x ∈ ws := by
  induction ws with
  | nil => intro listed x hx; simp [bftChildren] at hx
  | cons w ws ih =>
    intro listed x hx
    simp only [bftChildren] at hx
    split at hx
    · simp only [List.mem_cons] at hx
      rcases hx with rfl | hx
      · simp
      · have := ih _ x hx; simp [this]
    · have := ih _ x hx; simp [this]

theorem bftChildren_congr {n : Nat} (hU : ∀ x, x < n → inU x = inU' x) (ws : List Nat) :
    (∀ w ∈ ws, w < n) → ∀ listed : List Nat,
      bftChildren inU listed ws = bftChildren inU' listed ws := by
  induction ws with
  | nil => intros; rfl
  | cons w ws ih =>
    intro hws listed
    have hw := hU w (hws w (by simp))
    have ih' := ih (fun x hx => hws x (by simp [hx]))
    simp only [bftChildren, hw, ih']

theorem bftSpec_congr {n : Nat} (hb : Bounded nb n) (hnb : ∀ x, x < n → nb x = nb' x)
    (hU : ∀ x, x < n → inU x = inU' x) : ∀ (f : Nat) (acc : List Nat) (i : Nat),
    (∀ x ∈ acc, x < n) → bftSpec nb inU f acc i = bftSpec nb' inU' f acc i := by
  intro f
  induction f with
  | zero => intros; simp [bftSpec]
  | succ f ih =>
    intro acc i hacc
    simp only [bftSpec]
    cases h : acc[i]? with
    | none => rfl
    | some u =>
      have hu : u < n := hacc u (List.mem_of_getElem? h)
      simp only []
      rw [← hnb u hu, ← bftChildren_congr hU (nb u) (hb u hu) acc]
      apply ih
      intro x hx
      simp only [List.mem_append] at hx
      rcases hx with hx | hx
      · exact hacc x hx
      · exact hb u hu x (bftChildren_sub _ _ x hx)

theorem dftRec_congr_lt {n : Nat} (ffr : Nat → Bool) (hb : Bounded nb n)
    (hnb : ∀ x, x < n → nb x = nb' x) (hU : ∀ x, x < n → inU x = inU' x) :
    ∀ (f : Nat) (st : List Nat × List Nat) (v : Nat), v < n →
      dftRec nb inU ffr f st v = dftRec nb' inU' ffr f st v := by
  intro f
  induction f with
  | zero => intros; simp [dftRec_zero]
  | succ f ih =>
    intro st v hv
    rw [dftRec_succ, dftRec_succ, ← hnb v hv]
    have key : ∀ (ws : List Nat) (acc : List Nat × List Nat), (∀ w ∈ ws, w < n) →
        ws.foldl (dftStep nb inU ffr f) acc = ws.foldl (dftStep nb' inU' ffr f) acc := by
      intro ws
      induction ws with
      | nil => intros; rfl
      | cons w ws ihw =>
        intro acc hws
        have hw := hws w (by simp)
        simp only [List.foldl_cons]
        have e : dftStep nb inU ffr f acc w = dftStep nb' inU' ffr f acc w := by
          simp only [dftStep, hU w hw, ih acc w hw]
        rw [← e]
        exact ihw _ (fun x hx => hws x (by simp [hx]))
    exact key (nb v) _ (hb v hv)

theorem Bounded.reverse {n : Nat} (hb : Bounded nb n) : Bounded (fun v => (nb v).reverse) n := by
  intro x hx y hy
  exact hb x hx y (by simpa using hy)

end congr

/-! ## 2. partial correctness for any fuel, any graph -/

section partialc

variable {nb : Nat → List Nat} {inU : Nat → Bool}

theorem nodup_snoc {l : List Nat} {v : Nat} (h : l.Nodup) (hv : v ∉ l) : (l ++ [v]).Nodup := by
  rw [List.nodup_append]
  refine ⟨h, by simp, ?_⟩
  intro a ha b hb
  simp only [List.mem_singleton] at hb
  subst hb
  intro e; subst e; exact hv ha

theorem bftLoop_partial {s : Nat} : ∀ (f : Nat) (vis q : List Nat), vis.Nodup →
    (∀ x ∈ q, x ∈ vis) → BInv2 nb inU s vis q →
    (bftLoop nb inU (fun _ => true) f vis q vis).Nodup ∧
    (bftLoop nb inU (fun _ => true) f vis q vis).head? = some s ∧
    ∀ x ∈ bftLoop nb inU (fun _ => true) f vis q vis, Reach nb inU s x := by
  intro f
  induction f with
  | zero => intro vis q h1 _ h2; simpa [bftLoop] using ⟨h1, h2.head, h2.reach⟩
  | succ f ih =>
    intro vis q h1 hq h2
    cases q with
    | nil => simpa [bftLoop] using ⟨h1, h2.head, h2.reach⟩
    | cons u q =>
      simp only [bftLoop, bftScan_eq, List.filter_true]
      obtain ⟨a, b, c⟩ := bftNew_spec inU (nb u) vis
      refine ih _ _ ?_ ?_ (h2.step (hq u (by simp)))
      · rw [List.nodup_append]
        refine ⟨h1, b, ?_⟩
        intro x hx y hy e
        subst e
        exact (a x hy).2.2 hx
      · intro x hx
        simp only [List.mem_append] at hx ⊢
        rcases hx with hx | hx
        · exact Or.inl (hq x (by simp [hx]))
        · exact Or.inr hx

theorem bft_partial (f s : Nat) :
    (bft nb inU (fun _ => true) f s).Nodup ∧
    (bft nb inU (fun _ => true) f s).head? = some s ∧
    ∀ x ∈ bft nb inU (fun _ => true) f s, Reach nb inU s x := by
  have hi2 : BInv2 nb inU s [s] [s] :=
    ⟨by simp, by intro x hx; simp at hx; subst hx; exact Reach.refl, by simp⟩
  have := bftLoop_partial (nb := nb) (inU := inU) f [s] [s] (by simp) (by simp) hi2
  simpa [bft] using this

theorem dftIterLoop_partial {s : Nat} (hsU : inU s = true) : ∀ (f : Nat) (st disc : List Nat),
    disc.Nodup → IInv2 nb inU s st disc →
    (dftIterLoop nb inU (fun _ => true) f st disc disc).Nodup ∧
    (dftIterLoop nb inU (fun _ => true) f st disc disc ≠ [] →
      (dftIterLoop nb inU (fun _ => true) f st disc disc).head? = some s) ∧
    ∀ x ∈ dftIterLoop nb inU (fun _ => true) f st disc disc, Reach nb inU s x := by
  have base : ∀ (st disc : List Nat), disc.Nodup → IInv2 nb inU s st disc →
      disc.Nodup ∧ (disc ≠ [] → disc.head? = some s) ∧ ∀ x ∈ disc, Reach nb inU s x := by
    intro st disc h1 h2
    refine ⟨h1, fun hne => ?_, h2.reach⟩
    rcases h2.head with ⟨e, _⟩ | e
    · exact absurd e hne
    · exact e
  intro f
  induction f with
  | zero => intro st disc h1 h2; simpa [dftIterLoop] using base st disc h1 h2
  | succ f ih =>
    intro st disc h1 h2
    cases st with
    | nil => simpa [dftIterLoop_nil] using base [] disc h1 h2
    | cons v st =>
      by_cases c1 : v ∈ disc
      · rw [dftIterLoop_skip _ _ _ _ _ _ _ _ (Or.inl c1)]
        exact ih _ _ h1 (h2.skip hsU (Or.inl c1))
      · by_cases c2 : inU v = true
        · rw [dftIterLoop_push _ _ _ _ _ _ _ _ c1 c2]
          simp only [if_true]
          exact ih _ _ (nodup_snoc h1 c1) (h2.push c2)
        · have c2' : inU v = false := by simpa using c2
          rw [dftIterLoop_skip _ _ _ _ _ _ _ _ (Or.inr c2')]
          exact ih _ _ h1 (h2.skip hsU (Or.inr c2'))

theorem dftIterative_partial (f s : Nat) (hs : inU s = true) :
    (dftIterative nb inU (fun _ => true) f s).Nodup ∧
    (dftIterative nb inU (fun _ => true) f s ≠ [] →
      (dftIterative nb inU (fun _ => true) f s).head? = some s) ∧
    ∀ x ∈ dftIterative nb inU (fun _ => true) f s, Reach nb inU s x := by
  have hi2 : IInv2 nb inU s [s] [] :=
    ⟨by intro x hx _; simp at hx; subst hx; exact Reach.refl, by simp, by simp, Or.inl ⟨rfl, rfl⟩⟩
  have := dftIterLoop_partial (nb := nb) (inU := inU) hs f [s] [] (by simp) hi2
  simpa [dftIterative] using this

theorem dftRec_nodup (ffr : Nat → Bool) : ∀ (f : Nat) (st : List Nat × List Nat) (v : Nat),
    st.1.Nodup → v ∉ st.1 → (dftRec nb inU ffr f st v).1.Nodup := by
  intro f
  induction f with
  | zero => intro st v h _; simpa [dftRec_zero] using h
  | succ f ih =>
    intro st v hnd hv
    rw [dftRec_succ]
    have key : ∀ (ws : List Nat) (acc : List Nat × List Nat), acc.1.Nodup →
        (ws.foldl (dftStep nb inU ffr f) acc).1.Nodup := by
      intro ws
      induction ws with
      | nil => intro acc h; simpa using h
      | cons w ws ihw =>
        intro acc hacc
        simp only [List.foldl_cons]
        apply ihw
        by_cases c1 : inU w = true
        · by_cases c2 : w ∈ acc.1
          · simpa [dftStep, c1, c2] using hacc
          · have e : dftStep nb inU ffr f acc w = dftRec nb inU ffr f acc w := by
              simp [dftStep, c1, c2]
            rw [e]; exact ih acc w hacc c2
        · simpa [dftStep, c1] using hacc
    exact key (nb v) _ (nodup_snoc hnd hv)

theorem dftFold_ext (ffr : Nat → Bool) (f : Nat) : ∀ (ws : List Nat) (acc : List Nat × List Nat),
    ∃ more, (ws.foldl (dftStep nb inU ffr f) acc).1 = acc.1 ++ more := by
  intro ws
  induction ws with
  | nil => intro acc; exact ⟨[], by simp⟩
  | cons w ws ihw =>
    intro acc
    simp only [List.foldl_cons]
    obtain ⟨m2, e2⟩ := ihw (dftStep nb inU ffr f acc w)
    have h1 : ∃ m1, (dftStep nb inU ffr f acc w).1 = acc.1 ++ m1 := by
      by_cases c1 : inU w = true
      · by_cases c2 : w ∈ acc.1
        · exact ⟨[], by simp [dftStep, c1, c2]⟩
        · obtain ⟨m, hm⟩ := dftRec_shape nb inU f acc.1 w
          refine ⟨m, ?_⟩
          have e : dftStep nb inU ffr f acc w = dftRec nb inU ffr f acc w := by
            simp [dftStep, c1, c2]
          rw [e, show acc = (acc.1, acc.2) from rfl, hm ffr acc.2]
      · exact ⟨[], by simp [dftStep, c1]⟩
    obtain ⟨m1, e1⟩ := h1
    exact ⟨m1 ++ m2, by rw [e2, e1, List.append_assoc]⟩

theorem reach_of_reachAvoiding {avoid : List Nat} {s y : Nat}
    (h : ReachAvoiding nb inU avoid s y) : Reach nb inU s y := by
  induction h with
  | refl _ => exact .refl
  | step _ hy hu _ ih => exact .step ih hy hu

theorem dftRecursive_partial (f s : Nat) :
    (dftRecursive nb inU (fun _ => true) f s).Nodup ∧
    (dftRecursive nb inU (fun _ => true) f s ≠ [] →
      (dftRecursive nb inU (fun _ => true) f s).head? = some s) ∧
    ∀ x ∈ dftRecursive nb inU (fun _ => true) f s, Reach nb inU s x := by
  obtain ⟨m, hm⟩ := dftRec_shape nb inU f [] s
  have hm0 : dftRec nb inU (fun _ => true) f ([], []) s = (m, m) := by
    simpa using hm (fun _ => true) []
  have hout : dftRecursive nb inU (fun _ => true) f s = m := by simp [dftRecursive, hm0]
  have hnd := dftRec_nodup (nb := nb) (inU := inU) (fun _ => true) f ([], []) s (by simp) (by simp)
  have hsound := dftRec_sound (nb := nb) (inU := inU) (fun _ => true) f ([], []) s (by simp)
  rw [hm0] at hnd hsound
  rw [hout]
  refine ⟨hnd, ?_, ?_⟩
  · intro hne
    cases f with
    | zero => rw [dftRec_zero] at hm0; simp at hm0; exact absurd hm0 hne
    | succ f =>
      rw [dftRec_succ] at hm0
      obtain ⟨mo, e⟩ := dftFold_ext (nb := nb) (inU := inU) (fun _ => true) f (nb s)
        (([] : List Nat) ++ [s], if (fun _ => true) s = true then ([] : List Nat) ++ [s] else [])
      rw [hm0] at e
      simp only [List.nil_append] at e
      rw [e]; simp
  · intro x hx
    rcases hsound x hx with h | h
    · simp at h
    · exact reach_of_reachAvoiding h

end partialc

end T

namespace TO

variable (w : World) (F : Nat → LId → Option VId → Bool)

/-! ## 3. the entry points on a total world, in the canonical orders -/

theorem pure_bft_order (uni : Option VId) (start : VId) (dir unk : Nat) (via : Option Nat)
    (ht : TotalNb w F dir unk via) (hs : start < w.nV) (inU' : Nat → Bool)
    (hU : ∀ x, x < w.nV → inUni w uni x = inU' x) :
    pureOut w F (fun _ => true) .bft uni start dir unk via =
      T.bftSpec (nbOf w F dir unk via) inU' (w.nV + 1) [start] 0 := by
  have hb := resolvedNb_bounded w F ht
  show T.bft _ _ _ (fuelFor w _) start = _
  rw [T.C06_bft_terminates _ _ _ w.nV hb start hs _ (fuelFor_ge' w _),
    T.C07_bft_listing_order _ _ w.nV hb start hs _ (Nat.le_refl _)]
  exact T.bftSpec_congr hb (fun x hx => resolvedNb_eq_nbOf w F ht hx) hU _ _ _
    (by simpa using hs)

theorem pure_dftr_order (uni : Option VId) (start : VId) (dir unk : Nat) (via : Option Nat)
    (ht : TotalNb w F dir unk via) (hs : start < w.nV) (inU' : Nat → Bool)
    (hU : ∀ x, x < w.nV → inUni w uni x = inU' x) :
    pureOut w F (fun _ => true) .dftr uni start dir unk via =
      T.dftRecursive (nbOf w F dir unk via) inU' (fun _ => true) (w.nV + 1) start := by
  have hb := resolvedNb_bounded w F ht
  show T.dftRecursive _ _ _ (fuelFor w _) start = _
  rw [T.C06_dftRecursive_terminates _ _ _ w.nV hb start hs _ (fuelFor_ge' w _)]
  unfold T.dftRecursive
  rw [T.dftRec_congr_lt (fun _ => true) hb (fun x hx => resolvedNb_eq_nbOf w F ht hx) hU _ _ _ hs]

theorem pure_dfti_order (uni : Option VId) (start : VId) (dir unk : Nat) (via : Option Nat)
    (ht : TotalNb w F dir unk via) (hs : start < w.nV) (hu : InMem w uni start)
    (inU' : Nat → Bool) (hU : ∀ x, x < w.nV → inUni w uni x = inU' x) :
    pureOut w F (fun _ => true) .dfti uni start dir unk via =
      T.dftRecursive (fun v => (nbOf w F dir unk via v).reverse) inU' (fun _ => true)
        (w.nV + 1) start := by
  have hb := resolvedNb_bounded w F ht
  have hsU : inUni w uni start = true := (inUni_lt w uni hs).2 hu
  show T.dftIterative _ _ _ (fuelFor w _) start = _
  rw [T.C06_dftIterative_terminates _ _ _ w.nV hb start hs _ (fuelFor_ge w _),
    T.C07_dftIter_eq_dftRec_reversed _ _ w.nV hb start hs hsU]
  unfold T.dftRecursive
  rw [T.dftRec_congr_lt (nb' := fun v => (nbOf w F dir unk via v).reverse) (fun _ => true)
    (T.Bounded.reverse hb)
    (fun x hx => by simp only [resolvedNb_eq_nbOf w F ht hx]) hU _ _ _ hs]

/-! ## 4. `traverse` reads only `nV`, `links`, `ends`, `lcls`, `members` -/

section fields

variable (w' : World)

theorem other_congr (he : w.ends = w'.ends) (hc : w.lcls = w'.lcls) (l : LId) (v : VId) :
    M.other w l v = M.other w' l v := by
  simp only [M.other, he, hc]

theorem nbLoop_congr (he : w.ends = w'.ends) (hc : w.lcls = w'.lcls) (v : VId) (dir unk : Nat)
    (filt fault : Option Nat) : ∀ (ls : List LId) (acc : List (Option VId)) (cnt : Nat),
    M.nbLoop w F v dir unk filt fault ls acc cnt = M.nbLoop w' F v dir unk filt fault ls acc cnt := by
  intro ls
  induction ls with
  | nil => intros; simp [M.nbLoop]
  | cons l ls ih =>
    intro acc cnt
    simp only [M.nbLoop, other_congr w w' he hc, ih]
    rw [he, hc]

theorem neighborsPure_congr (hl : w.links = w'.links) (he : w.ends = w'.ends)
    (hc : w.lcls = w'.lcls) (v : VId) (dir unk : Nat) (via : Option Nat) :
    M.neighborsPure w F v dir unk via = M.neighborsPure w' F v dir unk via := by
  simp only [M.neighborsPure, hl, nbLoop_congr w F w' he hc]

theorem resolvedNb_congr (hn : w.nV = w'.nV) (hl : w.links = w'.links) (he : w.ends = w'.ends)
    (hc : w.lcls = w'.lcls) (dir unk : Nat) (via : Option Nat) :
    resolvedNb w F dir unk via = resolvedNb w' F dir unk via := by
  funext x
  simp only [resolvedNb, hn, neighborsPure_congr w F w' hl he hc]

theorem errOf_congr (hn : w.nV = w'.nV) (hl : w.links = w'.links) (he : w.ends = w'.ends)
    (hc : w.lcls = w'.lcls) (dir unk : Nat) (via : Option Nat) :
    errOf w F dir unk via = errOf w' F dir unk via := by
  funext x
  simp only [errOf, hn, neighborsPure_congr w F w' hl he hc]

theorem inUni_congr (hn : w.nV = w'.nV) (hm : w.members = w'.members) (uni : Option VId) :
    inUni w uni = inUni w' uni := by
  funext x
  simp only [inUni, hn, hm]

theorem fuelFor_congr (hn : w.nV = w'.nV) (nb : Nat → List Nat) : fuelFor w nb = fuelFor w' nb := by
  simp only [fuelFor, hn]

theorem cutOutput_congr (hn : w.nV = w'.nV) (hl : w.links = w'.links) (he : w.ends = w'.ends)
    (hc : w.lcls = w'.lcls) (dir unk : Nat) (via : Option Nat) : ∀ l : List Nat,
    cutOutput w F dir unk via l = cutOutput w' F dir unk via l := by
  intro l
  induction l with
  | nil => rfl
  | cons x xs ih =>
    simp only [cutOutput, ih, errOf_congr w F w' hn hl he hc, hn]

theorem traverse_congr (ffr : Nat → Bool) (kind : TravKind) (uni : Option VId) (start : VId)
    (dir unk : Nat) (via : Option Nat)
    (hn : w.nV = w'.nV) (hl : w.links = w'.links) (he : w.ends = w'.ends) (hc : w.lcls = w'.lcls)
    (hm : w.members = w'.members) :
    traverse w F ffr kind uni start dir unk via = traverse w' F ffr kind uni start dir unk via := by
  simp only [traverse, hm, resolvedNb_congr w F w' hn hl he hc, inUni_congr w w' hn hm,
    fuelFor_congr w w' hn, cutOutput_congr w F w' hn hl he hc]

end fields

/-! ## 5. the prefix yielded before an exception -/

theorem cutOutput_prefix (dir unk : Nat) (via : Option Nat) : ∀ (l out : List Nat) (e : Err),
    cutOutput w F dir unk via l = (out, some e) →
    (∃ rest, l = out ++ rest) ∧ ∀ x ∈ out, x ≤ w.nV := by
  intro l
  induction l with
  | nil => intro out e h; simp [cutOutput] at h
  | cons a l ih =>
    intro out e h
    simp only [cutOutput] at h
    split at h
    · simp only [Prod.mk.injEq] at h
      obtain ⟨rfl, _⟩ := h
      exact ⟨⟨a :: l, rfl⟩, by simp⟩
    · rename_i ha
      simp only [Prod.mk.injEq] at h
      obtain ⟨h1, h2⟩ := h
      obtain ⟨⟨rest, hr⟩, hle⟩ := ih (cutOutput w F dir unk via l).1 e (by rw [← h2])
      subst h1
      refine ⟨⟨rest, by rw [List.cons_append, ← hr]⟩, ?_⟩
      intro x hx
      simp only [List.mem_cons] at hx
      rcases hx with rfl | hx
      · omega
      · exact hle x hx

/-- the pure listing of any kind, whatever the graph: no repetition, start first, only
    reachable ids -/
theorem pureOut_partial (kind : TravKind) (uni : Option VId) (start : VId) (dir unk : Nat)
    (via : Option Nat) (hs : start < w.nV) (hu : InMem w uni start) :
    (pureOut w F (fun _ => true) kind uni start dir unk via).Nodup ∧
    (pureOut w F (fun _ => true) kind uni start dir unk via ≠ [] →
      (pureOut w F (fun _ => true) kind uni start dir unk via).head? = some start) ∧
    ∀ x ∈ pureOut w F (fun _ => true) kind uni start dir unk via,
      T.Reach (resolvedNb w F dir unk via) (inUni w uni) start x := by
  cases kind
  · obtain ⟨a, b, c⟩ := T.bft_partial (nb := resolvedNb w F dir unk via) (inU := inUni w uni)
      (fuelFor w (resolvedNb w F dir unk via)) start
    exact ⟨a, fun _ => b, c⟩
  · exact T.dftRecursive_partial _ _
  · exact T.dftIterative_partial _ _ ((inUni_lt w uni hs).2 hu)

theorem reach_le_lt (uni : Option VId) (start : VId) (dir unk : Nat) (via : Option Nat)
    (hs : start < w.nV) {x : Nat}
    (h : T.Reach (resolvedNb w F dir unk via) (inUni w uni) start x) (hx : x ≤ w.nV) :
    x < w.nV ∨ (x = w.nV ∧ uni = none) := by
  cases h with
  | refl => exact Or.inl hs
  | step _ _ hU =>
    have h1 : ¬ x > w.nV := by omega
    cases uni with
    | none =>
      rcases Nat.lt_or_ge x w.nV with h | h
      · exact Or.inl h
      · exact Or.inr ⟨by omega, rfl⟩
    | some u =>
      simp only [inUni, h1, if_false, Bool.and_eq_true, decide_eq_true_eq] at hU
      exact Or.inl hU.1

theorem error_prefix (kind : TravKind) (uni : Option VId) (start : VId) (dir unk : Nat)
    (via : Option Nat) (hs : start < w.nV) (hu : InMem w uni start) (out : List Nat) (e : Err)
    (h : traverse w F (fun _ => true) kind uni start dir unk via = (out, some e)) :
    out.Nodup ∧ (∀ x ∈ out, x < w.nV ∨ (x = w.nV ∧ uni = none)) ∧
    (out ≠ [] → out.head? = some start) ∧
    ∀ x ∈ out, T.Reach (resolvedNb w F dir unk via) (inUni w uni) start x := by
  rw [traverse_eq_cut w F _ kind uni start dir unk via hu] at h
  obtain ⟨⟨rest, hr⟩, hle⟩ := cutOutput_prefix w F dir unk via _ out e h
  obtain ⟨p1, p2, p3⟩ := pureOut_partial w F kind uni start dir unk via hs hu
  rw [hr] at p1 p2 p3
  have hreach : ∀ x ∈ out, T.Reach (resolvedNb w F dir unk via) (inUni w uni) start x :=
    fun x hx => p3 x (List.mem_append_left _ hx)
  refine ⟨(List.nodup_append.1 p1).1, ?_, ?_, hreach⟩
  · intro x hx
    exact reach_le_lt w F uni start dir unk via hs (hreach x hx) (hle x hx)
  · intro hne
    have := p2 (by simp [hne])
    cases out with
    | nil => exact absurd rfl hne
    | cons a o => simpa using this

end TO
end EG
