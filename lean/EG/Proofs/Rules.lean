import EG.Proofs.Fold
/-
  EG.Proofs.Rules — no primitive of the mirror model ever writes the `rules` column
  (for any fuel, on any world, no invariant needed).
-/
set_option linter.unusedSimpArgs false
set_option linter.unusedVariables false
namespace EG
namespace M

theorem add_rules : ∀ f,
    (∀ w v l w', addToLink f w v l = some w' → w'.rules = w.rules) ∧
    (∀ w l x w', addVertex f w l x = some w' → w'.rules = w.rules) := by
  intro f
  induction f with
  | zero => constructor <;> intros <;> simp_all [addToLink, addVertex]
  | succ f ih =>
    obtain ⟨ih1, ih2⟩ := ih
    constructor
    · intro w v l w' h
      simp only [addToLink] at h
      split at h
      · cases h; rfl
      · split at h
        · cases h; rfl
        · split at h
          · cases h
          · rename_i w1 hw1
            cases h
            have := ih2 _ _ _ _ hw1
            simpa [World.invalidate, World.setLinks] using this
    · intro w l x w' h
      simp only [addVertex] at h
      split at h
      · cases h; rfl
      · split at h
        · cases h; rfl
        · have := ih1 _ _ _ _ h
          simpa [World.invalidateEnds, World.setEnds] using this


theorem remove_rules : ∀ f,
    (∀ w v l w', removeFromLink f w v l = some w' → w'.rules = w.rules) ∧
    (∀ w l x w', unlinkFrom f w l x = some w' → w'.rules = w.rules) := by
  intro f
  induction f with
  | zero => constructor <;> intros <;> simp_all [removeFromLink, unlinkFrom]
  | succ f ih =>
    obtain ⟨ih1, ih2⟩ := ih
    constructor
    · intro w v l w' h
      simp only [removeFromLink] at h
      grind [World.invalidate, World.setLinks]
    · intro w l x w' h
      simp only [unlinkFrom] at h
      grind [World.invalidateEnds, World.setEnds]

theorem replaceEnd_rules (f : Nat) (w : World) (l : LId) (i : Nat) (x : Option VId) (w' : World)
    (h : replaceEnd f w l i x = some w') : w'.rules = w.rules := by
  have a1 := (add_rules f).1
  have r1 := (remove_rules f).1
  have e : (rawSetEnd w l i x).rules = w.rules := by
    simp [rawSetEnd, World.invalidateEnds, World.setEnds]
  simp only [replaceEnd] at h
  grind

theorem uniAdd_rules : ∀ f,
    (∀ w v u w', addToUniverse f w v u = some w' → w'.rules = w.rules) ∧
    (∀ w u v w', uniAddVertex f w u v = some w' → w'.rules = w.rules) := by
  intro f
  induction f with
  | zero => constructor <;> intros <;> simp_all [addToUniverse, uniAddVertex]
  | succ f ih =>
    obtain ⟨ih1, ih2⟩ := ih
    constructor
    · intro w v l w' h
      simp only [addToUniverse] at h
      grind [World.setUnis, World.setMembers]
    · intro w l x w' h
      simp only [uniAddVertex] at h
      grind [World.setUnis, World.setMembers]

theorem uniRemove_rules : ∀ f,
    (∀ w v u w', removeFromUniverse f w v u = some (.ok w') → w'.rules = w.rules) ∧
    (∀ w u v w', uniRemoveVertex f w u v = some (.ok w') → w'.rules = w.rules) := by
  intro f
  induction f with
  | zero => constructor <;> intros <;> simp_all [removeFromUniverse, uniRemoveVertex]
  | succ f ih =>
    obtain ⟨ih1, ih2⟩ := ih
    constructor
    · intro w v l w' h
      simp only [removeFromUniverse] at h
      grind [World.setUnis, World.setMembers]
    · intro w l x w' h
      simp only [uniRemoveVertex] at h
      grind [World.setUnis, World.setMembers]

theorem laws_rules : ∀ f,
    (∀ w L x w', setAppliesTo f w L x = some w' → w'.rules = w.rules) ∧
    (∀ w u x w', setLaws f w u x = some w' → w'.rules = w.rules) := by
  intro f
  induction f with
  | zero => constructor <;> intros <;> simp_all [setAppliesTo, setLaws]
  | succ f ih =>
    obtain ⟨ih1, ih2⟩ := ih
    constructor
    · intro w v l w' h
      simp only [setAppliesTo] at h
      grind [World.setLaws, World.setAppliesTo]
    · intro w l x w' h
      simp only [setLaws] at h
      grind [World.setLaws, World.setAppliesTo]


end M


/-- a record of primitives none of which writes the `rules` column -/
structure RulesPres (P : Prims) : Prop where
  addToLink : ∀ w v l w', P.addToLink w v l = some w' → w'.rules = w.rules
  addVertex : ∀ w l x w', P.addVertex w l x = some w' → w'.rules = w.rules
  removeFromLink : ∀ w v l w', P.removeFromLink w v l = some w' → w'.rules = w.rules
  unlinkFrom : ∀ w l x w', P.unlinkFrom w l x = some w' → w'.rules = w.rules
  replaceEnd : ∀ w l i x w', P.replaceEnd w l i x = some w' → w'.rules = w.rules
  uniAddVertex : ∀ w u v w', P.uniAddVertex w u v = some w' → w'.rules = w.rules
  addToUniverse : ∀ w v u w', P.addToUniverse w v u = some w' → w'.rules = w.rules
  uniRemoveVertex : ∀ w u v w', P.uniRemoveVertex w u v = some (.ok w') → w'.rules = w.rules
  removeFromUniverse : ∀ w v u w', P.removeFromUniverse w v u = some (.ok w') → w'.rules = w.rules
  setLaws : ∀ w u x w', P.setLaws w u x = some w' → w'.rules = w.rules
  setAppliesTo : ∀ w L x w', P.setAppliesTo w L x = some w' → w'.rules = w.rules

theorem M.prims_rulesPres : RulesPres M.prims where
  addToLink := (M.add_rules _).1
  addVertex := (M.add_rules _).2
  removeFromLink := (M.remove_rules _).1
  unlinkFrom := (M.remove_rules _).2
  replaceEnd := M.replaceEnd_rules _
  uniAddVertex := (M.uniAdd_rules _).2
  addToUniverse := (M.uniAdd_rules _).1
  uniRemoveVertex := (M.uniRemove_rules _).2
  removeFromUniverse := (M.uniRemove_rules _).1
  setLaws := (M.laws_rules _).2
  setAppliesTo := (M.laws_rules _).1

theorem foldOpt_rules {α : Type} (f : World → α → Option World) (xs : List α)
    (hf : ∀ w x w', f w x = some w' → w'.rules = w.rules) :
    ∀ w w', foldOpt f w xs = some w' → w'.rules = w.rules := by
  intro w w' h
  exact foldOpt_inv f (fun x => x.rules = w.rules) xs
    (fun a x b ha _ hb => (hf a x b hb).trans ha) w w' rfl h

namespace C
variable {P : Prims} (hP : RulesPres P)
include hP

theorem newLink_rules (w : World) (c : LCls) (vs : List (Option VId)) (w' : World) (l : LId)
    (h : newLink P w c vs = .ok (w', l)) : w'.rules = w.rules := by
  simp only [newLink, M.allocLink, addVertices_eq_fold] at h
  split at h
  · cases h
  · rename_i w1 h1
    cases h
    have := foldOpt_rules _ vs (fun a x b hb => hP.addVertex a _ x b hb) _ _ h1
    exact this

theorem newVertex_rules (w : World) (c : VCls) (attrs : List (Nat × Nat)) (ls : List LId)
    (us : List VId) (w' : World) (v : VId)
    (h : newVertex P w c attrs ls us = .ok (w', v)) : w'.rules = w.rules := by
  simp only [newVertex, M.allocVertex, addToLinks_eq_fold, joinUniverses_eq_fold] at h
  split at h
  · cases h
  · rename_i w1 h1
    split at h
    · cases h
    · rename_i w2 h2
      cases h
      have e1 := foldOpt_rules _ _ (fun a x b hb => hP.addToLink a _ x b hb) _ _ h1
      have e2 := foldOpt_rules _ _ (fun a x b hb => hP.uniAddVertex a x _ b hb) _ _ h2
      simp only [World.invalidate]
      exact e2.trans e1

theorem newUniverse_rules (w : World) (attrs : List (Nat × Nat)) (vs : List VId)
    (L : Option WId) (w' : World) (v : VId) (K : WId) (hK : K < w.nW)
    (h : newUniverse P w attrs vs L = .ok (w', v)) : w'.rules K = w.rules K := by
  simp only [newUniverse, M.allocVertex, M.allocLaws, uniAddVertices_eq_fold] at h
  split at h
  · cases h
  · rename_i w1 h1
    split at h
    · cases h
    · rename_i w2 h2
      cases h
      have e1 := hP.setLaws _ _ _ _ h1
      have e2 := foldOpt_rules _ _ (fun a x b hb => hP.uniAddVertex a _ x b hb) _ _ h2
      rw [e2, e1]
      have : K ≠ w.nW := Nat.ne_of_lt hK
      cases L <;> simp [World.invalidate, upd, this]

theorem unlink_rules (F : Nat → LId → Option VId → Bool) (w : World) (a b : VId) (w' : World)
    (J : List LId) (h : unlink P w F a b = .ok (w', J)) : w'.rules = w.rules := by
  simp only [unlink, unlinkEach_eq_fold] at h
  split at h
  · cases h
  · split at h
    · cases h
    · rename_i w1 h1
      cases h
      refine foldOpt_rules _ _ ?_ _ _ h1
      intro x l y hy
      simp only [unlinkBoth] at hy
      split at hy
      · cases hy
      · rename_i z hz
        exact (hP.unlinkFrom _ _ _ _ hy).trans (hP.unlinkFrom _ _ _ _ hz)

theorem step_rules (F : Nat → LId → Option VId → Bool) (w : World) (op : Op) (K : WId)
    (hK : K < w.nW) : (step P F w op).1.rules K = w.rules K := by
  have ho : ∀ r, (∀ w', r = some w' → w'.rules = w.rules) → (ofOpt w r).1.rules K = w.rules K := by
    intro r hr; cases r with
    | none => rfl
    | some w' => simp only [ofOpt]; rw [hr w' rfl]
  have he : ∀ r, (∀ w', r = .ok w' → w'.rules = w.rules) → (ofExc w r).1.rules K = w.rules K := by
    intro r hr; cases r with
    | error e => rfl
    | ok w' => simp only [ofExc]; rw [hr w' rfl]
  cases op <;> simp only [step]
  case newVertex c attrs ls us =>
    split
    · rfl
    · split
      · rfl
      · rename_i h; rw [newVertex_rules hP _ _ _ _ _ _ _ h]
  case newUniverse attrs ms L =>
    cases L <;>
    · simp only []
      split
      · rfl
      · split
        · rfl
        · rename_i h; exact newUniverse_rules hP _ _ _ _ _ _ K hK h
  case newLaws r => simp [M.allocLaws, upd, Nat.ne_of_lt hK]
  case newEdge c a b =>
    split
    · rfl
    · split
      · rfl
      · rename_i h; rw [newLink_rules hP _ _ _ _ _ h]
  case newNLink vs =>
    split
    · rfl
    · split
      · rfl
      · rename_i h; rw [newLink_rules hP _ _ _ _ _ h]
  case setV1 l x =>
    split
    · rfl
    · apply he; intro w' h; simp only [setEnd] at h
      split at h
      · cases h
      · split at h
        · cases h
        · rename_i h1; cases h; exact hP.replaceEnd _ _ _ _ _ h1
  case setV2 l x =>
    split
    · rfl
    · apply he; intro w' h; simp only [setEnd] at h
      split at h
      · cases h
      · split at h
        · cases h
        · rename_i h1; cases h; exact hP.replaceEnd _ _ _ _ _ h1
  case addToLink v l => split; rfl; exact ho _ (hP.addToLink _ _ _)
  case removeFromLink v l => split; rfl; exact ho _ (hP.removeFromLink _ _ _)
  case addVertex v l => split; rfl; exact ho _ (hP.addVertex _ _ _)
  case unlinkFrom v l => split; rfl; exact ho _ (hP.unlinkFrom _ _ _)
  case linkFromTo a c b dd =>
    split
    · rfl
    · split
      · rfl
      · rename_i h
        simp only [linkFromTo] at h
        split at h
        · split at h
          · cases h
          · cases h; rfl
          · rw [newLink_rules hP _ _ _ _ _ h]
        · rw [newLink_rules hP _ _ _ _ _ h]
  case unlink a b d =>
    split
    · rfl
    · split
      · rfl
      · rename_i h; rw [unlink_rules hP _ _ _ _ _ _ h]
  case uniAdd u v => split; rfl; exact ho _ (hP.uniAddVertex _ _ _)
  case uniRemove u v =>
    split
    · rfl
    · split
      · rfl
      · rename_i r hr; apply he; intro w' e; subst e; exact hP.uniRemoveVertex _ _ _ _ hr
  case vAdd u v => split; rfl; exact ho _ (hP.addToUniverse _ _ _)
  case vRemove u v =>
    split
    · rfl
    · split
      · rfl
      · rename_i r hr; apply he; intro w' e; subst e; exact hP.removeFromUniverse _ _ _ _ hr
  case setLaws u L =>
    cases L <;>
    · simp only []
      split
      · rfl
      · exact ho _ (hP.setLaws _ _ _)
  case setAppliesTo L u =>
    cases u <;>
    · simp only []
      split
      · rfl
      · exact ho _ (hP.setAppliesTo _ _ _)
  case neighbors v dir unk filt fault =>
    split
    · rfl
    · simp only [M.neighbors]
      split <;> rename_i h <;> revert h <;> (repeat' split) <;> intro h <;> cases h <;> rfl
  case findLinks a b ds unk filt fault =>
    split
    · rfl
    · split <;> rfl

end C
end EG
