import EG.Single
/-
  EG.Proofs.SingleLemmas — helper lemmas for C17 / C18.
-/
set_option linter.unusedSimpArgs false
set_option linter.unusedVariables false
namespace EG
namespace Sg

/-! ### `lookup` -/

theorem lookup_mem {k v : Nat} {l : List (Nat × Nat)} (h : lookup k l = some v) : (k, v) ∈ l := by
  induction l with
  | nil => simp [lookup] at h
  | cons p rest ih =>
    obtain ⟨k', v'⟩ := p
    simp only [lookup] at h
    split at h
    · simp_all
    · simp [ih h]

theorem lookup_none_iff {k : Nat} {l : List (Nat × Nat)} :
    lookup k l = none ↔ ∀ p ∈ l, p.1 ≠ k := by
  induction l with
  | nil => simp [lookup]
  | cons p rest ih =>
    obtain ⟨k', v'⟩ := p
    simp only [lookup]
    split
    · simp_all
    · simp_all

theorem lookup_append (k : Nat) (l l' : List (Nat × Nat)) :
    lookup k (l ++ l') = (match lookup k l with | some x => some x | none => lookup k l') := by
  induction l with
  | nil => simp [lookup]
  | cons p rest ih =>
    obtain ⟨k', v'⟩ := p
    simp only [List.cons_append, lookup]
    split
    · rfl
    · exact ih

theorem lookup_filter (k : Nat) (q : Nat × Nat → Bool) (hq : ∀ v, q (k, v) = true)
    (l : List (Nat × Nat)) : lookup k (l.filter q) = lookup k l := by
  induction l with
  | nil => rfl
  | cons p rest ih =>
    obtain ⟨k', v'⟩ := p
    simp only [List.filter]
    cases hqp : q (k', v') with
    | true =>
      simp only [lookup, ih]
    | false =>
      have hne : k' ≠ k := by
        intro h; subst h; rw [hq] at hqp; cases hqp
      simp only [lookup, ih, if_neg hne]

theorem lookup_filter_self (c : Nat) (l : List (Nat × Nat)) :
    lookup c (l.filter (fun p => p.1 != c)) = none := by
  rw [lookup_none_iff]
  intro p hp
  simp only [List.mem_filter, bne_iff_ne, ne_eq] at hp
  exact hp.2

theorem filter_key_id {c : Nat} {l : List (Nat × Nat)} (h : lookup c l = none) :
    l.filter (fun p => p.1 != c) = l := by
  rw [lookup_none_iff] at h
  rw [List.filter_eq_self]
  intro p hp
  simp [h p hp]

/-! ### `TS` -/

def TS.WF' (s : TS) : Prop :=
  (s.inst.map (·.1)).Nodup ∧ (s.inst.map (·.2)).Nodup ∧ (∀ p ∈ s.inst, p.2 < s.next) ∧
  (∀ e ∈ s.inits, e.1 < s.next)

theorem nodup_map_filter {α β : Type} (f : α → β) (q : α → Bool) {l : List α}
    (h : (l.map f).Nodup) : ((l.filter q).map f).Nodup :=
  List.Nodup.sublist ((List.filter_sublist (p := q) (l := l)).map f) h

theorem eq_of_nodup_map {α β : Type} (f : α → β) {l : List α} (h : (l.map f).Nodup)
    {x y : α} (hx : x ∈ l) (hy : y ∈ l) (hxy : f x = f y) : x = y := by
  induction l with
  | nil => cases hx
  | cons z rest ih =>
    simp only [List.map_cons, List.nodup_cons, List.mem_map, not_exists, not_and] at h
    simp only [List.mem_cons] at hx hy
    rcases hx with rfl | hx <;> rcases hy with rfl | hy
    · rfl
    · exact absurd hxy.symm (h.1 y hy)
    · exact absurd hxy (h.1 x hx)
    · exact ih h.2 hx hy

theorem TS.step_wf' (s : TS) (op : TSOp) (hs : s.WF') : (s.step op).1.WF' := by
  obtain ⟨h1, h2, h3, h4⟩ := hs
  cases op with
  | constructFail c a =>
    simp only [TS.step]
    cases hl : lookup c s.inst <;> exact ⟨h1, h2, h3, h4⟩
  | constructClearing c a =>
    simp only [TS.step]
    cases hl : lookup c s.inst with
    | some i => exact ⟨h1, h2, h3, h4⟩
    | none =>
      refine ⟨by simp, by simp, by simp, ?_⟩
      intro e he
      simp only [List.mem_append, List.mem_singleton] at he
      rcases he with he | rfl
      · exact Nat.lt_succ_of_lt (h4 e he)
      · exact Nat.lt_succ_self _
  | construct c a =>
    simp only [TS.step]
    cases hl : lookup c s.inst with
    | some i => exact ⟨h1, h2, h3, h4⟩
    | none =>
      rw [lookup_none_iff] at hl
      refine ⟨?_, ?_, ?_, ?_⟩
      · simp only [List.map_append, List.map_cons, List.map_nil]
        rw [List.nodup_append]
        refine ⟨h1, by simp, ?_⟩
        intro x hx y hy
        simp only [List.mem_map] at hx
        obtain ⟨p, hp, rfl⟩ := hx
        simp only [List.mem_singleton] at hy
        subst hy
        exact hl p hp
      · simp only [List.map_append, List.map_cons, List.map_nil]
        rw [List.nodup_append]
        refine ⟨h2, by simp, ?_⟩
        intro x hx y hy
        simp only [List.mem_map] at hx
        obtain ⟨p, hp, rfl⟩ := hx
        simp only [List.mem_singleton] at hy
        subst hy
        exact Nat.ne_of_lt (h3 p hp)
      · intro p hp
        simp only [List.mem_append, List.mem_singleton] at hp
        rcases hp with hp | rfl
        · exact Nat.lt_succ_of_lt (h3 p hp)
        · exact Nat.lt_succ_self _
      · intro e he
        simp only [List.mem_append, List.mem_singleton] at he
        rcases he with he | rfl
        · exact Nat.lt_succ_of_lt (h4 e he)
        · exact Nat.lt_succ_self _
  | clear oc =>
    cases oc with
    | none =>
      simp only [TS.step]
      exact ⟨by simp, by simp, by simp, h4⟩
    | some c =>
      simp only [TS.step]
      refine ⟨nodup_map_filter _ _ h1, nodup_map_filter _ _ h2, ?_, h4⟩
      intro p hp
      exact h3 p (List.mem_filter.mp hp).1

theorem TS.run_wf' (ops : List TSOp) (s : TS) (hs : s.WF') : (TS.run s ops).1.WF' := by
  induction ops generalizing s with
  | nil => exact hs
  | cons op ops ih =>
    simp only [TS.run]
    exact ih _ (TS.step_wf' s op hs)

theorem TS.init_wf' : TS.WF' {} := by
  refine ⟨by simp, by simp, by simp, by simp⟩

/-- an op that is not a clear of class `c` preserves `c`'s entry -/
theorem TS.step_keeps_lookup (s : TS) (c i : Nat) (op : TSOp)
    (h1 : op ≠ .clear (some c)) (h2 : op ≠ .clear none) (h3 : ∀ c2 a, op ≠ .constructClearing c2 a)
    (hl : lookup c s.inst = some i) :
    lookup c (s.step op).1.inst = some i := by
  cases op with
  | constructClearing c2 a => exact absurd rfl (h3 c2 a)
  | constructFail c2 a =>
    simp only [TS.step]
    cases hl2 : lookup c2 s.inst <;> exact hl
  | construct c2 a =>
    simp only [TS.step]
    cases hl2 : lookup c2 s.inst with
    | some j => exact hl
    | none =>
      simp only [lookup_append, hl]
  | clear oc =>
    cases oc with
    | none => exact absurd rfl h2
    | some c2 =>
      simp only [TS.step]
      have hne : c ≠ c2 := by
        intro h; subst h; exact h1 rfl
      rw [lookup_filter c _ (by intro v; simp [hne])]
      exact hl

theorem TS.run_keeps_lookup (mid : List TSOp) (s : TS) (c i : Nat)
    (hmid : ∀ op ∈ mid, op ≠ .clear (some c) ∧ op ≠ .clear none ∧ ∀ c2 a, op ≠ .constructClearing c2 a)
    (hl : lookup c s.inst = some i) :
    lookup c (TS.run s mid).1.inst = some i := by
  induction mid generalizing s with
  | nil => exact hl
  | cons op ops ih =>
    simp only [TS.run]
    apply ih
    · intro op' h'; exact hmid op' (List.mem_cons_of_mem _ h')
    · exact TS.step_keeps_lookup s c i op (hmid op (List.mem_cons_self ..)).1
        (hmid op (List.mem_cons_self ..)).2.1 (hmid op (List.mem_cons_self ..)).2.2 hl

/-- a hit changes nothing -/
theorem TS.step_construct_hit (s : TS) (c a i : Nat) (hl : lookup c s.inst = some i) :
    s.step (.construct c a) = (s, some i) := by
  simp only [TS.step, hl]

theorem TS.step_construct_miss (s : TS) (c a : Nat) (hl : lookup c s.inst = none) :
    s.step (.construct c a) =
      ({ inst := s.inst ++ [(c, s.next)], next := s.next + 1,
         inits := s.inits ++ [(s.next, c, a)] }, some s.next) := by
  simp only [TS.step, hl]

/-- monotonicity of one step: `next` never decreases, `inits` only grows, by entries whose
    instance id is at least the old `next` -/
theorem TS.step_mono (s : TS) (op : TSOp) :
    s.next ≤ (s.step op).1.next ∧
    ∃ extra, (s.step op).1.inits = s.inits ++ extra ∧ ∀ e ∈ extra, s.next ≤ e.1 := by
  cases op with
  | constructFail c a =>
    simp only [TS.step]
    cases hl : lookup c s.inst <;> exact ⟨Nat.le_refl _, [], by simp, by simp⟩
  | constructClearing c a =>
    simp only [TS.step]
    cases hl : lookup c s.inst with
    | some i => exact ⟨Nat.le_refl _, [], by simp, by simp⟩
    | none => exact ⟨Nat.le_succ _, [(s.next, c, a)], rfl, by simp⟩
  | construct c a =>
    simp only [TS.step]
    cases hl : lookup c s.inst with
    | some i => exact ⟨Nat.le_refl _, [], by simp, by simp⟩
    | none => exact ⟨Nat.le_succ _, [(s.next, c, a)], rfl, by simp⟩
  | clear oc =>
    cases oc with
    | none => exact ⟨Nat.le_refl _, [], by simp [TS.step], by simp⟩
    | some c => exact ⟨Nat.le_refl _, [], by simp [TS.step], by simp⟩

theorem TS.run_mono (ops : List TSOp) (s : TS) :
    s.next ≤ (TS.run s ops).1.next ∧
    ∃ extra, (TS.run s ops).1.inits = s.inits ++ extra ∧ ∀ e ∈ extra, s.next ≤ e.1 := by
  induction ops generalizing s with
  | nil => exact ⟨Nat.le_refl _, [], by simp [TS.run], by simp⟩
  | cons op ops ih =>
    simp only [TS.run]
    obtain ⟨hn, ex1, he1, hb1⟩ := TS.step_mono s op
    obtain ⟨hn2, ex2, he2, hb2⟩ := ih (s.step op).1
    refine ⟨Nat.le_trans hn hn2, ex1 ++ ex2, ?_, ?_⟩
    · rw [he2, he1, List.append_assoc]
    · intro e he
      simp only [List.mem_append] at he
      rcases he with he | he
      · exact hb1 e he
      · exact Nat.le_trans hn (hb2 e he)

/-! ### `slookup` / `sinsert` -/

theorem slookup_mem {k : SKey} {v : Nat} {l : List (SKey × Nat)} (h : slookup k l = some v) :
    (k, v) ∈ l := by
  induction l with
  | nil => simp [slookup] at h
  | cons p rest ih =>
    obtain ⟨k', v'⟩ := p
    simp only [slookup] at h
    split at h
    · simp_all
    · simp [ih h]

theorem slookup_none_iff {k : SKey} {l : List (SKey × Nat)} :
    slookup k l = none ↔ ∀ p ∈ l, p.1 ≠ k := by
  induction l with
  | nil => simp [slookup]
  | cons p rest ih =>
    obtain ⟨k', v'⟩ := p
    simp only [slookup]
    split
    · simp_all
    · simp_all

theorem slookup_append (k : SKey) (l l' : List (SKey × Nat)) :
    slookup k (l ++ l') = (match slookup k l with | some x => some x | none => slookup k l') := by
  induction l with
  | nil => simp [slookup]
  | cons p rest ih =>
    obtain ⟨k', v'⟩ := p
    simp only [List.cons_append, slookup]
    split
    · rfl
    · exact ih

theorem slookup_filter (k : SKey) (q : SKey × Nat → Bool) (hq : ∀ v, q (k, v) = true)
    (l : List (SKey × Nat)) : slookup k (l.filter q) = slookup k l := by
  induction l with
  | nil => rfl
  | cons p rest ih =>
    obtain ⟨k', v'⟩ := p
    simp only [List.filter]
    cases hqp : q (k', v') with
    | true =>
      simp only [slookup, ih]
    | false =>
      have hne : k' ≠ k := by
        intro h; subst h; rw [hq] at hqp; cases hqp
      simp only [slookup, ih, if_neg hne]

theorem slookup_filter_none (k : SKey) (q : SKey × Nat → Bool) (hq : ∀ v, q (k, v) = false)
    (l : List (SKey × Nat)) : slookup k (l.filter q) = none := by
  rw [slookup_none_iff]
  intro p hp hk
  obtain ⟨k', v'⟩ := p
  simp only at hk
  subst hk
  have := (List.mem_filter.mp hp).2
  rw [hq] at this
  cases this

theorem slookup_sinsert_same (k : SKey) (v : Nat) (l : List (SKey × Nat)) :
    slookup k (sinsert k v l) = some v := by
  induction l with
  | nil => simp [sinsert, slookup]
  | cons p rest ih =>
    obtain ⟨k', v'⟩ := p
    simp only [sinsert]
    split
    · simp [slookup]
    · rename_i hne
      simp only [slookup, if_neg hne, ih]

theorem slookup_sinsert_other (k k2 : SKey) (v : Nat) (h : k2 ≠ k) (l : List (SKey × Nat)) :
    slookup k2 (sinsert k v l) = slookup k2 l := by
  induction l with
  | nil => simp [sinsert, slookup, Ne.symm h]
  | cons p rest ih =>
    obtain ⟨k', v'⟩ := p
    simp only [sinsert]
    split
    · rename_i heq
      subst heq
      simp only [slookup, if_neg (Ne.symm h)]
    · simp only [slookup, ih]

theorem mem_sinsert {k : SKey} {v : Nat} {l : List (SKey × Nat)} {p : SKey × Nat}
    (hp : p ∈ sinsert k v l) : p = (k, v) ∨ p ∈ l := by
  induction l with
  | nil => simp [sinsert] at hp; exact Or.inl hp
  | cons q rest ih =>
    obtain ⟨k', v'⟩ := q
    simp only [sinsert] at hp
    split at hp
    · simp only [List.mem_cons] at hp ⊢
      rcases hp with hp | hp
      · exact Or.inl hp
      · exact Or.inr (Or.inr hp)
    · simp only [List.mem_cons] at hp ⊢
      rcases hp with hp | hp
      · exact Or.inr (Or.inl hp)
      · rcases ih hp with h | h
        · exact Or.inl h
        · exact Or.inr (Or.inr h)

theorem sinsert_nodup (k : SKey) (v : Nat) {l : List (SKey × Nat)}
    (h : (l.map (·.1)).Nodup) : ((sinsert k v l).map (·.1)).Nodup := by
  induction l with
  | nil => simp [sinsert]
  | cons q rest ih =>
    obtain ⟨k', v'⟩ := q
    simp only [List.map_cons, List.nodup_cons] at h
    simp only [sinsert]
    split
    · rename_i heq
      subst heq
      simp only [List.map_cons, List.nodup_cons]
      exact h
    · rename_i hne
      simp only [List.map_cons, List.nodup_cons]
      refine ⟨?_, ih h.2⟩
      intro hmem
      simp only [List.mem_map] at hmem
      obtain ⟨p, hp, hpk⟩ := hmem
      rcases mem_sinsert hp with rfl | hp'
      · exact hne hpk.symm
      · exact h.1 (List.mem_map.mpr ⟨p, hp', hpk⟩)

/-! ### `SS` -/

def SS.WF' (cfg : SSCfg) (s : SS) : Prop :=
  (∀ m, ((s.maps m).map (·.1)).Nodup) ∧
  (∀ m, ∀ p ∈ s.maps m, cfg.mapOf p.1.1 = m ∧ s.instCls p.2 = p.1.1 ∧ p.2 < s.next) ∧
  (∀ e ∈ s.inits, e.1 < s.next ∧ s.instCls e.1 = e.2.1)

theorem SS.init_wf' (cfg : SSCfg) : SS.WF' cfg {} := by
  refine ⟨by simp, by simp, by simp⟩

theorem SS.step_construct_hit (cfg : SSCfg) (s : SS) (c a i : Nat)
    (hl : slookup (c, cfg.keyOf (cfg.mapOf c) a) (s.maps (cfg.mapOf c)) = some i) :
    s.step cfg (.construct c a) = (s, .inst i) := by
  simp only [SS.step, hl]

theorem SS.step_construct_miss (cfg : SSCfg) (s : SS) (c a : Nat)
    (hl : slookup (c, cfg.keyOf (cfg.mapOf c) a) (s.maps (cfg.mapOf c)) = none) :
    s.step cfg (.construct c a) =
      ({ maps := upd s.maps (cfg.mapOf c)
            (s.maps (cfg.mapOf c) ++ [((c, cfg.keyOf (cfg.mapOf c) a), s.next)])
         instCls := upd s.instCls s.next c
         next := s.next + 1
         inits := s.inits ++ [(s.next, c, a)] }, .inst s.next) := by
  simp only [SS.step, hl]

theorem SS.step_drop_miss (cfg : SSCfg) (s : SS) (c a : Nat)
    (hl : slookup (c, cfg.keyOf (cfg.mapOf c) a) (s.maps (cfg.mapOf c)) = none) :
    s.step cfg (.drop c a) = (s, .keyError) := by
  simp only [SS.step, hl]

theorem SS.step_drop_hit (cfg : SSCfg) (s : SS) (c a i : Nat)
    (hl : slookup (c, cfg.keyOf (cfg.mapOf c) a) (s.maps (cfg.mapOf c)) = some i) :
    s.step cfg (.drop c a) =
      ({ s with maps := upd s.maps (cfg.mapOf c)
                          ((s.maps (cfg.mapOf c)).filter
                            (fun p => p.1 != (c, cfg.keyOf (cfg.mapOf c) a))) }, .ok) := by
  simp only [SS.step, hl]

theorem SS.step_add_ok (cfg : SSCfg) (s : SS) (i a : Nat) (hlt : i < s.next) :
    s.step cfg (.addMapping i a) =
      ({ s with maps := upd s.maps (cfg.mapOf (s.instCls i))
                          (sinsert (s.instCls i, cfg.keyOf (cfg.mapOf (s.instCls i)) a) i
                            (s.maps (cfg.mapOf (s.instCls i)))) }, .ok) := by
  simp only [SS.step, ge_iff_le, if_neg (Nat.not_le_of_lt hlt)]

theorem SS.step_add_bad (cfg : SSCfg) (s : SS) (i a : Nat) (hge : s.next ≤ i) :
    s.step cfg (.addMapping i a) = (s, .bad) := by
  simp only [SS.step, ge_iff_le, if_pos hge]

/-- replacing one map by a filtered version of itself preserves well-formedness -/
theorem SS.wf'_filter (cfg : SSCfg) (s : SS) (m : Nat) (q : SKey × Nat → Bool) (hs : SS.WF' cfg s) :
    SS.WF' cfg { s with maps := upd s.maps m ((s.maps m).filter q) } := by
  obtain ⟨h1, h2, h3⟩ := hs
  refine ⟨?_, ?_, h3⟩
  · intro m'
    by_cases hm : m' = m
    · subst hm; simp only [upd_same]; exact nodup_map_filter _ _ (h1 m')
    · simp only [upd_other _ _ _ _ hm]; exact h1 m'
  · intro m' p hp
    by_cases hm : m' = m
    · subst hm; simp only [upd_same] at hp; exact h2 m' p (List.mem_filter.mp hp).1
    · simp only [upd_other _ _ _ _ hm] at hp; exact h2 m' p hp

theorem SS.step_wf' (cfg : SSCfg) (s : SS) (op : SSOp) (hs : SS.WF' cfg s) :
    SS.WF' cfg (s.step cfg op).1 := by
  cases op with
  | constructFail c a =>
    simp only [SS.step]
    split <;> exact hs
  | construct c a =>
    cases hl : slookup (c, cfg.keyOf (cfg.mapOf c) a) (s.maps (cfg.mapOf c)) with
    | some i => rw [SS.step_construct_hit cfg s c a i hl]; exact hs
    | none =>
      rw [SS.step_construct_miss cfg s c a hl]
      obtain ⟨h1, h2, h3⟩ := hs
      rw [slookup_none_iff] at hl
      refine ⟨?_, ?_, ?_⟩
      · intro m'
        by_cases hm : m' = cfg.mapOf c
        · subst hm
          simp only [upd_same, List.map_append, List.map_cons, List.map_nil]
          rw [List.nodup_append]
          refine ⟨h1 _, by simp, ?_⟩
          intro x hx y hy
          simp only [List.mem_map] at hx
          obtain ⟨p, hp, rfl⟩ := hx
          simp only [List.mem_singleton] at hy
          subst hy
          exact hl p hp
        · simp only [upd_other _ _ _ _ hm]; exact h1 m'
      · intro m' p hp
        have old : ∀ p ∈ s.maps m', cfg.mapOf p.1.1 = m' ∧
            upd s.instCls s.next c p.2 = p.1.1 ∧ p.2 < s.next + 1 := by
          intro p hp
          obtain ⟨a1, a2, a3⟩ := h2 m' p hp
          refine ⟨a1, ?_, Nat.lt_succ_of_lt a3⟩
          rw [upd_other _ _ _ _ (Nat.ne_of_lt a3)]; exact a2
        by_cases hm : m' = cfg.mapOf c
        · subst hm
          simp only [upd_same, List.mem_append, List.mem_singleton] at hp
          rcases hp with hp | rfl
          · exact old p hp
          · exact ⟨rfl, by simp, Nat.lt_succ_self _⟩
        · simp only [upd_other _ _ _ _ hm] at hp
          exact old p hp
      · intro e he
        simp only [List.mem_append, List.mem_singleton] at he
        rcases he with he | rfl
        · obtain ⟨a1, a2⟩ := h3 e he
          refine ⟨Nat.lt_succ_of_lt a1, ?_⟩
          simp only
          rw [upd_other _ _ _ _ (Nat.ne_of_lt a1)]; exact a2
        · exact ⟨Nat.lt_succ_self _, by simp⟩
  | addMapping i a =>
    by_cases hlt : i < s.next
    · rw [SS.step_add_ok cfg s i a hlt]
      obtain ⟨h1, h2, h3⟩ := hs
      refine ⟨?_, ?_, h3⟩
      · intro m'
        by_cases hm : m' = cfg.mapOf (s.instCls i)
        · subst hm; simp only [upd_same]; exact sinsert_nodup _ _ (h1 _)
        · simp only [upd_other _ _ _ _ hm]; exact h1 m'
      · intro m' p hp
        by_cases hm : m' = cfg.mapOf (s.instCls i)
        · subst hm
          simp only [upd_same] at hp
          rcases mem_sinsert hp with rfl | hp
          · exact ⟨rfl, rfl, hlt⟩
          · exact h2 _ p hp
        · simp only [upd_other _ _ _ _ hm] at hp; exact h2 m' p hp
    · rw [SS.step_add_bad cfg s i a (Nat.le_of_not_lt hlt)]; exact hs
  | drop c a =>
    cases hl : slookup (c, cfg.keyOf (cfg.mapOf c) a) (s.maps (cfg.mapOf c)) with
    | none => rw [SS.step_drop_miss cfg s c a hl]; exact hs
    | some i => rw [SS.step_drop_hit cfg s c a i hl]; exact SS.wf'_filter cfg s _ _ hs
  | check c a =>
    simp only [SS.step]
    split <;> exact hs
  | getAll c => exact hs
  | clear c => exact SS.wf'_filter cfg s _ _ hs

theorem SS.run_wf' (cfg : SSCfg) (ops : List SSOp) (s : SS) (hs : SS.WF' cfg s) :
    SS.WF' cfg (SS.run cfg s ops).1 := by
  induction ops generalizing s with
  | nil => exact hs
  | cons op ops ih =>
    simp only [SS.run]
    exact ih _ (SS.step_wf' cfg s op hs)

theorem slookup_upd_iso (maps : Nat → List (SKey × Nat)) (m m' : Nat) (k' : SKey)
    (X : List (SKey × Nat)) (hX : m' = m → slookup k' X = slookup k' (maps m)) :
    slookup k' (upd maps m X m') = slookup k' (maps m') := by
  by_cases hm : m' = m
  · subst hm; rw [upd_same]; exact hX rfl
  · rw [upd_other _ _ _ _ hm]

theorem slookup_append_single_ne (k' k : SKey) (v : Nat) (h : k' ≠ k) (l : List (SKey × Nat)) :
    slookup k' (l ++ [(k, v)]) = slookup k' l := by
  rw [slookup_append]
  simp only [slookup, if_neg (Ne.symm h)]
  cases slookup k' l <;> rfl

end Sg
end EG
