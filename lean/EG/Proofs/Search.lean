import EG.TravSpec
import Mathlib.Data.List.Nodup
import Mathlib.Data.List.Perm.Subperm
/-
  EG.Proofs.Search — helper lemmas for C08 (each search loop is its traversal loop with an
  early exit at the first element satisfying the predicate).
-/
namespace EG
namespace T
namespace SearchAux

variable (nb : Nat → List Nat) (inU : Nat → Bool) (ffr : Nat → Bool) (p : Nat → Bool)

/-! ### breadth-first: the `out` accumulator factors out -/

theorem bftScan_out (l : List Nat) : ∀ vis q out,
    bftScan inU ffr vis q out l =
      ((bftScan inU ffr vis q [] l).1, (bftScan inU ffr vis q [] l).2.1,
        out ++ (bftScan inU ffr vis q [] l).2.2) := by
  induction l with
  | nil => intro vis q out; simp [bftScan]
  | cons v vs ih =>
    intro vis q out
    by_cases h1 : inU v = true
    · by_cases h2 : v ∈ vis
      · simp only [bftScan, h1, h2]; simpa using ih vis q out
      · simp only [bftScan, h1, h2]
        simp only [Bool.not_true, Bool.false_eq_true, if_false]
        rw [ih _ _ (if ffr v = true then out ++ [v] else out),
          ih _ _ (if ffr v = true then [] ++ [v] else [])]
        by_cases h3 : ffr v = true <;> simp [h3]
    · simp only [bftScan, h1]; simpa using ih vis q out

theorem bftLoop_out (f : Nat) : ∀ vis q out,
    bftLoop nb inU ffr f vis q out = out ++ bftLoop nb inU ffr f vis q [] := by
  induction f with
  | zero => intro vis q out; simp [bftLoop]
  | succ f ih =>
    intro vis q out
    cases q with
    | nil => simp [bftLoop]
    | cons u q =>
      simp only [bftLoop]
      rw [bftScan_out inU ffr (nb u) vis q out]
      simp only []
      rw [ih _ _ (out ++ _), ih _ _ (bftScan inU ffr vis q [] (nb u)).2.2]
      simp

/-- lockstep of the two scan loops under "nothing visited satisfies p" -/
theorem bfsScan_spec (l : List Nat) : ∀ vis q, (∀ y ∈ vis, p y = false) →
    match bfsScan inU p vis q l with
    | .inl x => (bftScan inU (fun _ => true) vis q [] l).2.2.find? p = some x
    | .inr r => r.1 = (bftScan inU (fun _ => true) vis q [] l).1 ∧
        r.2 = (bftScan inU (fun _ => true) vis q [] l).2.1 ∧
        (bftScan inU (fun _ => true) vis q [] l).2.2.find? p = none ∧
        ∀ y ∈ r.1, p y = false := by
  induction l with
  | nil => intro vis q h; simp [bfsScan, bftScan]; exact h
  | cons v vs ih =>
    intro vis q h
    by_cases h1 : inU v = true
    · by_cases hp : p v = true
      · have h2 : v ∉ vis := by
          intro hm; have := h v hm; simp [hp] at this
        simp only [bfsScan, bftScan, h1, hp, h2]
        simp only [Bool.not_true, Bool.false_eq_true, if_false, if_true]
        rw [bftScan_out]
        simp [hp]
      · by_cases h2 : v ∈ vis
        · simp only [bfsScan, bftScan, h1, hp, h2]
          simpa using ih vis q h
        · simp only [bfsScan, bftScan, h1, hp, h2]
          simp only [Bool.not_true, Bool.false_eq_true, if_false, if_true]
          rw [bftScan_out]
          have h' : ∀ y ∈ vis ++ [v], p y = false := by
            intro y hy
            rcases List.mem_append.1 hy with hy | hy
            · exact h y hy
            · simp at hy; subst hy; simpa using hp
          have := ih (vis ++ [v]) (q ++ [v]) h'
          simpa [hp] using this
    · simp only [bfsScan, bftScan, h1]
      simpa using ih vis q h

theorem bfsLoop_eq_find (f : Nat) : ∀ vis q, (∀ y ∈ vis, p y = false) →
    bfsLoop nb inU p f vis q = (bftLoop nb inU (fun _ => true) f vis q []).find? p := by
  induction f with
  | zero => intro vis q _; simp [bfsLoop, bftLoop]
  | succ f ih =>
    intro vis q h
    cases q with
    | nil => simp [bfsLoop, bftLoop]
    | cons u q =>
      simp only [bfsLoop, bftLoop]
      rw [bftLoop_out]
      have hs := bfsScan_spec inU p (nb u) vis q h
      cases hc : bfsScan inU p vis q (nb u) with
      | inl x =>
        rw [hc] at hs
        simp only [] at hs
        simp [List.find?_append, hs]
      | inr r =>
        rw [hc] at hs
        simp only [] at hs
        obtain ⟨e1, e2, e3, e4⟩ := hs
        simp only [List.find?_append, e3, Option.none_or]
        rw [← e1, ← e2]
        exact ih r.1 r.2 e4

theorem bfs_eq_find (f s : Nat) :
    bfs nb inU p f s = (bft nb inU (fun _ => true) f s).find? p := by
  unfold bfs bft
  simp only [if_true]
  rw [bftLoop_out]
  by_cases hp : p s = true
  · simp [hp]
  · have h : ∀ y ∈ [s], p y = false := by
      intro y hy; simp at hy; subst hy; simpa using hp
    simp [hp, bfsLoop_eq_find nb inU p f [s] [s] h]

/-! ### iterative depth-first -/

theorem dftIterLoop_out (f : Nat) : ∀ st disc out,
    dftIterLoop nb inU ffr f st disc out = out ++ dftIterLoop nb inU ffr f st disc [] := by
  induction f with
  | zero => intro st disc out; simp [dftIterLoop]
  | succ f ih =>
    intro st disc out
    cases st with
    | nil => simp [dftIterLoop]
    | cons v st =>
      simp only [dftIterLoop]
      by_cases h1 : v ∈ disc
      · simp only [h1, if_true]; exact ih _ _ _
      · by_cases h2 : inU v = true
        · simp only [h1, h2, if_false, Bool.not_true, Bool.false_eq_true]
          rw [ih _ _ (if ffr v = true then out ++ [v] else out),
            ih _ _ (if ffr v = true then [] ++ [v] else [])]
          by_cases h3 : ffr v = true <;> simp [h3]
        · simp only [h1, h2, if_false]
          simpa using ih st disc out

theorem dfsIterLoop_eq_find (f : Nat) : ∀ st disc,
    dfsIterLoop nb inU p f st disc =
      (dftIterLoop nb inU (fun _ => true) f st disc []).find? p := by
  induction f with
  | zero => intro st disc; simp [dfsIterLoop, dftIterLoop]
  | succ f ih =>
    intro st disc
    cases st with
    | nil => simp [dfsIterLoop, dftIterLoop]
    | cons v st =>
      simp only [dfsIterLoop, dftIterLoop]
      by_cases h2 : inU v = true
      · by_cases h1 : v ∈ disc
        · simp only [h1, h2, if_true, if_false, Bool.not_true, Bool.false_eq_true]
          exact ih _ _
        · simp only [h1, h2, if_true, if_false, Bool.not_true, Bool.false_eq_true]
          rw [dftIterLoop_out]
          by_cases hp : p v = true
          · simp [hp]
          · simp [hp, ih]
      · by_cases h1 : v ∈ disc
        · simp [h1, h2, ih]
        · simp [h1, h2, ih]

theorem dfsIterative_eq_find (f s : Nat) :
    dfsIterative nb inU p f s = (dftIterative nb inU (fun _ => true) f s).find? p := by
  unfold dfsIterative dftIterative
  exact dfsIterLoop_eq_find nb inU p f [s] []

/-! ### recursive depth-first -/

/-- the fold step of `dftRec` -/
def stepT (f : Nat) : List Nat × List Nat → Nat → List Nat × List Nat :=
  fun s w => if !inU w then s else if w ∈ s.1 then s else dftRec nb inU ffr f s w

/-- the fold step of `dfsRec` -/
def stepS (f : Nat) : List Nat × Option Nat → Nat → List Nat × Option Nat :=
  fun s w =>
    match s.2 with
    | some _ => s
    | none =>
      if !inU w then s else if w ∈ s.1 then s
      else if p w then (s.1, some w)
      else dfsRec nb inU p f s.1 w

theorem dftRec_succ (f : Nat) (s : List Nat × List Nat) (v : Nat) :
    dftRec nb inU ffr (f+1) s v =
      (nb v).foldl (stepT nb inU ffr f) (s.1 ++ [v], if ffr v then s.2 ++ [v] else s.2) := rfl

theorem dfsRec_succ (f : Nat) (vis : List Nat) (v : Nat) :
    dfsRec nb inU p (f+1) vis v = (nb v).foldl (stepS nb inU p f) (vis ++ [v], none) := rfl

theorem foldS_some (f : Nat) (l : List Nat) : ∀ vis x,
    l.foldl (stepS nb inU p f) (vis, some x) = (vis, some x) := by
  induction l with
  | nil => intro vis x; rfl
  | cons w l ih => intro vis x; simp only [List.foldl_cons]; exact ih vis x

/-- `out` factors out of the fold, given that it factors out of the recursive calls -/
theorem foldT_out (f : Nat)
    (hrec : ∀ vis out v, dftRec nb inU ffr f (vis, out) v =
      ((dftRec nb inU ffr f (vis, []) v).1, out ++ (dftRec nb inU ffr f (vis, []) v).2))
    (l : List Nat) : ∀ vis out,
    l.foldl (stepT nb inU ffr f) (vis, out) =
      ((l.foldl (stepT nb inU ffr f) (vis, [])).1,
        out ++ (l.foldl (stepT nb inU ffr f) (vis, [])).2) := by
  induction l with
  | nil => intro vis out; simp
  | cons w l ih =>
    intro vis out
    simp only [List.foldl_cons]
    by_cases h1 : inU w = true
    · by_cases h2 : w ∈ vis
      · simp only [stepT, h1, h2, Bool.not_true, Bool.false_eq_true, if_false, if_true]
        exact ih vis out
      · simp only [stepT, h1, h2, Bool.not_true, Bool.false_eq_true, if_false]
        rw [hrec vis out w, ih _ (out ++ _)]
        generalize dftRec nb inU ffr f (vis, []) w = r
        rw [show r = (r.1, r.2) from rfl, ih r.1 r.2]
        simp
    · simp only [stepT, h1]
      simpa using ih vis out

theorem dftRec_out (f : Nat) : ∀ vis out v,
    dftRec nb inU ffr f (vis, out) v =
      ((dftRec nb inU ffr f (vis, []) v).1, out ++ (dftRec nb inU ffr f (vis, []) v).2) := by
  induction f with
  | zero => intro vis out v; simp [dftRec]
  | succ f ih =>
    intro vis out v
    rw [dftRec_succ, dftRec_succ]
    simp only []
    rw [foldT_out nb inU ffr f ih (nb v) _ (if ffr v = true then out ++ [v] else out),
      foldT_out nb inU ffr f ih (nb v) _ (if ffr v = true then [] ++ [v] else [])]
    by_cases h3 : ffr v = true <;> simp [h3]

theorem foldT_out' (f : Nat) (l : List Nat) (vis out : List Nat) :
    l.foldl (stepT nb inU ffr f) (vis, out) =
      ((l.foldl (stepT nb inU ffr f) (vis, [])).1,
        out ++ (l.foldl (stepT nb inU ffr f) (vis, [])).2) :=
  foldT_out nb inU ffr f (dftRec_out nb inU ffr f) l vis out

/-- visited list: no duplicates, all ids below `n` -/
def VInv (n : Nat) (vis : List Nat) : Prop := vis.Nodup ∧ ∀ y ∈ vis, y < n

theorem VInv.length_le {n : Nat} {l : List Nat} (h : VInv n l) : l.length ≤ n := by
  have : l.Subperm (List.range n) :=
    List.Nodup.subperm h.1 (by intro y hy; simp [h.2 y hy])
  simpa using this.length_le

theorem VInv.snoc {n : Nat} {l : List Nat} {v : Nat} (h : VInv n l) (hv : v < n)
    (hm : v ∉ l) : VInv n (l ++ [v]) := by
  refine ⟨?_, ?_⟩
  · rw [List.nodup_append]
    refine ⟨h.1, by simp, ?_⟩
    intro a ha b hb
    simp at hb; subst hb
    intro e; subst e; exact hm ha
  · intro y hy
    rcases List.mem_append.1 hy with hy | hy
    · exact h.2 y hy
    · simp at hy; subst hy; exact hv

theorem foldT_inv (n f : Nat)
    (hrec : ∀ s v, VInv n s.1 → v < n → v ∉ s.1 →
      VInv n (dftRec nb inU ffr f s v).1 ∧ s.1.length ≤ (dftRec nb inU ffr f s v).1.length)
    (l : List Nat) : ∀ s, (∀ w ∈ l, w < n) → VInv n s.1 →
      VInv n (l.foldl (stepT nb inU ffr f) s).1 ∧
        s.1.length ≤ (l.foldl (stepT nb inU ffr f) s).1.length := by
  induction l with
  | nil => intro s _ h; exact ⟨h, Nat.le_refl _⟩
  | cons w l ih =>
    intro s hl h
    have hw : w < n := hl w (by simp)
    have hl' : ∀ x ∈ l, x < n := fun x hx => hl x (by simp [hx])
    simp only [List.foldl_cons]
    by_cases h1 : inU w = true
    · by_cases h2 : w ∈ s.1
      · simp only [stepT, h1, h2, Bool.not_true, Bool.false_eq_true, if_false, if_true]
        exact ih s hl' h
      · simp only [stepT, h1, h2, Bool.not_true, Bool.false_eq_true, if_false]
        obtain ⟨a, b⟩ := hrec s w h hw h2
        obtain ⟨c, d⟩ := ih _ hl' a
        exact ⟨c, Nat.le_trans b d⟩
    · simp only [stepT, h1]
      simpa using ih s hl' h

theorem dftRec_inv (n : Nat) (hb : Bounded nb n) (f : Nat) : ∀ s v, VInv n s.1 → v < n → v ∉ s.1 →
    VInv n (dftRec nb inU ffr f s v).1 ∧ s.1.length ≤ (dftRec nb inU ffr f s v).1.length := by
  induction f with
  | zero => intro s v h _ _; exact ⟨h, Nat.le_refl _⟩
  | succ f ih =>
    intro s v h hv hm
    rw [dftRec_succ]
    obtain ⟨a, b⟩ := foldT_inv nb inU ffr n f ih (nb v)
      (s.1 ++ [v], if ffr v then s.2 ++ [v] else s.2) (hb v hv) (h.snoc hv hm)
    refine ⟨a, ?_⟩
    simp at b
    omega

/-- the comparison statement for one recursive call with fuel `f` -/
def RecSpec (n f : Nat) : Prop :=
  ∀ vis v, VInv n vis → v < n → v ∉ vis → n ≤ vis.length + f →
    (∀ y ∈ vis, p y = false) → p v = false →
    match (dfsRec nb inU p f vis v).2 with
    | some x => (dftRec nb inU (fun _ => true) f (vis, []) v).2.find? p = some x
    | none => (dfsRec nb inU p f vis v).1 = (dftRec nb inU (fun _ => true) f (vis, []) v).1 ∧
        (dftRec nb inU (fun _ => true) f (vis, []) v).2.find? p = none ∧
        ∀ y ∈ (dfsRec nb inU p f vis v).1, p y = false

theorem foldS_spec (n : Nat) (hb : Bounded nb n) (f : Nat) (hrec : RecSpec nb inU p n f)
    (l : List Nat) : ∀ vis, (∀ w ∈ l, w < n) → VInv n vis → n ≤ vis.length + f →
    (∀ y ∈ vis, p y = false) →
    match (l.foldl (stepS nb inU p f) (vis, none)).2 with
    | some x => (l.foldl (stepT nb inU (fun _ => true) f) (vis, [])).2.find? p = some x
    | none => (l.foldl (stepS nb inU p f) (vis, none)).1 =
          (l.foldl (stepT nb inU (fun _ => true) f) (vis, [])).1 ∧
        (l.foldl (stepT nb inU (fun _ => true) f) (vis, [])).2.find? p = none ∧
        ∀ y ∈ (l.foldl (stepS nb inU p f) (vis, none)).1, p y = false := by
  induction l with
  | nil => intro vis _ _ _ hp; simpa using hp
  | cons w l ih =>
    intro vis hl hv hf hp
    have hw : w < n := hl w (by simp)
    have hl' : ∀ x ∈ l, x < n := fun x hx => hl x (by simp [hx])
    simp only [List.foldl_cons]
    by_cases h1 : inU w = true
    · by_cases h2 : w ∈ vis
      · have e1 : stepS nb inU p f (vis, none) w = (vis, none) := by simp [stepS, h1, h2]
        have e2 : stepT nb inU (fun _ => true) f (vis, []) w = (vis, []) := by
          simp [stepT, h1, h2]
        rw [e1, e2]; exact ih vis hl' hv hf hp
      · -- fuel is positive
        have hlen := (hv.snoc hw h2).length_le
        simp at hlen
        obtain ⟨f', rfl⟩ : ∃ f', f = f' + 1 := ⟨f - 1, by omega⟩
        have e2 : stepT nb inU (fun _ => true) (f'+1) (vis, []) w =
            dftRec nb inU (fun _ => true) (f'+1) (vis, []) w := by simp [stepT, h1, h2]
        rw [e2]
        by_cases hpw : p w = true
        · have e1 : stepS nb inU p (f'+1) (vis, none) w = (vis, some w) := by
            simp [stepS, h1, h2, hpw]
          rw [e1, foldS_some]
          simp only []
          rw [dftRec_succ]
          simp only [if_true]
          rw [foldT_out']
          simp only []
          rw [foldT_out' nb inU (fun _ => true) f' (nb w) (vis ++ [w]) ([] ++ [w])]
          simp [hpw]
        · have hpw' : p w = false := by simpa using hpw
          have e1 : stepS nb inU p (f'+1) (vis, none) w = dfsRec nb inU p (f'+1) vis w := by
            simp [stepS, h1, h2, hpw']
          rw [e1]
          have hr := hrec vis w hv hw h2 hf hp hpw'
          obtain ⟨ti1, ti2⟩ := dftRec_inv nb inU (fun _ => true) n hb (f'+1) (vis, []) w hv hw h2
          generalize dftRec nb inU (fun _ => true) (f'+1) (vis, []) w = T at hr ti1 ti2 ⊢
          generalize dfsRec nb inU p (f'+1) vis w = S at hr ⊢
          obtain ⟨S1, S2⟩ := S
          obtain ⟨T1, T2⟩ := T
          cases S2 with
          | some x =>
            simp only [] at hr
            rw [foldS_some]
            simp only []
            rw [foldT_out']
            simp [List.find?_append, hr]
          | none =>
            simp only [] at hr ti1 ti2
            obtain ⟨r1, r2, r3⟩ := hr
            subst r1
            have := ih S1 hl' ti1 (by omega) r3
            rw [foldT_out' nb inU (fun _ => true) (f'+1) l S1 T2]
            simp only [List.find?_append, r2, Option.none_or]
            exact this
    · have e1 : stepS nb inU p f (vis, none) w = (vis, none) := by simp [stepS, h1]
      have e2 : stepT nb inU (fun _ => true) f (vis, []) w = (vis, []) := by simp [stepT, h1]
      rw [e1, e2]; exact ih vis hl' hv hf hp

theorem recSpec (n : Nat) (hb : Bounded nb n) (f : Nat) : RecSpec nb inU p n f := by
  induction f with
  | zero =>
    intro vis v hv hw hm hf _ _
    have hlen := (hv.snoc hw hm).length_le
    simp at hlen
    omega
  | succ f ih =>
    intro vis v hv hw hm hf hp hpv
    rw [dfsRec_succ, dftRec_succ]
    simp only [if_true]
    have hp' : ∀ y ∈ vis ++ [v], p y = false := by
      intro y hy
      rcases List.mem_append.1 hy with hy | hy
      · exact hp y hy
      · simp at hy; subst hy; exact hpv
    have := foldS_spec nb inU p n hb f ih (nb v) (vis ++ [v]) (hb v hw) (hv.snoc hw hm)
      (by simp; omega) hp'
    rw [foldT_out' nb inU (fun _ => true) f (nb v) (vis ++ [v]) ([] ++ [v])]
    simp only [List.nil_append, List.find?_append, List.find?_cons, hpv, List.find?_nil,
      Option.none_or]
    exact this

theorem dfsRecursive_eq_find (n : Nat) (hb : Bounded nb n) (s : Nat) (hs : s < n) (f : Nat)
    (hf : n + 1 ≤ f) :
    dfsRecursive nb inU p f s = (dftRecursive nb inU (fun _ => true) f s).find? p := by
  unfold dfsRecursive dftRecursive
  have hv : VInv n [] := ⟨List.nodup_nil, by simp⟩
  by_cases hp : p s = true
  · obtain ⟨f', rfl⟩ : ∃ f', f = f' + 1 := ⟨f - 1, by omega⟩
    rw [dftRec_succ]
    simp only [if_true]
    rw [foldT_out']
    simp [hp]
  · have hp' : p s = false := by simpa using hp
    have := recSpec nb inU p n hb f [] s hv hs (by simp) (by simp; omega) (by simp) hp'
    simp only [hp', Bool.false_eq_true, if_false]
    cases hc : (dfsRec nb inU p f [] s).2 with
    | some x => rw [hc] at this; simp only [] at this; exact this.symm
    | none => rw [hc] at this; simp only [] at this; exact this.2.1.symm

end SearchAux
end T
end EG
