import EG.Proofs.Fold
/-
  EG.Proofs.StepBasic — facts about the generic step function that hold for every record of
  primitives and every world (no invariant): a raising / rejected call changes nothing.
-/
set_option linter.unusedSimpArgs false
set_option linter.unusedVariables false
namespace EG
namespace C

theorem neighbors_err (F : Nat → LId → Option VId → Bool) (w : World) (v : VId) (dir unk : Nat)
    (filt fault : Option Nat) (w' : World) (e : Err)
    (h : M.neighbors w F v dir unk filt fault = (w', .error e)) : w' = w := by
  simp only [M.neighbors] at h
  revert h; (repeat' split) <;> intro h <;> cases h <;> rfl

/-- a call that raises or is rejected leaves the world as it was, whatever the primitives -/
theorem step_raise (P : Prims) (F : Nat → LId → Option VId → Bool) (w : World) (op : Op)
    (h : (∃ e, (step P F w op).2 = .err e) ∨ (step P F w op).2 = .bad) : (step P F w op).1 = w := by
  have ho : ∀ r, ((∃ e, (ofOpt w r).2 = .err e) ∨ (ofOpt w r).2 = .bad) → (ofOpt w r).1 = w := by
    intro r hr; cases r with
    | none => rfl
    | some w' => simp [ofOpt] at hr
  have he : ∀ r, ((∃ e, (ofExc w r).2 = .err e) ∨ (ofExc w r).2 = .bad) → (ofExc w r).1 = w := by
    intro r hr; cases r with
    | error e => rfl
    | ok w' => simp [ofExc] at hr
  cases op <;> simp only [step] at h ⊢
  all_goals first
    | rfl
    | (revert h; (repeat' split) <;> intro h <;>
        first
        | rfl
        | exact ho _ h
        | exact he _ h
        | (exfalso; simp at h; done)
        | (rename_i hn; exact neighbors_err _ _ _ _ _ _ _ _ _ hn))

end C
end EG
