import EG.Step
/-
  EG.Proofs.Fold — the list loops of the compound operations (`addVertices`, `addToLinks`,
  `uniAddVertices`, `joinUniverses`, `unlinkEach`) as instances of one generic
  option-valued fold, with the three generic facts used about it: agreement of two folds
  under an invariant, preservation of an invariant, and the closed `List.foldl` form when
  the body is total.
-/
set_option linter.unusedSimpArgs false
set_option linter.unusedVariables false
namespace EG

/-- left fold of an option-valued body, stopping at the first `none` -/
def foldOpt {α : Type} (f : World → α → Option World) (w : World) : List α → Option World
  | [] => some w
  | x :: xs => match f w x with
    | none => none
    | some w => foldOpt f w xs

/-- two folds agree when their bodies agree on every world satisfying an invariant `R` that
    the second body preserves -/
theorem foldOpt_agree {α : Type} (f g : World → α → Option World) (R : World → Prop)
    (xs : List α)
    (hfg : ∀ w x, R w → x ∈ xs → f w x = g w x)
    (hR : ∀ w x w', R w → x ∈ xs → g w x = some w' → R w') :
    ∀ w, R w → foldOpt f w xs = foldOpt g w xs := by
  induction xs with
  | nil => intro w _; rfl
  | cons x xs ih =>
    intro w hw
    simp only [foldOpt]
    rw [hfg w x hw (by simp)]
    cases hg : g w x with
    | none => rfl
    | some w' =>
      simp only []
      exact ih (fun w y h hy => hfg w y h (by simp [hy]))
        (fun w y w' h hy => hR w y w' h (by simp [hy])) w' (hR w x w' hw (by simp) hg)

/-- a total body gives a plain `List.foldl` -/
theorem foldOpt_total {α : Type} (g : World → α → World) (xs : List α) :
    ∀ w, foldOpt (fun w x => some (g w x)) w xs = some (xs.foldl g w) := by
  induction xs with
  | nil => intro w; rfl
  | cons x xs ih => intro w; simp only [foldOpt, List.foldl_cons]; exact ih _

/-- invariant rule for `List.foldl` with membership information -/
theorem foldl_inv {α : Type} (g : World → α → World) (R : World → Prop) (xs : List α)
    (hR : ∀ w x, R w → x ∈ xs → R (g w x)) : ∀ w, R w → R (xs.foldl g w) := by
  induction xs with
  | nil => intro w h; exact h
  | cons x xs ih =>
    intro w h
    simp only [List.foldl_cons]
    exact ih (fun w y h hy => hR w y h (by simp [hy])) _ (hR w x h (by simp))

/-- invariant rule for `foldOpt` -/
theorem foldOpt_inv {α : Type} (f : World → α → Option World) (R : World → Prop) (xs : List α)
    (hR : ∀ w x w', R w → x ∈ xs → f w x = some w' → R w') :
    ∀ w w', R w → foldOpt f w xs = some w' → R w' := by
  induction xs with
  | nil => intro w w' h e; simp only [foldOpt] at e; cases e; exact h
  | cons x xs ih =>
    intro w w' h e
    simp only [foldOpt] at e
    cases hf : f w x with
    | none => rw [hf] at e; cases e
    | some w1 =>
      rw [hf] at e
      exact ih (fun w y w' h hy => hR w y w' h (by simp [hy])) w1 w' (hR w x w1 h (by simp) hf) e

namespace C

theorem addVertices_eq_fold (P : Prims) (l : LId) (xs : List (Option VId)) :
    ∀ w, addVertices P w l xs = foldOpt (fun w x => P.addVertex w l x) w xs := by
  induction xs with
  | nil => intro w; rfl
  | cons x xs ih =>
    intro w; simp only [addVertices, foldOpt]
    cases P.addVertex w l x with
    | none => rfl
    | some w' => exact ih w'

theorem addToLinks_eq_fold (P : Prims) (v : VId) (ls : List LId) :
    ∀ w, addToLinks P w v ls = foldOpt (fun w l => P.addToLink w v l) w ls := by
  induction ls with
  | nil => intro w; rfl
  | cons x xs ih =>
    intro w; simp only [addToLinks, foldOpt]
    cases P.addToLink w v x with
    | none => rfl
    | some w' => exact ih w'

theorem uniAddVertices_eq_fold (P : Prims) (u : VId) (vs : List VId) :
    ∀ w, uniAddVertices P w u vs = foldOpt (fun w v => P.uniAddVertex w u v) w vs := by
  induction vs with
  | nil => intro w; rfl
  | cons x xs ih =>
    intro w; simp only [uniAddVertices, foldOpt]
    cases P.uniAddVertex w u x with
    | none => rfl
    | some w' => exact ih w'

theorem joinUniverses_eq_fold (P : Prims) (v : VId) (us : List VId) :
    ∀ w, joinUniverses P w v us = foldOpt (fun w u => P.uniAddVertex w u v) w us := by
  induction us with
  | nil => intro w; rfl
  | cons x xs ih =>
    intro w; simp only [joinUniverses, foldOpt]
    cases P.uniAddVertex w x v with
    | none => rfl
    | some w' => exact ih w'

/-- the body of `unlinkEach` -/
def unlinkBoth (P : Prims) (a b : VId) (w : World) (l : LId) : Option World :=
  match P.unlinkFrom w l (some a) with
  | none => none
  | some w => P.unlinkFrom w l (some b)

theorem unlinkEach_eq_fold (P : Prims) (a b : VId) (ls : List LId) :
    ∀ w, unlinkEach P w a b ls = foldOpt (unlinkBoth P a b) w ls := by
  induction ls with
  | nil => intro w; rfl
  | cons x xs ih =>
    intro w; simp only [unlinkEach, foldOpt, unlinkBoth]
    cases P.unlinkFrom w x (some a) with
    | none => rfl
    | some w' =>
      simp only []
      cases P.unlinkFrom w' x (some b) with
      | none => rfl
      | some w'' => exact ih w''

end C
end EG
