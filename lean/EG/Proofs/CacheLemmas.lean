import EG.Proofs.Inv
/-
  EG.Proofs.CacheLemmas — helper lemmas for C05 (what a memoised `neighbors()` answer
  depends on; which vertices every mutator invalidates).
-/
set_option linter.unusedSimpArgs false
set_option linter.unusedVariables false
namespace EG

/-! ### what `nbLoop` reads -/

/-- KEY LEMMA: the loop of `neighbors` reads only `lcls` and `ends` of the links it visits -/
theorem nbLoop_congr (w w' : World) (F : Nat → LId → Option VId → Bool) (v : VId) (dir unk : Nat)
    (filt fault : Option Nat) (ls : List LId)
    (h : ∀ l ∈ ls, w'.lcls l = w.lcls l ∧ w'.ends l = w.ends l) :
    ∀ acc cnt, M.nbLoop w' F v dir unk filt fault ls acc cnt =
      M.nbLoop w F v dir unk filt fault ls acc cnt := by
  induction ls with
  | nil => intro acc cnt; rfl
  | cons l ls ih =>
    intro acc cnt
    have hl := h l (by simp)
    have ih' := ih (fun l' hl' => h l' (by simp [hl']))
    simp only [M.nbLoop, M.other, hl.1, hl.2, ih']

/-- the recomputed answer for `x` depends only on `links x` and on `lcls`, `ends` of the
    links attached to `x` -/
theorem neighborsPure_congr (w w' : World) (F : Nat → LId → Option VId → Bool) (x : VId)
    (dir unk : Nat) (filt : Option Nat) (hl : w'.links x = w.links x)
    (h : ∀ l ∈ w.links x, w'.lcls l = w.lcls l ∧ w'.ends l = w.ends l) :
    M.neighborsPure w' F x dir unk filt = M.neighborsPure w F x dir unk filt := by
  simp only [M.neighborsPure, hl]
  exact nbLoop_congr w w' F x dir unk filt none _ h [] 0

/-- a fault index that is never reached does not change the result -/
theorem nbLoop_nofault (w : World) (F : Nat → LId → Option VId → Bool) (v : VId) (dir unk : Nat)
    (filt fault : Option Nat) (ls : List LId) :
    ∀ acc cnt r, M.nbLoop w F v dir unk filt fault ls acc cnt = .ok r →
      M.nbLoop w F v dir unk filt none ls acc cnt = .ok r := by
  induction ls with
  | nil => intro acc cnt r h; exact h
  | cons l ls ih =>
    intro acc cnt r h
    simp only [M.nbLoop] at h ⊢
    cases ho : M.other w l v with
    | error e => rw [ho] at h; cases h
    | ok v2 =>
      rw [ho] at h
      simp only [] at h ⊢
      cases hp : M.pre (w.lcls l).kind ((w.ends l).getD 0 none) ((w.ends l).getD 1 none) v dir unk with
      | skip => rw [hp] at h; exact ih _ _ _ h
      | raise e => rw [hp] at h; cases h
      | filt =>
        rw [hp] at h
        simp only [] at h ⊢
        cases filt with
        | none => exact ih _ _ _ h
        | some k =>
          simp only [] at h ⊢
          by_cases hf : fault = some (cnt + 1)
          · simp only [hf, if_true] at h; cases h
          · simp only [hf, if_false] at h
            have hn : ¬ ((none : Option Nat) = some (cnt + 1)) := by simp
            simp only [hn, if_false]
            by_cases hF : F k l v2 = true
            · simp only [hF, if_true] at h ⊢; exact ih _ _ _ h
            · simp only [hF] at h ⊢; exact ih _ _ _ h

/-! ### correctness of the memo tables -/

/-- every memoised answer equals the recomputed one (`CacheOK` of `EG.Props.C05`) -/
def CacheGood (F : Nat → LId → Option VId → Bool) (w : World) : Prop :=
  ∀ v key ans, M.cacheLookup key (w.cache v) = some ans →
    M.neighborsPure w F v key.dir key.unk key.filt = .ok ans

/-- vertex `x` is untouched by the change `w ↦ w'` as far as `neighbors(x)` is concerned -/
def Unch (w w' : World) (x : VId) : Prop :=
  w'.cache x = w.cache x ∧ w'.links x = w.links x ∧
    ∀ l ∈ w.links x, w'.lcls l = w.lcls l ∧ w'.ends l = w.ends l

/-- memo tables stay correct under any change that clears the memo of every vertex it
    touches -/
theorem cacheGood_of (F : Nat → LId → Option VId → Bool) (w w' : World) (h : CacheGood F w)
    (hc : ∀ x, w'.cache x = [] ∨ Unch w w' x) : CacheGood F w' := by
  intro x key ans hk
  rcases hc x with h0 | ⟨h1, h2, h3⟩
  · rw [h0] at hk; simp [M.cacheLookup] at hk
  · rw [h1] at hk
    rw [neighborsPure_congr w w' F x _ _ _ h2 h3]
    exact h x key ans hk

/-- nothing that `neighbors` reads or writes is changed -/
theorem cacheGood_same (F : Nat → LId → Option VId → Bool) (w w' : World) (h : CacheGood F w)
    (h1 : w'.cache = w.cache) (h2 : w'.links = w.links) (h3 : w'.lcls = w.lcls)
    (h4 : w'.ends = w.ends) : CacheGood F w' :=
  cacheGood_of F w w' h (fun x => Or.inr ⟨by rw [h1], by rw [h2], fun l _ => ⟨by rw [h3], by rw [h4]⟩⟩)

theorem cacheGood_init (F : Nat → LId → Option VId → Bool) : CacheGood F World.init := by
  intro v key ans h; simp [World.init, M.cacheLookup] at h

/-! ### queries -/

/-- the world after a query: unchanged, or one entry — a correct one — is consed in front
    of the memo of the queried vertex -/
theorem neighbors_world (w : World) (F : Nat → LId → Option VId → Bool) (v : VId) (dir unk : Nat)
    (filt fault : Option Nat) :
    (M.neighbors w F v dir unk filt fault).1 = w ∨
    ∃ ans, M.neighborsPure w F v dir unk filt = .ok ans ∧
      (M.neighbors w F v dir unk filt fault).1 =
        { w with cache := upd w.cache v ((⟨dir, unk, filt⟩, ans) :: w.cache v) } := by
  simp only [M.neighbors]
  cases hl : (if (w.caching && !M.unhashable filt) = true then M.cacheLookup ⟨dir, unk, filt⟩ (w.cache v) else none) with
  | some a => exact Or.inl rfl
  | none =>
    simp only []
    cases hn : M.nbLoop w F v dir unk filt fault (w.links v) [] 0 with
    | error e => exact Or.inl rfl
    | ok ans =>
      simp only []
      cases hc : (w.caching && !M.unhashable filt) with
      | false => exact Or.inl rfl
      | true =>
        exact Or.inr ⟨ans, nbLoop_nofault w F v dir unk filt fault _ _ _ _ hn, rfl⟩

theorem cacheGood_insert (F : Nat → LId → Option VId → Bool) (w w' : World) (v : VId) (dir unk : Nat)
    (filt : Option Nat) (ans : List (Option VId)) (h : CacheGood F w)
    (ha : M.neighborsPure w F v dir unk filt = .ok ans)
    (h1 : w'.cache = upd w.cache v ((⟨dir, unk, filt⟩, ans) :: w.cache v))
    (h2 : w'.links = w.links) (h3 : w'.lcls = w.lcls) (h4 : w'.ends = w.ends) :
    CacheGood F w' := by
  intro x key a hk
  rw [neighborsPure_congr w w' F x _ _ _ (by rw [h2]) (fun _ _ => ⟨by rw [h3], by rw [h4]⟩)]
  rw [h1] at hk
  by_cases hx : x = v
  · subst hx
    simp only [upd_same, M.cacheLookup] at hk
    split at hk
    · rename_i hkey; cases hk; subst hkey; exact ha
    · exact h x key a hk
  · simp only [upd_other _ _ _ _ hx] at hk
    exact h x key a hk

/-- answers: a hit is correct by `CacheGood`, a miss is the recomputation itself -/
theorem neighbors_answer (w : World) (F : Nat → LId → Option VId → Bool) (v : VId) (dir unk : Nat)
    (filt : Option Nat) (h : CacheGood F w) :
    (M.neighbors w F v dir unk filt none).2 = M.neighborsPure w F v dir unk filt := by
  simp only [M.neighbors]
  cases hl : (if (w.caching && !M.unhashable filt) = true then M.cacheLookup ⟨dir, unk, filt⟩ (w.cache v) else none) with
  | some a =>
    simp only []
    cases hc : (w.caching && !M.unhashable filt) with
    | false => simp [hc] at hl
    | true =>
      simp only [hc, if_true] at hl
      exact (h v ⟨dir, unk, filt⟩ a hl).symm
  | none =>
    simp only [M.neighborsPure]
    cases hn : M.nbLoop w F v dir unk filt none (w.links v) [] 0 with
    | error e => rfl
    | ok ans => rfl

/-- with the flag off the answer is the recomputation, whatever the memo tables hold -/
theorem neighbors_answer_off (w : World) (F : Nat → LId → Option VId → Bool) (v : VId)
    (dir unk : Nat) (filt : Option Nat) (hc : w.caching = false) :
    (M.neighbors w F v dir unk filt none).2 = M.neighborsPure w F v dir unk filt := by
  simp only [M.neighbors, hc, M.neighborsPure]
  cases hn : M.nbLoop w F v dir unk filt none (w.links v) [] 0 with
  | error e => rfl
  | ok ans => rfl

/-! ### every primitive of the reference model clears the memo of every vertex it touches -/
namespace S

theorem addToLink_cache (F : Nat → LId → Option VId → Bool) (w : World) (v : VId) (l : LId)
    (hs : Sym w) (h : CacheGood F w) : CacheGood F (S.addToLink w v l) := by
  refine cacheGood_of F w _ h ?_
  intro x
  by_cases hc : x = v ∨ (l ∉ w.links v ∧ some v ∉ w.ends l ∧ some x ∈ w.ends l)
  · left; simp only [S.addToLink, hc, if_true]
  · right
    refine ⟨by simp only [S.addToLink, hc, if_false], ?_, ?_⟩
    · simp only [S.addToLink]; grind
    · intro l' hl'
      have := hs.1 x l'
      refine ⟨rfl, ?_⟩
      simp only [S.addToLink]; grind

theorem addVertex_cache (F : Nat → LId → Option VId → Bool) (w : World) (l : LId)
    (new : Option VId) (hs : Sym w) (h : CacheGood F w) : CacheGood F (S.addVertex w l new) := by
  refine cacheGood_of F w _ h ?_
  intro x
  by_cases hc : some x ∈ w.ends l ++ [new]
  · left; simp only [S.addVertex, hc, if_true]
  · right
    refine ⟨by simp only [S.addVertex, hc, if_false], ?_, ?_⟩
    · simp only [S.addVertex]; grind
    · intro l' hl'
      have := hs.1 x l'
      refine ⟨rfl, ?_⟩
      simp only [S.addVertex]; grind

theorem removeFromLink_cache (F : Nat → LId → Option VId → Bool) (w : World) (v : VId) (l : LId)
    (hs : Sym w) (h : CacheGood F w) : CacheGood F (S.removeFromLink w v l) := by
  refine cacheGood_of F w _ h ?_
  intro x
  by_cases hc : x = v ∨ (l ∈ w.links v ∧ some v ∈ w.ends l ∧ some x ∈ w.ends l)
  · left; simp only [S.removeFromLink, hc, if_true]
  · right
    refine ⟨by simp only [S.removeFromLink, hc, if_false], ?_, ?_⟩
    · simp only [S.removeFromLink]; grind
    · intro l' hl'
      have := hs.1 x l'; have := hs.1 v l
      refine ⟨rfl, ?_⟩
      simp only [S.removeFromLink]; grind

theorem unlinkFrom_cache (F : Nat → LId → Option VId → Bool) (w : World) (l : LId)
    (kill : Option VId) (hs : Sym w) (h : CacheGood F w) : CacheGood F (S.unlinkFrom w l kill) := by
  refine cacheGood_of F w _ h ?_
  intro x
  cases kill with
  | none =>
    by_cases hc : none ∈ w.ends l ∧ some x ∈ w.ends l
    · left; simp only [S.unlinkFrom, hc, and_self, if_true]
    · right
      refine ⟨by simp only [S.unlinkFrom, hc, if_false], rfl, ?_⟩
      intro l' hl'
      have := hs.1 x l'
      have := erase_none_not_mem (w.ends l)
      refine ⟨rfl, ?_⟩
      simp only [S.unlinkFrom]; grind
  | some k =>
    by_cases hc : some k ∈ w.ends l ∧ some x ∈ w.ends l
    · left; simp only [S.unlinkFrom, hc, and_self, if_true]
    · right
      refine ⟨by simp only [S.unlinkFrom, hc, if_false], ?_, ?_⟩
      · simp only [S.unlinkFrom]; grind
      · intro l' hl'
        have := hs.1 x l'
        have := filter_ne_self (w.ends l) (some k)
        refine ⟨rfl, ?_⟩
        simp only [S.unlinkFrom]; grind

theorem getD_mem (es : List (Option VId)) (i : Nat) (x : VId) (h : some x = es.getD i none) :
    some x ∈ es := by
  induction es generalizing i with
  | nil => simp at h
  | cons y ys ih =>
    cases i with
    | zero => simp at h; simp [h]
    | succ j => simp at h; exact List.mem_cons_of_mem _ (ih j (by simpa using h))

theorem replaceEnd_cache (F : Nat → LId → Option VId → Bool) (w : World) (l : LId) (idx : Nat)
    (new : Option VId) (hi : idx < (w.ends l).length) (hs : Sym w) (h : CacheGood F w) :
    CacheGood F (S.replaceEnd w l idx new) := by
  refine cacheGood_of F w _ h ?_
  intro x
  have hnew : new ∈ (w.ends l).set idx new := List.mem_set hi new
  by_cases hc : some x ∈ w.ends l ∨ some x ∈ (w.ends l).set idx new
  · left; simp only [S.replaceEnd, hc, if_true]
  · right
    have hold : some x ≠ (w.ends l).getD idx none := fun e => hc (Or.inl (getD_mem _ _ _ e))
    have hn : some x ≠ new := fun e => hc (Or.inr (e ▸ hnew))
    refine ⟨by simp only [S.replaceEnd, hc, if_false], ?_, ?_⟩
    · simp only [S.replaceEnd, hold, hn, false_and, if_false]
    · intro l' hl'
      have := hs.1 x l'
      refine ⟨rfl, ?_⟩
      simp only [S.replaceEnd]; grind

theorem uniAddVertex_cache (F : Nat → LId → Option VId → Bool) (w : World) (u v : VId)
    (h : CacheGood F w) : CacheGood F (S.uniAddVertex w u v) := cacheGood_same F w _ h rfl rfl rfl rfl
theorem addToUniverse_cache (F : Nat → LId → Option VId → Bool) (w : World) (v u : VId)
    (h : CacheGood F w) : CacheGood F (S.addToUniverse w v u) := cacheGood_same F w _ h rfl rfl rfl rfl
theorem uniRemoveVertex_cache (F : Nat → LId → Option VId → Bool) (w : World) (u v : VId)
    (h : CacheGood F w) : CacheGood F (S.uniRemoveVertex w u v) := cacheGood_same F w _ h rfl rfl rfl rfl
theorem removeFromUniverse_cache (F : Nat → LId → Option VId → Bool) (w : World) (v u : VId)
    (h : CacheGood F w) : CacheGood F (S.removeFromUniverse w v u) :=
  cacheGood_same F w _ h rfl rfl rfl rfl

theorem setLaws_cache (F : Nat → LId → Option VId → Bool) (w : World) (u : VId) (x : Option WId)
    (h : CacheGood F w) : CacheGood F (S.setLaws w u x) := by
  unfold S.setLaws; split
  · exact h
  · exact cacheGood_same F w _ h rfl rfl rfl rfl

theorem setAppliesTo_cache (F : Nat → LId → Option VId → Bool) (w : World) (L : WId)
    (x : Option VId) (h : CacheGood F w) : CacheGood F (S.setAppliesTo w L x) := by
  unfold S.setAppliesTo; split
  · exact h
  · exact cacheGood_same F w _ h rfl rfl rfl rfl

end S

/-! ### allocation, invalidation, flag -/

theorem allocLink_cache (F : Nat → LId → Option VId → Bool) (w : World) (c : LCls)
    (hs : Sym w) (hf : Fresh w) (h : CacheGood F w) : CacheGood F (M.allocLink w c).1 := by
  refine cacheGood_of F w _ h (fun x => Or.inr ⟨rfl, rfl, ?_⟩)
  intro l hl
  have hne : l ≠ w.nL := by
    intro e; subst e
    have := (hs.1 x w.nL).mp hl
    rw [hf.1 _ (Nat.le_refl _)] at this; simp at this
  simp only [M.allocLink, upd, hne, if_false, and_self]

theorem allocVertex_cache (F : Nat → LId → Option VId → Bool) (w : World) (c : VCls)
    (attrs : List (Nat × Nat)) (us : List VId) (h : CacheGood F w) :
    CacheGood F (M.allocVertex w c attrs us).1 := by
  refine cacheGood_of F w _ h ?_
  intro x
  by_cases hx : x = w.nV
  · left; subst hx; simp [M.allocVertex]
  · right; simp [Unch, M.allocVertex, upd, hx]

theorem allocLaws_cache (F : Nat → LId → Option VId → Bool) (w : World) (r : Nat)
    (h : CacheGood F w) : CacheGood F (M.allocLaws w r).1 := cacheGood_same F w _ h rfl rfl rfl rfl

theorem invalidate_cache (F : Nat → LId → Option VId → Bool) (w : World) (v : VId)
    (h : CacheGood F w) : CacheGood F (w.invalidate v) := by
  refine cacheGood_of F w _ h ?_
  intro x
  by_cases hx : x = v
  · left; subst hx; simp [World.invalidate]
  · right; simp [Unch, World.invalidate, upd, hx]

theorem flag_cache (F : Nat → LId → Option VId → Bool) (w : World) (on : Bool)
    (h : CacheGood F w) : CacheGood F { w with caching := on } := cacheGood_same F w _ h rfl rfl rfl rfl

/-! ### queries keep the memo tables correct -/

theorem neighbors_cache (F : Nat → LId → Option VId → Bool) (w : World) (v : VId) (dir unk : Nat)
    (filt fault : Option Nat) (h : CacheGood F w) :
    CacheGood F (M.neighbors w F v dir unk filt fault).1 := by
  rcases neighbors_world w F v dir unk filt fault with e | ⟨ans, ha, e⟩
  · rw [e]; exact h
  · rw [e]; exact cacheGood_insert F w _ v dir unk filt ans h ha rfl rfl rfl rfl

/-! ### loops and constructors of the reference model -/
namespace C

theorem addVertices_cache (F : Nat → LId → Option VId → Bool) (w : World) (l : LId)
    (xs : List (Option VId)) (hs : Sym w) (h : CacheGood F w) :
    ∃ w', addVertices S.prims w l xs = some w' ∧ Sym w' ∧ CacheGood F w' := by
  rw [addVertices_eq_fold]
  show ∃ w', foldOpt (fun w x => some (S.addVertex w l x)) w xs = some w' ∧ _
  rw [foldOpt_total]
  refine ⟨_, rfl, ?_⟩
  refine foldl_inv _ (fun w' => Sym w' ∧ CacheGood F w') xs ?_ w ⟨hs, h⟩
  rintro w' x ⟨h1, h2⟩ _
  exact ⟨S.addVertex_sym _ _ _ h1, S.addVertex_cache F _ _ _ h1 h2⟩

theorem addToLinks_cache (F : Nat → LId → Option VId → Bool) (w : World) (v : VId)
    (ls : List LId) (hs : Sym w) (h : CacheGood F w) :
    ∃ w', addToLinks S.prims w v ls = some w' ∧ Sym w' ∧ CacheGood F w' ∧ w'.unis = w.unis := by
  rw [addToLinks_eq_fold]
  show ∃ w', foldOpt (fun w l => some (S.addToLink w v l)) w ls = some w' ∧ _
  rw [foldOpt_total]
  refine ⟨_, rfl, ?_⟩
  refine foldl_inv _ (fun w' => Sym w' ∧ CacheGood F w' ∧ w'.unis = w.unis) ls ?_ w ⟨hs, h, rfl⟩
  rintro w' x ⟨h1, h2, h3⟩ _
  exact ⟨S.addToLink_sym _ _ _ h1, S.addToLink_cache F _ _ _ h1 h2, h3⟩

theorem unlinkEach_cache (F : Nat → LId → Option VId → Bool) (w : World) (a b : VId)
    (ls : List LId) (hs : Sym w) (h : CacheGood F w) :
    ∃ w', unlinkEach S.prims w a b ls = some w' ∧ Sym w' ∧ CacheGood F w' := by
  rw [unlinkEach_eq_fold]
  show ∃ w', foldOpt (fun w l => some (S.unlinkFrom (S.unlinkFrom w l (some a)) l (some b))) w ls
    = some w' ∧ _
  rw [foldOpt_total]
  refine ⟨_, rfl, ?_⟩
  refine foldl_inv _ (fun w' => Sym w' ∧ CacheGood F w') ls ?_ w ⟨hs, h⟩
  rintro w' x ⟨h1, h2⟩ _
  exact ⟨S.unlinkFrom_sym _ _ _ (S.unlinkFrom_sym _ _ _ h1),
    S.unlinkFrom_cache F _ _ _ (S.unlinkFrom_sym _ _ _ h1) (S.unlinkFrom_cache F _ _ _ h1 h2)⟩

theorem uniAddVertices_cache (F : Nat → LId → Option VId → Bool) (w : World) (u : VId)
    (vs : List VId) (h : CacheGood F w) :
    ∃ w', uniAddVertices S.prims w u vs = some w' ∧ CacheGood F w' := by
  rw [uniAddVertices_eq_fold]
  show ∃ w', foldOpt (fun w v => some (S.uniAddVertex w u v)) w vs = some w' ∧ _
  rw [foldOpt_total]
  refine ⟨_, rfl, ?_⟩
  exact foldl_inv _ (fun w' => CacheGood F w') vs
    (fun w' x h1 _ => S.uniAddVertex_cache F _ _ _ h1) w h

theorem joinUniverses_cache (F : Nat → LId → Option VId → Bool) (w : World) (v : VId)
    (us : List VId) (h : CacheGood F w) :
    ∃ w', joinUniverses S.prims w v us = some w' ∧ CacheGood F w' := by
  rw [joinUniverses_eq_fold]
  show ∃ w', foldOpt (fun w u => some (S.uniAddVertex w u v)) w us = some w' ∧ _
  rw [foldOpt_total]
  refine ⟨_, rfl, ?_⟩
  exact foldl_inv _ (fun w' => CacheGood F w') us
    (fun w' x h1 _ => S.uniAddVertex_cache F _ _ _ h1) w h

theorem newLink_cache (F : Nat → LId → Option VId → Bool) (w : World) (c : LCls)
    (vs : List (Option VId)) (hi : Inv w) (h : CacheGood F w) (w' : World) (l : LId)
    (e : newLink S.prims w c vs = .ok (w', l)) : CacheGood F w' := by
  obtain ⟨w2, e2, _, hc2⟩ := addVertices_cache F (M.allocLink w c).1 w.nL vs
    (allocLink_inv w c hi).1 (allocLink_cache F w c hi.1 hi.2.2.2 h)
  simp only [M.allocLink] at e2
  simp only [newLink, M.allocLink, e2] at e
  cases e; exact hc2

theorem newVertex_cache (F : Nat → LId → Option VId → Bool) (w : World) (c : VCls)
    (attrs : List (Nat × Nat)) (ls : List LId) (us : List VId) (hi : Inv w)
    (hus : ∀ u ∈ us, u < w.nV) (h : CacheGood F w) (w' : World) (v : VId)
    (e : newVertex S.prims w c attrs ls us = .ok (w', v)) : CacheGood F w' := by
  obtain ⟨w2, e2, _, hc2, _⟩ := addToLinks_cache F (M.allocVertex w c attrs us).1 w.nV ls
    (allocVertex_pre w c attrs us hi hus).1 (allocVertex_cache F w c attrs us h)
  obtain ⟨w3, e3, hc3⟩ := joinUniverses_cache F w2 w.nV (w2.unis w.nV) hc2
  simp only [M.allocVertex] at e2
  simp only [newVertex, M.allocVertex, e2, e3] at e
  cases e; exact invalidate_cache F _ _ hc3

theorem preLaws_cache (F : Nat → LId → Option VId → Bool) (w : World) (attrs : List (Nat × Nat))
    (L : Option WId) (h : CacheGood F w) : CacheGood F (preLaws w attrs L).1 := by
  have h1 : CacheGood F ((M.allocVertex w .UNI attrs []).1.invalidate w.nV) :=
    invalidate_cache F _ _ (allocVertex_cache F w .UNI attrs [] h)
  cases L with
  | some L => exact h1
  | none => exact allocLaws_cache F _ 0 h1

theorem newUniverse_cache (F : Nat → LId → Option VId → Bool) (w : World)
    (attrs : List (Nat × Nat)) (vs : List VId) (L : Option WId) (h : CacheGood F w)
    (w' : World) (u : VId) (e : newUniverse S.prims w attrs vs L = .ok (w', u)) :
    CacheGood F w' := by
  rw [newUniverse_unfold] at e
  have e4 : S.prims.setLaws (preLaws w attrs L).1 w.nV (some (preLaws w attrs L).2) =
    some (S.setLaws (preLaws w attrs L).1 w.nV (some (preLaws w attrs L).2)) := rfl
  obtain ⟨w5, e5, hc5⟩ := uniAddVertices_cache F _ w.nV vs
    (S.setLaws_cache F (preLaws w attrs L).1 w.nV (some (preLaws w attrs L).2)
      (preLaws_cache F w attrs L h))
  simp only [e4, e5] at e
  cases e; exact hc5

theorem unlink_cache (F : Nat → LId → Option VId → Bool) (w : World) (a b : VId) (hs : Sym w)
    (h : CacheGood F w) (w' : World) (J : List LId)
    (e : unlink S.prims w F a b = .ok (w', J)) : CacheGood F w' := by
  simp only [unlink] at e
  split at e
  · cases e
  · rename_i J' hJ
    obtain ⟨w2, e2, _, hc2⟩ := unlinkEach_cache F w a b J' hs h
    rw [e2] at e
    cases e; exact hc2

theorem linkFromTo_cache (F : Nat → LId → Option VId → Bool) (w : World) (a : VId) (c : LCls)
    (b : VId) (dd : Bool) (hi : Inv w) (h : CacheGood F w) (w' : World) (l : LId)
    (e : linkFromTo S.prims w a c b dd = .ok (w', l)) : CacheGood F w' := by
  simp only [linkFromTo] at e
  split at e
  · split at e
    · cases e
    · cases e; exact h
    · exact newLink_cache F w c _ hi h _ _ e
  · exact newLink_cache F w c _ hi h _ _ e

end C

/-! ### every public call keeps the memo tables correct -/

theorem step_cache (F : Nat → LId → Option VId → Bool) (w : World) (op : Op) (hi : Inv w)
    (h : CacheGood F w) : CacheGood F (S.step F w op).1 := by
  cases op <;> simp only [S.step, C.step]
  case newVertex c attrs ls us =>
    split
    · exact h
    · rename_i hg
      simp only [Bool.or_eq_true, Bool.not_eq_true', not_or, Bool.not_eq_false] at hg
      have hus : ∀ u ∈ us, u < w.nV := by
        have := hg.2; simp [World.isUni] at this; exact fun u hu => (this u hu).1
      split
      · exact h
      · rename_i e; exact C.newVertex_cache F w c attrs ls us hi hus h _ _ e
  case newUniverse attrs ms L =>
    cases L <;> simp only []
    all_goals
      split
      · exact h
      · split
        · exact h
        · rename_i e; exact C.newUniverse_cache F w attrs ms _ h _ _ e
  case newLaws r => exact allocLaws_cache F w r h
  case newEdge c a b =>
    split
    · exact h
    · split
      · exact h
      · rename_i e; exact C.newLink_cache F w c _ hi h _ _ e
  case rejected => exact h
  case newNLink vs =>
    split
    · exact h
    · split
      · exact h
      · rename_i e; exact C.newLink_cache F w .N _ hi h _ _ e
  case setV1 l x =>
    split
    · exact h
    · rw [C.setEnd_S]; split
      · exact h
      · exact S.replaceEnd_cache F w l 0 x (by omega) hi.1 h
  case setV2 l x =>
    split
    · exact h
    · rw [C.setEnd_S]; split
      · exact h
      · exact S.replaceEnd_cache F w l 1 x (by omega) hi.1 h
  case addToLink v l =>
    split
    · exact h
    · exact S.addToLink_cache F w v l hi.1 h
  case removeFromLink v l =>
    split
    · exact h
    · exact S.removeFromLink_cache F w v l hi.1 h
  case addVertex l x =>
    split
    · exact h
    · exact S.addVertex_cache F w l x hi.1 h
  case unlinkFrom l x =>
    split
    · exact h
    · exact S.unlinkFrom_cache F w l x hi.1 h
  case linkFromTo a c b dd =>
    split
    · exact h
    · split
      · exact h
      · rename_i e; exact C.linkFromTo_cache F w a c b dd hi h _ _ e
  case unlink a b d =>
    split
    · exact h
    · split
      · exact h
      · rename_i e; exact C.unlink_cache F w a b hi.1 h _ _ e
  case uniAdd u v =>
    split
    · exact h
    · exact S.uniAddVertex_cache F w u v h
  case vAdd v u =>
    split
    · exact h
    · exact S.addToUniverse_cache F w v u h
  case uniRemove u v =>
    split
    · exact h
    · show CacheGood F (C.ofExc w (if v ∈ w.members u then .ok (S.uniRemoveVertex w u v) else .error .value)).1
      split
      · exact S.uniRemoveVertex_cache F w u v h
      · exact h
  case vRemove v u =>
    split
    · exact h
    · show CacheGood F (C.ofExc w (if u ∈ w.unis v then .ok (S.removeFromUniverse w v u) else .error .value)).1
      split
      · exact S.removeFromUniverse_cache F w v u h
      · exact h
  case setLaws u L =>
    cases L <;> simp only []
    all_goals
      split
      · exact h
      · exact S.setLaws_cache F w u _ h
  case setAppliesTo L u =>
    cases u <;> simp only []
    all_goals
      split
      · exact h
      · exact S.setAppliesTo_cache F w L _ h
  case flag on => exact flag_cache F w on h
  case neighbors v dir unk filt fault =>
    split
    · exact h
    · have hn := neighbors_cache F w v dir unk filt fault h
      generalize M.neighbors w F v dir unk filt fault = r at hn ⊢
      obtain ⟨w', a⟩ := r
      cases a <;> exact hn
  case findLinks a b ds unk filt fault =>
    split
    · exact h
    · split <;> exact h

/-- the mirror model's step -/
theorem step_cache_M (F : Nat → LId → Option VId → Bool) (w : World) (op : Op) (hi : Inv w)
    (h : CacheGood F w) : CacheGood F (M.step F w op).1 := by
  rw [step_agree F w op hi]; exact step_cache F w op hi h

theorem runFrom_cache (F : Nat → LId → Option VId → Bool) (ops : List Op) :
    ∀ w, Inv w → CacheGood F w → CacheGood F (M.runFrom F w ops).1 := by
  induction ops with
  | nil => intro w _ h; exact h
  | cons op ops ih =>
    intro w hi h
    have e : C.step M.prims F w op = C.step S.prims F w op := step_agree F w op hi
    have h1 : CacheGood F (C.step S.prims F w op).1 := step_cache F w op hi h
    have ih' := ih (C.step S.prims F w op).1 (step_inv F w op hi) h1
    simp only [M.runFrom, C.runFrom] at ih' ⊢
    rw [e]; exact ih'

theorem run_cache (F : Nat → LId → Option VId → Bool) (ops : List Op) :
    CacheGood F (M.run F ops).1 :=
  runFrom_cache F ops World.init inv_init (cacheGood_init F)

end EG

