import EG.Props.C10Load
/-
  Helper lemmas for EG/Props/C10Sim.lean: the abstract unpickler cannot tell `Build1 k n, Pop, Get i`
  from `Discard k n, Get i` — except that the first leaves one unreachable object behind, which
  shifts the addresses of everything allocated afterwards.  `VSim fs B A`: machine `A` is machine `B`
  with every reference `r` renamed to `fs[r]` (an injection into A's addresses; A may hold garbage
  outside its image).  One step of `B` is matched by the same step of `A` (`step_sim`), and a run of `B`
  on `normalize ops` by a run of `A` on `ops` (`run_sim_norm`).
-/
set_option linter.unusedSimpArgs false
set_option linter.unusedVariables false
namespace EG
namespace Pk

def mapV (fs : List Nat) : Val → Val
  | .atom a => .atom a
  | .ref r => .ref (fs.getD r 0)

def mapSV (fs : List Nat) : SV → SV
  | .mark => .mark
  | .amark => .amark
  | .val v => .val (mapV fs v)

def mapNode (fs : List Nat) (n : VNode) : VNode := ⟨n.kind, n.before.map (mapV fs), n.after.map (mapV fs)⟩

def VOk (n : Nat) : Val → Prop
  | .atom _ => True
  | .ref r => r < n

def SVOk (n : Nat) : SV → Prop
  | .val v => VOk n v
  | _ => True

theorem VOk.mono {n m : Nat} {v : Val} (h : VOk n v) (hnm : n ≤ m) : VOk m v := by
  cases v with
  | atom a => trivial
  | ref r => exact Nat.lt_of_lt_of_le h hnm

theorem SVOk.mono {n m : Nat} {x : SV} (h : SVOk n x) (hnm : n ≤ m) : SVOk m x := by
  cases x with
  | val v => exact VOk.mono h hnm
  | mark => trivial
  | amark => trivial

/-- every reference held anywhere in the machine is allocated -/
structure WF (B : VM) : Prop where
  stack : ∀ x ∈ B.stack, SVOk B.next x
  memo : ∀ v ∈ B.memo, VOk B.next v
  heap : ∀ r, r < B.next → (∀ v ∈ (B.heap r).before, VOk B.next v) ∧ (∀ v ∈ (B.heap r).after, VOk B.next v)

structure VSim (fs : List Nat) (B A : VM) : Prop where
  len : fs.length = B.next
  stack : A.stack = B.stack.map (mapSV fs)
  memo : A.memo = B.memo.map (mapV fs)
  heap : ∀ r, r < B.next → A.heap (fs.getD r 0) = mapNode fs (B.heap r)
  lt : ∀ r, r < B.next → fs.getD r 0 < A.next
  inj : ∀ r r', r < B.next → r' < B.next → fs.getD r 0 = fs.getD r' 0 → r = r'

theorem getD_append_lt (fs e : List Nat) (r : Nat) (h : r < fs.length) : (fs ++ e).getD r 0 = fs.getD r 0 := by
  simp only [List.getD_eq_getElem?_getD, List.getElem?_append_left h]

theorem getD_append_len (fs : List Nat) (x : Nat) : (fs ++ [x]).getD fs.length 0 = x := by
  simp [List.getD_eq_getElem?_getD]

theorem mapV_append {fs : List Nat} (e : List Nat) {v : Val} (h : VOk fs.length v) : mapV (fs ++ e) v = mapV fs v := by
  cases v with
  | atom a => rfl
  | ref r => simp only [mapV, getD_append_lt fs e r h]

theorem mapSV_append {fs : List Nat} (e : List Nat) {x : SV} (h : SVOk fs.length x) : mapSV (fs ++ e) x = mapSV fs x := by
  cases x with
  | val v => simp only [mapSV, mapV_append e h]
  | mark => rfl
  | amark => rfl

theorem map_mapV_append {fs : List Nat} (e : List Nat) {vs : List Val} (h : ∀ v ∈ vs, VOk fs.length v) :
    vs.map (mapV (fs ++ e)) = vs.map (mapV fs) :=
  List.map_congr_left (fun v hv => mapV_append e (h v hv))

theorem map_mapSV_append {fs : List Nat} (e : List Nat) {st : List SV} (h : ∀ x ∈ st, SVOk fs.length x) :
    st.map (mapSV (fs ++ e)) = st.map (mapSV fs) :=
  List.map_congr_left (fun x hx => mapSV_append e (h x hx))

theorem mapNode_append {fs : List Nat} (e : List Nat) {n : VNode}
    (h1 : ∀ v ∈ n.before, VOk fs.length v) (h2 : ∀ v ∈ n.after, VOk fs.length v) :
    mapNode (fs ++ e) n = mapNode fs n := by
  simp only [mapNode, map_mapV_append e h1, map_mapV_append e h2]

/-- popping to a marker commutes with the renaming -/
theorem popTo_map (fs : List Nat) (m : SV) (hm : ∀ v, m ≠ .val v) : ∀ st : List SV,
    popTo m (st.map (mapSV fs)) = (popTo m st).map (fun p => (p.1.map (mapV fs), p.2.map (mapSV fs))) := by
  have hmm : mapSV fs m = m := by
    cases m with
    | val v => exact absurd rfl (hm v)
    | mark => rfl
    | amark => rfl
  intro st
  induction st with
  | nil => rfl
  | cons x rest ih =>
    simp only [List.map_cons, popTo]
    by_cases hx : x = m
    · subst hx; simp only [hmm, if_true, Option.map_some, List.map_nil]
    · have hx' : mapSV fs x ≠ m := by
        intro h
        cases x with
        | val v => cases m with
          | val w => exact hm w rfl
          | mark => cases h
          | amark => cases h
        | mark => cases m with
          | val w => exact hm w rfl
          | mark => exact hx rfl
          | amark => cases h
        | amark => cases m with
          | val w => exact hm w rfl
          | mark => cases h
          | amark => exact hx rfl
      simp only [hx, hx', if_false]
      cases x with
      | val v =>
        simp only [mapSV, ih]
        cases popTo m rest with
        | none => rfl
        | some p => simp
      | mark => rfl
      | amark => rfl

theorem popTo_ok (n : Nat) (m : SV) : ∀ (st : List SV) (vs : List Val) (rest : List SV),
    popTo m st = some (vs, rest) → (∀ x ∈ st, SVOk n x) → (∀ v ∈ vs, VOk n v) ∧ (∀ x ∈ rest, SVOk n x) := by
  intro st
  induction st with
  | nil => intro vs rest h; simp [popTo] at h
  | cons x tl ih =>
    intro vs rest h hok
    simp only [popTo] at h
    by_cases hx : x = m
    · simp only [hx, if_true, Option.some.injEq, Prod.mk.injEq] at h
      obtain ⟨h1, h2⟩ := h
      subst h1; subst h2
      exact ⟨fun v hv => by simp at hv, fun y hy => hok y (List.mem_cons_of_mem _ hy)⟩
    · simp only [hx, if_false] at h
      cases x with
      | val v =>
        simp only [] at h
        cases hp : popTo m tl with
        | none => rw [hp] at h; cases h
        | some p =>
          rw [hp] at h
          simp only [Option.some.injEq, Prod.mk.injEq] at h
          obtain ⟨h1, h2⟩ := h
          obtain ⟨g1, g2⟩ := ih p.1 p.2 (by rw [hp]) (fun y hy => hok y (List.mem_cons_of_mem _ hy))
          subst h1; subst h2
          refine ⟨?_, g2⟩
          intro w hw
          rw [List.mem_append] at hw
          rcases hw with hw | hw
          · exact g1 w hw
          · simp at hw; subst hw; exact hok _ (List.mem_cons_self)
      | mark => cases h
      | amark => cases h

/-- unreachable garbage in `A` does not disturb the simulation -/
theorem VSim.garbage {fs : List Nat} {B A : VM} (h : VSim fs B A) (g : VNode) :
    VSim fs B { A with heap := upd A.heap A.next g, next := A.next + 1 } := by
  refine ⟨h.len, h.stack, h.memo, ?_, ?_, h.inj⟩
  · intro r hr
    have := h.lt r hr
    show upd A.heap A.next g (fs.getD r 0) = _
    rw [upd_other _ _ _ _ (Nat.ne_of_lt this)]
    exact h.heap r hr
  · intro r hr; exact Nat.lt_succ_of_lt (h.lt r hr)

theorem no_val_mark : ∀ v, SV.mark ≠ .val v := fun v h => by cases h
theorem no_val_amark : ∀ v, SV.amark ≠ .val v := fun v h => by cases h

def hasAfterOf (tupK : Nat → Bool) (heap : Nat → VNode) : Val → Bool
  | .ref r => !tupK (heap r).kind
  | .atom _ => false

theorem vmStep_memo (tupK : Nat → Bool) (s : VM) (v : Val) (rest : List SV) (h : s.stack = .val v :: rest) :
    vmStep tupK s .memo = some { s with memo := s.memo ++ [v], stack := if hasAfterOf tupK s.heap v = true then .amark :: s.stack else s.stack } := by
  simp only [vmStep, h]
  cases v <;> rfl

/-- one step of `B` is matched by the same step of `A` -/
theorem step_sim (tupK : Nat → Bool) {fs : List Nat} {B A B' : VM} (op : POp)
    (hs : VSim fs B A) (hw : WF B) (hb : vmStep tupK B op = some B') :
    ∃ fs' A', vmStep tupK A op = some A' ∧ VSim fs' B' A' ∧ WF B' := by
  cases op with
  | atom a =>
    simp only [vmStep, Option.some.injEq] at hb
    subst hb
    refine ⟨fs, { A with stack := .val (.atom a) :: A.stack }, rfl, ⟨hs.len, ?_, hs.memo, hs.heap, hs.lt, hs.inj⟩, ⟨?_, hw.memo, hw.heap⟩⟩
    · show SV.val (.atom a) :: A.stack = _
      rw [hs.stack]; rfl
    · intro x hx
      rcases List.mem_cons.mp hx with h | h
      · subst h; trivial
      · exact hw.stack x h
  | opn k =>
    simp only [vmStep, Option.some.injEq] at hb
    subst hb
    refine ⟨fs, { A with stack := .mark :: A.stack }, rfl, ⟨hs.len, ?_, hs.memo, hs.heap, hs.lt, hs.inj⟩, ⟨?_, hw.memo, hw.heap⟩⟩
    · show SV.mark :: A.stack = _
      rw [hs.stack]; rfl
    · intro x hx
      rcases List.mem_cons.mp hx with h | h
      · subst h; trivial
      · exact hw.stack x h
  | get i =>
    simp only [vmStep] at hb
    cases hm : B.memo[i]? with
    | none => rw [hm] at hb; cases hb
    | some v =>
      rw [hm] at hb
      simp only [Option.some.injEq] at hb
      subst hb
      have hv : v ∈ B.memo := List.mem_of_getElem? hm
      have hA : A.memo[i]? = some (mapV fs v) := by rw [hs.memo, List.getElem?_map, hm]; rfl
      refine ⟨fs, { A with stack := .val (mapV fs v) :: A.stack }, ?_, ⟨hs.len, ?_, hs.memo, hs.heap, hs.lt, hs.inj⟩, ⟨?_, hw.memo, hw.heap⟩⟩
      · simp only [vmStep, hA]
      · show SV.val (mapV fs v) :: A.stack = _
        rw [hs.stack]; rfl
      · intro x hx
        rcases List.mem_cons.mp hx with h | h
        · subst h; exact hw.memo v hv
        · exact hw.stack x h
  | pop =>
    simp only [vmStep] at hb
    cases hst : B.stack with
    | nil => rw [hst] at hb; cases hb
    | cons x rest =>
      rw [hst] at hb
      cases x with
      | mark => cases hb
      | amark => cases hb
      | val v =>
        simp only [Option.some.injEq] at hb
        subst hb
        have hA : A.stack = .val (mapV fs v) :: rest.map (mapSV fs) := by rw [hs.stack, hst]; rfl
        refine ⟨fs, { A with stack := rest.map (mapSV fs) }, ?_, ⟨hs.len, rfl, hs.memo, hs.heap, hs.lt, hs.inj⟩, ⟨?_, hw.memo, hw.heap⟩⟩
        · simp only [vmStep, hA]
        · intro y hy; exact hw.stack y (by rw [hst]; exact List.mem_cons_of_mem _ hy)
  | discard k n =>
    simp only [vmStep] at hb
    cases hp : popTo .mark B.stack with
    | none => rw [hp] at hb; cases hb
    | some p =>
      rw [hp] at hb
      simp only [] at hb
      by_cases hl : p.1.length = n
      · simp only [hl, if_true, Option.some.injEq] at hb
        subst hb
        have hA : popTo .mark A.stack = some (p.1.map (mapV fs), p.2.map (mapSV fs)) := by
          rw [hs.stack, popTo_map fs .mark no_val_mark, hp]; rfl
        obtain ⟨_, g2⟩ := popTo_ok B.next .mark B.stack p.1 p.2 (by rw [hp]) hw.stack
        refine ⟨fs, { A with stack := p.2.map (mapSV fs) }, ?_, ⟨hs.len, rfl, hs.memo, hs.heap, hs.lt, hs.inj⟩, ⟨g2, hw.memo, hw.heap⟩⟩
        simp only [vmStep, hA, List.length_map, hl, if_true]
      · simp only [hl, if_false] at hb; cases hb
  | memo =>
    cases hst : B.stack with
    | nil => simp only [vmStep, hst] at hb; cases hb
    | cons x rest =>
      cases x with
      | mark => simp only [vmStep, hst] at hb; cases hb
      | amark => simp only [vmStep, hst] at hb; cases hb
      | val v =>
        rw [vmStep_memo tupK B v rest hst] at hb
        simp only [Option.some.injEq] at hb
        subst hb
        have hA : A.stack = .val (mapV fs v) :: rest.map (mapSV fs) := by rw [hs.stack, hst]; rfl
        have hvok : VOk B.next v := hw.stack (.val v) (by rw [hst]; exact List.mem_cons_self)
        have hsame : hasAfterOf tupK A.heap (mapV fs v) = hasAfterOf tupK B.heap v := by
          cases v with
          | atom a => rfl
          | ref r =>
            simp only [mapV, hasAfterOf]
            rw [hs.heap r hvok]; rfl
        refine ⟨fs, _, vmStep_memo tupK A (mapV fs v) _ hA, ?_, ?_⟩
        · refine ⟨hs.len, ?_, ?_, hs.heap, hs.lt, hs.inj⟩
          · show (if hasAfterOf tupK A.heap (mapV fs v) = true then SV.amark :: A.stack else A.stack) =
              (if hasAfterOf tupK B.heap v = true then SV.amark :: B.stack else B.stack).map (mapSV fs)
            rw [hsame]
            cases hasAfterOf tupK B.heap v with
            | true => simp only [if_true, List.map_cons, hs.stack]; rfl
            | false => simp only [Bool.false_eq_true, if_false, hs.stack]
          · show A.memo ++ [mapV fs v] = (B.memo ++ [v]).map (mapV fs)
            simp only [hs.memo, List.map_append, List.map_cons, List.map_nil]
        · refine ⟨?_, ?_, hw.heap⟩
          · intro y hy
            have hy' : y ∈ (if hasAfterOf tupK B.heap v = true then SV.amark :: B.stack else B.stack) := hy
            cases hq : hasAfterOf tupK B.heap v with
            | true =>
              simp only [hq, if_true] at hy'
              rcases List.mem_cons.mp hy' with h | h
              · subst h; trivial
              · exact hw.stack y h
            | false =>
              simp only [hq, Bool.false_eq_true, if_false] at hy'
              exact hw.stack y hy'
          · intro y hy
            have hy' : y ∈ B.memo ++ [v] := hy
            simp only [List.mem_append, List.mem_singleton] at hy'
            rcases hy' with h | h
            · exact hw.memo y h
            · subst h; exact hvok
  | build1 k n =>
    simp only [vmStep] at hb
    cases hp : popTo .mark B.stack with
    | none => rw [hp] at hb; cases hb
    | some p =>
      rw [hp] at hb
      simp only [] at hb
      by_cases hl : p.1.length = n
      · simp only [hl, if_true, Option.some.injEq] at hb
        subst hb
        have hA : popTo .mark A.stack = some (p.1.map (mapV fs), p.2.map (mapSV fs)) := by
          rw [hs.stack, popTo_map fs .mark no_val_mark, hp]; rfl
        obtain ⟨g1, g2⟩ := popTo_ok B.next .mark B.stack p.1 p.2 (by rw [hp]) hw.stack
        have g1' : ∀ v ∈ p.1, VOk fs.length v := by rw [hs.len]; exact g1
        have g2' : ∀ x ∈ p.2, SVOk fs.length x := by rw [hs.len]; exact g2
        refine ⟨fs ++ [A.next], { A with stack := .val (.ref A.next) :: p.2.map (mapSV fs), heap := upd A.heap A.next ⟨k, p.1.map (mapV fs), []⟩, next := A.next + 1 }, ?_, ?_, ?_⟩
        · simp only [vmStep, hA, List.length_map, hl, if_true]
        · refine ⟨by simp [hs.len], ?_, ?_, ?_, ?_, ?_⟩
          · show SV.val (.ref A.next) :: p.2.map (mapSV fs) = (SV.val (.ref B.next) :: p.2).map (mapSV (fs ++ [A.next]))
            simp only [List.map_cons, mapSV, mapV, map_mapSV_append [A.next] g2']
            rw [← hs.len, getD_append_len]
          · show A.memo = B.memo.map (mapV (fs ++ [A.next]))
            rw [map_mapV_append [A.next] (by rw [hs.len]; exact hw.memo)]; exact hs.memo
          · intro r hr
            show upd A.heap A.next _ ((fs ++ [A.next]).getD r 0) = mapNode (fs ++ [A.next]) (upd B.heap B.next _ r)
            by_cases hrn : r = B.next
            · subst hrn
              rw [← hs.len, getD_append_len, upd_same, hs.len, upd_same]
              simp only [mapNode, List.map_nil, map_mapV_append [A.next] g1']
            · have hr' : r < B.next := Nat.lt_of_le_of_ne (Nat.le_of_lt_succ hr) hrn
              rw [getD_append_lt fs _ r (by rw [hs.len]; exact hr'), upd_other _ _ _ _ hrn,
                upd_other _ _ _ _ (Nat.ne_of_lt (hs.lt r hr')), hs.heap r hr']
              have := hw.heap r hr'
              rw [mapNode_append [A.next] (by rw [hs.len]; exact this.1) (by rw [hs.len]; exact this.2)]
          · intro r hr
            show (fs ++ [A.next]).getD r 0 < A.next + 1
            by_cases hrn : r = B.next
            · subst hrn; rw [← hs.len, getD_append_len]; exact Nat.lt_succ_self _
            · have hr' : r < B.next := Nat.lt_of_le_of_ne (Nat.le_of_lt_succ hr) hrn
              rw [getD_append_lt fs _ r (by rw [hs.len]; exact hr')]
              exact Nat.lt_succ_of_lt (hs.lt r hr')
          · intro r r' hr hr' he
            have key : ∀ x, x < B.next + 1 → (fs ++ [A.next]).getD x 0 = if x = B.next then A.next else fs.getD x 0 := by
              intro x hx
              by_cases hxn : x = B.next
              · subst hxn; rw [← hs.len, getD_append_len]; simp
              · have hx' : x < B.next := Nat.lt_of_le_of_ne (Nat.le_of_lt_succ hx) hxn
                rw [getD_append_lt fs _ x (by rw [hs.len]; exact hx')]; simp [hxn]
            rw [key r hr, key r' hr'] at he
            by_cases h1 : r = B.next <;> by_cases h2 : r' = B.next
            · rw [h1, h2]
            · simp only [h1, h2, if_true, if_false] at he
              have hx' : r' < B.next := Nat.lt_of_le_of_ne (Nat.le_of_lt_succ hr') h2
              exact absurd he.symm (Nat.ne_of_lt (hs.lt r' hx'))
            · simp only [h1, h2, if_true, if_false] at he
              have hx' : r < B.next := Nat.lt_of_le_of_ne (Nat.le_of_lt_succ hr) h1
              exact absurd he (Nat.ne_of_lt (hs.lt r hx'))
            · simp only [h1, h2, if_false] at he
              exact hs.inj r r' (Nat.lt_of_le_of_ne (Nat.le_of_lt_succ hr) h1) (Nat.lt_of_le_of_ne (Nat.le_of_lt_succ hr') h2) he
        · refine ⟨?_, ?_, ?_⟩
          · intro y hy
            rcases List.mem_cons.mp hy with h | h
            · subst h; exact Nat.lt_succ_self _
            · exact SVOk.mono (g2 y h) (Nat.le_succ _)
          · intro y hy; exact VOk.mono (hw.memo y hy) (Nat.le_succ _)
          · intro r hr
            show (∀ v ∈ (upd B.heap B.next _ r).before, VOk (B.next + 1) v) ∧ (∀ v ∈ (upd B.heap B.next _ r).after, VOk (B.next + 1) v)
            by_cases hrn : r = B.next
            · subst hrn; rw [upd_same]
              exact ⟨fun v hv => VOk.mono (g1 v hv) (Nat.le_succ _), fun v hv => by simp at hv⟩
            · have hr' : r < B.next := Nat.lt_of_le_of_ne (Nat.le_of_lt_succ hr) hrn
              rw [upd_other _ _ _ _ hrn]
              have := hw.heap r hr'
              exact ⟨fun v hv => VOk.mono (this.1 v hv) (Nat.le_succ _), fun v hv => VOk.mono (this.2 v hv) (Nat.le_succ _)⟩
      · simp only [hl, if_false] at hb; cases hb
  | build2 k =>
    simp only [vmStep] at hb
    cases hp : popTo .amark B.stack with
    | none => rw [hp] at hb; cases hb
    | some p =>
      rw [hp] at hb
      obtain ⟨vs, rest⟩ := p
      cases rest with
      | nil => cases hb
      | cons x rest =>
        cases x with
        | mark => cases hb
        | amark => cases hb
        | val v =>
          cases v with
          | atom a => cases hb
          | ref r =>
            simp only [Option.some.injEq] at hb
            subst hb
            have hA : popTo .amark A.stack = some (vs.map (mapV fs), .val (.ref (fs.getD r 0)) :: rest.map (mapSV fs)) := by
              rw [hs.stack, popTo_map fs .amark no_val_amark, hp]; rfl
            obtain ⟨g1, g2⟩ := popTo_ok B.next .amark B.stack vs _ (by rw [hp]) hw.stack
            have hr : r < B.next := g2 (.val (.ref r)) List.mem_cons_self
            refine ⟨fs, { A with stack := .val (.ref (fs.getD r 0)) :: rest.map (mapSV fs), heap := upd A.heap (fs.getD r 0) { (A.heap (fs.getD r 0)) with after := vs.map (mapV fs) } }, ?_, ?_, ?_⟩
            · simp only [vmStep, hA]
            · refine ⟨hs.len, rfl, hs.memo, ?_, hs.lt, hs.inj⟩
              intro r' hr'
              show upd A.heap (fs.getD r 0) _ (fs.getD r' 0) = mapNode fs (upd B.heap r _ r')
              by_cases he : r' = r
              · subst he
                rw [upd_same, upd_same, hs.heap r' hr']; rfl
              · have : fs.getD r' 0 ≠ fs.getD r 0 := fun h => he (hs.inj r' r hr' hr h)
                rw [upd_other _ _ _ _ this, upd_other _ _ _ _ he]; exact hs.heap r' hr'
            · refine ⟨g2, hw.memo, ?_⟩
              intro r' hr'
              show (∀ v ∈ (upd B.heap r _ r').before, VOk B.next v) ∧ (∀ v ∈ (upd B.heap r _ r').after, VOk B.next v)
              by_cases he : r' = r
              · subst he; rw [upd_same]; exact ⟨(hw.heap r' hr').1, g1⟩
              · rw [upd_other _ _ _ _ he]; exact hw.heap r' hr'

theorem wf_empty : WF ({} : VM) :=
  ⟨fun x hx => by simp at hx, fun v hv => by simp at hv, fun r hr => by simp at hr⟩

theorem vsim_empty : VSim [] ({} : VM) ({} : VM) :=
  ⟨rfl, rfl, rfl, fun r hr => by simp at hr, fun r hr => by simp at hr, fun r r' hr => by simp at hr⟩

/-- `Build1 k n, Pop` on `A` = leave one unreachable object behind, then `Discard k n` -/
theorem build_pop_eq_discard (tupK : Nat → Bool) (A : VM) (k n : Nat) (tl : List POp) :
    vmRun tupK A (.build1 k n :: .pop :: tl) =
      match popTo .mark A.stack with
      | some (vs, rest) =>
        if vs.length = n then
          vmRun tupK { A with heap := upd A.heap A.next ⟨k, vs, []⟩, next := A.next + 1 } (.discard k n :: tl)
        else none
      | none => none := by
  simp only [vmRun, vmStep]
  cases hp : popTo .mark A.stack with
  | none => rfl
  | some p =>
    obtain ⟨vs, rest⟩ := p
    simp only []
    by_cases hl : vs.length = n
    · simp only [hl, if_true, hp]
    · simp only [hl, if_false]

/-- a run of `B` on `normalize ops` is matched by a run of `A` on `ops` -/
theorem run_sim_norm (tupK : Nat → Bool) (ops : List POp) : ∀ (fs : List Nat) (B A B' : VM),
    VSim fs B A → WF B → vmRun tupK B (normalize ops) = some B' →
    ∃ fs' A', vmRun tupK A ops = some A' ∧ VSim fs' B' A' ∧ WF B' := by
  fun_induction normalize ops with
  | case1 k n i rest ih =>
    intro fs B A B' hs hw hb
    -- B: discard, get, …      A: build1, pop, get, …
    simp only [vmRun] at hb
    cases h1 : vmStep tupK B (.discard k n) with
    | none => rw [h1] at hb; cases hb
    | some B1 =>
      rw [h1] at hb
      simp only [] at hb
      cases h2 : vmStep tupK B1 (.get i) with
      | none => rw [h2] at hb; cases hb
      | some B2 =>
        rw [h2] at hb
        simp only [] at hb
        -- the popTo on A succeeds with the mapped values
        have hB1 := h1
        simp only [vmStep] at hB1
        cases hp : popTo .mark B.stack with
        | none => rw [hp] at hB1; cases hB1
        | some p =>
          rw [hp] at hB1
          simp only [] at hB1
          by_cases hl : p.1.length = n
          · have hA : popTo .mark A.stack = some (p.1.map (mapV fs), p.2.map (mapSV fs)) := by
              rw [hs.stack, popTo_map fs .mark no_val_mark, hp]; rfl
            rw [build_pop_eq_discard, hA]
            simp only [List.length_map, hl, if_true]
            have hs' := hs.garbage ⟨k, p.1.map (mapV fs), []⟩
            obtain ⟨fs1, A1, e1, s1, w1⟩ := step_sim tupK (.discard k n) hs' hw h1
            obtain ⟨fs2, A2, e2, s2, w2⟩ := step_sim tupK (.get i) s1 w1 h2
            obtain ⟨fs3, A3, e3, s3, w3⟩ := ih fs2 B2 A2 B' s2 w2 hb
            refine ⟨fs3, A3, ?_, s3, w3⟩
            simp only [vmRun, e1, e2]
            exact e3
          · simp only [hl, if_false] at hB1; cases hB1
  | case2 op rest hne ih =>
    intro fs B A B' hs hw hb
    simp only [vmRun] at hb
    cases h1 : vmStep tupK B op with
    | none => rw [h1] at hb; cases hb
    | some B1 =>
      rw [h1] at hb
      simp only [] at hb
      obtain ⟨fs1, A1, e1, s1, w1⟩ := step_sim tupK op hs hw h1
      obtain ⟨fs2, A2, e2, s2, w2⟩ := ih fs1 B1 A1 B' s1 w1 hb
      refine ⟨fs2, A2, ?_, s2, w2⟩
      simp only [vmRun, e1]
      exact e2
  | case3 =>
    intro fs B A B' hs hw hb
    simp only [vmRun, Option.some.injEq] at hb
    subst hb
    exact ⟨fs, A, rfl, hs, hw⟩

end Pk
end EG
