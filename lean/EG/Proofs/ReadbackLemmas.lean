import EG.Props.C11
import EG.Props.C04
import EG.Props.C09Unlink
/-
  EG.Proofs.ReadbackLemmas — helper lemmas for reading a built graph back with neighbors(),
  and for the order-independence of explicit.unlink's loop.
-/
set_option linter.unusedSimpArgs false
set_option linter.unusedVariables false
namespace EG
open Tab

/-! ### order-independence of the `unlinkEach` loop -/

theorem S.unlinkPair_comm (a b : VId) (w : World) (l l' : LId) (hne : l ≠ l') :
    S.unlinkPair a b (S.unlinkPair a b w l) l' = S.unlinkPair a b (S.unlinkPair a b w l') l := by
  apply World.ext' <;> intros <;> simp [S.unlinkPair, S.unlinkFrom, hne, Ne.symm hne] <;> grind

theorem S.unlinkEach_perm (w : World) (a b : VId) (J J' : List LId) (hp : J.Perm J') :
    C.unlinkEach S.prims w a b J = C.unlinkEach S.prims w a b J' := by
  rw [S.unlinkEach_eq, S.unlinkEach_eq]
  congr 1
  apply List.Perm.foldl_eq' hp
  intro x _ y _ z
  by_cases h : x = y
  · subst h; rfl
  · exact S.unlinkPair_comm a b z x y h

/-! ### reading the new links of a vertex back -/

/-- the new links (numbered from `b`) whose pair mentions `x` -/
def idxs (x : VId) : Nat → List (VId × VId) → List LId
  | _, [] => []
  | b, p :: ps => if (p.1 == x || p.2 == x) then b :: idxs x (b+1) ps else idxs x (b+1) ps

theorem gained_eq_idxs (x : VId) (ps : List (VId × VId)) : ∀ b : Nat,
    ((List.range ps.length).filter
      (fun i => (ps.getD i (0, 0)).1 == x || (ps.getD i (0, 0)).2 == x)).map (b + ·) = idxs x b ps := by
  induction ps with
  | nil => intro b; rfl
  | cons p ps ih =>
    intro b
    rw [List.length_cons, List.range_succ_eq_map, List.filter_cons, List.filter_map, idxs, ← ih (b+1)]
    simp only [List.getD_cons_zero]
    have : (fun i => ((p :: ps).getD i (0, 0)).1 == x || ((p :: ps).getD i (0, 0)).2 == x) ∘ Nat.succ
        = fun i => (ps.getD i (0, 0)).1 == x || (ps.getD i (0, 0)).2 == x := by
      funext i; simp
    rw [this]
    have e2 : ∀ L : List Nat, List.map (b + ·) (List.map Nat.succ L) = List.map (b + 1 + ·) L := by
      intro L; rw [List.map_map]; apply List.map_congr_left; intro i _; simp; omega
    split <;> simp [e2]

theorem collect_idxs (w' : World) (F : Nat → LId → Option VId → Bool) (x : VId) (dir unk : Nat)
    (c : LCls) (g : VId × VId → Option (Option VId))
    (hg : ∀ l a b, w'.ends l = [some a, some b] → w'.lcls l = c → (a = x ∨ b = x) →
      linkOut w' F x dir unk none l = match g (a, b) with | some o => .emit o | none => .skip) :
    ∀ (ps : List (VId × VId)) (b : Nat),
      (∀ i (h : i < ps.length), w'.ends (b + i) = [some (ps[i]).1, some (ps[i]).2] ∧ w'.lcls (b + i) = c) →
      collect w' F x dir unk none (idxs x b ps) =
        .ok ((ps.filter (fun p => p.1 == x || p.2 == x)).filterMap g) := by
  intro ps
  induction ps with
  | nil => intro b _; rfl
  | cons p ps ih =>
    intro b hb
    have h0 := hb 0 (by simp)
    have ih' := ih (b+1) (fun i h => by
      have := hb (i+1) (by simp; omega)
      simpa [Nat.add_assoc, Nat.add_comm 1 i] using this)
    simp only [Nat.add_zero, List.getElem_cons_zero] at h0
    rw [idxs, List.filter_cons]
    by_cases hq : (p.1 == x || p.2 == x) = true
    · simp only [hq, ↓reduceIte]
      have := hg b p.1 p.2 h0.1 h0.2 (by simpa using hq)
      rw [collect, this, ih']
      cases hgp : g (p.1, p.2) <;> simp [List.filterMap_cons, hgp]
    · simp only [hq, ↓reduceIte]
      exact ih'

/-! ### per-link contributions in the situations of C11 read-back -/

def gSym (x : VId) (p : VId × VId) : Option (Option VId) :=
  some (if p.1 = x then some p.2 else some p.1)
def gFwd (x : VId) (p : VId × VId) : Option (Option VId) :=
  if p.1 = x then some (some p.2) else none
def gBwd (x : VId) (p : VId × VId) : Option (Option VId) :=
  if p.2 = x then some (some p.1) else none

theorem linkOut_any (w : World) (F : Nat → LId → Option VId → Bool) (x : VId) (unk : Nat) (c : LCls)
    (hc : c.kind ≠ .nary) (l : LId) (a b : VId)
    (he : w.ends l = [some a, some b]) (hl : w.lcls l = c) (hv : a = x ∨ b = x) :
    linkOut w F x 1 unk none l = match gSym x (a, b) with | some o => .emit o | none => .skip := by
  rw [C04_link_rule w F x 1 unk none l _ _ he (by rw [hl]; exact hc) (by grind)]
  simp [specNbG, otherOf, filtOf, gSym]
  grind

theorem linkOut_und (w : World) (F : Nat → LId → Option VId → Bool) (x : VId) (dir unk : Nat) (c : LCls)
    (hc : c.kind = .undirected) (hd : dir ≤ 2) (l : LId) (a b : VId)
    (he : w.ends l = [some a, some b]) (hl : w.lcls l = c) (hv : a = x ∨ b = x) :
    linkOut w F x dir unk none l = match gSym x (a, b) with | some o => .emit o | none => .skip := by
  rw [C04_link_rule w F x dir unk none l _ _ he (by rw [hl, hc]; simp) (by grind)]
  have : ¬ dir > 2 := by omega
  simp [specNbG, otherOf, filtOf, gSym, hl, hc, this]
  grind

theorem linkOut_fwd (w : World) (F : Nat → LId → Option VId → Bool) (x : VId) (unk : Nat) (c : LCls)
    (hc : c.kind = .directed) (l : LId) (a b : VId)
    (he : w.ends l = [some a, some b]) (hl : w.lcls l = c) (hv : a = x ∨ b = x) :
    linkOut w F x 0 unk none l = match gFwd x (a, b) with | some o => .emit o | none => .skip := by
  rw [C04_link_rule w F x 0 unk none l _ _ he (by rw [hl, hc]; simp) (by grind)]
  simp [specNbG, otherOf, posOf, filtOf, gFwd, hl, hc]
  grind

theorem linkOut_bwd (w : World) (F : Nat → LId → Option VId → Bool) (x : VId) (unk : Nat) (c : LCls)
    (hc : c.kind = .directed) (l : LId) (a b : VId)
    (he : w.ends l = [some a, some b]) (hl : w.lcls l = c) (hv : a = x ∨ b = x) :
    linkOut w F x 2 unk none l = match gBwd x (a, b) with | some o => .emit o | none => .skip := by
  rw [C04_link_rule w F x 2 unk none l _ _ he (by rw [hl, hc]; simp) (by grind)]
  simp [specNbG, otherOf, posOf, filtOf, gBwd, hl, hc]
  grind

/-! ### the read-back of `load_adj_dict`, generically in the per-link contribution -/

theorem dict_readback (F : Nat → LId → Option VId → Bool) (w w' : World) (c : LCls)
    (adj : List (VId × List VId)) (u : VId) (h : Inv w) (hc : c.kind ≠ .nary) (hv : adjValid w adj)
    (hr : C.loadAdjDict M.prims w c adj = .ok (w', u)) (x : VId) (hx : x < w.nV)
    (hnew : w.links x = []) (dir unk : Nat) (g : VId × VId → Option (Option VId))
    (hg : ∀ l a b, w'.ends l = [some a, some b] → w'.lcls l = c → (a = x ∨ b = x) →
      linkOut w' F x dir unk none l = match g (a, b) with | some o => .emit o | none => .skip) :
    M.neighborsPure w' F x dir unk none =
      .ok (((dictPairs adj).filter (fun p => p.1 == x || p.2 == x)).filterMap g) := by
  have hl := C11_dict_links_of_vertex w w' c adj u h hc hv hr x hx
  obtain ⟨w'', e, hb⟩ := C11_dict_builds w c adj h hc hv
  rw [e] at hr
  cases hr
  rw [C04_order_and_multiplicity, hl, hnew, List.nil_append, gained, gained_eq_idxs]
  exact collect_idxs w' F x dir unk c g hg (dictPairs adj) w.nL hb.new_links

/-- the read-back of `load_adj_matrix`, generically in the per-link contribution -/
theorem matrix_readback (F : Nat → LId → Option VId → Bool) (w w' : World) (c : LCls)
    (matrix : List (List Bool)) (verts : List VId) (u : VId) (h : Inv w) (hc : c.kind ≠ .nary)
    (hv : ∀ v ∈ verts, v < w.nV) (hlen : verts.length = matrix.length)
    (hsq : ∀ row ∈ matrix, row.length = matrix.length)
    (hr : C.loadAdjMatrix M.prims w c matrix verts = .ok (w', u)) (x : VId) (hx : x < w.nV)
    (hnew : w.links x = []) (dir unk : Nat) (g : VId × VId → Option (Option VId))
    (hg : ∀ l a b, w'.ends l = [some a, some b] → w'.lcls l = c → (a = x ∨ b = x) →
      linkOut w' F x dir unk none l = match g (a, b) with | some o => .emit o | none => .skip) :
    M.neighborsPure w' F x dir unk none =
      .ok (((matPairs verts matrix).filter (fun p => p.1 == x || p.2 == x)).filterMap g) := by
  have hl := C11_matrix_links_of_vertex w w' c matrix verts u h hc hv hlen hsq hr x hx
  obtain ⟨w'', e, hb⟩ := C11_matrix_builds w c matrix verts h hc hv hlen hsq
  rw [e] at hr
  cases hr
  rw [C04_order_and_multiplicity, hl, hnew, List.nil_append, gained, gained_eq_idxs]
  exact collect_idxs w' F x dir unk c g hg (matPairs verts matrix) w.nL hb.new_links

/-! ### counting -/

theorem count_gSym (x y : VId) (ps : List (VId × VId)) :
    (((ps.filter (fun p => p.1 == x || p.2 == x)).filterMap (gSym x)).count (some y)) =
      (ps.filter (fun p => p.1 == x && p.2 == y)).length +
        (if x = y then 0 else (ps.filter (fun p => p.1 == y && p.2 == x)).length) := by
  induction ps with
  | nil => simp
  | cons p ps ih =>
    simp only [List.filter_cons]
    by_cases hxy : x = y
    · subst hxy
      simp only [↓reduceIte, Nat.add_zero] at ih ⊢
      by_cases h1 : p.1 = x <;> by_cases h2 : p.2 = x <;>
        simp [h1, h2, gSym, List.filterMap_cons, List.count_cons, ih] <;> (try grind)
    · simp only [hxy, ↓reduceIte] at ih ⊢
      by_cases h1 : p.1 = x <;> by_cases h2 : p.2 = x <;>
        simp [h1, h2, gSym, List.filterMap_cons, List.count_cons, ih] <;> grind

theorem count_gFwd (x y : VId) (ps : List (VId × VId)) :
    (((ps.filter (fun p => p.1 == x || p.2 == x)).filterMap (gFwd x)).count (some y)) =
      (ps.filter (fun p => p.1 == x && p.2 == y)).length := by
  induction ps with
  | nil => simp
  | cons p ps ih =>
    simp only [List.filter_cons]
    by_cases h1 : p.1 = x <;> by_cases h2 : p.2 = x <;>
      simp [h1, h2, gFwd, List.filterMap_cons, List.count_cons, ih] <;> grind

theorem count_gBwd (x y : VId) (ps : List (VId × VId)) :
    (((ps.filter (fun p => p.1 == x || p.2 == x)).filterMap (gBwd x)).count (some y)) =
      (ps.filter (fun p => p.1 == y && p.2 == x)).length := by
  induction ps with
  | nil => simp
  | cons p ps ih =>
    simp only [List.filter_cons]
    by_cases h1 : p.1 = x <;> by_cases h2 : p.2 = x <;>
      simp [h1, h2, gBwd, List.filterMap_cons, List.count_cons, ih] <;> grind

end EG
