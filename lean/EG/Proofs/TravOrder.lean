import EG.Proofs.TravCore
/-
  EG.Proofs.TravOrder — helper lemmas for C07 (BFS distance order, DFS pre-order segments,
  explicit-stack DFS = recursive DFS over reversed neighbour lists).
-/
namespace EG
namespace T

variable (nb : Nat → List Nat) (inU : Nat → Bool) (ffr : Nat → Bool)

/-! ## 1. one-level unfolding of the recursive DFS -/

theorem dftRec_unfold (s : List Nat × List Nat) (v f : Nat) :
    dftRec nb inU ffr (f + 1) s v =
      (nb v).foldl
        (fun s w => if inU w = true ∧ w ∉ s.1 then dftRec nb inU ffr f s w else s)
        (s.1 ++ [v], if ffr v then s.2 ++ [v] else s.2) := by
  rw [dftRec_succ]
  congr 1
  funext s w
  by_cases h1 : inU w = true <;> by_cases h2 : w ∈ s.1 <;> simp [dftStep, h1, h2]

/-! ## 2. the loops only consult `nb` on vertices reachable from the start -/

section congr

variable {nb inU} (nb' : Nat → List Nat) {s : Nat}

theorem bftLoop_congr (hnb : ∀ x, Reach nb inU s x → nb x = nb' x) :
    ∀ (f : Nat) (vis q out : List Nat), (∀ x ∈ q, Reach nb inU s x) →
      bftLoop nb inU ffr f vis q out = bftLoop nb' inU ffr f vis q out := by
  intro f
  induction f with
  | zero => intros; simp [bftLoop]
  | succ f ih =>
    intro vis q out hq
    cases q with
    | nil => simp [bftLoop]
    | cons u q =>
      have hu := hq u (by simp)
      simp only [bftLoop, bftScan_eq]
      rw [← hnb u hu]
      apply ih
      intro x hx
      simp only [List.mem_append] at hx
      rcases hx with hx | hx
      · exact hq x (by simp [hx])
      · have := (bftNew_spec inU (nb u) vis).1 x hx
        exact Reach.step hu this.1 this.2.1

theorem dftRec_congr (hnb : ∀ x, Reach nb inU s x → nb x = nb' x) :
    ∀ (f : Nat) (st : List Nat × List Nat) (v : Nat), Reach nb inU s v →
      dftRec nb inU ffr f st v = dftRec nb' inU ffr f st v := by
  intro f
  induction f with
  | zero => intros; simp [dftRec_zero]
  | succ f ih =>
    intro st v hv
    rw [dftRec_succ, dftRec_succ, ← hnb v hv]
    have key : ∀ (ws : List Nat) (acc : List Nat × List Nat),
        (∀ w ∈ ws, inU w = true → Reach nb inU s w) →
        ws.foldl (dftStep nb inU ffr f) acc = ws.foldl (dftStep nb' inU ffr f) acc := by
      intro ws
      induction ws with
      | nil => intros; rfl
      | cons w ws ihw =>
        intro acc hws
        simp only [List.foldl_cons]
        have e : dftStep nb inU ffr f acc w = dftStep nb' inU ffr f acc w := by
          by_cases c1 : inU w = true
          · by_cases c2 : w ∈ acc.1
            · simp [dftStep, c1, c2]
            · simp only [dftStep, c1, c2, Bool.not_true, Bool.false_eq_true, if_false]
              exact ih acc w (hws w (by simp) c1)
          · simp [dftStep, c1]
        rw [← e]
        exact ihw _ (fun x hx => hws x (by simp [hx]))
    exact key (nb v) _ (fun w hw hu => Reach.step hv hw hu)

theorem dftIterLoop_congr (hnb : ∀ x, Reach nb inU s x → nb x = nb' x) :
    ∀ (f : Nat) (st disc out : List Nat), (∀ x ∈ st, inU x = true → Reach nb inU s x) →
      dftIterLoop nb inU ffr f st disc out = dftIterLoop nb' inU ffr f st disc out := by
  intro f
  induction f with
  | zero => intros; simp [dftIterLoop]
  | succ f ih =>
    intro st disc out hst
    cases st with
    | nil => simp [dftIterLoop_nil]
    | cons v st =>
      have hst' : ∀ x ∈ st, inU x = true → Reach nb inU s x :=
        fun x hx => hst x (by simp [hx])
      by_cases c1 : v ∈ disc
      · rw [dftIterLoop_skip _ _ _ _ _ _ _ _ (Or.inl c1),
          dftIterLoop_skip _ _ _ _ _ _ _ _ (Or.inl c1)]
        exact ih _ _ _ hst'
      · by_cases c2 : inU v = true
        · have hv := hst v (by simp) c2
          rw [dftIterLoop_push _ _ _ _ _ _ _ _ c1 c2, dftIterLoop_push _ _ _ _ _ _ _ _ c1 c2,
            ← hnb v hv]
          apply ih
          intro x hx hu
          simp only [List.mem_append, List.mem_reverse] at hx
          rcases hx with hx | hx
          · exact Reach.step hv hx hu
          · exact hst' x hx hu
        · have c2' : inU v = false := by simpa using c2
          rw [dftIterLoop_skip _ _ _ _ _ _ _ _ (Or.inr c2'),
            dftIterLoop_skip _ _ _ _ _ _ _ _ (Or.inr c2')]
          exact ih _ _ _ hst'

end congr

/-! ## 3. recursive DFS: the segment listed by a call is the white-path set -/

section seg

variable {nb inU}

theorem ReachAvoiding.mono {a b : List Nat} (hab : ∀ x, x ∈ a → x ∈ b) {v y : Nat}
    (h : ReachAvoiding nb inU b v y) : ReachAvoiding nb inU a v y := by
  induction h with
  | refl hn => exact .refl (fun h => hn (hab _ h))
  | step _ hy hu hn ih => exact .step ih hy hu (fun h => hn (hab _ h))

theorem ReachAvoiding.trans {a : List Nat} {v w y : Nat} (h1 : ReachAvoiding nb inU a v w)
    (h2 : ReachAvoiding nb inU a w y) : ReachAvoiding nb inU a v y := by
  induction h2 with
  | refl _ => exact h1
  | step _ hy hu hn ih => exact .step ih hy hu hn

theorem dftRec_fst_sub (f : Nat) (st : List Nat × List Nat) (v : Nat) :
    ∀ x ∈ st.1, x ∈ (dftRec nb inU ffr f st v).1 := by
  obtain ⟨more, hm⟩ := dftRec_shape nb inU f st.1 v
  have e : dftRec nb inU ffr f st v = (st.1 ++ more, st.2 ++ more.filter ffr) := hm ffr st.2
  intro x hx
  rw [e]
  exact List.mem_append_left _ hx

/-- soundness: everything a call on `v` newly marks is reachable from `v` avoiding what was
    marked at entry -/
theorem dftRec_sound : ∀ (f : Nat) (st : List Nat × List Nat) (v : Nat), v ∉ st.1 →
    ∀ y ∈ (dftRec nb inU ffr f st v).1, y ∈ st.1 ∨ ReachAvoiding nb inU st.1 v y := by
  intro f
  induction f with
  | zero => intro st v _ y hy; rw [dftRec_zero] at hy; exact Or.inl hy
  | succ f ih =>
    intro st v hv
    rw [dftRec_succ]
    have hvv : ReachAvoiding nb inU st.1 v v := .refl hv
    have key : ∀ (ws : List Nat) (acc : List Nat × List Nat), (∀ w ∈ ws, w ∈ nb v) →
        (∀ x ∈ st.1, x ∈ acc.1) →
        (∀ y ∈ acc.1, y ∈ st.1 ∨ ReachAvoiding nb inU st.1 v y) →
        ∀ y ∈ (ws.foldl (dftStep nb inU ffr f) acc).1,
          y ∈ st.1 ∨ ReachAvoiding nb inU st.1 v y := by
      intro ws
      induction ws with
      | nil => intro acc _ _ h; simpa using h
      | cons w ws ihw =>
        intro acc hws hsub hacc
        simp only [List.foldl_cons]
        have hws' : ∀ x ∈ ws, x ∈ nb v := fun x hx => hws x (by simp [hx])
        by_cases c1 : inU w = true
        · by_cases c2 : w ∈ acc.1
          · have e : dftStep nb inU ffr f acc w = acc := by simp [dftStep, c1, c2]
            rw [e]; exact ihw acc hws' hsub hacc
          · have e : dftStep nb inU ffr f acc w = dftRec nb inU ffr f acc w := by
              simp [dftStep, c1, c2]
            rw [e]
            have hw : ReachAvoiding nb inU st.1 v w :=
              .step hvv (hws w (by simp)) c1 (fun h => c2 (hsub _ h))
            refine ihw _ hws' (fun x hx => dftRec_fst_sub ffr f acc w x (hsub x hx)) ?_
            intro y hy
            rcases ih acc w c2 y hy with h | h
            · exact hacc y h
            · exact Or.inr (hw.trans (h.mono hsub))
        · have e : dftStep nb inU ffr f acc w = acc := by simp [dftStep, c1]
          rw [e]; exact ihw acc hws' hsub hacc
    refine key (nb v) _ (fun _ h => h) (fun x hx => by simp [hx]) ?_
    intro y hy
    simp only [List.mem_append, List.mem_singleton] at hy
    rcases hy with hy | rfl
    · exact Or.inl hy
    · exact Or.inr hvv

/-- completeness: a set containing `v` and closed (outside `vis`) under in-universe
    neighbours contains everything reachable from `v` avoiding `vis` -/
theorem ReachAvoiding.mem_of_closed {vis vis' : List Nat} {v : Nat} (hv : v ∈ vis')
    (hc : ∀ y ∈ vis', y ∉ vis → ∀ z ∈ nb y, inU z = true → z ∈ vis') :
    ∀ y, ReachAvoiding nb inU vis v y → y ∈ vis' ∧ y ∉ vis := by
  intro y h
  induction h with
  | refl hn => exact ⟨hv, hn⟩
  | step _ hy hu hn ih => exact ⟨hc _ ih.1 ih.2 _ hy hu, hn⟩

theorem dftRec_segment {n : Nat} (hb : Bounded nb n) (vis out : List Nat) (v f : Nat)
    (hv : v < n) (hnv : v ∉ vis) (hvis : vis.Nodup) (hlt : ∀ y ∈ vis, y < n) (hf : n + 1 ≤ f) :
    ∃ seg : List Nat,
      dftRec nb inU (fun _ => true) f (vis, out) v = (vis ++ seg, out ++ seg) ∧
      seg.head? = some v ∧ seg.Nodup ∧
      ∀ y, y ∈ seg ↔ ReachAvoiding nb inU vis v y := by
  obtain ⟨more, hm⟩ := dftRec_shape nb inU f vis v
  have e : dftRec nb inU (fun _ => true) f (vis, out) v = (vis ++ more, out ++ more) := by
    simpa using hm (fun _ => true) out
  obtain ⟨p, mo, e2⟩ := dftRec_post (nb := nb) (inU := inU) (fun _ => true) hb
    (P := fun _ => True) (fun _ _ _ _ _ => trivial) f (vis, out) v ⟨hvis, hlt⟩ hv hnv
    (by simp only []; omega) trivial (fun _ _ => trivial)
  rw [e] at p e2
  simp only [List.append_cancel_left_eq] at e2
  have hnd := List.nodup_append.1 p.good.1
  refine ⟨more, e, by simp [e2], hnd.2.1, fun y => ⟨fun hy => ?_, fun hy => ?_⟩⟩
  · have := dftRec_sound (nb := nb) (inU := inU) (fun _ => true) f (vis, out) v hnv y
      (by rw [e]; exact List.mem_append_right _ hy)
    rcases this with h | h
    · exact absurd rfl (hnd.2.2 y h y hy)
    · exact h
  · have := ReachAvoiding.mem_of_closed (nb := nb) (inU := inU) (vis := vis)
      (vis' := vis ++ more) (v := v) (by simp [e2]) p.closed y hy
    simpa [this.2] using this.1

end seg

/-! ## 4. explicit-stack DFS simulates the recursive DFS on reversed neighbour lists -/

variable {nb inU ffr} in
/-- popping `v` (undiscovered, in the universe) from the stack and running until the stack is
    back to `rest` has the same effect on (discovered, listed) as the recursive call on `v`
    in the graph `nbr` with reversed neighbour lists; `k` = number of loop iterations used -/
theorem dftIter_sim {n : Nat} (hb : Bounded nb n) (nbr : Nat → List Nat)
    (hr : ∀ v, nbr v = (nb v).reverse) :
    ∀ (f : Nat) (acc : List Nat × List Nat) (v : Nat), Good n acc.1 → v < n → v ∉ acc.1 →
      inU v = true → n ≤ acc.1.length + f →
      ∃ k, ∀ (F : Nat) (rest : List Nat),
        dftIterLoop nb inU ffr (k + F) (v :: rest) acc.1 acc.2 =
          dftIterLoop nb inU ffr F rest (dftRec nbr inU ffr f acc v).1
            (dftRec nbr inU ffr f acc v).2 := by
  have hbr : Bounded nbr n := by
    intro x hx y hy
    rw [hr] at hy
    exact hb x hx y (by simpa using hy)
  have HP := fun f => dftRec_post (nb := nbr) (inU := inU) ffr hbr (P := fun _ => True)
    (fun _ _ _ _ _ => trivial) f
  intro f
  induction f with
  | zero =>
    intro acc v hg hv hm _ hf
    have := (hg.snoc hv hm).length_le
    simp at this hf
    omega
  | succ f ih =>
    intro acc v hg hv hm hu hf
    have key : ∀ (ws : List Nat) (acc : List Nat × List Nat), Good n acc.1 →
        n ≤ acc.1.length + f → (∀ w ∈ ws, w < n) →
        ∃ k, ∀ (F : Nat) (rest : List Nat),
          dftIterLoop nb inU ffr (k + F) (ws ++ rest) acc.1 acc.2 =
            dftIterLoop nb inU ffr F rest (ws.foldl (dftStep nbr inU ffr f) acc).1
              (ws.foldl (dftStep nbr inU ffr f) acc).2 := by
      intro ws
      induction ws with
      | nil => intro acc _ _ _; exact ⟨0, fun F rest => by simp⟩
      | cons w ws ihw =>
        intro acc hga h1 hlt
        have hw : w < n := hlt w (by simp)
        obtain ⟨p1, _⟩ := dftStep_post (HP f) acc w hga hw h1 (fun _ => trivial)
          (fun _ _ => trivial)
        have hlen := p1.length_le
        obtain ⟨k2, hk2⟩ := ihw (dftStep nbr inU ffr f acc w) p1.good (by omega)
          (fun x hx => hlt x (by simp [hx]))
        by_cases c : w ∈ acc.1 ∨ inU w = false
        · have e : dftStep nbr inU ffr f acc w = acc := by
            rcases c with c | c <;> simp [dftStep, c]
          refine ⟨k2 + 1, fun F rest => ?_⟩
          rw [show k2 + 1 + F = (k2 + F) + 1 by omega]
          simp only [List.cons_append, List.foldl_cons]
          rw [dftIterLoop_skip _ _ _ _ _ _ _ _ c, ← hk2 F rest, e]
        · have c1 : w ∉ acc.1 := fun h => c (Or.inl h)
          have c2 : inU w = true := by
            cases h : inU w
            · exact absurd (Or.inr h) c
            · rfl
          have e : dftStep nbr inU ffr f acc w = dftRec nbr inU ffr f acc w := by
            simp [dftStep, c1, c2]
          obtain ⟨k1, hk1⟩ := ih acc w hga hw c1 c2 h1
          refine ⟨k1 + k2, fun F rest => ?_⟩
          rw [show k1 + k2 + F = k1 + (k2 + F) by omega]
          simp only [List.cons_append, List.foldl_cons]
          rw [hk1 (k2 + F) (ws ++ rest), ← e]
          exact hk2 F rest
    obtain ⟨k, hk⟩ := key (nbr v) (acc.1 ++ [v], if ffr v then acc.2 ++ [v] else acc.2)
      (hg.snoc hv hm) (by simp; omega) (fun w hw => hbr v hv w hw)
    refine ⟨k + 1, fun F rest => ?_⟩
    rw [show k + 1 + F = (k + F) + 1 by omega, dftIterLoop_push _ _ _ _ _ _ _ _ hm hu,
      dftRec_succ, ← hr]
    exact hk F rest

variable {nb inU} in
theorem dftIter_eq_dftRec_reversed {n : Nat} (hb : Bounded nb n) (s : Nat) (hs : s < n)
    (hsU : inU s = true) :
    dftIterative nb inU ffr (n + degSum nb n + 2) s =
      dftRecursive (fun v => (nb v).reverse) inU ffr (n + 1) s := by
  unfold dftIterative dftRecursive
  obtain ⟨k, hk⟩ := dftIter_sim (nb := nb) (inU := inU) (ffr := ffr) hb
    (fun v => (nb v).reverse) (fun _ => rfl) (n + 1) ([], []) s
    ⟨List.nodup_nil, by simp⟩ hs (by simp) hsU (by simp)
  have h := hk (n + degSum nb n + 2) []
  rw [dftIterLoop_nil] at h
  rw [← h]
  refine dftIterLoop_fuel (nb := nb) inU ffr hb _ _ [s] [] []
    ⟨⟨List.nodup_nil, by simp⟩, by simpa using hs⟩ ?_ ?_
  · simp [remW_nil_range]; omega
  · simp [remW_nil_range]; omega

/-! ## 5. BFS: the queue is the not-yet-expanded suffix of the listing -/

/-- the listing unfolded position by position (`bftNew` form of C07's `bftSpec`) -/
def bftSpecN : Nat → List Nat → Nat → List Nat
  | 0, acc, _ => acc
  | f+1, acc, i =>
    match acc[i]? with
    | none => acc
    | some u => bftSpecN f (acc ++ bftNew inU acc (nb u)) (i + 1)

theorem bftLoop_eq_specN : ∀ (f : Nat) (acc : List Nat) (i : Nat),
    bftLoop nb inU (fun _ => true) f acc (acc.drop i) acc = bftSpecN nb inU f acc i := by
  intro f
  induction f with
  | zero => intros; simp [bftLoop, bftSpecN]
  | succ f ih =>
    intro acc i
    cases h : acc[i]? with
    | none =>
      have : acc.drop i = [] := by
        rw [List.drop_eq_nil_iff]; exact List.getElem?_eq_none_iff.1 h
      simp [this, bftLoop, bftSpecN, h]
    | some u =>
      obtain ⟨hi, rfl⟩ := List.getElem?_eq_some_iff.1 h
      rw [List.drop_eq_getElem_cons hi]
      simp only [bftLoop, bftScan_eq, List.filter_true, bftSpecN, h]
      rw [← ih, List.drop_append_of_le_length (by omega)]

/-! ## 6. BFS lists vertices in order of hop distance -/

section dist

variable {nb inU}

theorem ReachIn.mono {s k x : Nat} (h : ReachIn nb inU s k x) :
    ∀ k', k ≤ k' → ReachIn nb inU s k' x := by
  induction h with
  | refl k => intro k' _; exact .refl k'
  | step _ hy hu ih =>
    intro k' hk
    cases k' with
    | zero => omega
    | succ k' => exact .step (ih k' (by omega)) hy hu

theorem exists_min (P : Nat → Prop) (h : ∃ k, P k) : ∃ k, P k ∧ ∀ j, j < k → ¬ P j := by
  obtain ⟨k, hk⟩ := h
  induction k using Nat.strongRecOn with
  | ind k ih =>
    by_cases c : ∃ j, j < k ∧ P j
    · obtain ⟨j, hj, hp⟩ := c
      exact ih j hj hp
    · exact ⟨k, hk, fun j hj hp => c ⟨j, hj, hp⟩⟩

variable (nb inU) in
/-- hop distance from `s` (least `k` with `ReachIn s k x`; 0 for unreachable `x`) -/
noncomputable def hopDist (s x : Nat) : Nat :=
  open Classical in
  if h : ∃ k, ReachIn nb inU s k x then Classical.choose (exists_min _ h) else 0

theorem hopDist_spec {s x : Nat} (h : ∃ k, ReachIn nb inU s k x) :
    ReachIn nb inU s (hopDist nb inU s x) x ∧
      ∀ j, j < hopDist nb inU s x → ¬ ReachIn nb inU s j x := by
  unfold hopDist
  rw [dif_pos h]
  exact Classical.choose_spec (exists_min _ h)

theorem hopDist_le {s k x : Nat} (h : ReachIn nb inU s k x) : hopDist nb inU s x ≤ k := by
  have := (hopDist_spec ⟨k, h⟩).2 k
  by_cases c : hopDist nb inU s x ≤ k
  · exact c
  · exact absurd h (this (by omega))

theorem pairwise_of_all {R : Nat → Nat → Prop} : ∀ l : List Nat,
    (∀ a ∈ l, ∀ b ∈ l, R a b) → l.Pairwise R := by
  intro l
  induction l with
  | nil => intro _; exact List.Pairwise.nil
  | cons a l ih =>
    intro h
    rw [List.pairwise_cons]
    exact ⟨fun b hb => h a (by simp) b (by simp [hb]),
      ih (fun x hx y hy => h x (by simp [hx]) y (by simp [hy]))⟩

variable (nb inU) in
/-- the distance part of the BFS loop invariant (`ffr` = everything, so listing = `vis`) -/
structure DInv (s : Nat) (vis q : List Nat) : Prop where
  suffix : ∃ done, vis = done ++ q
  sorted : vis.Pairwise (fun a b => hopDist nb inU s a ≤ hopDist nb inU s b)
  near : ∀ u, q.head? = some u → ∀ x ∈ vis, hopDist nb inU s x ≤ hopDist nb inU s u + 1
  closed : ∀ x ∈ vis, x ∈ q ∨ ∀ y ∈ nb x, inU y = true → y ∈ vis
  reach : ∀ x ∈ vis, ∃ k, ReachIn nb inU s k x
  start : s ∈ vis

theorem DInv.init (s : Nat) : DInv nb inU s [s] [s] :=
  ⟨⟨[], rfl⟩, by simp, fun u hu x hx => by simp at hu hx; subst hu; subst hx; omega,
    fun x hx => Or.inl hx, fun x hx => by simp at hx; subst hx; exact ⟨0, .refl 0⟩, by simp⟩

theorem DInv.head_le {s : Nat} {vis q : List Nat} {u : Nat} (h : DInv nb inU s vis (u :: q)) :
    ∀ x ∈ q, hopDist nb inU s u ≤ hopDist nb inU s x := by
  obtain ⟨done, e⟩ := h.suffix
  have := h.sorted
  rw [e] at this
  exact (List.pairwise_cons.1 (List.pairwise_append.1 this).2.1).1

/-- everything within the distance of the queue head is already listed -/
theorem DInv.low_mem {s : Nat} {vis q : List Nat} {u : Nat} (h : DInv nb inU s vis (u :: q)) :
    ∀ k z, ReachIn nb inU s k z → k ≤ hopDist nb inU s u → z ∈ vis := by
  intro k z hz
  induction hz with
  | refl k => intro _; exact h.start
  | @step k x y hx hy hu ih =>
    intro hk
    have hxv := ih (by omega)
    have hdx : hopDist nb inU s x ≤ k := hopDist_le hx
    rcases h.closed x hxv with c | c
    · simp only [List.mem_cons] at c
      rcases c with rfl | c
      · omega
      · have := h.head_le x c
        omega
    · exact c y hy hu

theorem DInv.child_dist {s : Nat} {vis q : List Nat} {u : Nat} (h : DInv nb inU s vis (u :: q))
    (hu : u ∈ vis) {y : Nat} (hy : y ∈ nb u) (hyu : inU y = true) (hyv : y ∉ vis) :
    hopDist nb inU s y = hopDist nb inU s u + 1 := by
  have hru := (hopDist_spec (h.reach u hu)).1
  have hry : ReachIn nb inU s (hopDist nb inU s u + 1) y := .step hru hy hyu
  have h1 := hopDist_le hry
  by_cases c : hopDist nb inU s y ≤ hopDist nb inU s u
  · exact absurd (h.low_mem _ y (hopDist_spec ⟨_, hry⟩).1 c) hyv
  · omega

theorem DInv.step {s : Nat} {vis q : List Nat} {u : Nat} (h : DInv nb inU s vis (u :: q)) :
    DInv nb inU s (vis ++ bftNew inU vis (nb u)) (q ++ bftNew inU vis (nb u)) := by
  obtain ⟨a, _, c⟩ := bftNew_spec inU (nb u) vis
  obtain ⟨done, e⟩ := h.suffix
  have huv : u ∈ vis := by rw [e]; simp
  have hd : ∀ y ∈ bftNew inU vis (nb u), hopDist nb inU s y = hopDist nb inU s u + 1 :=
    fun y hy => h.child_dist huv (a y hy).1 (a y hy).2.1 (a y hy).2.2
  have hnear := h.near u rfl
  refine ⟨⟨done ++ [u], by rw [e]; simp⟩, ?_, ?_, ?_, ?_, List.mem_append_left _ h.start⟩
  · rw [List.pairwise_append]
    refine ⟨h.sorted, pairwise_of_all _ ?_, ?_⟩
    · intro x hx y hy; rw [hd x hx, hd y hy]; exact Nat.le_refl _
    · intro x hx y hy; rw [hd y hy]; exact hnear x hx
  · intro u' hu' x hx
    have hu'd : hopDist nb inU s u ≤ hopDist nb inU s u' := by
      cases q with
      | nil =>
        have : u' ∈ bftNew inU vis (nb u) := mem_of_head?_eq (by simpa using hu')
        rw [hd u' this]; omega
      | cons b q =>
        simp at hu'
        subst hu'
        exact h.head_le b (by simp)
    simp only [List.mem_append] at hx
    rcases hx with hx | hx
    · have := hnear x hx; omega
    · rw [hd x hx]; omega
  · intro x hx
    simp only [List.mem_append] at hx ⊢
    rcases hx with hx | hx
    · rcases h.closed x hx with h1 | h1
      · simp only [List.mem_cons] at h1
        rcases h1 with rfl | h1
        · right; intro y hy hyu; exact c y hy hyu
        · exact Or.inl (Or.inl h1)
      · right; intro y hy hyu; exact Or.inl (h1 y hy hyu)
    · exact Or.inl (Or.inr hx)
  · intro x hx
    simp only [List.mem_append] at hx
    rcases hx with hx | hx
    · exact h.reach x hx
    · exact ⟨_, .step (hopDist_spec (h.reach u huv)).1 (a x hx).1 (a x hx).2.1⟩

theorem bftLoop_dist {s : Nat} : ∀ (f : Nat) (vis q : List Nat), DInv nb inU s vis q →
    (∀ x ∈ bftLoop nb inU (fun _ => true) f vis q vis, ∃ k, ReachIn nb inU s k x) ∧
    (bftLoop nb inU (fun _ => true) f vis q vis).Pairwise
      (fun a b => hopDist nb inU s a ≤ hopDist nb inU s b) := by
  intro f
  induction f with
  | zero => intro vis q h; simpa [bftLoop] using ⟨h.reach, h.sorted⟩
  | succ f ih =>
    intro vis q h
    cases q with
    | nil => simpa [bftLoop] using ⟨h.reach, h.sorted⟩
    | cons u q =>
      simp only [bftLoop, bftScan_eq, List.filter_true]
      exact ih _ _ h.step

theorem bft_monotone_distance (s f : Nat) :
    ∃ d : Nat → Nat,
      (∀ x ∈ bft nb inU (fun _ => true) f s,
        ReachIn nb inU s (d x) x ∧ ∀ k, k < d x → ¬ ReachIn nb inU s k x) ∧
      (bft nb inU (fun _ => true) f s).Pairwise (fun a b => d a ≤ d b) := by
  have := bftLoop_dist (nb := nb) (inU := inU) f [s] [s] (DInv.init s)
  refine ⟨hopDist nb inU s, fun x hx => hopDist_spec (this.1 x (by simpa [bft] using hx)), ?_⟩
  simpa [bft] using this.2

end dist

end T
end EG
