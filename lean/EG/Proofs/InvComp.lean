import EG.Proofs.InvPrims
import EG.Proofs.Fold
/-
  EG.Proofs.InvComp — compound operations (the loops and the constructors):
  agreement of the mirror model with the reference model, and what the reference model's
  compound operations establish.
-/
set_option linter.unusedSimpArgs false
set_option linter.unusedVariables false
namespace EG
namespace C

/-! ### agreement; the add-loops need no hypothesis at all -/

theorem addVertices_agree (w : World) (l : LId) (xs : List (Option VId)) :
    addVertices M.prims w l xs = addVertices S.prims w l xs := by
  rw [addVertices_eq_fold, addVertices_eq_fold]
  exact foldOpt_agree _ _ (fun _ => True) xs (fun w x _ _ => agree_addVertex w l x)
    (fun _ _ _ _ _ _ => trivial) w trivial

theorem addToLinks_agree (w : World) (v : VId) (ls : List LId) :
    addToLinks M.prims w v ls = addToLinks S.prims w v ls := by
  rw [addToLinks_eq_fold, addToLinks_eq_fold]
  exact foldOpt_agree _ _ (fun _ => True) ls (fun w l _ _ => agree_addToLink w v l)
    (fun _ _ _ _ _ _ => trivial) w trivial

theorem uniAddVertices_agree (w : World) (u : VId) (vs : List VId) :
    uniAddVertices M.prims w u vs = uniAddVertices S.prims w u vs := by
  rw [uniAddVertices_eq_fold, uniAddVertices_eq_fold]
  exact foldOpt_agree _ _ (fun _ => True) vs (fun w v _ _ => agree_uniAddVertex w u v)
    (fun _ _ _ _ _ _ => trivial) w trivial

theorem joinUniverses_agree (w : World) (v : VId) (us : List VId) :
    joinUniverses M.prims w v us = joinUniverses S.prims w v us := by
  rw [joinUniverses_eq_fold, joinUniverses_eq_fold]
  exact foldOpt_agree _ _ (fun _ => True) us (fun w u _ _ => agree_uniAddVertex w u v)
    (fun _ _ _ _ _ _ => trivial) w trivial

theorem unlinkBoth_S (a b : VId) (w : World) (l : LId) :
    unlinkBoth S.prims a b w l = some (S.unlinkFrom (S.unlinkFrom w l (some a)) l (some b)) := rfl

theorem unlinkEach_agree (w : World) (a b : VId) (ls : List LId) (h : Sym w) :
    unlinkEach M.prims w a b ls = unlinkEach S.prims w a b ls := by
  rw [unlinkEach_eq_fold, unlinkEach_eq_fold]
  refine foldOpt_agree _ _ Sym ls ?_ ?_ w h
  · intro w l hw _
    simp only [unlinkBoth]
    rw [agree_unlinkFrom w l (some a) hw]
    have e : S.prims.unlinkFrom w l (some a) = some (S.unlinkFrom w l (some a)) := rfl
    simp only [e]
    exact agree_unlinkFrom _ l (some b) (S.unlinkFrom_sym w l (some a) hw)
  · intro w l w' hw _ e
    rw [unlinkBoth_S] at e
    cases e
    exact S.unlinkFrom_sym _ _ _ (S.unlinkFrom_sym _ _ _ hw)

theorem newLink_agree (w : World) (c : LCls) (vs : List (Option VId)) :
    newLink M.prims w c vs = newLink S.prims w c vs := by
  simp only [newLink, addVertices_agree]

theorem newVertex_agree (w : World) (c : VCls) (attrs : List (Nat × Nat)) (ls : List LId)
    (us : List VId) : newVertex M.prims w c attrs ls us = newVertex S.prims w c attrs ls us := by
  simp only [newVertex, addToLinks_agree, joinUniverses_agree]

theorem linkFromTo_agree (w : World) (a : VId) (c : LCls) (b : VId) (dd : Bool) :
    linkFromTo M.prims w a c b dd = linkFromTo S.prims w a c b dd := by
  simp only [linkFromTo, newLink_agree]

theorem unlink_agree (F : Nat → LId → Option VId → Bool) (w : World) (a b : VId) (h : Sym w) :
    unlink M.prims w F a b = unlink S.prims w F a b := by
  simp only [unlink]
  split
  · rfl
  · rw [unlinkEach_agree _ _ _ _ h]

theorem setEnd_agree (w : World) (l : LId) (i : Nat) (x : Option VId) (h : Sym w) (hi : i < 2) :
    setEnd M.prims w l i x = setEnd S.prims w l i x := by
  simp only [setEnd]
  split
  · rfl
  · rename_i hlen
    rw [agree_replaceEnd w l i x h (by omega)]

end C
namespace C

/-! ### the reference model's loops -/

theorem addVertices_S (w : World) (l : LId) (xs : List (Option VId)) (hs : Sym w) (hf : Fresh w)
    (hl : l < w.nL) (hxs : ∀ x ∈ xs, w.ovOK x = true) :
    ∃ w', addVertices S.prims w l xs = some w' ∧ Sym w' ∧ Fresh w' ∧ AssocFrame w w' := by
  rw [addVertices_eq_fold]
  show ∃ w', foldOpt (fun w x => some (S.addVertex w l x)) w xs = some w' ∧ _
  rw [foldOpt_total]
  refine ⟨_, rfl, ?_⟩
  refine foldl_inv _ (fun w' => Sym w' ∧ Fresh w' ∧ AssocFrame w w') xs ?_ w
    ⟨hs, hf, AssocFrame.refl w⟩
  rintro w' x ⟨h1, h2, h3⟩ hx
  refine ⟨S.addVertex_sym _ _ _ h1, S.addVertex_fresh _ _ _ h2 (by rw [h3.nL]; exact hl) ?_,
    h3.trans (S.addVertex_frame _ _ _)⟩
  have := hxs x hx
  cases x <;> simp_all [World.ovOK, World.vOK, h3.nV]

theorem addToLinks_S (w : World) (v : VId) (ls : List LId) (hs : Sym w) (hf : Fresh w)
    (hv : v < w.nV) (hls : ∀ l ∈ ls, l < w.nL) :
    ∃ w', addToLinks S.prims w v ls = some w' ∧ Sym w' ∧ Fresh w' ∧ AssocFrame w w' := by
  rw [addToLinks_eq_fold]
  show ∃ w', foldOpt (fun w l => some (S.addToLink w v l)) w ls = some w' ∧ _
  rw [foldOpt_total]
  refine ⟨_, rfl, ?_⟩
  refine foldl_inv _ (fun w' => Sym w' ∧ Fresh w' ∧ AssocFrame w w') ls ?_ w
    ⟨hs, hf, AssocFrame.refl w⟩
  rintro w' x ⟨h1, h2, h3⟩ hx
  exact ⟨S.addToLink_sym _ _ _ h1,
    S.addToLink_fresh _ _ _ h2 (by rw [h3.nV]; exact hv) (by rw [h3.nL]; exact hls x hx),
    h3.trans (S.addToLink_frame _ _ _)⟩

theorem unlinkEach_S (w : World) (a b : VId) (ls : List LId) (hs : Sym w) (hf : Fresh w) :
    ∃ w', unlinkEach S.prims w a b ls = some w' ∧ Sym w' ∧ Fresh w' ∧ AssocFrame w w' := by
  rw [unlinkEach_eq_fold]
  show ∃ w', foldOpt (fun w l => some (S.unlinkFrom (S.unlinkFrom w l (some a)) l (some b))) w ls
    = some w' ∧ _
  rw [foldOpt_total]
  refine ⟨_, rfl, ?_⟩
  refine foldl_inv _ (fun w' => Sym w' ∧ Fresh w' ∧ AssocFrame w w') ls ?_ w
    ⟨hs, hf, AssocFrame.refl w⟩
  rintro w' x ⟨h1, h2, h3⟩ hx
  exact ⟨S.unlinkFrom_sym _ _ _ (S.unlinkFrom_sym _ _ _ h1),
    S.unlinkFrom_fresh _ _ _ (S.unlinkFrom_fresh _ _ _ h2),
    (h3.trans (S.unlinkFrom_frame _ _ _)).trans (S.unlinkFrom_frame _ _ _)⟩

theorem uniAddVertices_S (w : World) (u : VId) (vs : List VId) (hs : USym w) (hf : Fresh w)
    (hu : u < w.nV) (hvs : ∀ v ∈ vs, v < w.nV) :
    ∃ w', uniAddVertices S.prims w u vs = some w' ∧ USym w' ∧ Fresh w' ∧ UniFrame w w' := by
  rw [uniAddVertices_eq_fold]
  show ∃ w', foldOpt (fun w v => some (S.uniAddVertex w u v)) w vs = some w' ∧ _
  rw [foldOpt_total]
  refine ⟨_, rfl, ?_⟩
  refine foldl_inv _ (fun w' => USym w' ∧ Fresh w' ∧ UniFrame w w') vs ?_ w
    ⟨hs, hf, UniFrame.refl w⟩
  rintro w' x ⟨h1, h2, h3⟩ hx
  exact ⟨S.uniAddVertex_usym _ _ _ h1,
    S.uniAddVertex_fresh _ _ _ h2 (by rw [h3.nV]; exact hu) (by rw [h3.nV]; exact hvs x hx),
    h3.trans (S.uniAddVertex_frame _ _ _)⟩

end C

theorem mem_dedupKeepFirst (l : List Nat) (x : Nat) : x ∈ dedupKeepFirst l ↔ x ∈ l := by
  induction l with
  | nil => simp [dedupKeepFirst]
  | cons y ys ih => simp [dedupKeepFirst, ih]; grind

theorem nodup_dedupKeepFirst (l : List Nat) : (dedupKeepFirst l).Nodup := by
  induction l with
  | nil => simp [dedupKeepFirst]
  | cons y ys ih =>
    simp only [dedupKeepFirst, List.nodup_cons]
    exact ⟨by simp, ih.filter _⟩

/-- closed form of `for uni in self.universes: uni.add_vertex(self)` -/
def S.joined (w : World) (v : VId) (us : List VId) : World :=
  { w with members := fun x => if x ∈ us ∧ v ∉ w.members x then w.members x ++ [v] else w.members x }

namespace C

theorem joinUniverses_S (v : VId) (us : List VId) : ∀ (w : World), (∀ u ∈ us, u ∈ w.unis v) →
    joinUniverses S.prims w v us = some (S.joined w v us) := by
  induction us with
  | nil => intro w _; simp only [joinUniverses, S.joined]; congr 1
  | cons u us ih =>
    intro w h
    simp only [joinUniverses]
    show joinUniverses S.prims (S.uniAddVertex w u v) v us = _
    have hu : u ∈ w.unis v := h u (by simp)
    have e : (S.uniAddVertex w u v).unis = w.unis := by
      funext x; simp [S.uniAddVertex, hu]
    rw [ih _ (by intro u' hu'; rw [e]; exact h u' (by simp [hu']))]
    congr 1
    apply World.ext' <;> intros <;> simp [S.joined, S.uniAddVertex, hu] <;> grind

end C

/-! ### allocation -/

theorem allocLink_inv (w : World) (c : LCls) (h : Inv w) : Inv (M.allocLink w c).1 := by
  obtain ⟨hs, hu, hl, hf⟩ := h
  have e : upd w.ends w.nL [] = w.ends := by
    funext x; simp only [upd]; split
    · rename_i hx; subst hx; exact (hf.1 _ (Nat.le_refl _)).symm
    · rfl
  refine ⟨?_, hu, hl, ?_⟩
  · simpa only [Sym, M.allocLink, e] using hs
  · refine ⟨?_, hf.2.1, hf.2.2⟩
    intro l (hl : w.nL + 1 ≤ l)
    simp only [M.allocLink, e]; exact hf.1 l (by omega)

theorem allocLaws_inv (w : World) (r : Nat) (h : Inv w) : Inv (M.allocLaws w r).1 := by
  obtain ⟨hs, hu, hl, hf⟩ := h
  have e : upd w.appliesTo w.nW none = w.appliesTo := by
    funext x; simp only [upd]; split
    · rename_i hx; subst hx; exact (hf.2.2 _ (Nat.le_refl _)).symm
    · rfl
  refine ⟨hs, hu, ?_, ?_⟩
  · simpa only [LawSym, M.allocLaws, e] using hl
  · refine ⟨hf.1, hf.2.1, ?_⟩
    intro l (hl : w.nW + 1 ≤ l)
    simp only [M.allocLaws, e]; exact hf.2.2 l (by omega)

namespace C

theorem newLink_S (w : World) (c : LCls) (vs : List (Option VId)) (h : Inv w)
    (hvs : ∀ x ∈ vs, w.ovOK x = true) :
    ∃ w', newLink S.prims w c vs = .ok (w', w.nL) ∧ Inv w' ∧
      w'.members = w.members ∧ w'.unis = w.unis := by
  obtain ⟨hs, hu, hl, hf⟩ := allocLink_inv w c h
  obtain ⟨w', e, h1, h2, h3⟩ := addVertices_S (M.allocLink w c).1 w.nL vs hs hf
    (Nat.lt_succ_self _) hvs
  refine ⟨w', ?_, ⟨h1, h3.usym hu, h3.lawsym hl, h2⟩, h3.members, h3.unis⟩
  simp only [M.allocLink] at e
  simp only [newLink, M.allocLink, e]

end C

/-- membership symmetry "up to the vertex `v` under construction": `v` already lists its
    universes but no universe lists `v` yet -/
def PreU (w : World) (v : VId) : Prop :=
  (∀ v' u, v' ≠ v → (v' ∈ w.members u ↔ u ∈ w.unis v')) ∧ (∀ u, v ∉ w.members u) ∧
  (∀ u, (w.members u).Nodup) ∧ ∀ v', (w.unis v').Nodup

theorem isUni_lt {w : World} {u : VId} (h : w.isUni u = true) : u < w.nV := by
  simp [World.isUni] at h; exact h.1

theorem allocVertex_pre (w : World) (c : VCls) (attrs : List (Nat × Nat)) (us : List VId)
    (h : Inv w) (hus : ∀ u ∈ us, u < w.nV) :
    Sym (M.allocVertex w c attrs us).1 ∧ LawSym (M.allocVertex w c attrs us).1 ∧
    Fresh (M.allocVertex w c attrs us).1 ∧ PreU (M.allocVertex w c attrs us).1 w.nV := by
  obtain ⟨hs, hu, hl, hf⟩ := h
  obtain ⟨f1, f2, f3, f4⟩ := hf.2.1 w.nV (Nat.le_refl _)
  have e1 : upd w.links w.nV [] = w.links := by
    funext x; simp only [upd]; split
    · rename_i hx; subst hx; exact f1.symm
    · rfl
  have e2 : upd w.members w.nV [] = w.members := by
    funext x; simp only [upd]; split
    · rename_i hx; subst hx; exact f3.symm
    · rfl
  have e3 : upd w.laws w.nV none = w.laws := by
    funext x; simp only [upd]; split
    · rename_i hx; subst hx; exact f4.symm
    · rfl
  refine ⟨?_, ?_, ?_, ?_⟩
  · simpa only [Sym, M.allocVertex, e1] using hs
  · simpa only [LawSym, M.allocVertex, e3] using hl
  · refine ⟨hf.1, ?_, hf.2.2⟩
    intro x (hx : w.nV + 1 ≤ x)
    have := hf.2.1 x (by omega)
    have hne : x ≠ w.nV := by omega
    simp only [M.allocVertex, e1, e2, e3, upd, hne, if_false]; exact this
  · simp only [PreU, M.allocVertex, e2]
    refine ⟨?_, ?_, hu.2.1, ?_⟩
    · intro v' u hne; simp only [upd, hne, if_false]; exact hu.1 v' u
    · intro u hm; rw [hu.1] at hm; rw [f2] at hm; simp at hm
    · intro v'; simp only [upd]; split
      · exact nodup_dedupKeepFirst us
      · exact hu.2.2 v'

theorem joined_usym (w : World) (v : VId) (h : PreU w v) : USym (S.joined w v (w.unis v)) := by
  obtain ⟨h1, h2, h3, h4⟩ := h
  refine ⟨?_, ?_, h4⟩
  · intro v' u
    have := h1 v' u; have := h2 u
    simp only [S.joined]; grind
  · intro u
    simp only [S.joined]; split
    · rename_i hc; exact nodup_append_singleton _ _ (h3 u) hc.2
    · exact h3 u

theorem joined_fresh (w : World) (v : VId) (us : List VId) (h : Fresh w)
    (hus : ∀ u ∈ us, u < w.nV) : Fresh (S.joined w v us) := by
  obtain ⟨h1, h2, h3⟩ := h
  refine ⟨h1, ?_, h3⟩
  intro x (hx : w.nV ≤ x)
  have hn : x ∉ us := fun hm => absurd (hus x hm) (Nat.not_lt.mpr hx)
  simp only [S.joined, hn, false_and, if_false]; exact h2 x hx

namespace C

theorem newVertex_S (w : World) (c : VCls) (attrs : List (Nat × Nat)) (ls : List LId)
    (us : List VId) (h : Inv w) (hls : ∀ l ∈ ls, l < w.nL) (hus : ∀ u ∈ us, u < w.nV) :
    ∃ w', newVertex S.prims w c attrs ls us = .ok (w', w.nV) ∧ Inv w' ∧
      w'.unis w.nV = dedupKeepFirst us := by
  obtain ⟨hs, hl, hf, hp⟩ := allocVertex_pre w c attrs us h hus
  obtain ⟨w2, e2, h1, h2, h3⟩ := addToLinks_S (M.allocVertex w c attrs us).1 w.nV ls hs hf
    (Nat.lt_succ_self _) hls
  have hp2 : PreU w2 w.nV := by simpa only [PreU, h3.unis, h3.members] using hp
  have hu2 : w2.unis w.nV = dedupKeepFirst us := by
    rw [h3.unis]; simp [M.allocVertex]
  have hlt : ∀ u ∈ w2.unis w.nV, u < w2.nV := by
    intro u hu; rw [hu2, mem_dedupKeepFirst] at hu
    rw [h3.nV]; exact Nat.lt_succ_of_lt (hus u hu)
  refine ⟨(S.joined w2 w.nV (w2.unis w.nV)).invalidate w.nV, ?_,
    ⟨h1, joined_usym w2 w.nV hp2, h3.lawsym hl, joined_fresh w2 w.nV _ h2 hlt⟩, hu2⟩
  simp only [M.allocVertex] at e2
  simp only [newVertex, M.allocVertex, e2]
  rw [joinUniverses_S _ _ _ (fun u hu => hu)]

end C

theorem allocVertex_inv_nil (w : World) (c : VCls) (attrs : List (Nat × Nat)) (h : Inv w) :
    Inv (M.allocVertex w c attrs []).1 := by
  obtain ⟨hs, hl, hf, hp1, hp2, hp3, hp4⟩ := allocVertex_pre w c attrs [] h (by simp)
  refine ⟨hs, ⟨?_, hp3, hp4⟩, hl, hf⟩
  intro v' u
  by_cases hv : v' = w.nV
  · subst hv
    have : (M.allocVertex w c attrs []).1.unis w.nV = [] := by simp [M.allocVertex, dedupKeepFirst]
    rw [this]; simp [hp2 u]
  · exact hp1 v' u hv

theorem S.setLaws_laws (w : World) (u : VId) (x : Option WId) : (S.setLaws w u x).laws u = x := by
  unfold S.setLaws; split
  · rename_i h; exact h.symm
  · simp

theorem S.setAppliesTo_appliesTo (w : World) (L : WId) (x : Option VId) :
    (S.setAppliesTo w L x).appliesTo L = x := by
  unfold S.setAppliesTo; split
  · rename_i h; exact h.symm
  · simp

/-- the world on which `Universe.__init__` assigns the laws, and the law set it assigns -/
def preLaws (w : World) (attrs : List (Nat × Nat)) (L : Option WId) : World × WId :=
  match L with
  | some L => (((M.allocVertex w .UNI attrs []).1.invalidate w.nV), L)
  | none => M.allocLaws ((M.allocVertex w .UNI attrs []).1.invalidate w.nV)

theorem preLaws_inv (w : World) (attrs : List (Nat × Nat)) (L : Option WId) (h : Inv w) :
    Inv (preLaws w attrs L).1 := by
  have h1 : Inv ((M.allocVertex w .UNI attrs []).1.invalidate w.nV) :=
    allocVertex_inv_nil w .UNI attrs h
  cases L with
  | some L => exact h1
  | none => exact allocLaws_inv _ 0 h1

theorem preLaws_facts (w : World) (attrs : List (Nat × Nat)) (L : Option WId)
    (hL : ∀ x, L = some x → x < w.nW) :
    (preLaws w attrs L).1.nV = w.nV + 1 ∧ (preLaws w attrs L).2 < (preLaws w attrs L).1.nW ∧
    (preLaws w attrs L).2 = L.getD w.nW := by
  cases L with
  | some L => exact ⟨rfl, hL L rfl, rfl⟩
  | none => exact ⟨rfl, Nat.lt_succ_self _, rfl⟩

namespace C

theorem newUniverse_unfold (P : Prims) (w : World) (attrs : List (Nat × Nat)) (vs : List VId)
    (L : Option WId) :
    newUniverse P w attrs vs L =
      match P.setLaws (preLaws w attrs L).1 w.nV (some (preLaws w attrs L).2) with
      | none => .error .recursion
      | some w' =>
        match uniAddVertices P w' w.nV vs with
        | none => .error .recursion
        | some w'' => .ok (w'', w.nV) := by
  cases L <;> rfl

theorem newUniverse_agree (w : World) (attrs : List (Nat × Nat)) (vs : List VId)
    (L : Option WId) (h : Inv w) :
    newUniverse M.prims w attrs vs L = newUniverse S.prims w attrs vs L := by
  rw [newUniverse_unfold, newUniverse_unfold, agree_setLaws _ _ _ (preLaws_inv w attrs L h).2.2.1]
  simp only [uniAddVertices_agree]

theorem newUniverse_S (w : World) (attrs : List (Nat × Nat)) (vs : List VId) (L : Option WId)
    (h : Inv w) (hvs : ∀ v ∈ vs, v < w.nV) (hL : ∀ x, L = some x → x < w.nW) :
    ∃ w', newUniverse S.prims w attrs vs L = .ok (w', w.nV) ∧ Inv w' ∧
      w'.laws w.nV = some (L.getD w.nW) := by
  obtain ⟨hs, hu, hl, hf⟩ := preLaws_inv w attrs L h
  obtain ⟨f1, f2, f3⟩ := preLaws_facts w attrs L hL
  have fr := S.setLaws_frame (preLaws w attrs L).1 w.nV (some (preLaws w attrs L).2)
  have hf4 := S.setLaws_fresh (preLaws w attrs L).1 w.nV (some (preLaws w attrs L).2) hf
    (by rw [f1]; exact Nat.lt_succ_self _) (by intro K hK; cases hK; exact f2)
  obtain ⟨w5, e5, h1, h2, h3⟩ := uniAddVertices_S _ w.nV vs (fr.usym hu) hf4
    (by rw [fr.nV, f1]; exact Nat.lt_succ_self _)
    (by intro v hv; rw [fr.nV, f1]; exact Nat.lt_succ_of_lt (hvs v hv))
  refine ⟨w5, ?_, ⟨h3.sym (fr.sym hs), h1, h3.lawsym (S.setLaws_lawsym _ _ _ hl), h2⟩, ?_⟩
  · rw [newUniverse_unfold]
    have e4 : S.prims.setLaws (preLaws w attrs L).1 w.nV (some (preLaws w attrs L).2) =
      some (S.setLaws (preLaws w attrs L).1 w.nV (some (preLaws w attrs L).2)) := rfl
    simp only [e4, e5]
  · rw [h3.laws, S.setLaws_laws, f3]

end C

/-! ### every reference primitive preserves the invariant (on well-formed arguments) -/
namespace S

theorem addToLink_inv (w : World) (v : VId) (l : LId) (h : Inv w) (hv : v < w.nV) (hl : l < w.nL) :
    Inv (S.addToLink w v l) :=
  have f := S.addToLink_frame w v l
  ⟨S.addToLink_sym w v l h.1, f.usym h.2.1, f.lawsym h.2.2.1, S.addToLink_fresh w v l h.2.2.2 hv hl⟩

theorem addVertex_inv (w : World) (l : LId) (x : Option VId) (h : Inv w) (hl : l < w.nL)
    (hx : w.ovOK x = true) : Inv (S.addVertex w l x) :=
  have f := S.addVertex_frame w l x
  ⟨S.addVertex_sym w l x h.1, f.usym h.2.1, f.lawsym h.2.2.1, S.addVertex_fresh w l x h.2.2.2 hl hx⟩

theorem removeFromLink_inv (w : World) (v : VId) (l : LId) (h : Inv w) :
    Inv (S.removeFromLink w v l) :=
  have f := S.removeFromLink_frame w v l
  ⟨S.removeFromLink_sym w v l h.1, f.usym h.2.1, f.lawsym h.2.2.1, S.removeFromLink_fresh w v l h.2.2.2⟩

theorem unlinkFrom_inv (w : World) (l : LId) (x : Option VId) (h : Inv w) :
    Inv (S.unlinkFrom w l x) :=
  have f := S.unlinkFrom_frame w l x
  ⟨S.unlinkFrom_sym w l x h.1, f.usym h.2.1, f.lawsym h.2.2.1, S.unlinkFrom_fresh w l x h.2.2.2⟩

theorem replaceEnd_inv (w : World) (l : LId) (i : Nat) (x : Option VId) (h : Inv w)
    (hi : i < (w.ends l).length) (hl : l < w.nL) (hx : w.ovOK x = true) :
    Inv (S.replaceEnd w l i x) :=
  have f := S.replaceEnd_frame w l i x
  ⟨S.replaceEnd_sym w l i x hi h.1, f.usym h.2.1, f.lawsym h.2.2.1,
    S.replaceEnd_fresh w l i x h.2.2.2 hl hx⟩

theorem uniAddVertex_inv (w : World) (u v : VId) (h : Inv w) (hu : u < w.nV) (hv : v < w.nV) :
    Inv (S.uniAddVertex w u v) :=
  have f := S.uniAddVertex_frame w u v
  ⟨f.sym h.1, S.uniAddVertex_usym w u v h.2.1, f.lawsym h.2.2.1, S.uniAddVertex_fresh w u v h.2.2.2 hu hv⟩

theorem addToUniverse_inv (w : World) (v u : VId) (h : Inv w) (hu : u < w.nV) (hv : v < w.nV) :
    Inv (S.addToUniverse w v u) :=
  have f := S.addToUniverse_frame w v u
  ⟨f.sym h.1, S.addToUniverse_usym w v u h.2.1, f.lawsym h.2.2.1, S.addToUniverse_fresh w v u h.2.2.2 hu hv⟩

theorem uniRemoveVertex_inv (w : World) (u v : VId) (h : Inv w) (hu : u < w.nV) (hv : v < w.nV) :
    Inv (S.uniRemoveVertex w u v) :=
  have f := S.uniRemoveVertex_frame w u v
  ⟨f.sym h.1, S.uniRemoveVertex_usym w u v h.2.1, f.lawsym h.2.2.1,
    S.uniRemoveVertex_fresh w u v h.2.2.2 hu hv⟩

theorem removeFromUniverse_inv (w : World) (v u : VId) (h : Inv w) (hu : u < w.nV) (hv : v < w.nV) :
    Inv (S.removeFromUniverse w v u) :=
  have f := S.removeFromUniverse_frame w v u
  ⟨f.sym h.1, S.removeFromUniverse_usym w v u h.2.1, f.lawsym h.2.2.1,
    S.removeFromUniverse_fresh w v u h.2.2.2 hu hv⟩

theorem setLaws_inv (w : World) (u : VId) (x : Option WId) (h : Inv w) (hu : u < w.nV)
    (hx : ∀ L, x = some L → L < w.nW) : Inv (S.setLaws w u x) :=
  have f := S.setLaws_frame w u x
  ⟨f.sym h.1, f.usym h.2.1, S.setLaws_lawsym w u x h.2.2.1, S.setLaws_fresh w u x h.2.2.2 hu hx⟩

theorem setAppliesTo_inv (w : World) (L : WId) (x : Option VId) (h : Inv w) (hL : L < w.nW)
    (hx : ∀ u, x = some u → u < w.nV) : Inv (S.setAppliesTo w L x) :=
  have f := S.setAppliesTo_frame w L x
  ⟨f.sym h.1, f.usym h.2.1, S.setAppliesTo_lawsym w L x h.2.2.1,
    S.setAppliesTo_fresh w L x h.2.2.2 hL hx⟩

end S

namespace C

theorem setEnd_S (w : World) (l : LId) (i : Nat) (x : Option VId) :
    setEnd S.prims w l i x =
      if (w.ends l).length < 2 then .error .index else .ok (S.replaceEnd w l i x) := rfl

theorem unlink_S (F : Nat → LId → Option VId → Bool) (w : World) (a b : VId) (h : Inv w)
    (w' : World) (J : List LId) (e : unlink S.prims w F a b = .ok (w', J)) :
    Inv w' ∧ w'.members = w.members ∧ w'.unis = w.unis := by
  simp only [unlink] at e
  split at e
  · cases e
  · rename_i J' hJ
    obtain ⟨w2, e2, h1, h2, h3⟩ := unlinkEach_S w a b J' h.1 h.2.2.2
    rw [e2] at e
    cases e
    exact ⟨⟨h1, h3.usym h.2.1, h3.lawsym h.2.2.1, h2⟩, h3.members, h3.unis⟩

theorem linkFromTo_S (w : World) (a : VId) (c : LCls) (b : VId) (dd : Bool) (h : Inv w)
    (ha : a < w.nV) (hb : b < w.nV)
    (w' : World) (l : LId) (e : linkFromTo S.prims w a c b dd = .ok (w', l)) :
    Inv w' ∧ w'.members = w.members ∧ w'.unis = w.unis := by
  have hvs : ∀ x ∈ [some a, some b], w.ovOK x = true := by
    intro x hx; simp at hx
    rcases hx with rfl | rfl <;> simp [World.ovOK, World.vOK, ha, hb]
  obtain ⟨w2, e2, h1, h2, h3⟩ := newLink_S w c [some a, some b] h hvs
  simp only [linkFromTo] at e
  split at e
  · split at e
    · cases e
    · cases e; exact ⟨h, rfl, rfl⟩
    · rw [e2] at e; cases e; exact ⟨h1, h2, h3⟩
  · rw [e2] at e; cases e; exact ⟨h1, h2, h3⟩

end C
end EG
