import EG.Proofs.InvDef
/-
  EG.Proofs.InvPrims — primitive level: on which worlds each primitive of the mirror model
  equals the one of the reference model, which columns each reference primitive leaves
  alone (frames), and preservation of `Fresh`.
-/
set_option linter.unusedSimpArgs false
set_option linter.unusedVariables false
namespace EG

/-! ### agreement of the two records of primitives -/

theorem agree_addToLink (w : World) (v : VId) (l : LId) :
    M.prims.addToLink w v l = S.prims.addToLink w v l := M.addToLink_eq 6 w v l

theorem agree_addVertex (w : World) (l : LId) (x : Option VId) :
    M.prims.addVertex w l x = S.prims.addVertex w l x := M.addVertex_eq 6 w l x

theorem agree_removeFromLink (w : World) (v : VId) (l : LId) (h : Sym w) :
    M.prims.removeFromLink w v l = S.prims.removeFromLink w v l :=
  M.removeFromLink_eq 5 w v l (h.2 v)

theorem agree_unlinkFrom (w : World) (l : LId) (x : Option VId) (h : Sym w) :
    M.prims.unlinkFrom w l x = S.prims.unlinkFrom w l x :=
  M.unlinkFrom_eq 5 w l x (fun k _ => h.2 k)

theorem agree_replaceEnd (w : World) (l : LId) (i : Nat) (x : Option VId) (h : Sym w)
    (hi : i < (w.ends l).length) :
    M.prims.replaceEnd w l i x = S.prims.replaceEnd w l i x :=
  M.replaceEnd_eq 5 w l i x hi h.2

theorem agree_uniAddVertex (w : World) (u v : VId) :
    M.prims.uniAddVertex w u v = S.prims.uniAddVertex w u v := M.uniAddVertex_eq 6 w u v

theorem agree_addToUniverse (w : World) (v u : VId) :
    M.prims.addToUniverse w v u = S.prims.addToUniverse w v u := M.addToUniverse_eq 6 w v u

theorem agree_uniRemoveVertex (w : World) (u v : VId) (h : USym w) :
    M.prims.uniRemoveVertex w u v = S.prims.uniRemoveVertex w u v :=
  M.uniRemoveVertex_eq 5 w u v (h.2.1 u) (h.2.2 v)

theorem agree_removeFromUniverse (w : World) (v u : VId) (h : USym w) :
    M.prims.removeFromUniverse w v u = S.prims.removeFromUniverse w v u :=
  M.removeFromUniverse_eq 5 w v u (h.2.1 u) (h.2.2 v)

theorem agree_setLaws (w : World) (u : VId) (x : Option WId) (h : LawSym w) :
    M.prims.setLaws w u x = S.prims.setLaws w u x := M.setLaws_eq 3 w u x h

theorem agree_setAppliesTo (w : World) (L : WId) (x : Option VId) (h : LawSym w) :
    M.prims.setAppliesTo w L x = S.prims.setAppliesTo w L x := M.setAppliesTo_eq 3 w L x h

/-! ### frames -/

/-- what the vertex–link association primitives leave alone -/
structure AssocFrame (w w' : World) : Prop where
  nV : w'.nV = w.nV
  nL : w'.nL = w.nL
  nW : w'.nW = w.nW
  vcls : w'.vcls = w.vcls
  lcls : w'.lcls = w.lcls
  unis : w'.unis = w.unis
  members : w'.members = w.members
  laws : w'.laws = w.laws
  appliesTo : w'.appliesTo = w.appliesTo
  rules : w'.rules = w.rules

/-- what the universe-membership primitives leave alone -/
structure UniFrame (w w' : World) : Prop where
  nV : w'.nV = w.nV
  nL : w'.nL = w.nL
  nW : w'.nW = w.nW
  vcls : w'.vcls = w.vcls
  lcls : w'.lcls = w.lcls
  links : w'.links = w.links
  ends : w'.ends = w.ends
  laws : w'.laws = w.laws
  appliesTo : w'.appliesTo = w.appliesTo
  rules : w'.rules = w.rules

/-- what the universe↔laws primitives leave alone -/
structure LawFrame (w w' : World) : Prop where
  nV : w'.nV = w.nV
  nL : w'.nL = w.nL
  nW : w'.nW = w.nW
  vcls : w'.vcls = w.vcls
  lcls : w'.lcls = w.lcls
  links : w'.links = w.links
  ends : w'.ends = w.ends
  unis : w'.unis = w.unis
  members : w'.members = w.members
  rules : w'.rules = w.rules

theorem AssocFrame.refl (w : World) : AssocFrame w w := ⟨rfl, rfl, rfl, rfl, rfl, rfl, rfl, rfl, rfl, rfl⟩
theorem UniFrame.refl (w : World) : UniFrame w w := ⟨rfl, rfl, rfl, rfl, rfl, rfl, rfl, rfl, rfl, rfl⟩
theorem LawFrame.refl (w : World) : LawFrame w w := ⟨rfl, rfl, rfl, rfl, rfl, rfl, rfl, rfl, rfl, rfl⟩

theorem AssocFrame.trans {a b c : World} (h1 : AssocFrame a b) (h2 : AssocFrame b c) : AssocFrame a c :=
  ⟨h2.nV.trans h1.nV, h2.nL.trans h1.nL, h2.nW.trans h1.nW, h2.vcls.trans h1.vcls,
   h2.lcls.trans h1.lcls, h2.unis.trans h1.unis, h2.members.trans h1.members,
   h2.laws.trans h1.laws, h2.appliesTo.trans h1.appliesTo, h2.rules.trans h1.rules⟩

theorem UniFrame.trans {a b c : World} (h1 : UniFrame a b) (h2 : UniFrame b c) : UniFrame a c :=
  ⟨h2.nV.trans h1.nV, h2.nL.trans h1.nL, h2.nW.trans h1.nW, h2.vcls.trans h1.vcls,
   h2.lcls.trans h1.lcls, h2.links.trans h1.links, h2.ends.trans h1.ends,
   h2.laws.trans h1.laws, h2.appliesTo.trans h1.appliesTo, h2.rules.trans h1.rules⟩

theorem AssocFrame.usym {w w' : World} (f : AssocFrame w w') (h : USym w) : USym w' := by
  simpa only [USym, f.unis, f.members] using h
theorem AssocFrame.lawsym {w w' : World} (f : AssocFrame w w') (h : LawSym w) : LawSym w' := by
  simpa only [LawSym, f.laws, f.appliesTo] using h
theorem UniFrame.sym {w w' : World} (f : UniFrame w w') (h : Sym w) : Sym w' := by
  simpa only [Sym, f.links, f.ends] using h
theorem UniFrame.lawsym {w w' : World} (f : UniFrame w w') (h : LawSym w) : LawSym w' := by
  simpa only [LawSym, f.laws, f.appliesTo] using h
theorem LawFrame.sym {w w' : World} (f : LawFrame w w') (h : Sym w) : Sym w' := by
  simpa only [Sym, f.links, f.ends] using h
theorem LawFrame.usym {w w' : World} (f : LawFrame w w') (h : USym w) : USym w' := by
  simpa only [USym, f.unis, f.members] using h

namespace S

theorem addToLink_frame (w : World) (v : VId) (l : LId) : AssocFrame w (S.addToLink w v l) :=
  ⟨rfl, rfl, rfl, rfl, rfl, rfl, rfl, rfl, rfl, rfl⟩
theorem addVertex_frame (w : World) (l : LId) (x : Option VId) : AssocFrame w (S.addVertex w l x) :=
  ⟨rfl, rfl, rfl, rfl, rfl, rfl, rfl, rfl, rfl, rfl⟩
theorem removeFromLink_frame (w : World) (v : VId) (l : LId) : AssocFrame w (S.removeFromLink w v l) :=
  ⟨rfl, rfl, rfl, rfl, rfl, rfl, rfl, rfl, rfl, rfl⟩
theorem unlinkFrom_frame (w : World) (l : LId) (x : Option VId) : AssocFrame w (S.unlinkFrom w l x) := by
  cases x <;> exact ⟨rfl, rfl, rfl, rfl, rfl, rfl, rfl, rfl, rfl, rfl⟩
theorem replaceEnd_frame (w : World) (l : LId) (i : Nat) (x : Option VId) :
    AssocFrame w (S.replaceEnd w l i x) :=
  ⟨rfl, rfl, rfl, rfl, rfl, rfl, rfl, rfl, rfl, rfl⟩

theorem uniAddVertex_frame (w : World) (u v : VId) : UniFrame w (S.uniAddVertex w u v) :=
  ⟨rfl, rfl, rfl, rfl, rfl, rfl, rfl, rfl, rfl, rfl⟩
theorem addToUniverse_frame (w : World) (v u : VId) : UniFrame w (S.addToUniverse w v u) :=
  ⟨rfl, rfl, rfl, rfl, rfl, rfl, rfl, rfl, rfl, rfl⟩
theorem uniRemoveVertex_frame (w : World) (u v : VId) : UniFrame w (S.uniRemoveVertex w u v) :=
  ⟨rfl, rfl, rfl, rfl, rfl, rfl, rfl, rfl, rfl, rfl⟩
theorem removeFromUniverse_frame (w : World) (v u : VId) : UniFrame w (S.removeFromUniverse w v u) :=
  ⟨rfl, rfl, rfl, rfl, rfl, rfl, rfl, rfl, rfl, rfl⟩

theorem setLaws_frame (w : World) (u : VId) (x : Option WId) : LawFrame w (S.setLaws w u x) := by
  unfold S.setLaws; split
  · exact LawFrame.refl w
  · exact ⟨rfl, rfl, rfl, rfl, rfl, rfl, rfl, rfl, rfl, rfl⟩
theorem setAppliesTo_frame (w : World) (L : WId) (x : Option VId) :
    LawFrame w (S.setAppliesTo w L x) := by
  unfold S.setAppliesTo; split
  · exact LawFrame.refl w
  · exact ⟨rfl, rfl, rfl, rfl, rfl, rfl, rfl, rfl, rfl, rfl⟩

/-! ### `Fresh` is preserved -/

theorem addToLink_fresh (w : World) (v : VId) (l : LId) (h : Fresh w)
    (hv : v < w.nV) (hl : l < w.nL) : Fresh (S.addToLink w v l) := by
  obtain ⟨h1, h2, h3⟩ := h
  refine ⟨?_, ?_, h3⟩
  · intro y (hy : w.nL ≤ y); have := h1 y hy; simp only [S.addToLink]; grind
  · intro x (hx : w.nV ≤ x); have := h2 x hx; simp only [S.addToLink]; grind

theorem addVertex_fresh (w : World) (l : LId) (x : Option VId) (h : Fresh w)
    (hl : l < w.nL) (hx : w.ovOK x = true) : Fresh (S.addVertex w l x) := by
  obtain ⟨h1, h2, h3⟩ := h
  refine ⟨?_, ?_, h3⟩
  · intro y (hy : w.nL ≤ y); have := h1 y hy; simp only [S.addVertex]; grind
  · intro v (hv : w.nV ≤ v); have := h2 v hv
    cases x <;> simp [World.ovOK, World.vOK] at hx <;> simp only [S.addVertex] <;> grind

theorem removeFromLink_fresh (w : World) (v : VId) (l : LId) (h : Fresh w) :
    Fresh (S.removeFromLink w v l) := by
  obtain ⟨h1, h2, h3⟩ := h
  refine ⟨?_, ?_, h3⟩
  · intro y (hy : w.nL ≤ y); have := h1 y hy; simp only [S.removeFromLink]; split
    · rename_i hc; rw [← hc.1, this]; rfl
    · exact this
  · intro x (hx : w.nV ≤ x); have := h2 x hx; simp only [S.removeFromLink]; split
    · rename_i hc; subst hc; rw [this.1]; exact ⟨rfl, this.2⟩
    · exact this

theorem unlinkFrom_fresh (w : World) (l : LId) (x : Option VId) (h : Fresh w) :
    Fresh (S.unlinkFrom w l x) := by
  obtain ⟨h1, h2, h3⟩ := h
  cases x with
  | none =>
    refine ⟨?_, h2, h3⟩
    intro y (hy : w.nL ≤ y); have := h1 y hy; simp only [S.unlinkFrom]; split
    · rename_i hc; rw [← hc, this]; rfl
    · exact this
  | some k =>
    refine ⟨?_, ?_, h3⟩
    · intro y (hy : w.nL ≤ y); have := h1 y hy; simp only [S.unlinkFrom]; split
      · rename_i hc; rw [← hc, this]; rfl
      · exact this
    · intro x (hx : w.nV ≤ x); have := h2 x hx; simp only [S.unlinkFrom]; split
      · rename_i hc; rw [← hc.1, this.1]; exact ⟨rfl, this.2⟩
      · exact this

theorem replaceEnd_fresh (w : World) (l : LId) (i : Nat) (x : Option VId) (h : Fresh w)
    (hl : l < w.nL) (hx : w.ovOK x = true) : Fresh (S.replaceEnd w l i x) := by
  obtain ⟨h1, h2, h3⟩ := h
  refine ⟨?_, ?_, h3⟩
  · intro y (hy : w.nL ≤ y); have := h1 y hy; simp only [S.replaceEnd]; grind
  · intro v (hv : w.nV ≤ v); have := h2 v hv
    have hne : some v ≠ x := by
      cases x with
      | none => simp
      | some k =>
        simp only [World.ovOK, World.vOK, decide_eq_true_eq] at hx
        intro e; cases e; exact absurd hx (Nat.not_lt.mpr hv)
    simp only [S.replaceEnd, hne, false_and, if_false]
    refine ⟨?_, this.2⟩
    split
    · rw [this.1]; rfl
    · exact this.1

theorem uniAddVertex_fresh (w : World) (u v : VId) (h : Fresh w)
    (hu : u < w.nV) (hv : v < w.nV) : Fresh (S.uniAddVertex w u v) := by
  obtain ⟨h1, h2, h3⟩ := h
  refine ⟨h1, ?_, h3⟩
  intro x (hx : w.nV ≤ x); have := h2 x hx; simp only [S.uniAddVertex]; grind

theorem addToUniverse_fresh (w : World) (v u : VId) (h : Fresh w)
    (hu : u < w.nV) (hv : v < w.nV) : Fresh (S.addToUniverse w v u) := by
  obtain ⟨h1, h2, h3⟩ := h
  refine ⟨h1, ?_, h3⟩
  intro x (hx : w.nV ≤ x); have := h2 x hx; simp only [S.addToUniverse]; grind

theorem uniRemoveVertex_fresh (w : World) (u v : VId) (h : Fresh w)
    (hu : u < w.nV) (hv : v < w.nV) : Fresh (S.uniRemoveVertex w u v) := by
  obtain ⟨h1, h2, h3⟩ := h
  refine ⟨h1, ?_, h3⟩
  intro x (hx : w.nV ≤ x); have := h2 x hx; simp only [S.uniRemoveVertex]; grind

theorem removeFromUniverse_fresh (w : World) (v u : VId) (h : Fresh w)
    (hu : u < w.nV) (hv : v < w.nV) : Fresh (S.removeFromUniverse w v u) := by
  obtain ⟨h1, h2, h3⟩ := h
  refine ⟨h1, ?_, h3⟩
  intro x (hx : w.nV ≤ x); have := h2 x hx; simp only [S.removeFromUniverse]; grind

theorem setLaws_fresh (w : World) (u : VId) (x : Option WId) (h : Fresh w)
    (hu : u < w.nV) (hx : ∀ L, x = some L → L < w.nW) : Fresh (S.setLaws w u x) := by
  unfold S.setLaws; split
  · exact h
  · obtain ⟨h1, h2, h3⟩ := h
    refine ⟨h1, ?_, ?_⟩
    · intro v (hv : w.nV ≤ v); have := h2 v hv; simp only []; grind
    · intro L (hL : w.nW ≤ L); have := h3 L hL; have := hx L; simp only []; grind

theorem setAppliesTo_fresh (w : World) (L : WId) (x : Option VId) (h : Fresh w)
    (hL : L < w.nW) (hx : ∀ u, x = some u → u < w.nV) : Fresh (S.setAppliesTo w L x) := by
  unfold S.setAppliesTo; split
  · exact h
  · obtain ⟨h1, h2, h3⟩ := h
    refine ⟨h1, ?_, ?_⟩
    · intro v (hv : w.nV ≤ v); have := h2 v hv; have := hx v; simp only []; grind
    · intro K (hK : w.nW ≤ K); have := h3 K hK; simp only []; grind

end S
end EG
