import EG.Proofs.Sym
/-
  EG.Proofs.UniLaws — universe membership and universe↔laws primitives:
  the mirror model M equals the reference model S, and S preserves USym / LawSym.
-/
set_option linter.unusedSimpArgs false
set_option linter.unusedVariables false
namespace EG
namespace M

theorem uniAddVertex_eq (f : Nat) (w : World) (u v : VId) :
    uniAddVertex (f+2) w u v = some (S.uniAddVertex w u v) := by
  simp only [uniAddVertex, addToUniverse, S.uniAddVertex, World.setMembers, World.setUnis]
  by_cases h1 : v ∈ w.members u
  · simp [h1]
  · by_cases h2 : u ∈ w.unis v
    · simp [h1, h2]; wfin
    · simp [h1, h2]; wfin

theorem addToUniverse_eq (f : Nat) (w : World) (v u : VId) :
    addToUniverse (f+2) w v u = some (S.addToUniverse w v u) := by
  simp only [uniAddVertex, addToUniverse, S.addToUniverse, World.setMembers, World.setUnis]
  by_cases h1 : v ∈ w.members u
  · by_cases h2 : u ∈ w.unis v
    · simp [h1, h2]
    · simp [h1, h2]; wfin
  · by_cases h2 : u ∈ w.unis v
    · simp [h1, h2]; wfin
    · simp [h1, h2]; wfin

theorem uniRemoveVertex_eq (f : Nat) (w : World) (u v : VId)
    (h1 : (w.members u).Nodup) (h2 : (w.unis v).Nodup) :
    uniRemoveVertex (f+3) w u v =
      some (if v ∈ w.members u then .ok (S.uniRemoveVertex w u v) else .error .value) := by
  have hne : v ∉ (w.members u).erase v := fun h => (List.Nodup.mem_erase_iff h1).mp h |>.1 rfl
  simp only [uniRemoveVertex, removeFromUniverse, S.uniRemoveVertex, World.setMembers, World.setUnis]
  by_cases h3 : v ∈ w.members u
  · by_cases h4 : u ∈ w.unis v
    · simp [h3, h4, hne]; wfin
    · have := erase_not_mem_self (w.unis v) u h4
      simp [h3, h4, hne]; wfin
  · simp [h3]

theorem removeFromUniverse_eq (f : Nat) (w : World) (v u : VId)
    (h1 : (w.members u).Nodup) (h2 : (w.unis v).Nodup) :
    removeFromUniverse (f+3) w v u =
      some (if u ∈ w.unis v then .ok (S.removeFromUniverse w v u) else .error .value) := by
  have hne : u ∉ (w.unis v).erase u := fun h => (List.Nodup.mem_erase_iff h2).mp h |>.1 rfl
  simp only [uniRemoveVertex, removeFromUniverse, S.removeFromUniverse, World.setMembers, World.setUnis]
  by_cases h3 : u ∈ w.unis v
  · by_cases h4 : v ∈ w.members u
    · simp [h3, h4, hne]; wfin
    · have := erase_not_mem_self (w.members u) v h4
      simp [h3, h4, hne]; wfin
  · simp [h3]

theorem setLaws_noop (f : Nat) (w : World) (u : VId) (new : Option WId) (h : new = w.laws u) :
    setLaws (f+1) w u new = some w := by
  simp only [setLaws, h, ↓reduceIte]

theorem setAppliesTo_noop (f : Nat) (w : World) (L : WId) (new : Option VId)
    (h : new = w.appliesTo L) : setAppliesTo (f+1) w L new = some w := by
  simp only [setAppliesTo, h, ↓reduceIte]

/-- detach a law set that no longer points back -/
theorem setLaws_detach (f : Nat) (w : World) (o : VId) (L : WId)
    (h1 : w.laws o = some L) (h2 : w.appliesTo L ≠ some o) :
    setLaws (f+1) w o none = some (w.setLaws o none) := by
  simp only [setLaws, World.setLaws, h1]
  simp [h2]

theorem setAppliesTo_detach (f : Nat) (w : World) (L : WId) (o : VId)
    (h1 : w.appliesTo L = some o) (h2 : w.laws o ≠ some L) :
    setAppliesTo (f+1) w L none = some (w.setAppliesTo L none) := by
  simp only [setAppliesTo, World.setAppliesTo, h1]
  simp [h2]

/-- attach `L` to `u` when `u` already points at `L`; the previous holder of `L` is detached -/
theorem setAppliesTo_attach (f : Nat) (w : World) (L : WId) (u : VId)
    (h1 : w.laws u = some L) (h2 : w.appliesTo L ≠ some u)
    (h3 : ∀ o, w.appliesTo L = some o → w.laws o = some L) :
    setAppliesTo (f+2) w L (some u) =
      some { w with appliesTo := upd w.appliesTo L (some u)
                    laws := fun x => if some x = w.appliesTo L then none else w.laws x } := by
  rw [setAppliesTo]
  rw [if_neg (fun e => h2 e.symm)]
  cases hl : w.appliesTo L with
  | none =>
    simp only [World.setAppliesTo, upd_same]
    rw [setLaws_noop _ _ _ _ (by simp [h1])]
    wfin
  | some o =>
    have hou : o ≠ u := by intro e; subst e; exact h2 hl
    have h3 := h3 o hl
    simp only [World.setAppliesTo, h3, ↓reduceIte]
    rw [setLaws_detach _ _ _ L (by simp [h3]) (by simp; exact fun e => hou e.symm)]
    simp only [World.setLaws, upd_same]
    rw [setLaws_noop _ _ _ _ (by simp [upd, Ne.symm hou, h1])]
    wfin

theorem setLaws_attach (f : Nat) (w : World) (u : VId) (L : WId)
    (h1 : w.appliesTo L = some u) (h2 : w.laws u ≠ some L)
    (h3 : ∀ o, w.laws u = some o → w.appliesTo o = some u) :
    setLaws (f+2) w u (some L) =
      some { w with laws := upd w.laws u (some L)
                    appliesTo := fun y => if some y = w.laws u then none else w.appliesTo y } := by
  rw [setLaws]
  rw [if_neg (fun e => h2 e.symm)]
  cases hl : w.laws u with
  | none =>
    simp only [World.setLaws]
    rw [setAppliesTo_noop _ _ _ _ (by simp [h1])]
    wfin
  | some o =>
    have hou : o ≠ L := by intro e; subst e; exact h2 hl
    have h3 := h3 o hl
    simp only [World.setLaws, h3, ↓reduceIte]
    rw [setAppliesTo_detach _ _ _ u (by simp [h3]) (by simp; exact fun e => hou e.symm)]
    simp only [World.setAppliesTo]
    rw [setAppliesTo_noop _ _ _ _ (by simp [upd, Ne.symm hou, h1])]
    wfin

theorem setLaws_eq (f : Nat) (w : World) (u : VId) (new : Option WId) (h : LawSym w) :
    setLaws (f+5) w u new = some (S.setLaws w u new) := by
  by_cases h0 : new = w.laws u
  · rw [setLaws_noop _ _ _ _ h0]; simp [S.setLaws, h0]
  · rw [setLaws]
    rw [if_neg h0]
    cases hl : w.laws u with
    | none =>
      cases new with
      | none => exact absurd hl.symm h0
      | some L =>
        have := h u L
        simp only []
        rw [setAppliesTo_attach _ _ L u (by simp [World.setLaws]) (by simp [World.setLaws]; grind)
          (by intro o; have := h o L; simp [World.setLaws, upd]; grind)]
        simp [S.setLaws, hl, World.setLaws]
        refine ⟨?_, ?_⟩ <;> funext x <;> have := h x L <;> simp [upd] <;> grind
    | some o =>
      have ho : w.appliesTo o = some u := (h u o).mp hl
      simp only [World.setLaws, ho, ↓reduceIte]
      rw [setAppliesTo_detach _ _ _ u (by simp [ho]) (by simp; grind)]
      cases new with
      | none =>
        simp [S.setLaws, hl, World.setAppliesTo]
        wfin
      | some L =>
        have := h u L
        have hoL : o ≠ L := by grind
        simp only []
        rw [setAppliesTo_attach _ _ L u (by simp [World.setAppliesTo]) (by simp [World.setAppliesTo, upd]; grind)
          (by intro o'; have := h o' L; simp [World.setAppliesTo, upd]; grind)]
        simp [S.setLaws, hl, World.setAppliesTo, hoL, Ne.symm hoL]
        refine ⟨?_, ?_⟩ <;> funext x <;> have := h x L <;> simp [upd] <;> grind

theorem setAppliesTo_eq (f : Nat) (w : World) (L : WId) (new : Option VId) (h : LawSym w) :
    setAppliesTo (f+5) w L new = some (S.setAppliesTo w L new) := by
  by_cases h0 : new = w.appliesTo L
  · rw [setAppliesTo_noop _ _ _ _ h0]; simp [S.setAppliesTo, h0]
  · rw [setAppliesTo]
    rw [if_neg h0]
    cases hl : w.appliesTo L with
    | none =>
      cases new with
      | none => exact absurd hl.symm h0
      | some u =>
        have := h u L
        simp only [World.setAppliesTo, upd_same]
        rw [setLaws_attach _ _ u L (by simp) (by simp; grind)
          (by intro o; have := h u o; simp [upd]; grind)]
        simp [S.setAppliesTo, hl]
        refine ⟨?_, ?_⟩ <;> funext x <;> have := h u x <;> simp [upd] <;> grind
    | some o =>
      have ho : w.laws o = some L := (h o L).mpr hl
      simp only [World.setAppliesTo, ho, ↓reduceIte]
      rw [setLaws_detach _ _ _ L (by simp [ho]) (by simp; grind)]
      cases new with
      | none =>
        simp [S.setAppliesTo, hl, World.setLaws]
        wfin
      | some u =>
        have := h u L
        have hou : o ≠ u := by grind
        simp only [World.setLaws, upd_same]
        rw [setLaws_attach _ _ u L (by simp) (by simp [upd]; grind)
          (by intro o'; have := h u o'; simp [upd]; grind)]
        simp [S.setAppliesTo, hl, hou, Ne.symm hou]
        refine ⟨?_, ?_⟩ <;> funext x <;> have := h u x <;> simp [upd] <;> grind

end M

namespace S

theorem uniAddVertex_usym (w : World) (u v : VId) (h : USym w) : USym (S.uniAddVertex w u v) := by
  obtain ⟨h1, h2, h3⟩ := h
  refine ⟨?_, ?_, ?_⟩
  · intro v' u'
    have := h1 v' u'; have := h1 v u; have := h1 v' u; have := h1 v u'
    simp only [S.uniAddVertex]; grind
  · intro u'
    simp only [S.uniAddVertex]
    split
    · rename_i hc; exact nodup_append_singleton _ _ (h2 u) hc.2
    · exact h2 u'
  · intro v'
    simp only [S.uniAddVertex]
    split
    · rename_i hc; exact nodup_append_singleton _ _ (h3 v) hc.2.2
    · exact h3 v'

theorem addToUniverse_usym (w : World) (v u : VId) (h : USym w) : USym (S.addToUniverse w v u) := by
  obtain ⟨h1, h2, h3⟩ := h
  refine ⟨?_, ?_, ?_⟩
  · intro v' u'
    have := h1 v' u'; have := h1 v u; have := h1 v' u; have := h1 v u'
    simp only [S.addToUniverse]; grind
  · intro u'
    simp only [S.addToUniverse]
    split
    · rename_i hc; exact nodup_append_singleton _ _ (h2 u) hc.2
    · exact h2 u'
  · intro v'
    simp only [S.addToUniverse]
    split
    · rename_i hc; exact nodup_append_singleton _ _ (h3 v) hc.2
    · exact h3 v'

theorem uniRemoveVertex_usym (w : World) (u v : VId) (h : USym w) : USym (S.uniRemoveVertex w u v) := by
  obtain ⟨h1, h2, h3⟩ := h
  refine ⟨?_, ?_, ?_⟩
  · intro v' u'
    have := h1 v' u'; have := h1 v u; have := h1 v' u; have := h1 v u'
    have := List.Nodup.mem_erase_iff (a := v') (b := v) (h2 u)
    have := List.Nodup.mem_erase_iff (a := u') (b := u) (h3 v)
    simp only [S.uniRemoveVertex]; grind
  · intro u'
    simp only [S.uniRemoveVertex]
    split
    · exact List.Nodup.erase _ (h2 u)
    · exact h2 u'
  · intro v'
    simp only [S.uniRemoveVertex]
    split
    · exact List.Nodup.erase _ (h3 v)
    · exact h3 v'

theorem removeFromUniverse_usym (w : World) (v u : VId) (h : USym w) : USym (S.removeFromUniverse w v u) := by
  obtain ⟨h1, h2, h3⟩ := h
  refine ⟨?_, ?_, ?_⟩
  · intro v' u'
    have := h1 v' u'; have := h1 v u; have := h1 v' u; have := h1 v u'
    have := List.Nodup.mem_erase_iff (a := v') (b := v) (h2 u)
    have := List.Nodup.mem_erase_iff (a := u') (b := u) (h3 v)
    simp only [S.removeFromUniverse]; grind
  · intro u'
    simp only [S.removeFromUniverse]
    split
    · exact List.Nodup.erase _ (h2 u)
    · exact h2 u'
  · intro v'
    simp only [S.removeFromUniverse]
    split
    · exact List.Nodup.erase _ (h3 v)
    · exact h3 v'

theorem setLaws_lawsym (w : World) (u : VId) (new : Option WId) (h : LawSym w) : LawSym (S.setLaws w u new) := by
  unfold S.setLaws
  split
  · exact h
  · rename_i hne
    intro x y
    have := h x y; have := h u y
    cases new with
    | none =>
      cases hl : w.laws u with
      | none => simp [hl] at hne
      | some o =>
        have := h u o; have := h x o
        simp only [hl]; grind
    | some L =>
      have := h x L; have := h u L
      cases hl : w.laws u with
      | none => simp only [hl]; grind
      | some o =>
        have := h u o; have := h x o
        simp only [hl]; grind

theorem setAppliesTo_lawsym (w : World) (L : WId) (new : Option VId) (h : LawSym w) :
    LawSym (S.setAppliesTo w L new) := by
  unfold S.setAppliesTo
  split
  · exact h
  · rename_i hne
    intro x y
    have := h x y; have := h x L
    cases new with
    | none =>
      cases hl : w.appliesTo L with
      | none => simp [hl] at hne
      | some o =>
        have := h o L; have := h o y
        simp only [hl]; grind
    | some n =>
      have := h n y; have := h n L
      cases hl : w.appliesTo L with
      | none => simp only [hl]; grind
      | some o =>
        have := h o L; have := h o y
        simp only [hl]; grind

end S
end EG
