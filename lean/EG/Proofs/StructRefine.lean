import EG.StructSpec
/-
  EG.Proofs.StructRefine — the mirror model M of the association primitives equals
  the plain reference model S, for every fuel above a small constant.
-/
set_option linter.unusedSimpArgs false
set_option linter.unusedVariables false
namespace EG

theorem World.ext' {a b : World}
    (h1 : a.nV = b.nV) (h2 : a.nL = b.nL) (h3 : a.nW = b.nW)
    (h4 : ∀ x, a.vcls x = b.vcls x) (h5 : ∀ x, a.links x = b.links x)
    (h6 : ∀ x, a.unis x = b.unis x) (h7 : ∀ x, a.members x = b.members x)
    (h8 : ∀ x, a.laws x = b.laws x) (h9 : ∀ x, a.attrs x = b.attrs x)
    (h10 : ∀ x, a.lcls x = b.lcls x) (h11 : ∀ x, a.ends x = b.ends x)
    (h12 : ∀ x, a.appliesTo x = b.appliesTo x) (h12' : ∀ x, a.rules x = b.rules x)
    (h13 : a.caching = b.caching)
    (h14 : ∀ x, a.cache x = b.cache x) : a = b := by
  cases a; cases b
  simp only [World.mk.injEq]
  simp only at *
  exact ⟨h1, h2, h3, funext h4, funext h5, funext h6, funext h7, funext h8, funext h9,
    funext h10, funext h11, funext h12, funext h12', h13, funext h14⟩

theorem filter_ne_self (l : List (Option Nat)) (a : Option Nat) (h : a ∉ l) :
    l.filter (· != a) = l := by
  rw [List.filter_eq_self]; intro x hx; simp; intro hxa; exact h (hxa ▸ hx)

theorem erase_not_mem_self (l : List Nat) (a : Nat) (h : a ∉ l) :
    l.erase a = l := List.erase_of_not_mem h

theorem erase_none_not_mem (l : List (Option Nat)) (h : none ∉ l) :
    l.erase none = l := List.erase_of_not_mem h

/-- close a goal `w₁ = w₂` (possibly already split into field equalities by `simp`) -/
macro "wfin" : tactic =>
  `(tactic| ((try congr 1) <;> (try apply World.ext') <;> (repeat' apply And.intro) <;> (try funext x) <;> (try intros) <;>
      (try simp [upd]) <;> (try grind)))

namespace M

theorem addToLink_eq (f : Nat) (w : World) (v : VId) (l : LId) :
    addToLink (f+2) w v l = some (S.addToLink w v l) := by
  simp only [addToLink, addVertex, S.addToLink, World.invalidate, World.invalidateEnds,
    World.setLinks, World.setEnds]
  by_cases h1 : l ∈ w.links v
  · simp only [h1, ↓reduceIte]
    congr 1; apply World.ext' <;> intros <;> simp [upd] <;> grind
  · by_cases h2 : some v ∈ w.ends l
    · simp only [h1, h2, ↓reduceIte]
      congr 1; apply World.ext' <;> intros <;> simp [upd] <;> grind
    · simp [h1, h2]
      refine ⟨?_, ?_, ?_⟩ <;> funext x <;> simp [upd] <;> grind

theorem addVertex_eq (f : Nat) (w : World) (l : LId) (new : Option VId) :
    addVertex (f+2) w l new = some (S.addVertex w l new) := by
  simp only [addToLink, addVertex, S.addVertex, World.invalidate, World.invalidateEnds,
    World.setLinks, World.setEnds]
  cases new with
  | none => simp; wfin
  | some v =>
    by_cases h1 : l ∈ w.links v
    · simp [h1]; wfin
    · simp [h1]; wfin

theorem removeFromLink_eq (f : Nat) (w : World) (v : VId) (l : LId) (hn : (w.links v).Nodup) :
    removeFromLink (f+3) w v l = some (S.removeFromLink w v l) := by
  have hne : l ∉ (w.links v).erase l := fun h => (List.Nodup.mem_erase_iff hn).mp h |>.1 rfl
  simp only [removeFromLink, unlinkFrom, S.removeFromLink, World.invalidate, World.invalidateEnds,
    World.setLinks, World.setEnds]
  by_cases h1 : l ∈ w.links v
  · by_cases h2 : some v ∈ w.ends l
    · simp [h1, h2, hne]; wfin
    · have := filter_ne_self (w.ends l) (some v) h2
      simp [h1, h2]; wfin
  · have := erase_not_mem_self (w.links v) l h1
    simp [h1]; wfin

theorem unlinkFrom_eq (f : Nat) (w : World) (l : LId) (kill : Option VId)
    (hn : ∀ k, kill = some k → (w.links k).Nodup) :
    unlinkFrom (f+3) w l kill = some (S.unlinkFrom w l kill) := by
  simp only [removeFromLink, unlinkFrom, S.unlinkFrom, World.invalidate, World.invalidateEnds,
    World.setLinks, World.setEnds]
  cases kill with
  | none =>
    by_cases h1 : none ∈ w.ends l
    · simp [h1]; wfin
    · have := erase_none_not_mem (w.ends l) h1
      simp [h1]; wfin
  | some k =>
    have hn := hn k rfl
    have hne : l ∉ (w.links k).erase l := fun h => (List.Nodup.mem_erase_iff hn).mp h |>.1 rfl
    by_cases h1 : some k ∈ w.ends l
    · by_cases h2 : l ∈ w.links k
      · simp [h1, h2]; wfin
      · have := erase_not_mem_self (w.links k) l h2
        simp [h1, h2]; wfin
    · have := filter_ne_self (w.ends l) (some k) h1
      simp [h1]; wfin

theorem replaceEnd_eq (f : Nat) (w : World) (l : LId) (idx : Nat) (new : Option VId)
    (hi : idx < (w.ends l).length) (hn : ∀ v, (w.links v).Nodup) :
    replaceEnd (f+3) w l idx new = some (S.replaceEnd w l idx new) := by
  have hold : (w.ends l).getD idx none ∈ w.ends l := by
    rw [List.getD_eq_getElem?_getD, List.getElem?_eq_getElem hi]; simp
  have hnew : new ∈ (w.ends l).set idx new := List.mem_set hi new
  have hends : (rawSetEnd w l idx new).ends l = (w.ends l).set idx new := by
    simp [rawSetEnd, World.invalidateEnds, World.setEnds]
  have hlinks : ∀ x, (rawSetEnd w l idx new).links x = w.links x := by
    intro x; simp [rawSetEnd, World.invalidateEnds, World.setEnds]
  unfold replaceEnd
  simp only [hends, hlinks]
  cases hO : (w.ends l).getD idx none with
  | none =>
    cases new with
    | none => simp [S.replaceEnd, hO, rawSetEnd, World.invalidateEnds, World.setEnds]; wfin
    | some n =>
      simp only []
      by_cases h3 : l ∈ w.links n
      · simp [S.replaceEnd, hO, h3, rawSetEnd, World.invalidateEnds, World.setEnds]; wfin
      · rw [if_neg (by simpa [hlinks] using h3)]
        rw [addToLink_eq]
        simp [S.addToLink, S.replaceEnd, hO, h3, hnew, rawSetEnd, World.invalidateEnds, World.setEnds]; wfin
  | some o =>
    rw [hO] at hold
    simp only []
    by_cases h1 : some o ∈ (w.ends l).set idx new
    · rw [if_pos h1]
      cases new with
      | none => simp [S.replaceEnd, hO, h1, rawSetEnd, World.invalidateEnds, World.setEnds]; wfin
      | some n =>
        simp only []
        by_cases h3 : l ∈ w.links n
        · simp [S.replaceEnd, hO, h3, h1, rawSetEnd, World.invalidateEnds, World.setEnds]; wfin
        · rw [if_neg (by simpa [hlinks] using h3)]
          rw [addToLink_eq]
          simp [S.addToLink, S.replaceEnd, hO, h3, hnew, h1, rawSetEnd, World.invalidateEnds, World.setEnds]; wfin
    · rw [if_neg h1]
      rw [removeFromLink_eq f (rawSetEnd w l idx new) o l (hn o)]
      have hf := filter_ne_self _ _ h1
      cases new with
      | none => simp [S.replaceEnd, S.removeFromLink, hO, h1, hf, rawSetEnd, World.invalidateEnds, World.setEnds]; wfin
      | some n =>
        have hon : o ≠ n := by
          intro h; subst h; exact h1 hnew
        simp only []
        by_cases h3 : l ∈ w.links n
        · simp [S.replaceEnd, S.removeFromLink, hO, h3, h1, hon, Ne.symm hon, hf, rawSetEnd, World.invalidateEnds, World.setEnds]; wfin
        · simp [S.replaceEnd, S.removeFromLink, hO, h3, h1, hon, Ne.symm hon, hf, rawSetEnd, World.invalidateEnds, World.setEnds]
          rw [addToLink_eq]
          simp [S.addToLink, S.replaceEnd, S.removeFromLink, hO, h3, hnew, h1, hon, Ne.symm hon, hf]; wfin

end M
end EG
