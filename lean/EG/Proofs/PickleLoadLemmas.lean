import EG.PickleLoad
import EG.Proofs.PickleLemmas
import Mathlib.Data.List.Nodup
/-
  EG.Proofs.PickleLoadLemmas — the abstract unpickler run on the recursive pickler's stream
  rebuilds the pickled heap (helper lemmas for EG.Props.C10Load).
-/
set_option linter.unusedSimpArgs false
set_option linter.unusedVariables false
namespace EG
namespace Pk

/-! ### memo positions -/

theorem memoIdx_some {m : List Nat} {o i : Nat} (h : memoIdx m o = some i) :
    i < m.length ∧ m[i]? = some o ∧ o ∈ m := by
  unfold memoIdx at h
  simp only at h
  split at h
  · rename_i hlt
    cases h
    have hm : o ∈ m := List.idxOf_lt_length_iff.mp hlt
    refine ⟨hlt, ?_, hm⟩
    rw [List.getElem?_eq_getElem hlt]
    simp [List.getElem_idxOf]
  · cases h

theorem memoIdx_none {m : List Nat} {o : Nat} (h : memoIdx m o = none) : o ∉ m := by
  unfold memoIdx at h
  simp only at h
  split at h
  · cases h
  · rename_i hlt
    intro hm
    exact hlt (List.idxOf_lt_length_iff.mpr hm)

theorem memoIdx_of_mem {m : List Nat} {o : Nat} (h : o ∈ m) : ∃ i, memoIdx m o = some i := by
  cases hm : memoIdx m o with
  | some i => exact ⟨i, rfl⟩
  | none => exact absurd h (memoIdx_none hm)

theorem memoIdx_append_of_mem {m e : List Nat} {o : Nat} (h : o ∈ m) :
    memoIdx (m ++ e) o = memoIdx m o := by
  unfold memoIdx
  have h1 : (m ++ e).idxOf o = m.idxOf o := by rw [List.idxOf_append, if_pos h]
  have h2 : m.idxOf o < m.length := List.idxOf_lt_length_iff.mpr h
  simp only [h1, List.length_append]
  rw [if_pos (by omega), if_pos h2]

theorem memoIdx_snoc_self {m : List Nat} {o : Nat} (h : o ∉ m) :
    memoIdx (m ++ [o]) o = some m.length := by
  unfold memoIdx
  have h1 : (m ++ [o]).idxOf o = m.length := by
    rw [List.idxOf_append, if_neg h]; simp
  simp only [h1, List.length_append, List.length_singleton]
  rw [if_pos (by omega)]

/-! ### the value an object is loaded as -/

/-- the object is an atom or has been memoised -/
def Known (H : Heap) (m : List Nat) (o : Nat) : Prop := (∃ a, H o = .atom a) ∨ o ∈ m

theorem Known.mono {H : Heap} {m e : List Nat} {o : Nat} (h : Known H m o) : Known H (m ++ e) o := by
  rcases h with h | h
  · exact Or.inl h
  · exact Or.inr (List.mem_append_left _ h)

theorem phi_stable {H : Heap} {m e : List Nat} {vm ve : List Val} {c : Nat}
    (hl : vm.length = m.length) (hk : Known H m c) :
    phi H (m ++ e) (vm ++ ve) c = phi H m vm c := by
  unfold phi
  cases hc : H c with
  | atom a => rfl
  | node tup k bs as =>
    simp only []
    rcases hk with ⟨a, ha⟩ | hm
    · rw [hc] at ha; cases ha
    · rw [memoIdx_append_of_mem hm]
      obtain ⟨i, hi⟩ := memoIdx_of_mem hm
      rw [hi]
      simp only []
      have hlt := (memoIdx_some hi).1
      rw [List.getD_eq_getElem?_getD, List.getD_eq_getElem?_getD, List.getElem?_append_left (by omega)]

theorem map_phi_stable {H : Heap} {m e : List Nat} {vm ve : List Val} {cs : List Nat}
    (hl : vm.length = m.length) (hk : ∀ c ∈ cs, Known H m c) :
    cs.map (phi H (m ++ e) (vm ++ ve)) = cs.map (phi H m vm) := by
  apply List.map_congr_left
  intro c hc
  exact phi_stable hl (hk c hc)

/-! ### the stack -/

/-- the values `vs` pushed one after the other -/
def pushVals (vs : List Val) (st : List SV) : List SV := (vs.map SV.val).reverse ++ st

theorem pushVals_nil (st : List SV) : pushVals [] st = st := rfl

theorem pushVals_snoc (vs : List Val) (v : Val) (st : List SV) :
    pushVals (vs ++ [v]) st = .val v :: pushVals vs st := by
  simp [pushVals]

theorem pushVals_cons (v : Val) (vs : List Val) (st : List SV) :
    pushVals (v :: vs) st = pushVals vs (.val v :: st) := by
  simp [pushVals]

theorem popTo_rev (mk : SV) (hmk : ∀ v, mk ≠ .val v) (rest : List SV) : ∀ l : List Val,
    popTo mk (l.map SV.val ++ mk :: rest) = some (l.reverse, rest) := by
  intro l
  induction l with
  | nil => simp [popTo]
  | cons v l ih =>
    simp only [List.map_cons, List.cons_append, popTo]
    rw [if_neg (fun h => hmk v h.symm), ih]
    simp

theorem popTo_pushVals (mk : SV) (hmk : ∀ v, mk ≠ .val v) (vs : List Val) (rest : List SV) :
    popTo mk (pushVals vs (mk :: rest)) = some (vs, rest) := by
  have := popTo_rev mk hmk rest vs.reverse
  simpa [pushVals, List.map_reverse] using this

/-! ### running the machine -/

theorem vmRun_append (tupK : Nat → Bool) (s : VM) (a b : List POp) :
    vmRun tupK s (a ++ b) = (vmRun tupK s a).bind fun s' => vmRun tupK s' b := by
  induction a generalizing s with
  | nil => simp [vmRun]
  | cons op a ih =>
    simp only [List.cons_append, vmRun]
    cases vmStep tupK s op with
    | none => simp
    | some s' => exact ih s'

/-- the pickler never found a NON-tuple object memoised while its own `before` parts (the
    arguments of its reduce) were being saved: no `POP` in the stream.  (A tuple met again while
    its elements are being saved — `POP_MARK`, GET — is allowed.) -/
def NoReentry (s : List POp) : Prop := ∀ op ∈ s, op ≠ .pop

theorem NoReentry.left {a b : List POp} (h : NoReentry (a ++ b)) : NoReentry a :=
  fun op ho => h op (List.mem_append_left _ ho)

theorem NoReentry.right {a b : List POp} (h : NoReentry (a ++ b)) : NoReentry b :=
  fun op ho => h op (List.mem_append_right _ ho)

/-- the kind of an object determines whether it is tuple-like -/
def KindsWF (H : Heap) (tupK : Nat → Bool) : Prop :=
  ∀ o tup k bs as, H o = .node tup k bs as → tupK k = tup

end Pk
end EG

namespace EG
namespace Pk

/-! ### what has been rebuilt so far -/

/-- `m` = the pickler's memo (objects in memoisation order), `vm` = the unpickler's memo,
    `opn` = the objects whose `after` part is still being loaded -/
structure Built (H : Heap) (m : List Nat) (vm : List Val) (heap : Nat → VNode) (next : Nat)
    (opn : List Nat) : Prop where
  len : vm.length = m.length
  nodup : m.Nodup
  node : ∀ i (hi : i < m.length), ∃ tup k bs as r,
      H m[i] = .node tup k bs as ∧ vm[i]? = some (Val.ref r) ∧ r < next ∧
      (heap r).kind = k ∧ (heap r).before = bs.map (phi H m vm) ∧ (∀ b ∈ bs, Known H m b) ∧
      (m[i] ∉ opn → (heap r).after = (if tup then [] else as.map (phi H m vm)) ∧
        (tup = false → ∀ a ∈ as, Known H m a))
  inj : ∀ (i j r : Nat), vm[i]? = some (Val.ref r) → vm[j]? = some (Val.ref r) → i = j

/-- growth of the two memos and of the heap between two machine states -/
structure Ext (S S' : VM) (m m' : List Nat) : Prop where
  ext : ∃ e, m' = m ++ e
  vext : ∃ ve, S'.memo = S.memo ++ ve
  frame : ∀ r, r < S.next → S'.heap r = S.heap r
  next : S.next ≤ S'.next

theorem Ext.refl (S : VM) (m : List Nat) : Ext S S m m :=
  ⟨⟨[], by simp⟩, ⟨[], by simp⟩, fun _ _ => rfl, Nat.le_refl _⟩

theorem Ext.of_eq {S S' : VM} (m : List Nat) (h1 : S'.memo = S.memo) (h2 : S'.heap = S.heap)
    (h3 : S'.next = S.next) : Ext S S' m m :=
  ⟨⟨[], by simp⟩, ⟨[], by simp [h1]⟩, fun _ _ => by rw [h2], by omega⟩

theorem Ext.trans {S S1 S2 : VM} {m m1 m2 : List Nat} (a : Ext S S1 m m1) (b : Ext S1 S2 m1 m2) :
    Ext S S2 m m2 := by
  obtain ⟨⟨e1, he1⟩, ⟨v1, hv1⟩, f1, n1⟩ := a
  obtain ⟨⟨e2, he2⟩, ⟨v2, hv2⟩, f2, n2⟩ := b
  refine ⟨⟨e1 ++ e2, by rw [he2, he1, List.append_assoc]⟩, ⟨v1 ++ v2, by rw [hv2, hv1, List.append_assoc]⟩, ?_, by omega⟩
  intro r hr
  rw [f2 r (by omega), f1 r hr]

/-- a new object is created and memoised -/
theorem Built.add {H : Heap} {m : List Nat} {vm : List Val} {heap : Nat → VNode} {next : Nat}
    {opn : List Nat} (hb : Built H m vm heap next opn) {o : Nat} {tup : Bool} {k : Nat}
    {bs as : List Nat} (ho : o ∉ m) (hH : H o = .node tup k bs as) (hk : ∀ b ∈ bs, Known H m b) :
    Built H (m ++ [o]) (vm ++ [.ref next]) (upd heap next ⟨k, bs.map (phi H m vm), []⟩) (next + 1)
      (if tup then opn else o :: opn) := by
  have hlen := hb.len
  refine ⟨by simp [hlen], ?_, ?_, ?_⟩
  · exact List.nodup_append.mpr ⟨hb.nodup, List.nodup_singleton o, by
      intro a ha b hb' e; simp at hb'; subst hb'; subst e; exact ho ha⟩
  · intro i hi
    simp only [List.length_append, List.length_singleton] at hi
    by_cases hlt : i < m.length
    · obtain ⟨tup', k', bs', as', r, h1, h2, h3, h4, h5, h6, h7⟩ := hb.node i hlt
      have hmi : (m ++ [o])[i] = m[i] := List.getElem_append_left hlt
      refine ⟨tup', k', bs', as', r, by rw [hmi]; exact h1, ?_, by omega, ?_, ?_, ?_, ?_⟩
      · rw [List.getElem?_append_left (by omega)]; exact h2
      · rw [upd_other _ _ _ _ (by omega)]; exact h4
      · rw [upd_other _ _ _ _ (by omega), h5]; exact (map_phi_stable hlen h6).symm
      · intro b hb'; exact (h6 b hb').mono
      · intro hno
        rw [hmi] at hno
        have hno' : m[i] ∉ opn := by
          intro hin
          cases tup <;> simp_all
        obtain ⟨g1, g2⟩ := h7 hno'
        refine ⟨?_, fun ht a ha => (g2 ht a ha).mono⟩
        rw [upd_other _ _ _ _ (by omega), g1]
        cases htup' : tup' with
        | true => simp
        | false =>
          simp only [Bool.false_eq_true, if_false]
          exact (map_phi_stable hlen (g2 htup')).symm
    · have hi' : i = m.length := by omega
      subst hi'
      have hmi : (m ++ [o])[m.length] = o := by simp
      refine ⟨tup, k, bs, as, next, by rw [hmi]; exact hH, ?_, by omega, ?_, ?_, ?_, ?_⟩
      · rw [List.getElem?_append_right (by omega)]; simp [hlen]
      · rw [upd_same]
      · rw [upd_same]; exact (map_phi_stable hlen hk).symm
      · intro b hb'; exact (hk b hb').mono
      · intro hno
        rw [hmi] at hno
        cases htup : tup with
        | true => rw [upd_same]; simp
        | false => rw [htup] at hno; simp at hno
  · intro i j r hi hj
    have old : ∀ i, i < vm.length → ∀ r, vm[i]? = some (.ref r) → r < next := by
      intro i hi r hr
      obtain ⟨_, _, _, _, r', _, h2, h3, _⟩ := hb.node i (by omega)
      rw [h2] at hr; cases hr; exact h3
    have key : ∀ i r, (vm ++ [Val.ref next])[i]? = some (.ref r) →
        (i < vm.length ∧ vm[i]? = some (.ref r)) ∨ (i = vm.length ∧ r = next) := by
      intro i r h
      by_cases hlt : i < vm.length
      · rw [List.getElem?_append_left hlt] at h; exact Or.inl ⟨hlt, h⟩
      · rw [List.getElem?_append_right (by omega)] at h
        cases hd : i - vm.length with
        | zero =>
          rw [hd] at h; simp at h
          exact Or.inr ⟨by omega, h.symm⟩
        | succ n => rw [hd] at h; simp at h
    rcases key i r hi with ⟨a1, a2⟩ | ⟨a1, a2⟩ <;> rcases key j r hj with ⟨b1, b2⟩ | ⟨b1, b2⟩
    · exact hb.inj i j r a2 b2
    · have := old i a1 r a2; omega
    · have := old j b1 r b2; omega
    · omega

/-- the `after` part of an open object is stored -/
theorem Built.close {H : Heap} {m : List Nat} {vm : List Val} {heap : Nat → VNode} {next : Nat}
    {opn : List Nat} {o : Nat} (hb : Built H m vm heap next (o :: opn)) {i : Nat} (hi : i < m.length)
    (hmi : m[i] = o) {k : Nat} {bs as : List Nat} (hH : H o = .node false k bs as) {r : Nat}
    (hr : vm[i]? = some (.ref r)) (hk : ∀ a ∈ as, Known H m a) :
    Built H m vm (upd heap r { heap r with after := as.map (phi H m vm) }) next opn := by
  refine ⟨hb.len, hb.nodup, ?_, hb.inj⟩
  intro j hj
  obtain ⟨tup', k', bs', as', r', h1, h2, h3, h4, h5, h6, h7⟩ := hb.node j hj
  by_cases hji : j = i
  · subst hji
    rw [hmi, hH] at h1
    cases h1
    rw [hr] at h2; cases h2
    refine ⟨false, k, bs, as, r, by rw [hmi]; exact hH, hr, h3, ?_, ?_, h6, ?_⟩
    · rw [upd_same]; exact h4
    · rw [upd_same]; exact h5
    · intro _
      rw [upd_same]
      exact ⟨by simp, fun _ => hk⟩
  · have hrr : r' ≠ r := by
      intro e; subst e
      exact hji (hb.inj j i r' h2 hr)
    refine ⟨tup', k', bs', as', r', h1, h2, h3, ?_, ?_, h6, ?_⟩
    · rw [upd_other _ _ _ _ hrr]; exact h4
    · rw [upd_other _ _ _ _ hrr]; exact h5
    · intro hno
      have hne : m[j] ≠ o := by
        intro e
        have : m[j] = m[i] := by rw [e, hmi]
        exact hji ((List.Nodup.getElem_inj_iff hb.nodup).mp this)
      have hno' : m[j] ∉ o :: opn := by
        intro hin
        rcases List.mem_cons.mp hin with e | e
        · exact hne e
        · exact hno e
      rw [upd_other _ _ _ _ hrr]
      exact h7 hno'

end Pk
end EG

namespace EG
namespace Pk

/-! ### the unpickler follows the recursive pickler -/

/-- the statement proved for one `save(o)` of a pickler `r` -/
def SaveOK (H : Heap) (tupK : Nat → Bool) (r : Nat → List Nat → Option (List POp × List Nat)) : Prop :=
  ∀ o m s m', r o m = some (s, m') → NoReentry s → ∀ (S : VM) (opn : List Nat),
    Built H m S.memo S.heap S.next opn →
    ∃ S', vmRun tupK S s = some S' ∧ S'.stack = .val (phi H m' S'.memo o) :: S.stack ∧
      Known H m' o ∧ Built H m' S'.memo S'.heap S'.next opn ∧ Ext S S' m m'

theorem list_ok {H : Heap} {tupK : Nat → Bool} {r : Nat → List Nat → Option (List POp × List Nat)}
    (hr : SaveOK H tupK r) :
    ∀ os m s m', recListWith r os m = some (s, m') → NoReentry s → ∀ (S : VM) (opn : List Nat),
      Built H m S.memo S.heap S.next opn →
      ∃ S', vmRun tupK S s = some S' ∧ S'.stack = pushVals (os.map (phi H m' S'.memo)) S.stack ∧
        (∀ o ∈ os, Known H m' o) ∧ Built H m' S'.memo S'.heap S'.next opn ∧ Ext S S' m m' := by
  intro os
  induction os with
  | nil =>
    intro m s m' h _ S opn hb
    simp only [recListWith, Option.some.injEq, Prod.mk.injEq] at h
    obtain ⟨rfl, rfl⟩ := h
    exact ⟨S, rfl, rfl, by simp, hb, Ext.refl S m⟩
  | cons o os ih =>
    intro m s m' h hn S opn hb
    simp only [recListWith] at h
    cases hro : r o m with
    | none => simp [hro] at h
    | some p =>
      obtain ⟨s1, m1⟩ := p
      simp only [hro] at h
      cases hrl : recListWith r os m1 with
      | none => simp [hrl] at h
      | some p2 =>
        obtain ⟨s2, m2⟩ := p2
        simp only [hrl, Option.some.injEq, Prod.mk.injEq] at h
        obtain ⟨rfl, rfl⟩ := h
        obtain ⟨S1, r1, st1, k1, b1, e1⟩ := hr o m s1 m1 hro hn.left S opn hb
        obtain ⟨S2, r2, st2, k2, b2, e2⟩ := ih m1 s2 m2 hrl hn.right S1 opn b1
        refine ⟨S2, ?_, ?_, ?_, b2, e1.trans e2⟩
        · rw [vmRun_append, r1]; exact r2
        · obtain ⟨e, he⟩ := e2.ext
          obtain ⟨ve, hve⟩ := e2.vext
          have hst : phi H m2 S2.memo o = phi H m1 S1.memo o := by
            rw [he, hve]; exact phi_stable b1.len k1
          rw [st2, st1, List.map_cons, pushVals_cons, hst]
        · intro x hx
          rcases List.mem_cons.mp hx with rfl | hx
          · obtain ⟨e, he⟩ := e2.ext
            rw [he]; exact k1.mono
          · exact k2 x hx

theorem phi_of_memo {H : Heap} {m : List Nat} {vm : List Val} {o i : Nat} {tup : Bool} {k : Nat}
    {bs as : List Nat} (hH : H o = .node tup k bs as) (hi : memoIdx m o = some i) (v : Val)
    (hv : vm[i]? = some v) : phi H m vm o = v := by
  unfold phi
  rw [hH]
  simp only [hi]
  rw [List.getD_eq_getElem?_getD, hv]; rfl

theorem rec_ok (H : Heap) (tupK : Nat → Bool) (hwf : KindsWF H tupK) : ∀ f, SaveOK H tupK (rec H f) := by
  intro f
  induction f with
  | zero => intro o m s m' h; simp [rec] at h
  | succ f ih =>
    intro o m s m' h hn S opn hb
    simp only [rec] at h
    cases hm : memoIdx m o with
    | some i =>
      simp only [hm, Option.some.injEq, Prod.mk.injEq] at h
      obtain ⟨rfl, rfl⟩ := h
      obtain ⟨hi, hmi, hmem⟩ := memoIdx_some hm
      obtain ⟨tup, k, bs, as, r, h1, h2, _⟩ := hb.node i hi
      have hmi' : m[i] = o := by
        have := List.getElem?_eq_getElem hi
        rw [this] at hmi; exact Option.some.inj hmi
      rw [hmi'] at h1
      refine ⟨{ S with stack := .val (.ref r) :: S.stack }, ?_, ?_, Or.inr hmem, hb, Ext.of_eq m rfl rfl rfl⟩
      · simp only [vmRun, vmStep, h2]
      · simp only []
        rw [phi_of_memo h1 hm (.ref r) h2]
    | none =>
      simp only [hm] at h
      have ho : o ∉ m := memoIdx_none hm
      cases hH : H o with
      | atom a =>
        simp only [hH, Option.some.injEq, Prod.mk.injEq] at h
        obtain ⟨rfl, rfl⟩ := h
        refine ⟨{ S with stack := .val (.atom a) :: S.stack }, by simp [vmRun, vmStep], ?_, Or.inl ⟨a, hH⟩, hb, Ext.of_eq m rfl rfl rfl⟩
        simp only [phi, hH]
      | node tup k bs as =>
        simp only [hH] at h
        cases hbs : recListWith (rec H f) bs m with
        | none => simp [hbs] at h
        | some p =>
          obtain ⟨s1, m1⟩ := p
          simp only [hbs] at h
          cases hm1 : memoIdx m1 o with
          | some i =>
            simp only [hm1] at h
            cases tup with
            | true =>
              -- a tuple met again while its elements were being saved (it was completed in the nested
              -- call): the parts are thrown away and the memoised tuple is fetched
              simp only [if_true, Option.some.injEq, Prod.mk.injEq] at h
              obtain ⟨rfl, rfl⟩ := h
              let S0 : VM := { S with stack := .mark :: S.stack }
              have hb0 : Built H m S0.memo S0.heap S0.next opn := hb
              have hn1 : NoReentry s1 := by
                intro op hop; exact hn op (by simp [hop])
              obtain ⟨S1, r1, st1, k1, b1, e1⟩ := list_ok ih bs m s1 m1 hbs hn1 S0 opn hb0
              obtain ⟨hi, hmi, hmem⟩ := memoIdx_some hm1
              obtain ⟨tup', k', bs', as', r, h1, h2, _⟩ := b1.node i hi
              have hmi' : m1[i] = o := by
                rw [List.getElem?_eq_getElem hi] at hmi; exact Option.some.inj hmi
              rw [hmi'] at h1
              let S2 : VM := { S1 with stack := .val (.ref r) :: S.stack }
              refine ⟨S2, ?_, ?_, Or.inr hmem, b1, ?_⟩
              · have hpop : popTo .mark S1.stack = some (bs.map (phi H m1 S1.memo), S.stack) := by
                  rw [st1]; exact popTo_pushVals .mark (by intro v; simp) _ _
                rw [List.append_assoc, vmRun_append]
                simp only [vmRun, vmStep, Option.bind]
                rw [vmRun_append]
                have hr1 : vmRun tupK S0 s1 = some S1 := r1
                rw [hr1]
                simp only [Option.bind, vmRun, vmStep, hpop, List.length_map, if_true, h2]
                rfl
              · show SV.val (Val.ref r) :: S.stack = _
                rw [phi_of_memo h1 hm1 (.ref r) h2]
              · have e0 : Ext S S0 m m := Ext.of_eq m rfl rfl rfl
                have e2 : Ext S1 S2 m1 m1 := Ext.of_eq m1 rfl rfl rfl
                exact (e0.trans e1).trans e2
            | false =>
              -- a reduce met again while its arguments were being saved: POP, excluded
              exfalso
              simp only [Bool.false_eq_true, if_false] at h
              cases ha : recListWith (rec H f) as m1 with
              | none => simp [ha] at h
              | some p2 =>
                obtain ⟨s2, m2⟩ := p2
                simp only [ha, Option.some.injEq, Prod.mk.injEq] at h
                obtain ⟨rfl, rfl⟩ := h
                exact hn .pop (by simp) rfl
          | none =>
            simp only [hm1] at h
            have ho1 : o ∉ m1 := memoIdx_none hm1
            have htk : tupK k = tup := hwf o tup k bs as hH
            -- the `before` part
            let S0 : VM := { S with stack := .mark :: S.stack }
            have hb0 : Built H m S0.memo S0.heap S0.next opn := hb
            cases tup with
            | true =>
              simp only [if_true, Option.some.injEq, Prod.mk.injEq] at h
              obtain ⟨rfl, rfl⟩ := h
              have hn1 : NoReentry s1 := by
                intro op hop; exact hn op (by simp [hop])
              obtain ⟨S1, r1, st1, k1, b1, e1⟩ := list_ok ih bs m s1 m1 hbs hn1 S0 opn hb0
              have badd := b1.add ho1 hH k1
              simp only [if_true] at badd
              let S2 : VM := { S1 with stack := .val (.ref S1.next) :: S.stack,
                                        heap := upd S1.heap S1.next ⟨k, bs.map (phi H m1 S1.memo), []⟩,
                                        next := S1.next + 1, memo := S1.memo ++ [.ref S1.next] }
              have hphi : phi H (m1 ++ [o]) (S1.memo ++ [.ref S1.next]) o = .ref S1.next := by
                apply phi_of_memo hH (memoIdx_snoc_self ho1)
                rw [List.getElem?_append_right (by rw [b1.len]; exact Nat.le_refl _), b1.len]; simp
              refine ⟨S2, ?_, ?_, Or.inr (by simp), badd, ?_⟩
              · have hpop : popTo .mark S1.stack = some (bs.map (phi H m1 S1.memo), S.stack) := by
                  rw [st1]; exact popTo_pushVals .mark (by intro v; simp) _ _
                have hrun : vmRun tupK S ([.opn k] ++ s1 ++ [.build1 k bs.length, .memo]) = some S2 := by
                  rw [List.append_assoc, vmRun_append]
                  simp only [vmRun, vmStep, Option.bind]
                  rw [vmRun_append]
                  have : vmRun tupK S0 s1 = some S1 := r1
                  rw [this]
                  simp only [Option.bind, vmRun, vmStep, hpop, List.length_map, if_true, upd_same, htk,
                    Bool.not_true, Bool.false_eq_true, if_false]
                  rfl
                exact hrun
              · simp only [S2]; rw [hphi]
              · have e0 : Ext S S0 m m := Ext.of_eq m rfl rfl rfl
                have e2 : Ext S1 S2 m1 (m1 ++ [o]) :=
                  ⟨⟨[o], rfl⟩, ⟨[.ref S1.next], rfl⟩, fun r hr => upd_other _ _ _ _ (by omega), by simp [S2]⟩
                exact (e0.trans e1).trans e2
            | false =>
              simp only [Bool.false_eq_true, if_false] at h
              cases ha : recListWith (rec H f) as (m1 ++ [o]) with
              | none => simp [ha] at h
              | some p2 =>
                obtain ⟨s2, m2⟩ := p2
                simp only [ha, Option.some.injEq, Prod.mk.injEq] at h
                obtain ⟨rfl, rfl⟩ := h
                have hn1 : NoReentry s1 := by
                  intro op hop; exact hn op (by simp [hop])
                have hn2 : NoReentry s2 := by
                  intro op hop; exact hn op (by simp [hop])
                obtain ⟨S1, r1, st1, k1, b1, e1⟩ := list_ok ih bs m s1 m1 hbs hn1 S0 opn hb0
                have badd := b1.add ho1 hH k1
                simp only [Bool.false_eq_true, if_false] at badd
                let S2 : VM := { S1 with stack := .amark :: .val (.ref S1.next) :: S.stack,
                                          heap := upd S1.heap S1.next ⟨k, bs.map (phi H m1 S1.memo), []⟩,
                                          next := S1.next + 1, memo := S1.memo ++ [.ref S1.next] }
                have hb2 : Built H (m1 ++ [o]) S2.memo S2.heap S2.next (o :: opn) := badd
                obtain ⟨S3, r3, st3, k3, b3, e3⟩ := list_ok ih as (m1 ++ [o]) s2 m2 ha hn2 S2 (o :: opn) hb2
                -- position of `o` in the final memos
                obtain ⟨e, he⟩ := e3.ext
                obtain ⟨ve, hve⟩ := e3.vext
                have hidx : memoIdx m2 o = some m1.length := by
                  rw [he, memoIdx_append_of_mem (by simp)]; exact memoIdx_snoc_self ho1
                have hlen1 := b1.len
                have hvm : S3.memo[m1.length]? = some (.ref S1.next) := by
                  rw [hve]
                  simp only [S2]
                  rw [List.getElem?_append_left (by simp [hlen1]),
                    List.getElem?_append_right (by omega), hlen1]; simp
                have hlt : m1.length < m2.length := by rw [he]; simp
                have hmi : m2[m1.length] = o := by
                  have : m2[m1.length]? = some o := by
                    rw [he, List.getElem?_append_left (by simp)]; simp
                  rw [List.getElem?_eq_getElem hlt] at this; exact Option.some.inj this
                have bcl := b3.close hlt hmi hH hvm k3
                let S4 : VM := { S3 with stack := .val (.ref S1.next) :: S.stack,
                                          heap := upd S3.heap S1.next { S3.heap S1.next with after := as.map (phi H m2 S3.memo) } }
                have hphi : phi H m2 S3.memo o = .ref S1.next := phi_of_memo hH hidx _ hvm
                refine ⟨S4, ?_, ?_, Or.inr (by rw [he]; simp), bcl, ?_⟩
                · have hpop : popTo .mark S1.stack = some (bs.map (phi H m1 S1.memo), S.stack) := by
                    rw [st1]; exact popTo_pushVals .mark (by intro v; simp) _ _
                  have hpop2 : popTo .amark S3.stack =
                      some (as.map (phi H m2 S3.memo), .val (.ref S1.next) :: S.stack) := by
                    rw [st3]; exact popTo_pushVals .amark (by intro v; simp) _ _
                  have hstep : vmRun tupK S1 [.build1 k bs.length, .memo] = some S2 := by
                    simp only [vmRun, vmStep, hpop, List.length_map, if_true, upd_same, htk,
                      Bool.not_false, if_true]
                    rfl
                  have hfin : vmRun tupK S3 [.build2 k] = some S4 := by
                    simp only [vmRun, vmStep, hpop2]
                    rfl
                  have : [POp.opn k] ++ s1 ++ [.build1 k bs.length, .memo] ++ s2 ++ [.build2 k] =
                      [POp.opn k] ++ (s1 ++ ([.build1 k bs.length, .memo] ++ (s2 ++ [.build2 k]))) := by
                    simp
                  rw [this, vmRun_append]
                  simp only [vmRun, vmStep, Option.bind]
                  rw [vmRun_append]
                  have hr1 : vmRun tupK S0 s1 = some S1 := r1
                  rw [hr1]
                  simp only [Option.bind]
                  rw [vmRun_append, hstep]
                  simp only [Option.bind]
                  rw [vmRun_append, r3]
                  exact hfin
                · simp only [S4]; rw [hphi]
                · have e0 : Ext S S0 m m := Ext.of_eq m rfl rfl rfl
                  have e2 : Ext S1 S2 m1 (m1 ++ [o]) :=
                    ⟨⟨[o], rfl⟩, ⟨[.ref S1.next], rfl⟩, fun r hr => upd_other _ _ _ _ (by omega), by simp [S2]⟩
                  have eall : Ext S S3 m m2 := ((e0.trans e1).trans e2).trans e3
                  have hS1 : S.next ≤ S1.next := (e0.trans e1).next
                  refine ⟨eall.ext, eall.vext, ?_, eall.next⟩
                  intro r hr
                  show (upd S3.heap S1.next _) r = S.heap r
                  rw [upd_other _ _ _ _ (by omega)]
                  exact eall.frame r hr

end Pk
end EG
