import EG.Render
import EG.Step
import EG.Proofs.Sym
/-
  EG.Proofs.RenderLemmas — helper lemmas for C14 / C15 / C16.
-/
set_option linter.unusedSimpArgs false
set_option linter.unusedVariables false
namespace EG
namespace R

/-! ### C16 -/

theorem renderLines_ok (w : World) (F : Nat → LId → Option VId → Bool) (rf : RFun)
    (sort : Option (Option VId → Nat)) (nb : VId → List (Option VId)) (vs : List VId)
    (hnb : ∀ v ∈ vs, M.neighborsPure w F v 0 2 none = .ok (nb v)) :
    renderLines w F rf sort vs = .ok (vs.map fun v =>
      line rf v (match sort with | some key => sortBy key (nb v) | none => nb v)) := by
  induction vs with
  | nil => simp [renderLines]
  | cons v vs ih =>
    have h1 := hnb v (by simp)
    have h2 := ih (fun x hx => hnb x (by simp [hx]))
    cases sort <;> simp only [renderLines, h1, h2, List.map_cons]

theorem renderLines_err (w : World) (F : Nat → LId → Option VId → Bool) (rf : RFun)
    (sort : Option (Option VId → Nat)) (nb : VId → List (Option VId)) (pre post : List VId)
    (v : VId) (e : Err)
    (hpre : ∀ x ∈ pre, M.neighborsPure w F x 0 2 none = .ok (nb x))
    (hv : M.neighborsPure w F v 0 2 none = .error e) :
    renderLines w F rf sort (pre ++ v :: post) = .error e := by
  induction pre with
  | nil => simp only [List.nil_append, renderLines, hv]
  | cons p pre ih =>
    have h1 := hpre p (by simp)
    have h2 := ih (fun x hx => hpre x (by simp [hx]))
    simp only [List.cons_append, renderLines, h1, h2]

theorem mem_sortBy_filterMap (key : Option VId → Nat) (ms : List VId) (v : VId) :
    v ∈ (sortBy key (ms.map some)).filterMap id ↔ v ∈ ms := by
  simp [sortBy, List.mem_filterMap]

theorem sortBy_perm (key : Option VId → Nat) (xs : List (Option VId)) :
    (sortBy key xs).Perm xs := List.mergeSort_perm _ _

theorem sortBy_pairwise (key : Option VId → Nat) (xs : List (Option VId)) :
    (sortBy key xs).Pairwise (fun a b => key a ≤ key b) := by
  have := List.pairwise_mergeSort (le := fun a b => decide (key a ≤ key b))
    (by intro a b c; simp; exact Nat.le_trans) (by intro a b; simp; exact Nat.le_total _ _) xs
  simpa [sortBy] using this

/-! ### C14 -/

theorem mapE_ok {α β : Type} (f : α → Except Err β) (xs : List α) (ys : List β)
    (h : mapE f xs = .ok ys) :
    ys.length = xs.length ∧
    ∀ i (hi : i < xs.length), ∃ y, ys[i]? = some y ∧ f xs[i] = .ok y := by
  induction xs generalizing ys with
  | nil =>
    simp only [mapE, Except.ok.injEq] at h
    subst h
    exact ⟨rfl, fun i hi => absurd hi (by simp)⟩
  | cons x xs ih =>
    simp only [mapE] at h
    split at h
    · cases h
    · rename_i y hy
      split at h
      · cases h
      · rename_i ys' hys'
        simp only [Except.ok.injEq] at h
        subst h
        obtain ⟨hl, hi'⟩ := ih ys' hys'
        refine ⟨by simp [hl], ?_⟩
        intro i hi
        cases i with
        | zero => exact ⟨y, by simp, by simpa using hy⟩
        | succ j =>
          obtain ⟨z, hz1, hz2⟩ := hi' j (by simpa using hi)
          exact ⟨z, by simpa using hz1, by simpa using hz2⟩

theorem nodup_eraseDups_aux (n : Nat) : ∀ (l : List Nat), l.length ≤ n → l.eraseDups.Nodup := by
  induction n with
  | zero =>
    intro l hl
    have : l = [] := List.eq_nil_of_length_eq_zero (by omega)
    subst this; simp
  | succ n ih =>
    intro l hl
    cases l with
    | nil => simp
    | cons a as =>
      rw [List.eraseDups_cons, List.nodup_cons]
      refine ⟨?_, ih _ ?_⟩
      · simp [List.mem_eraseDups]
      · have := List.length_filter_le (fun b => !b == a) as
        simp at hl; omega

theorem nodup_eraseDups (l : List Nat) : l.eraseDups.Nodup := nodup_eraseDups_aux _ l (Nat.le_refl _)

theorem pumlDoc_ok (w : World) (o : POpts) (u : VId) (decls rels : List String)
    (h : pumlDoc w o u = .ok (some (decls, rels))) :
    mapE (declOf w o) (w.members u) = .ok decls ∧ mapE (relOf w o) (shownLinks w u) = .ok rels := by
  simp only [pumlDoc] at h
  split at h
  · cases h
  · split at h
    · cases h
    · rename_i ds hds
      split at h
      · cases h
      · rename_i rs hrs
        simp only [Except.ok.injEq, Option.some.injEq, Prod.mk.injEq] at h
        obtain ⟨rfl, rfl⟩ := h
        exact ⟨hds, hrs⟩

theorem declOf_ok (w : World) (o : POpts) (v : VId) (s : String) (h : declOf w o v = .ok s) :
    ∃ vo t, resolveV o (w.vcls v) = .ok vo ∧ title w vo v = .ok t ∧
      s = s!"{vo.type} {t} <<{clsName (w.vcls v)}>>" := by
  simp only [declOf] at h
  split at h
  · cases h
  · rename_i vo hvo
    split at h
    · cases h
    · rename_i t ht
      simp only [Except.ok.injEq] at h
      exact ⟨vo, t, hvo, ht, h.symm⟩

/-! ### C15 -/

theorem indexOf?_some (ms : List VId) (x : VId) (k : Nat) (h : indexOf? ms x = some k) :
    k < ms.length ∧ ms[k]? = some x := by
  simp only [indexOf?] at h
  split at h
  · rename_i hlt
    simp only [Option.some.injEq] at h
    subst h
    exact ⟨hlt, by rw [List.getElem?_eq_getElem hlt, List.getElem_idxOf hlt]⟩
  · cases h

theorem indexOf?_of_getElem? (ms : List VId) (hn : ms.Nodup) (x : VId) (k : Nat)
    (h : ms[k]? = some x) : indexOf? ms x = some k := by
  obtain ⟨hk, hx⟩ := List.getElem?_eq_some_iff.mp h
  subst hx
  simp [indexOf?, hn.idxOf_getElem k hk, hk]

theorem mem_zip_range (ms : List VId) (k : Nat) (v : VId)
    (h : (k, v) ∈ (List.range ms.length).zip ms) : ms[k]? = some v := by
  obtain ⟨t, ht⟩ := List.mem_iff_getElem?.mp h
  rw [List.getElem?_zip_eq_some] at ht
  obtain ⟨h1, h2⟩ := ht
  simp only [List.getElem?_range'] at h1
  have := List.getElem?_eq_some_iff.mp h1
  obtain ⟨ht', h3⟩ := this
  simp at h3
  subst h3
  exact h2

theorem zip_range'_filter (ms : List VId) (s i : Nat) :
    (((List.range' s ms.length).zip ms).filter (fun p => p.1 == i)).length =
      if s ≤ i ∧ i < s + ms.length then 1 else 0 := by
  induction ms generalizing s with
  | nil => simp
  | cons m ms ih =>
    simp only [List.length_cons, List.range'_succ, List.zip_cons_cons, List.filter_cons]
    by_cases hsi : s = i
    · subst hsi
      simp only [beq_self_eq_true, ↓reduceIte, List.length_cons, ih]
      split <;> split <;> omega
    · have : (s == i) = false := by simpa using hsi
      simp only [this, Bool.false_eq_true, ↓reduceIte, ih]
      split <;> split <;> first | rfl | (exfalso; omega)

theorem zip_range_filter (ms : List VId) (i : Nat) (hi : i < ms.length) :
    (((List.range ms.length).zip ms).filter (fun p => p.1 == i)).length = 1 := by
  rw [List.range_eq_range', zip_range'_filter]
  simp [hi]

/-- some edge joins the pair {i, j} -/
def Joined (es : List PEdge) (i j : Nat) : Prop :=
  ∃ e ∈ es, (e.src = i ∧ e.dst = j) ∨ (e.src = j ∧ e.dst = i)

/-- same as `DrawnFrom` of C15 -/
def Drawn (w : World) (ms : List VId) (e : PEdge) (l : LId) : Prop :=
  ∃ a b rest, w.ends l = some a :: some b :: rest ∧ l ∈ w.links a ∧
    indexOf? ms a = some e.src ∧ indexOf? ms b = some e.dst ∧
    e.arrows = ((w.lcls l).subDirected)

def Good (w : World) (ms : List VId) (e : PEdge) : Prop :=
  e.src < ms.length ∧ e.dst < ms.length ∧ ∃ l, Drawn w ms e l

def arrowed (i j : Nat) (es : List PEdge) : Nat :=
  (es.filter (fun e => e.arrows && e.src == i && e.dst == j)).length

theorem mem_addEdge (es : List PEdge) (i j : Nat) (d : Bool) (t : Option String) (e : PEdge)
    (h : e ∈ addEdge es i j d t) : e ∈ es ∨ e = ⟨i, j, d, t⟩ := by
  simp only [addEdge] at h
  split at h
  · exact Or.inl h
  · simpa using h

theorem subset_addEdge (es : List PEdge) (i j : Nat) (d : Bool) (t : Option String) (e : PEdge)
    (h : e ∈ es) : e ∈ addEdge es i j d t := by
  simp only [addEdge]
  split
  · exact h
  · simp [h]

theorem joined_addEdge (es : List PEdge) (i j : Nat) (d : Bool) (t : Option String) :
    Joined (addEdge es i j d t) i j := by
  simp only [addEdge]
  split
  · rename_i hc
    simp only [Bool.and_eq_true, List.any_eq_true, Bool.or_eq_true, beq_iff_eq] at hc
    obtain ⟨_, e, he, hh⟩ := hc
    refine ⟨e, he, ?_⟩
    rcases hh with ⟨h1, h2⟩ | ⟨h1, h2⟩
    · exact Or.inr ⟨h2.symm, h1.symm⟩
    · exact Or.inl ⟨h1.symm, h2.symm⟩
  · exact ⟨⟨i, j, d, t⟩, by simp, Or.inl ⟨rfl, rfl⟩⟩

theorem arrowed_addEdge (es : List PEdge) (i j i' j' : Nat) (d : Bool) (t : Option String) :
    arrowed i j (addEdge es i' j' d t) =
      arrowed i j es + (if d = true ∧ i' = i ∧ j' = j then 1 else 0) := by
  simp only [addEdge, arrowed]
  split
  · rename_i hc
    have : d = false := by
      cases d
      · rfl
      · simp at hc
    simp [this]
  · simp only [List.filter_append, List.length_append, List.filter_cons, List.filter_nil]
    by_cases hd : d = true ∧ i' = i ∧ j' = j
    · obtain ⟨h1, h2, h3⟩ := hd
      simp [h1, h2, h3]
    · simp only [hd, ↓reduceIte]
      have : (d && i' == i && j' == j) = false := by
        cases hh : (d && i' == i && j' == j)
        · rfl
        · simp only [Bool.and_eq_true, beq_iff_eq] at hh
          exact absurd ⟨hh.1.1, hh.1.2, hh.2⟩ hd
      simp [this]

/-- one iteration of the link loop: either the link is drawn (it runs from `v` to a member) and
    `addEdge` is applied, or the accumulator is unchanged -/
theorem edgesOf_cons (w : World) (ms : List VId) (re : Option (LId → String)) (i : Nat) (v : VId)
    (l : LId) (ls : List LId) (es es' : List PEdge)
    (h : edgesOf w ms re i v (l :: ls) es = .ok es') :
    (w.lcls l).kind ≠ .nary ∧ ∃ a b rest, w.ends l = a :: b :: rest ∧
      ∃ es1, edgesOf w ms re i v ls es1 = .ok es' ∧
        ((es1 = es ∧ ¬ (a = some v ∧ ∃ x j, b = some x ∧ indexOf? ms x = some j)) ∨
         (a = some v ∧ ∃ x j, b = some x ∧ indexOf? ms x = some j ∧
            es1 = addEdge es i j ((w.lcls l).subDirected) (re.map (· l)))) := by
  simp only [edgesOf] at h
  split at h
  · cases h
  · rename_i hk
    refine ⟨hk, ?_⟩
    split at h
    · rename_i a b rest hends
      refine ⟨a, b, rest, hends, ?_⟩
      split at h
      · rename_i hskip
        exact ⟨es, h, Or.inl ⟨rfl, fun hc => hskip.2 hc.1⟩⟩
      · rename_i hskip
        split at h
        · rename_i hnone
          refine ⟨es, h, Or.inl ⟨rfl, ?_⟩⟩
          rintro ⟨ha, x, j, hb, hx⟩
          simp [ha, hb, hx] at hnone
        · rename_i j hsome
          by_cases ha : a = some v
          · simp only [ha, ↓reduceIte] at hsome
            cases b with
            | none => simp at hsome
            | some x =>
              simp only [Option.bind_some] at hsome
              exact ⟨_, h, Or.inr ⟨ha, x, j, rfl, hsome, rfl⟩⟩
          · have hb : b ≠ some v := fun hb => hskip ⟨hb, ha⟩
            simp [ha, hb] at hsome
    · cases h

theorem edgesOf_nil (w : World) (ms : List VId) (re : Option (LId → String)) (i : Nat) (v : VId)
    (es es' : List PEdge) (h : edgesOf w ms re i v [] es = .ok es') : es' = es := by
  simp only [edgesOf, Except.ok.injEq] at h
  exact h.symm

/-- (I2) the accumulator only grows -/
theorem edgesOf_mono (w : World) (ms : List VId) (re : Option (LId → String)) (i : Nat) (v : VId)
    (ls : List LId) (es es' : List PEdge) (h : edgesOf w ms re i v ls es = .ok es') :
    ∀ e ∈ es, e ∈ es' := by
  induction ls generalizing es with
  | nil => rw [edgesOf_nil _ _ _ _ _ _ _ h]; exact fun e he => he
  | cons l ls ih =>
    obtain ⟨_, a, b, rest, _, es1, h1, hc⟩ := edgesOf_cons _ _ _ _ _ _ _ _ _ h
    intro e he
    rcases hc with ⟨rfl, _⟩ | ⟨_, x, j, _, _, rfl⟩
    · exact ih _ h1 e he
    · exact ih _ h1 e (subset_addEdge _ _ _ _ _ _ he)

theorem Joined.mono {es es' : List PEdge} {i j : Nat} (h : Joined es i j)
    (hs : ∀ e ∈ es, e ∈ es') : Joined es' i j := by
  obtain ⟨e, he, hh⟩ := h
  exact ⟨e, hs e he, hh⟩

/-- (I1) every edge is the drawing of a link between two members -/
theorem edgesOf_sound (w : World) (ms : List VId) (re : Option (LId → String)) (i : Nat) (v : VId)
    (hv : indexOf? ms v = some i)
    (ls : List LId) (hls : ∀ l ∈ ls, l ∈ w.links v) (es es' : List PEdge)
    (hg : ∀ e ∈ es, Good w ms e)
    (h : edgesOf w ms re i v ls es = .ok es') : ∀ e ∈ es', Good w ms e := by
  induction ls generalizing es with
  | nil => rw [edgesOf_nil _ _ _ _ _ _ _ h]; exact hg
  | cons l ls ih =>
    obtain ⟨_, a, b, rest, hends, es1, h1, hc⟩ := edgesOf_cons _ _ _ _ _ _ _ _ _ h
    have hls' : ∀ l ∈ ls, l ∈ w.links v := fun l' hl' => hls l' (by simp [hl'])
    rcases hc with ⟨rfl, _⟩ | ⟨ha, x, j, hb, hx, rfl⟩
    · exact ih hls' _ hg h1
    · refine ih hls' _ ?_ h1
      intro e he
      rcases mem_addEdge _ _ _ _ _ _ he with he | he
      · exact hg e he
      · subst he
        refine ⟨(indexOf?_some _ _ _ hv).1, (indexOf?_some _ _ _ hx).1, l, v, x, rest, ?_, ?_, hv, hx, rfl⟩
        · rw [hends, ha, hb]
        · exact hls l (by simp)

/-- a link from `v` to a member leaves the pair joined -/
theorem edgesOf_joins (w : World) (ms : List VId) (re : Option (LId → String)) (i : Nat) (v : VId)
    (ls : List LId) (es es' : List PEdge) (l : LId) (b : VId) (j : Nat) (hl : l ∈ ls)
    (hends : w.ends l = [some v, some b]) (hb : indexOf? ms b = some j)
    (h : edgesOf w ms re i v ls es = .ok es') : Joined es' i j := by
  induction ls generalizing es with
  | nil => simp at hl
  | cons l' ls ih =>
    obtain ⟨_, a', b', rest, hends', es1, h1, hc⟩ := edgesOf_cons _ _ _ _ _ _ _ _ _ h
    rcases List.mem_cons.mp hl with rfl | hl'
    · rw [hends] at hends'
      simp only [List.cons.injEq] at hends'
      obtain ⟨ha', hb', _⟩ := hends'
      rcases hc with ⟨_, hno⟩ | ⟨_, x, j', hx, hj', rfl⟩
      · exact absurd ⟨ha'.symm, b, j, hb'.symm, hb⟩ hno
      · have : x = b := by rw [← hb'] at hx; simpa using hx.symm
        subst this
        have : j' = j := by rw [hb] at hj'; simpa using hj'.symm
        subst this
        exact (joined_addEdge _ _ _ _ _).mono (edgesOf_mono _ _ _ _ _ _ _ _ h1)
    · rcases hc with ⟨rfl, _⟩ | ⟨_, _, _, _, _, rfl⟩ <;> exact ih _ hl' h1

/-- (I3) arrowed edges are only added with source `i'` -/
theorem edgesOf_arrowed_ne (w : World) (ms : List VId) (re : Option (LId → String)) (i' : Nat)
    (v : VId) (i j : Nat) (hne : i' ≠ i) (ls : List LId) (es es' : List PEdge)
    (h : edgesOf w ms re i' v ls es = .ok es') : arrowed i j es' = arrowed i j es := by
  induction ls generalizing es with
  | nil => rw [edgesOf_nil _ _ _ _ _ _ _ h]
  | cons l ls ih =>
    obtain ⟨_, a, b, rest, _, es1, h1, hc⟩ := edgesOf_cons _ _ _ _ _ _ _ _ _ h
    rcases hc with ⟨rfl, _⟩ | ⟨_, x, j', _, _, rfl⟩
    · exact ih _ h1
    · rw [ih _ h1, arrowed_addEdge]
      simp [hne]

/-- (I3) at member `i` = vertex `a`, one arrowed edge to `j` per directed link from `a` to `b` -/
theorem edgesOf_arrowed_eq (w : World) (ms : List VId) (re : Option (LId → String)) (i j : Nat)
    (a b : VId) (hb : ∀ x, indexOf? ms x = some j ↔ x = b) (ls : List LId) (es es' : List PEdge)
    (h : edgesOf w ms re i a ls es = .ok es') :
    arrowed i j es' = arrowed i j es + (ls.filter (fun l => (w.lcls l).subDirected &&
        (w.ends l).take 2 == [some a, some b])).length := by
  induction ls generalizing es with
  | nil => rw [edgesOf_nil _ _ _ _ _ _ _ h]; simp
  | cons l ls ih =>
    obtain ⟨_, a', b', rest, hends, es1, h1, hc⟩ := edgesOf_cons _ _ _ _ _ _ _ _ _ h
    rw [ih _ h1, List.filter_cons]
    rcases hc with ⟨rfl, hno⟩ | ⟨ha', x, j', hx, hj', rfl⟩
    · have : ((w.lcls l).subDirected && (w.ends l).take 2 == [some a, some b]) = false := by
        cases hh : ((w.lcls l).subDirected && (w.ends l).take 2 == [some a, some b])
        · rfl
        · exfalso
          simp only [Bool.and_eq_true, hends, List.take_succ_cons, List.take_zero, beq_iff_eq,
            List.cons.injEq, and_true] at hh
          exact hno ⟨hh.2.1, b, j, hh.2.2, (hb b).mpr rfl⟩
      simp [this]
    · rw [arrowed_addEdge]
      subst ha' hx
      have hjj : j' = j ↔ x = b := by
        constructor
        · intro hh; subst hh; exact (hb x).mp hj'
        · intro hh; subst hh
          have := (hb x).mpr rfl
          rw [hj'] at this; simpa using this
      by_cases hd : (w.lcls l).subDirected = true
      · by_cases hxb : x = b
        · have hj := hjj.mpr hxb
          simp [hd, hxb, hj, hends]
          omega
        · have hj : ¬ j' = j := fun hh => hxb (hjj.mp hh)
          simp [hd, hxb, hj, hends]
      · simp [hd]

theorem allEdges_nil (w : World) (ms : List VId) (re : Option (LId → String))
    (es es' : List PEdge) (h : allEdges w ms re [] es = .ok es') : es' = es := by
  simp only [allEdges, Except.ok.injEq] at h
  exact h.symm

theorem allEdges_cons (w : World) (ms : List VId) (re : Option (LId → String)) (i : Nat) (v : VId)
    (rest : List (Nat × VId)) (es es' : List PEdge)
    (h : allEdges w ms re ((i, v) :: rest) es = .ok es') :
    ∃ es1, edgesOf w ms re i v (w.links v) es = .ok es1 ∧ allEdges w ms re rest es1 = .ok es' := by
  simp only [allEdges] at h
  split at h
  · cases h
  · rename_i es1 h1
    exact ⟨es1, h1, h⟩

theorem allEdges_mono (w : World) (ms : List VId) (re : Option (LId → String))
    (idx : List (Nat × VId)) (es es' : List PEdge) (h : allEdges w ms re idx es = .ok es') :
    ∀ e ∈ es, e ∈ es' := by
  induction idx generalizing es with
  | nil => rw [allEdges_nil _ _ _ _ _ h]; exact fun e he => he
  | cons p idx ih =>
    obtain ⟨i, v⟩ := p
    obtain ⟨es1, h1, h2⟩ := allEdges_cons _ _ _ _ _ _ _ _ h
    exact fun e he => ih _ h2 e (edgesOf_mono _ _ _ _ _ _ _ _ h1 e he)

theorem allEdges_sound (w : World) (ms : List VId) (re : Option (LId → String))
    (idx : List (Nat × VId)) (hidx : ∀ p ∈ idx, indexOf? ms p.2 = some p.1) (es es' : List PEdge)
    (hg : ∀ e ∈ es, Good w ms e)
    (h : allEdges w ms re idx es = .ok es') : ∀ e ∈ es', Good w ms e := by
  induction idx generalizing es with
  | nil => rw [allEdges_nil _ _ _ _ _ h]; exact hg
  | cons p idx ih =>
    obtain ⟨i, v⟩ := p
    obtain ⟨es1, h1, h2⟩ := allEdges_cons _ _ _ _ _ _ _ _ h
    refine ih (fun q hq => hidx q (by simp [hq])) _ ?_ h2
    exact edgesOf_sound _ _ _ _ _ (hidx (i, v) (by simp)) _ (fun l hl => hl) _ _ hg h1

theorem allEdges_joins (w : World) (ms : List VId) (re : Option (LId → String))
    (idx : List (Nat × VId)) (es es' : List PEdge) (i j : Nat) (a b : VId) (l : LId)
    (hia : (i, a) ∈ idx) (hl : l ∈ w.links a) (hends : w.ends l = [some a, some b])
    (hb : indexOf? ms b = some j)
    (h : allEdges w ms re idx es = .ok es') : Joined es' i j := by
  induction idx generalizing es with
  | nil => simp at hia
  | cons p idx ih =>
    obtain ⟨i', v⟩ := p
    obtain ⟨es1, h1, h2⟩ := allEdges_cons _ _ _ _ _ _ _ _ h
    rcases List.mem_cons.mp hia with heq | hia'
    · simp only [Prod.mk.injEq] at heq
      obtain ⟨rfl, rfl⟩ := heq
      exact (edgesOf_joins _ _ _ _ _ _ _ _ l b j hl hends hb h1).mono (allEdges_mono _ _ _ _ _ _ h2)
    · exact ih _ hia' h2

theorem allEdges_arrowed (w : World) (ms : List VId) (re : Option (LId → String)) (i j : Nat)
    (a b : VId) (hb : ∀ x, indexOf? ms x = some j ↔ x = b)
    (idx : List (Nat × VId)) (hidx : ∀ p ∈ idx, p.1 = i → p.2 = a) (es es' : List PEdge)
    (h : allEdges w ms re idx es = .ok es') :
    arrowed i j es' = arrowed i j es + (idx.filter (fun p => p.1 == i)).length *
      ((w.links a).filter (fun l => (w.lcls l).subDirected &&
        (w.ends l).take 2 == [some a, some b])).length := by
  induction idx generalizing es with
  | nil => rw [allEdges_nil _ _ _ _ _ h]; simp
  | cons p idx ih =>
    obtain ⟨i', v⟩ := p
    obtain ⟨es1, h1, h2⟩ := allEdges_cons _ _ _ _ _ _ _ _ h
    rw [ih (fun q hq => hidx q (by simp [hq])) _ h2, List.filter_cons]
    by_cases hi : i' = i
    · have hv : v = a := hidx (i', v) (by simp) hi
      subst hi hv
      rw [edgesOf_arrowed_eq _ _ _ _ j _ b hb _ _ _ h1]
      simp only [beq_self_eq_true, ↓reduceIte, List.length_cons, Nat.succ_mul]
      omega
    · rw [edgesOf_arrowed_ne _ _ _ _ _ i j hi _ _ _ h1]
      have : (i' == i) = false := by simpa using hi
      simp [this]

theorem pyvisNet_ok (w : World) (u : VId) (rv : VId → String) (re : Option (LId → String))
    (nodes : List (Nat × String)) (edges : List PEdge) (h : pyvisNet w u rv re = .ok (nodes, edges)) :
    nodes = ((List.range (w.members u).length).zip (w.members u)).map (fun p => (p.1, rv p.2)) ∧
    allEdges w (w.members u) re ((List.range (w.members u).length).zip (w.members u)) [] = .ok edges := by
  simp only [pyvisNet] at h
  split at h
  · cases h
  · rename_i es hes
    simp only [Except.ok.injEq, Prod.mk.injEq] at h
    obtain ⟨rfl, rfl⟩ := h
    exact ⟨rfl, hes⟩

end R
end EG
