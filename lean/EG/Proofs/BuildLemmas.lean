import EG.Build
import EG.Proofs.Inv
/-
  EG.Proofs.BuildLemmas — helper lemmas for C11 / C20 (effect of the builder loops).

  The property files import this one, so the vocabulary of the statements (`mentions`,
  `dictPairs`, `matPairs`, `gained`, `Built`) is mirrored here in namespace `B` with
  literally the same bodies; the property files convert by `rfl` / field-wise.
-/
set_option linter.unusedSimpArgs false
set_option linter.unusedVariables false
namespace EG
namespace B

/-! ### vocabulary (same bodies as in `EG.Props.C11`) -/

def mentions (adj : List (VId × List VId)) : List VId := adj.flatMap fun p => p.1 :: p.2

def dictPairs (adj : List (VId × List VId)) : List (VId × VId) :=
  adj.flatMap fun p => p.2.map fun v => (p.1, v)

/-- `matPairs` with the list of row vertices still to come made explicit -/
def matPairsG (verts : List VId) (rows : List (List Bool)) (vis : List VId) : List (VId × VId) :=
  (rows.zip vis).flatMap fun rv =>
    ((rv.1.zip verts).filter (·.1)).map fun cv => (rv.2, cv.2)

def rowPairs (verts : List VId) (vi : VId) (row : List Bool) : List (VId × VId) :=
  ((row.zip verts).filter (·.1)).map fun cv => (vi, cv.2)

def gained (w : World) (pairs : List (VId × VId)) (v : VId) : List LId :=
  ((List.range pairs.length).filter
    (fun i => (pairs.getD i (0, 0)).1 == v || (pairs.getD i (0, 0)).2 == v)).map (w.nL + ·)

/-! ### list facts -/

theorem dedup_snoc (xs : List Nat) (x : Nat) :
    dedupKeepFirst (xs ++ [x]) =
      if x ∈ xs then dedupKeepFirst xs else dedupKeepFirst xs ++ [x] := by
  induction xs with
  | nil => simp [dedupKeepFirst]
  | cons y ys ih =>
    simp only [List.cons_append, dedupKeepFirst, ih]
    by_cases hxy : x = y
    · subst hxy
      by_cases hm : x ∈ ys <;> simp [hm, List.filter_append]
    · have hyx : ¬ y = x := fun e => hxy e.symm
      by_cases hm : x ∈ ys <;> simp [hm, hxy, hyx, List.filter_append]

theorem gained_nil (w : World) (v : VId) : gained w [] v = [] := rfl

theorem gained_snoc (w : World) (pairs : List (VId × VId)) (a b v : VId) :
    gained w (pairs ++ [(a, b)]) v =
      gained w pairs v ++ (if a = v ∨ b = v then [w.nL + pairs.length] else []) := by
  unfold gained
  rw [List.length_append, List.length_singleton, List.range_succ, List.filter_append,
    List.map_append]
  congr 1
  · congr 1
    apply List.filter_congr
    intro i hi
    have hi' : i < pairs.length := by simpa using hi
    simp [List.getD_eq_getElem?_getD, List.getElem?_append_left hi']
  · simp [List.getD_eq_getElem?_getD]
    by_cases h : a = v ∨ b = v <;> simp [h]

theorem mem_gained (w : World) (pairs : List (VId × VId)) (v : VId) :
    ∀ l ∈ gained w pairs v, w.nL ≤ l := by
  intro l hl
  simp only [gained, List.mem_map] at hl
  obtain ⟨i, _, rfl⟩ := hl
  exact Nat.le_add_right _ _

/-! ### closed form of `cls(a, b)` -/

/-- the world after `newLink … [some a, some b]` -/
def linkW (w : World) (c : LCls) (a b : VId) : World :=
  S.addVertex (S.addVertex (M.allocLink w c).1 w.nL (some a)) w.nL (some b)

theorem newLink_pair (w : World) (c : LCls) (a b : VId) :
    C.newLink S.prims w c [some a, some b] = .ok (linkW w c a b, w.nL) := rfl

theorem linkW_inv (w : World) (c : LCls) (a b : VId) (h : Inv w) (ha : a < w.nV) (hb : b < w.nV) :
    Inv (linkW w c a b) := by
  have hvs : ∀ x ∈ [some a, some b], w.ovOK x = true := by
    intro x hx; simp at hx
    rcases hx with rfl | rfl <;> simp [World.ovOK, World.vOK, ha, hb]
  obtain ⟨w2, e2, h1, _⟩ := C.newLink_S w c [some a, some b] h hvs
  rw [newLink_pair] at e2
  cases e2; exact h1

theorem not_mem_links_nL (w : World) (h : Inv w) (v : VId) : w.nL ∉ w.links v := by
  intro hm
  have := (h.1.1 v w.nL).mp hm
  rw [h.2.2.2.1 _ (Nat.le_refl _)] at this
  simp at this

theorem linkW_links (w : World) (c : LCls) (a b : VId) (h : Inv w) (v : VId) :
    (linkW w c a b).links v = if v = a ∨ v = b then w.links v ++ [w.nL] else w.links v := by
  have h1 := not_mem_links_nL w h a
  have h2 := not_mem_links_nL w h b
  simp only [linkW, S.addVertex, M.allocLink]
  grind

theorem linkW_ends (w : World) (c : LCls) (a b : VId) (l : LId) :
    (linkW w c a b).ends l = if l = w.nL then [some a, some b] else w.ends l := by
  simp only [linkW, S.addVertex, M.allocLink, upd]
  grind

theorem linkW_lcls (w : World) (c : LCls) (a b : VId) (l : LId) :
    (linkW w c a b).lcls l = if l = w.nL then c else w.lcls l := rfl

theorem linkW_nL (w : World) (c : LCls) (a b : VId) : (linkW w c a b).nL = w.nL + 1 := rfl
theorem linkW_nV (w : World) (c : LCls) (a b : VId) : (linkW w c a b).nV = w.nV := rfl
theorem linkW_unis (w : World) (c : LCls) (a b : VId) : (linkW w c a b).unis = w.unis := rfl
theorem linkW_members (w : World) (c : LCls) (a b : VId) : (linkW w c a b).members = w.members := rfl
theorem linkW_vcls (w : World) (c : LCls) (a b : VId) : (linkW w c a b).vcls = w.vcls := rfl
theorem linkW_attrs (w : World) (c : LCls) (a b : VId) : (linkW w c a b).attrs = w.attrs := rfl

/-! ### the loop invariant of the builders -/

/-- `w` is `w0` plus the links `pairs` (class `c`, in this order) plus the memberships `ms`
    in the universe `u` (which was empty in `w0`) -/
structure Ext (w0 w : World) (c : LCls) (u : VId) (pairs : List (VId × VId)) (ms : List VId) :
    Prop where
  inv : Inv w
  nV : w.nV = w0.nV
  nL : w.nL = w0.nL + pairs.length
  new_links : ∀ i p, pairs[i]? = some p →
    w.ends (w0.nL + i) = [some p.1, some p.2] ∧ w.lcls (w0.nL + i) = c
  old_links : ∀ l, l < w0.nL → w.ends l = w0.ends l ∧ w.lcls l = w0.lcls l
  links : ∀ v, w.links v = w0.links v ++ gained w0 pairs v
  members : w.members u = dedupKeepFirst ms
  old_members : ∀ x, x ≠ u → w.members x = w0.members x
  unis : ∀ v, ∃ more, w.unis v = w0.unis v ++ more ∧ ∀ x ∈ more, x = u
  vcls : w.vcls = w0.vcls
  attrs : w.attrs = w0.attrs

theorem Ext.refl (w0 : World) (c : LCls) (u : VId) (h : Inv w0) (hu : w0.members u = []) :
    Ext w0 w0 c u [] [] where
  inv := h
  nV := rfl
  nL := rfl
  new_links := by intro i p hp; simp at hp
  old_links := fun _ _ => ⟨rfl, rfl⟩
  links := by intro v; simp [gained_nil]
  members := by rw [hu]; rfl
  old_members := fun _ _ => rfl
  unis := fun v => ⟨[], by simp, by simp⟩
  vcls := rfl
  attrs := rfl

theorem Ext.link {w0 w : World} {c : LCls} {u : VId} {pairs : List (VId × VId)} {ms : List VId}
    (hE : Ext w0 w c u pairs ms) (a b : VId) (ha : a < w0.nV) (hb : b < w0.nV) :
    Ext w0 (linkW w c a b) c u (pairs ++ [(a, b)]) ms where
  inv := linkW_inv w c a b hE.inv (by rw [hE.nV]; exact ha) (by rw [hE.nV]; exact hb)
  nV := hE.nV
  nL := by rw [linkW_nL, hE.nL, List.length_append, List.length_singleton, Nat.add_assoc]
  new_links := by
    intro i p hp
    rcases Nat.lt_or_ge i pairs.length with hi | hi
    · rw [List.getElem?_append_left hi] at hp
      obtain ⟨e1, e2⟩ := hE.new_links i p hp
      have hne : w0.nL + i ≠ w.nL := by rw [hE.nL]; omega
      rw [linkW_ends, linkW_lcls, if_neg hne, if_neg hne]; exact ⟨e1, e2⟩
    · rw [List.getElem?_append_right hi] at hp
      have hi' : i = pairs.length := by
        cases hj : i - pairs.length with
        | zero => exact Nat.le_antisymm (Nat.le_of_sub_eq_zero hj) hi
        | succ j => rw [hj] at hp; simp at hp
      subst hi'
      simp at hp; subst hp
      rw [linkW_ends, linkW_lcls, if_pos hE.nL.symm, if_pos hE.nL.symm]; exact ⟨rfl, rfl⟩
  old_links := by
    intro l hl
    have hne : l ≠ w.nL := by rw [hE.nL]; omega
    rw [linkW_ends, linkW_lcls, if_neg hne, if_neg hne]; exact hE.old_links l hl
  links := by
    intro v
    rw [linkW_links w c a b hE.inv, gained_snoc, hE.links v, hE.nL]
    by_cases h : a = v ∨ b = v
    · have h' : v = a ∨ v = b := by rcases h with h | h <;> simp [h]
      rw [if_pos h, if_pos h', List.append_assoc]
    · have h' : ¬ (v = a ∨ v = b) := by
        intro h'; apply h; rcases h' with h' | h' <;> simp [h']
      rw [if_neg h, if_neg h', List.append_nil]
  members := by rw [linkW_members]; exact hE.members
  old_members := by rw [linkW_members]; exact hE.old_members
  unis := by rw [linkW_unis]; exact hE.unis
  vcls := by rw [linkW_vcls]; exact hE.vcls
  attrs := by rw [linkW_attrs]; exact hE.attrs

theorem Ext.join {w0 w : World} {c : LCls} {u : VId} {pairs : List (VId × VId)} {ms : List VId}
    (hE : Ext w0 w c u pairs ms) (v : VId) (hv : v < w0.nV) (hu : u < w0.nV) :
    Ext w0 (S.addToUniverse w v u) c u pairs (ms ++ [v]) where
  inv := S.addToUniverse_inv w v u hE.inv (by rw [hE.nV]; exact hu) (by rw [hE.nV]; exact hv)
  nV := hE.nV
  nL := hE.nL
  new_links := hE.new_links
  old_links := hE.old_links
  links := hE.links
  members := by
    have := hE.members
    simp only [S.addToUniverse, dedup_snoc, this, mem_dedupKeepFirst, true_and]
    by_cases hm : v ∈ ms <;> simp [hm]
  old_members := by
    intro x hx
    simp only [S.addToUniverse, hx, false_and, if_false]
    exact hE.old_members x hx
  unis := by
    intro x
    obtain ⟨more, e1, e2⟩ := hE.unis x
    simp only [S.addToUniverse]
    split
    · rename_i hc
      refine ⟨more ++ [u], ?_, ?_⟩
      · rw [← hc.1, e1, List.append_assoc]
      · intro y hy; simp at hy; rcases hy with hy | hy
        · exact e2 y hy
        · exact hy
    · exact ⟨more, e1, e2⟩
  vcls := hE.vcls
  attrs := hE.attrs

/-! ### the builder loops in the reference model -/

theorem adjRow_S {w0 : World} {c : LCls} {u : VId} (k : VId) (hk : k < w0.nV) (hu : u < w0.nV)
    (vs : List VId) : ∀ (w : World) (pairs : List (VId × VId)) (ms : List VId),
    Ext w0 w c u pairs ms → (∀ v ∈ vs, v < w0.nV) →
    ∃ w', C.adjRow S.prims w c u k vs = some w' ∧
      Ext w0 w' c u (pairs ++ vs.map (fun v => (k, v))) (ms ++ vs) := by
  induction vs with
  | nil => intro w pairs ms hE _; exact ⟨w, rfl, by simpa using hE⟩
  | cons v vs ih =>
    intro w pairs ms hE hvs
    have e : C.adjRow S.prims w c u k (v :: vs) =
        C.adjRow S.prims (S.addToUniverse (linkW w c k v) v u) c u k vs := rfl
    have hv : v < w0.nV := hvs v (by simp)
    obtain ⟨w', e', hE'⟩ := ih _ _ _ ((hE.link k v hk hv).join v hv hu)
      (fun x hx => hvs x (by simp [hx]))
    refine ⟨w', by rw [e, e'], ?_⟩
    simpa [List.append_assoc] using hE'

theorem dictPairs_cons (k : VId) (vs : List VId) (rest : List (VId × List VId)) :
    dictPairs ((k, vs) :: rest) = vs.map (fun v => (k, v)) ++ dictPairs rest := by
  simp [dictPairs]

theorem mentions_cons (k : VId) (vs : List VId) (rest : List (VId × List VId)) :
    mentions ((k, vs) :: rest) = k :: vs ++ mentions rest := by
  simp [mentions]

theorem adjRows_S {w0 : World} {c : LCls} {u : VId} (hu : u < w0.nV)
    (adj : List (VId × List VId)) : ∀ (w : World) (pairs : List (VId × VId)) (ms : List VId),
    Ext w0 w c u pairs ms → (∀ p ∈ adj, p.1 < w0.nV ∧ ∀ v ∈ p.2, v < w0.nV) →
    ∃ w', C.adjRows S.prims w c u adj = some w' ∧
      Ext w0 w' c u (pairs ++ dictPairs adj) (ms ++ mentions adj) := by
  induction adj with
  | nil => intro w pairs ms hE _; exact ⟨w, rfl, by simpa [dictPairs, mentions] using hE⟩
  | cons kv rest ih =>
    obtain ⟨k, vs⟩ := kv
    intro w pairs ms hE hadj
    have e : C.adjRows S.prims w c u ((k, vs) :: rest) =
        match C.adjRow S.prims (S.addToUniverse w k u) c u k vs with
        | none => none
        | some w => C.adjRows S.prims w c u rest := rfl
    obtain ⟨hk, hvs⟩ := hadj (k, vs) (by simp)
    obtain ⟨w1, e1, hE1⟩ := adjRow_S k hk hu vs _ _ _ (hE.join k hk hu) hvs
    obtain ⟨w', e', hE'⟩ := ih _ _ _ hE1 (fun p hp => hadj p (by simp [hp]))
    refine ⟨w', by rw [e, e1]; exact e', ?_⟩
    rw [dictPairs_cons, mentions_cons]
    simpa [List.append_assoc] using hE'

theorem addAll_S {w0 : World} {c : LCls} {u : VId} (hu : u < w0.nV)
    (vs : List VId) : ∀ (w : World) (pairs : List (VId × VId)) (ms : List VId),
    Ext w0 w c u pairs ms → (∀ v ∈ vs, v < w0.nV) →
    ∃ w', C.addAllToUniverse S.prims w u vs = some w' ∧ Ext w0 w' c u pairs (ms ++ vs) := by
  induction vs with
  | nil => intro w pairs ms hE _; exact ⟨w, rfl, by simpa using hE⟩
  | cons v vs ih =>
    intro w pairs ms hE hvs
    have e : C.addAllToUniverse S.prims w u (v :: vs) =
        C.addAllToUniverse S.prims (S.addToUniverse w v u) u vs := rfl
    obtain ⟨w', e', hE'⟩ := ih _ _ _ (hE.join v (hvs v (by simp)) hu)
      (fun x hx => hvs x (by simp [hx]))
    refine ⟨w', by rw [e, e'], ?_⟩
    simpa [List.append_assoc] using hE'

theorem matRow_S {w0 : World} {c : LCls} {u : VId} (vi : VId) (hvi : vi < w0.nV)
    (row : List Bool) : ∀ (vjs : List VId) (w : World) (pairs : List (VId × VId)) (ms : List VId),
    Ext w0 w c u pairs ms → (∀ v ∈ vjs, v < w0.nV) →
    ∃ w', C.matRow S.prims w c vi row vjs = some w' ∧
      Ext w0 w' c u (pairs ++ rowPairs vjs vi row) ms := by
  induction row with
  | nil => intro vjs w pairs ms hE _; exact ⟨w, rfl, by simpa [rowPairs] using hE⟩
  | cons cell cells ih =>
    intro vjs w pairs ms hE hvs
    cases vjs with
    | nil => exact ⟨w, rfl, by simpa [rowPairs] using hE⟩
    | cons vj vjs =>
      have hvs' : ∀ v ∈ vjs, v < w0.nV := fun x hx => hvs x (by simp [hx])
      cases cell with
      | false =>
        have e : C.matRow S.prims w c vi (false :: cells) (vj :: vjs) =
            C.matRow S.prims w c vi cells vjs := rfl
        obtain ⟨w', e', hE'⟩ := ih vjs _ _ _ hE hvs'
        refine ⟨w', by rw [e, e'], ?_⟩
        simpa [rowPairs] using hE'
      | true =>
        have e : C.matRow S.prims w c vi (true :: cells) (vj :: vjs) =
            C.matRow S.prims (linkW w c vi vj) c vi cells vjs := rfl
        obtain ⟨w', e', hE'⟩ := ih vjs _ _ _ (hE.link vi vj hvi (hvs vj (by simp))) hvs'
        refine ⟨w', by rw [e, e'], ?_⟩
        simpa [rowPairs, List.append_assoc] using hE'

theorem matRows_S {w0 : World} {c : LCls} {u : VId} (verts : List VId)
    (hverts : ∀ v ∈ verts, v < w0.nV)
    (rows : List (List Bool)) : ∀ (vis : List VId) (w : World) (pairs : List (VId × VId))
    (ms : List VId), Ext w0 w c u pairs ms → (∀ v ∈ vis, v < w0.nV) →
    ∃ w', C.matRows S.prims w c verts rows vis = some w' ∧
      Ext w0 w' c u (pairs ++ matPairsG verts rows vis) ms := by
  induction rows with
  | nil => intro vis w pairs ms hE _; exact ⟨w, rfl, by simpa [matPairsG] using hE⟩
  | cons row rows ih =>
    intro vis w pairs ms hE hvs
    cases vis with
    | nil => exact ⟨w, rfl, by simpa [matPairsG] using hE⟩
    | cons vi vis =>
      have e : C.matRows S.prims w c verts (row :: rows) (vi :: vis) =
          match C.matRow S.prims w c vi row verts with
          | none => none
          | some w => C.matRows S.prims w c verts rows vis := rfl
      obtain ⟨w1, e1, hE1⟩ := matRow_S vi (hvs vi (by simp)) row verts _ _ _ hE hverts
      obtain ⟨w', e', hE'⟩ := ih vis _ _ _ hE1 (fun x hx => hvs x (by simp [hx]))
      refine ⟨w', by rw [e, e1]; exact e', ?_⟩
      have : matPairsG verts (row :: rows) (vi :: vis) =
          rowPairs verts vi row ++ matPairsG verts rows vis := by
        simp [matPairsG, rowPairs]
      rw [this]
      simpa [List.append_assoc] using hE'

/-! ### agreement of the mirror model with the reference model on the builder loops -/

theorem adjRow_agree (c : LCls) (u k : VId) (vs : List VId) :
    ∀ w, C.adjRow M.prims w c u k vs = C.adjRow S.prims w c u k vs := by
  induction vs with
  | nil => intro w; rfl
  | cons v vs ih => intro w; simp only [C.adjRow, C.newLink_agree, agree_addToUniverse, ih]

theorem adjRows_agree (c : LCls) (u : VId) (adj : List (VId × List VId)) :
    ∀ w, C.adjRows M.prims w c u adj = C.adjRows S.prims w c u adj := by
  induction adj with
  | nil => intro w; rfl
  | cons kv rest ih =>
    obtain ⟨k, vs⟩ := kv
    intro w; simp only [C.adjRows, adjRow_agree, agree_addToUniverse, ih]

theorem addAll_agree (u : VId) (vs : List VId) :
    ∀ w, C.addAllToUniverse M.prims w u vs = C.addAllToUniverse S.prims w u vs := by
  induction vs with
  | nil => intro w; rfl
  | cons v vs ih => intro w; simp only [C.addAllToUniverse, agree_addToUniverse, ih]

theorem matRow_agree (c : LCls) (vi : VId) (row : List Bool) :
    ∀ vjs w, C.matRow M.prims w c vi row vjs = C.matRow S.prims w c vi row vjs := by
  induction row with
  | nil => intro vjs w; rfl
  | cons cell cells ih =>
    intro vjs w
    cases vjs with
    | nil => rfl
    | cons vj vjs => simp only [C.matRow, C.newLink_agree, ih]

theorem matRows_agree (c : LCls) (verts : List VId) (rows : List (List Bool)) :
    ∀ vis w, C.matRows M.prims w c verts rows vis = C.matRows S.prims w c verts rows vis := by
  induction rows with
  | nil => intro vis w; rfl
  | cons row rows ih =>
    intro vis w
    cases vis with
    | nil => rfl
    | cons vi vis => simp only [C.matRows, matRow_agree, ih]

theorem loadAdjDict_agree (w : World) (c : LCls) (adj : List (VId × List VId)) (h : Inv w) :
    C.loadAdjDict M.prims w c adj = C.loadAdjDict S.prims w c adj := by
  simp only [C.loadAdjDict, C.newUniverse_agree _ _ _ _ h, adjRows_agree]

theorem loadAdjMatrix_agree (w : World) (c : LCls) (matrix : List (List Bool)) (verts : List VId)
    (h : Inv w) :
    C.loadAdjMatrix M.prims w c matrix verts = C.loadAdjMatrix S.prims w c matrix verts := by
  simp only [C.loadAdjMatrix, C.newUniverse_agree _ _ _ _ h, addAll_agree, matRows_agree]

/-! ### closed form of `Universe()` -/

/-- the world after `newUniverse … [] [] none` -/
def uniW (w : World) : World :=
  S.setLaws (preLaws w [] none).1 w.nV (some (preLaws w [] none).2)

theorem newUniverse_nil (w : World) :
    C.newUniverse S.prims w [] [] none = .ok (uniW w, w.nV) := by
  rw [C.newUniverse_unfold]; rfl

theorem uniW_inv (w : World) (h : Inv w) : Inv (uniW w) := by
  obtain ⟨w', e, h1, _⟩ := C.newUniverse_S w [] [] none h (by simp) (by simp)
  rw [newUniverse_nil] at e
  cases e; exact h1

theorem setLaws_attrs (w : World) (u : VId) (x : Option WId) : (S.setLaws w u x).attrs = w.attrs := by
  unfold S.setLaws; split <;> rfl

theorem uniW_nV (w : World) : (uniW w).nV = w.nV + 1 := (S.setLaws_frame _ _ _).nV
theorem uniW_nL (w : World) : (uniW w).nL = w.nL := (S.setLaws_frame _ _ _).nL
theorem uniW_ends (w : World) : (uniW w).ends = w.ends := (S.setLaws_frame _ _ _).ends
theorem uniW_lcls (w : World) : (uniW w).lcls = w.lcls := (S.setLaws_frame _ _ _).lcls

theorem uniW_links (w : World) (h : Inv w) : (uniW w).links = w.links := by
  rw [uniW, (S.setLaws_frame _ _ _).links]
  funext x
  show upd w.links w.nV [] x = w.links x
  simp only [upd]; split
  · rename_i hx; subst hx; exact (h.2.2.2.2.1 _ (Nat.le_refl _)).1.symm
  · rfl

theorem uniW_unis (w : World) (h : Inv w) : (uniW w).unis = w.unis := by
  rw [uniW, (S.setLaws_frame _ _ _).unis]
  funext x
  show upd w.unis w.nV (dedupKeepFirst []) x = w.unis x
  simp only [upd]; split
  · rename_i hx; subst hx; exact (h.2.2.2.2.1 _ (Nat.le_refl _)).2.1.symm
  · rfl

theorem uniW_members (w : World) (h : Inv w) : (uniW w).members = w.members := by
  rw [uniW, (S.setLaws_frame _ _ _).members]
  funext x
  show upd w.members w.nV [] x = w.members x
  simp only [upd]; split
  · rename_i hx; subst hx; exact (h.2.2.2.2.1 _ (Nat.le_refl _)).2.2.1.symm
  · rfl

theorem uniW_vcls (w : World) : (uniW w).vcls w.nV = .UNI := by
  rw [uniW, (S.setLaws_frame _ _ _).vcls]
  show upd w.vcls w.nV .UNI w.nV = .UNI
  simp

theorem uniW_attrs (w : World) (x : VId) (hx : x ≠ w.nV) : (uniW w).attrs x = w.attrs x := by
  rw [uniW, setLaws_attrs]
  show upd w.attrs w.nV [] x = w.attrs x
  simp [hx]

/-! ### the builders in the reference model -/

/-- same fields as `EG.Built` in `EG.Props.C11` -/
structure Built (w w' : World) (u : VId) (c : LCls) (pairs : List (VId × VId)) (ms : List VId) :
    Prop where
  inv : Inv w'
  uni_new : u = w.nV ∧ w'.nV = w.nV + 1 ∧ w'.vcls u = .UNI
  members : w'.members u = dedupKeepFirst ms
  nlinks : w'.nL = w.nL + pairs.length
  new_links : ∀ i (h : i < pairs.length),
    w'.ends (w.nL + i) = [some (pairs[i]).1, some (pairs[i]).2] ∧ w'.lcls (w.nL + i) = c
  old_links : ∀ l, l < w.nL → w'.ends l = w.ends l ∧ w'.lcls l = w.lcls l
  links_prefix : ∀ v, v < w.nV → ∃ more, w'.links v = w.links v ++ more ∧ ∀ l ∈ more, w.nL ≤ l
  unis_prefix : ∀ v, v < w.nV → ∃ more, w'.unis v = w.unis v ++ more ∧ ∀ x ∈ more, x = u
  old_members : ∀ x, x < w.nV → w'.members x = w.members x

/-- `Built` plus the two facts it does not record -/
structure Built' (w w' : World) (c : LCls) (pairs : List (VId × VId)) (ms : List VId) : Prop where
  built : Built w w' w.nV c pairs ms
  links : ∀ v, w'.links v = w.links v ++ gained w pairs v
  attrs : ∀ x, x < w.nV → w'.attrs x = w.attrs x

theorem gained_uniW (w : World) (pairs : List (VId × VId)) (v : VId) :
    gained (uniW w) pairs v = gained w pairs v := by
  simp only [gained, uniW_nL]

theorem built_of_ext (w w' : World) (c : LCls) (pairs : List (VId × VId)) (ms : List VId)
    (h : Inv w) (hE : Ext (uniW w) w' c w.nV pairs ms) : Built' w w' c pairs ms := by
  have hlinks : ∀ v, w'.links v = w.links v ++ gained w pairs v := by
    intro v; rw [hE.links v, uniW_links w h, gained_uniW]
  refine ⟨⟨hE.inv, ⟨rfl, ?_, ?_⟩, hE.members, ?_, ?_, ?_, ?_, ?_, ?_⟩, hlinks, ?_⟩
  · rw [hE.nV, uniW_nV]
  · rw [hE.vcls, uniW_vcls]
  · rw [hE.nL, uniW_nL]
  · intro i hi
    have := hE.new_links i pairs[i] (List.getElem?_eq_getElem hi)
    rw [uniW_nL] at this; exact this
  · intro l hl
    have := hE.old_links l (by rw [uniW_nL]; exact hl)
    rw [uniW_ends, uniW_lcls] at this; exact this
  · intro v _; exact ⟨_, hlinks v, mem_gained w pairs v⟩
  · intro v _
    have := hE.unis v
    rw [uniW_unis w h] at this; exact this
  · intro x hx
    rw [hE.old_members x (Nat.ne_of_lt hx), uniW_members w h]
  · intro x hx
    rw [hE.attrs, uniW_attrs w x (Nat.ne_of_lt hx)]

theorem ext_start (w : World) (c : LCls) (h : Inv w) : Ext (uniW w) (uniW w) c w.nV [] [] := by
  refine Ext.refl _ c _ (uniW_inv w h) ?_
  rw [uniW_members w h]
  exact (h.2.2.2.2.1 _ (Nat.le_refl _)).2.2.1

theorem loadAdjDict_S (w : World) (c : LCls) (adj : List (VId × List VId)) (h : Inv w)
    (hv : ∀ p ∈ adj, p.1 < w.nV ∧ ∀ v ∈ p.2, v < w.nV) :
    ∃ w', C.loadAdjDict S.prims w c adj = .ok (w', w.nV) ∧
      Built' w w' c (dictPairs adj) (mentions adj) := by
  have hu : w.nV < (uniW w).nV := by rw [uniW_nV]; exact Nat.lt_succ_self _
  have hv' : ∀ p ∈ adj, p.1 < (uniW w).nV ∧ ∀ v ∈ p.2, v < (uniW w).nV := by
    intro p hp
    rw [uniW_nV]
    exact ⟨Nat.lt_succ_of_lt (hv p hp).1, fun v hv' => Nat.lt_succ_of_lt ((hv p hp).2 v hv')⟩
  obtain ⟨w', e, hE⟩ := adjRows_S hu adj _ _ _ (ext_start w c h) hv'
  refine ⟨w', ?_, built_of_ext w w' c _ _ h (by simpa using hE)⟩
  simp only [C.loadAdjDict, newUniverse_nil, e]

theorem matPairsG_self (verts : List VId) (matrix : List (List Bool)) :
    matPairsG verts matrix verts =
      (matrix.zip verts).flatMap fun rv =>
        ((rv.1.zip verts).filter (·.1)).map fun cv => (rv.2, cv.2) := rfl

theorem loadAdjMatrix_S (w : World) (c : LCls) (matrix : List (List Bool)) (verts : List VId)
    (h : Inv w) (hv : ∀ v ∈ verts, v < w.nV)
    (hlen : verts.length = matrix.length) (hsq : ∀ row ∈ matrix, row.length = matrix.length) :
    ∃ w', C.loadAdjMatrix S.prims w c matrix verts = .ok (w', w.nV) ∧
      Built' w w' c (matPairsG verts matrix verts) verts := by
  have hu : w.nV < (uniW w).nV := by rw [uniW_nV]; exact Nat.lt_succ_self _
  have hv' : ∀ v ∈ verts, v < (uniW w).nV := by
    intro v hm; rw [uniW_nV]; exact Nat.lt_succ_of_lt (hv v hm)
  obtain ⟨w1, e1, hE1⟩ := addAll_S hu verts _ _ _ (ext_start w c h) hv'
  obtain ⟨w', e, hE⟩ := matRows_S verts hv' matrix verts _ _ _ hE1 hv'
  refine ⟨w', ?_, built_of_ext w w' c _ _ h (by simpa using hE)⟩
  have hany : (matrix.any fun row => decide (row.length ≠ matrix.length)) = false := by
    rw [List.any_eq_false]
    intro row hr; simpa using hsq row hr
  simp only [C.loadAdjMatrix, hlen, ne_eq, not_true_eq_false, if_false, hany, newUniverse_nil,
    e1, e]
  simp

theorem loadAdjMatrix_bad (P : Prims) (w : World) (c : LCls) (matrix : List (List Bool))
    (verts : List VId)
    (hbad : verts.length ≠ matrix.length ∨ ∃ row ∈ matrix, row.length ≠ matrix.length) :
    C.loadAdjMatrix P w c matrix verts = .error .value := by
  unfold C.loadAdjMatrix
  by_cases h1 : verts.length ≠ matrix.length
  · rw [if_pos h1]
  · rw [if_neg h1]
    rcases hbad with hb | ⟨row, hr, hne⟩
    · exact absurd hb h1
    · have hany : (matrix.any fun row => decide (row.length ≠ matrix.length)) = true := by
        rw [List.any_eq_true]; exact ⟨row, hr, by simpa using hne⟩
      rw [if_pos hany]

/-! ### randgraph -/

/-- the world after `newVertex … .V attrs [] []` -/
def vertW (w : World) (attrs : List (Nat × Nat)) : World :=
  ((M.allocVertex w .V attrs []).1).invalidate w.nV

theorem newVertex_nil (w : World) (attrs : List (Nat × Nat)) :
    C.newVertex S.prims w .V attrs [] [] = .ok (vertW w attrs, w.nV) := by
  simp [C.newVertex, M.allocVertex, C.addToLinks, dedupKeepFirst, C.joinUniverses, vertW]

theorem vertW_inv (w : World) (attrs : List (Nat × Nat)) (h : Inv w) : Inv (vertW w attrs) := by
  obtain ⟨w', e, h1, _⟩ := C.newVertex_S w .V attrs [] [] h (by simp) (by simp)
  rw [newVertex_nil] at e
  cases e; exact h1

theorem vertW_nV (w : World) (attrs : List (Nat × Nat)) : (vertW w attrs).nV = w.nV + 1 := rfl
theorem vertW_nL (w : World) (attrs : List (Nat × Nat)) : (vertW w attrs).nL = w.nL := rfl
theorem vertW_ends (w : World) (attrs : List (Nat × Nat)) : (vertW w attrs).ends = w.ends := rfl
theorem vertW_attrs (w : World) (attrs : List (Nat × Nat)) :
    (vertW w attrs).attrs = upd w.attrs w.nV attrs := rfl

theorem vertW_links (w : World) (attrs : List (Nat × Nat)) (h : Inv w) :
    (vertW w attrs).links = w.links := by
  funext x
  show upd w.links w.nV [] x = w.links x
  simp only [upd]; split
  · rename_i hx; subst hx; exact (h.2.2.2.2.1 _ (Nat.le_refl _)).1.symm
  · rfl

/-- what `randVerts w n i` establishes -/
structure RV (w w2 : World) (n i : Nat) : Prop where
  inv : Inv w2
  nV : w2.nV = w.nV + n
  nL : w2.nL = w.nL
  ends : w2.ends = w.ends
  links : w2.links = w.links
  new_attrs : ∀ j, j < n → w2.attrs (w.nV + j) = [(99, i + j)]
  old_attrs : ∀ x, x < w.nV → w2.attrs x = w.attrs x

theorem randVerts_S (n : Nat) : ∀ (i : Nat) (w : World), Inv w →
    ∃ w2, C.randVerts S.prims w n i = some w2 ∧ RV w w2 n i := by
  induction n with
  | zero =>
    intro i w h
    exact ⟨w, rfl, h, rfl, rfl, rfl, rfl, fun j hj => absurd hj (Nat.not_lt_zero _), fun _ _ => rfl⟩
  | succ n ih =>
    intro i w h
    have e : C.randVerts S.prims w (n + 1) i =
        C.randVerts S.prims (vertW w [(99, i)]) n (i + 1) := by
      simp only [C.randVerts, newVertex_nil]
    obtain ⟨w2, e2, r⟩ := ih (i + 1) (vertW w [(99, i)]) (vertW_inv w _ h)
    refine ⟨w2, by rw [e, e2], r.inv, ?_, ?_, ?_, ?_, ?_, ?_⟩
    · rw [r.nV, vertW_nV]; omega
    · rw [r.nL, vertW_nL]
    · rw [r.ends, vertW_ends]
    · rw [r.links, vertW_links w _ h]
    · intro j hj
      cases j with
      | zero =>
        rw [Nat.add_zero, Nat.add_zero, r.old_attrs w.nV (by rw [vertW_nV]; exact Nat.lt_succ_self _),
          vertW_attrs, upd_same]
      | succ j =>
        have e1 : w.nV + (j + 1) = (vertW w [(99, i)]).nV + j := by rw [vertW_nV]; omega
        have e2 : i + (j + 1) = i + 1 + j := by omega
        rw [e1, e2]; exact r.new_attrs j (by omega)
    · intro x hx
      rw [r.old_attrs x (by rw [vertW_nV]; exact Nat.lt_succ_of_lt hx), vertW_attrs,
        upd_other _ _ _ _ (Nat.ne_of_lt hx)]

theorem randVerts_agree (n : Nat) : ∀ (i : Nat) (w : World),
    C.randVerts M.prims w n i = C.randVerts S.prims w n i := by
  induction n with
  | zero => intro i w; rfl
  | succ n ih => intro i w; simp only [C.randVerts, C.newVertex_agree, ih]

theorem randK_le (count r p q : Nat) (ensure : Bool) : C.randK count r p q ensure ≤ count := by
  unfold C.randK
  exact Nat.min_le_right _ _

theorem randK_pos (count r p q : Nat) (hc : 1 ≤ count) : 1 ≤ C.randK count r p q true := by
  unfold C.randK
  simp only [if_true]
  exact Nat.le_min.mpr ⟨Nat.le_max_right _ _, hc⟩

theorem drawsOK_all (count p q : Nat) (ensure : Bool) (ds : List C.Draw) : ∀ i,
    C.drawsOK count p q ensure i ds = true →
    ∀ d ∈ ds, d.sample.length = C.randK count d.r p q ensure ∧ ∀ s ∈ d.sample, s < count := by
  induction ds with
  | nil => intro i _ d hd; simp at hd
  | cons d ds ih =>
    intro i h x hx
    simp only [C.drawsOK, Bool.and_eq_true, beq_iff_eq, List.all_eq_true, decide_eq_true_eq] at h
    rcases List.mem_cons.mp hx with rfl | hx
    · exact ⟨h.1.1.1.2, h.1.1.2⟩
    · exact ih (i + 1) h.2 x hx

theorem draw_eq_of_map (d1 d2 : List C.Draw)
    (h : d1.map (fun d => (d.r, d.sample)) = d2.map (fun d => (d.r, d.sample))) : d1 = d2 := by
  induction d1 generalizing d2 with
  | nil => cases d2 with
    | nil => rfl
    | cons y ys => simp at h
  | cons x xs ih =>
    cases d2 with
    | nil => simp at h
    | cons y ys =>
      simp only [List.map_cons, List.cons.injEq, Prod.mk.injEq] at h
      obtain ⟨⟨h1, h2⟩, h3⟩ := h
      cases x; cases y
      simp only at h1 h2
      subst h1; subst h2
      rw [ih ys h3]

/-- the adjacency dict `randgraph` hands to `load_adj_dict` -/
def randAdj (base count : Nat) (draws : List C.Draw) : List (VId × List VId) :=
  (List.range count).zip draws |>.map fun (i, d) => (base + i, d.sample.map (base + ·))

theorem randgraph_unfold (P : Prims) (w : World) (count : Nat) (c : LCls) (conn : Option (Nat × Nat))
    (ensure : Bool) (draws : List C.Draw) :
    C.randgraph P w count c conn ensure draws =
      if (conn.getD (5, count)).2 = 0 then .error .other else
      if draws.length ≠ count ||
          !(C.drawsOK count (conn.getD (5, count)).1 (conn.getD (5, count)).2 ensure 0 draws)
      then .error .other else
      match C.randVerts P w count 0 with
      | none => .error .recursion
      | some w2 => C.loadAdjDict P w2 c (randAdj w.nV count draws) := rfl

theorem mem_randAdj (base count : Nat) (draws : List C.Draw) (p : VId × List VId)
    (hp : p ∈ randAdj base count draws) :
    ∃ i d, i < count ∧ d ∈ draws ∧ p = (base + i, d.sample.map (base + ·)) := by
  simp only [randAdj, List.mem_map] at hp
  obtain ⟨⟨i, d⟩, hm, rfl⟩ := hp
  have := List.of_mem_zip hm
  exact ⟨i, d, by simpa using this.1, this.2, rfl⟩

theorem randAdj_key (base count : Nat) (draws : List C.Draw) (hlen : draws.length = count)
    (i : Nat) (hi : i < count) :
    ∃ d ∈ draws, (base + i, d.sample.map (base + ·)) ∈ randAdj base count draws := by
  have hi' : i < draws.length := by rw [hlen]; exact hi
  refine ⟨draws[i], List.getElem_mem hi', ?_⟩
  simp only [randAdj, List.mem_map]
  refine ⟨(i, draws[i]), ?_, rfl⟩
  rw [List.mem_iff_getElem]
  refine ⟨i, by simp [hlen, hi], ?_⟩
  simp

theorem mem_mentions (adj : List (VId × List VId)) (x : VId) :
    x ∈ mentions adj ↔ ∃ p ∈ adj, x = p.1 ∨ x ∈ p.2 := by
  simp [mentions, List.mem_flatMap]

theorem mem_dictPairs (adj : List (VId × List VId)) (q : VId × VId) :
    q ∈ dictPairs adj ↔ ∃ p ∈ adj, ∃ v ∈ p.2, q = (p.1, v) := by
  simp only [dictPairs, List.mem_flatMap, List.mem_map]
  constructor
  · rintro ⟨p, hp, v, hv, rfl⟩; exact ⟨p, hp, v, hv, rfl⟩
  · rintro ⟨p, hp, v, hv, rfl⟩; exact ⟨p, hp, v, hv, rfl⟩

theorem pair_mem_mentions (adj : List (VId × List VId)) (q : VId × VId) (hq : q ∈ dictPairs adj) :
    q.1 ∈ mentions adj ∧ q.2 ∈ mentions adj := by
  obtain ⟨p, hp, v, hv, rfl⟩ := (mem_dictPairs adj q).mp hq
  exact ⟨(mem_mentions adj _).mpr ⟨p, hp, Or.inl rfl⟩, (mem_mentions adj _).mpr ⟨p, hp, Or.inr hv⟩⟩

theorem mem_mentions_randAdj (base count : Nat) (draws : List C.Draw) (hlen : draws.length = count)
    (hs : ∀ d ∈ draws, ∀ s ∈ d.sample, s < count) (x : VId) :
    x ∈ mentions (randAdj base count draws) ↔ base ≤ x ∧ x < base + count := by
  rw [mem_mentions]
  constructor
  · rintro ⟨p, hp, hx⟩
    obtain ⟨i, d, hi, hd, rfl⟩ := mem_randAdj base count draws p hp
    rcases hx with rfl | hx
    · exact ⟨Nat.le_add_right _ _, Nat.add_lt_add_left hi _⟩
    · simp only [List.mem_map] at hx
      obtain ⟨s, hsm, rfl⟩ := hx
      exact ⟨Nat.le_add_right _ _, Nat.add_lt_add_left (hs d hd s hsm) _⟩
  · rintro ⟨h1, h2⟩
    obtain ⟨d, _, hm⟩ := randAdj_key base count draws hlen (x - base)
      (Nat.sub_lt_left_of_lt_add h1 h2)
    exact ⟨_, hm, Or.inl (Nat.add_sub_of_le h1).symm⟩

/-- the statement of C20 (`EG.Props.C20.C20_builds`) -/
theorem randgraph_spec (w : World) (count : Nat) (c : LCls) (conn : Option (Nat × Nat))
    (ensure : Bool) (draws : List C.Draw) (h : Inv w) (hcount : 1 ≤ count)
    (hq : ∀ pq, conn = some pq → pq.2 ≠ 0)
    (hlen : draws.length = count)
    (hok : C.drawsOK count (conn.getD (5, count)).1 (conn.getD (5, count)).2 ensure 0 draws = true) :
    ∃ w', C.randgraph M.prims w count c conn ensure draws = .ok (w', w.nV + count) ∧
      Inv w' ∧
      (w'.members (w.nV + count)).Nodup ∧
      (∀ x, x ∈ w'.members (w.nV + count) ↔ w.nV ≤ x ∧ x < w.nV + count) ∧
      (∀ i, i < count → w'.attrs (w.nV + i) = [(99, i)]) ∧
      (∀ l, w.nL ≤ l → l < w'.nL → w'.lcls l = c ∧
        ∃ a b, w'.ends l = [some a, some b] ∧ a ∈ w'.members (w.nV + count) ∧
          b ∈ w'.members (w.nV + count)) ∧
      (∀ l, l < w.nL → w'.ends l = w.ends l) ∧
      (∀ i, i < count → ∀ l ∈ w'.links (w.nV + i), w.nL ≤ l) ∧
      (ensure = true → ∀ i, i < count →
        ∃ l, w.nL ≤ l ∧ l < w'.nL ∧ (w'.ends l).head? = some (some (w.nV + i))) := by
  have hq0 : (conn.getD (5, count)).2 ≠ 0 := by
    cases conn with
    | none => exact Nat.ne_of_gt hcount
    | some pq => exact hq pq rfl
  have hall := drawsOK_all count _ _ ensure draws 0 hok
  have hs : ∀ d ∈ draws, ∀ s ∈ d.sample, s < count := fun d hd => (hall d hd).2
  obtain ⟨w2, e2, r⟩ := randVerts_S count 0 w h
  have hvalid : ∀ p ∈ randAdj w.nV count draws, p.1 < w2.nV ∧ ∀ v ∈ p.2, v < w2.nV := by
    intro p hp
    obtain ⟨i, d, hi, hd, rfl⟩ := mem_randAdj _ _ _ p hp
    rw [r.nV]
    refine ⟨Nat.add_lt_add_left hi _, ?_⟩
    intro v hv
    simp only [List.mem_map] at hv
    obtain ⟨s, hsm, rfl⟩ := hv
    exact Nat.add_lt_add_left (hs d hd s hsm) _
  obtain ⟨w', e', hb, hl, ha⟩ := loadAdjDict_S w2 c (randAdj w.nV count draws) r.inv hvalid
  have hmem : ∀ x, x ∈ w'.members (w.nV + count) ↔ w.nV ≤ x ∧ x < w.nV + count := by
    intro x
    rw [← r.nV, hb.members, mem_dedupKeepFirst, mem_mentions_randAdj _ _ _ hlen hs, r.nV]
  have hnl : w'.nL = w.nL + (dictPairs (randAdj w.nV count draws)).length := by
    rw [hb.nlinks, r.nL]
  refine ⟨w', ?_, hb.inv, ?_, hmem, ?_, ?_, ?_, ?_, ?_⟩
  · rw [randgraph_unfold, if_neg hq0]
    have hg : (draws.length ≠ count ||
        !(C.drawsOK count (conn.getD (5, count)).1 (conn.getD (5, count)).2 ensure 0 draws))
        = false := by
      simp [hlen, hok]
    rw [hg, randVerts_agree, e2]
    simp only [Bool.false_eq_true, if_false]
    rw [loadAdjDict_agree _ _ _ r.inv, e', r.nV]
  · rw [← r.nV, hb.members]; exact nodup_dedupKeepFirst _
  · intro i hi
    rw [ha (w.nV + i) (by rw [r.nV]; exact Nat.add_lt_add_left hi _), r.new_attrs i hi,
      Nat.zero_add]
  · intro l h1 h2
    have hi : l - w.nL < (dictPairs (randAdj w.nV count draws)).length := by
      rw [hnl] at h2; omega
    have el : l = w2.nL + (l - w.nL) := by rw [r.nL]; omega
    obtain ⟨n1, n2⟩ := hb.new_links (l - w.nL) hi
    rw [← el] at n1 n2
    obtain ⟨m1, m2⟩ := pair_mem_mentions _ _ (List.getElem_mem hi)
    refine ⟨n2, _, _, n1, ?_, ?_⟩
    · rw [← r.nV, hb.members, mem_dedupKeepFirst]; exact m1
    · rw [← r.nV, hb.members, mem_dedupKeepFirst]; exact m2
  · intro l hlt
    rw [(hb.old_links l (by rw [r.nL]; exact hlt)).1, r.ends]
  · intro i hi l hm
    rw [hl (w.nV + i), r.links, (h.2.2.2.2.1 (w.nV + i) (Nat.le_add_right _ _)).1,
      List.nil_append] at hm
    have := mem_gained w2 _ _ l hm
    rw [r.nL] at this; exact this
  · intro hen i hi
    subst hen
    obtain ⟨d, hd, hm⟩ := randAdj_key w.nV count draws hlen i hi
    have hpos : 1 ≤ d.sample.length := by
      rw [(hall d hd).1]; exact randK_pos count d.r _ _ hcount
    cases hsm : d.sample with
    | nil => rw [hsm] at hpos; simp at hpos
    | cons s rest =>
      have hq : (w.nV + i, w.nV + s) ∈ dictPairs (randAdj w.nV count draws) := by
        rw [mem_dictPairs]
        exact ⟨_, hm, w.nV + s, by simp [hsm], rfl⟩
      obtain ⟨j, hj, ej⟩ := List.getElem_of_mem hq
      obtain ⟨n1, _⟩ := hb.new_links j hj
      refine ⟨w.nL + j, Nat.le_add_right _ _, by rw [hnl]; exact Nat.add_lt_add_left hj _, ?_⟩
      rw [← r.nL, n1, ej]; rfl

end B
end EG
