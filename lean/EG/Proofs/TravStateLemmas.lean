import EG.TravState
import EG.Props.C13
import EG.Proofs.TravWorldLemmas
/-
  EG.Proofs.TravStateLemmas — the state-threading loops of EG.TravState simulate the pure loops
  of EG.Trav, and the world-level instance keeps the graph and the correctness of every memo.
-/
set_option linter.unusedSimpArgs false
set_option linter.unusedVariables false
namespace EG
namespace TS

section generic

variable {σ : Type} (nbS : σ → Nat → σ × List Nat) (nb : Nat → List Nat) (inU : Nat → Bool)
  (ffr : Nat → Bool) (I : σ → Prop)

/-- `nbS` answers like `nb` and keeps the invariant -/
def Sim : Prop := ∀ s x, I s → (nbS s x).2 = nb x ∧ I (nbS s x).1

variable {nbS nb I}

theorem bftLoop_sim (H : Sim nbS nb I) : ∀ (f : Nat) (s : σ) (vis q out : List Nat), I s →
    (bftLoop nbS inU ffr f s vis q out).2 = T.bftLoop nb inU ffr f vis q out ∧
    I (bftLoop nbS inU ffr f s vis q out).1 := by
  intro f
  induction f with
  | zero => intro s vis q out hs; exact ⟨rfl, hs⟩
  | succ f ih =>
    intro s vis q out hs
    cases q with
    | nil => exact ⟨rfl, hs⟩
    | cons u q =>
      obtain ⟨h1, h2⟩ := H s u hs
      simp only [bftLoop, T.bftLoop, h1]
      exact ih _ _ _ _ h2

theorem bft_sim (H : Sim nbS nb I) (f : Nat) (s : σ) (start : Nat) (hs : I s) :
    (bft nbS inU ffr f s start).2 = T.bft nb inU ffr f start ∧ I (bft nbS inU ffr f s start).1 :=
  bftLoop_sim inU ffr H f s _ _ _ hs

theorem dftRec_sim (H : Sim nbS nb I) : ∀ (f : Nat) (s : σ) (vis out : List Nat) (v : Nat), I s →
    (dftRec nbS inU ffr f (s, vis, out) v).2 = T.dftRec nb inU ffr f (vis, out) v ∧
    I (dftRec nbS inU ffr f (s, vis, out) v).1 := by
  intro f
  induction f with
  | zero => intro s vis out v hs; exact ⟨rfl, hs⟩
  | succ f ih =>
    intro s vis out v hs
    obtain ⟨h1, h2⟩ := H s v hs
    simp only [dftRec, T.dftRec, h1]
    generalize (nbS s v).1 = s1 at h2
    generalize vis ++ [v] = vis1
    generalize (if ffr v = true then out ++ [v] else out) = out1
    generalize nb v = l
    induction l generalizing s1 vis1 out1 with
    | nil => exact ⟨rfl, h2⟩
    | cons w ws ihl =>
      simp only [List.foldl_cons]
      by_cases hu : inU w = true
      · by_cases hv : w ∈ vis1
        · simp only [hu, hv, Bool.not_true, Bool.false_eq_true, if_false, if_true]
          exact ihl s1 h2 vis1 out1
        · simp only [hu, hv, Bool.not_true, Bool.false_eq_true, if_false]
          obtain ⟨e1, e2⟩ := ih s1 vis1 out1 w h2
          have := ihl (dftRec nbS inU ffr f (s1, vis1, out1) w).1 e2
            (dftRec nbS inU ffr f (s1, vis1, out1) w).2.1
            (dftRec nbS inU ffr f (s1, vis1, out1) w).2.2
          rw [← e1]
          exact this
      · simp only [hu, Bool.not_false, if_true]
        exact ihl s1 h2 vis1 out1

theorem dftRecursive_sim (H : Sim nbS nb I) (f : Nat) (s : σ) (start : Nat) (hs : I s) :
    (dftRecursive nbS inU ffr f s start).2 = T.dftRecursive nb inU ffr f start ∧
    I (dftRecursive nbS inU ffr f s start).1 := by
  obtain ⟨e1, e2⟩ := dftRec_sim inU ffr H f s [] [] start hs
  simp only [dftRecursive, T.dftRecursive]
  exact ⟨by rw [← e1], e2⟩

theorem dftIterLoop_sim (H : Sim nbS nb I) : ∀ (f : Nat) (s : σ) (st disc out : List Nat), I s →
    (dftIterLoop nbS inU ffr f s st disc out).2 = T.dftIterLoop nb inU ffr f st disc out ∧
    I (dftIterLoop nbS inU ffr f s st disc out).1 := by
  intro f
  induction f with
  | zero => intro s st disc out hs; exact ⟨rfl, hs⟩
  | succ f ih =>
    intro s st disc out hs
    cases st with
    | nil => exact ⟨rfl, hs⟩
    | cons v st =>
      simp only [dftIterLoop, T.dftIterLoop]
      by_cases hd : v ∈ disc
      · simp only [hd, if_true]; exact ih _ _ _ _ hs
      · by_cases hu : inU v = true
        · obtain ⟨h1, h2⟩ := H s v hs
          simp only [hd, hu, if_false, Bool.not_true, Bool.false_eq_true, h1]
          exact ih _ _ _ _ h2
        · simp only [hd, hu, if_false, Bool.not_false, if_true]; exact ih _ _ _ _ hs

theorem dftIterative_sim (H : Sim nbS nb I) (f : Nat) (s : σ) (start : Nat) (hs : I s) :
    (dftIterative nbS inU ffr f s start).2 = T.dftIterative nb inU ffr f start ∧
    I (dftIterative nbS inU ffr f s start).1 :=
  dftIterLoop_sim inU ffr H f s _ _ _ hs

variable (p : Nat → Bool)

theorem bfsLoop_sim (H : Sim nbS nb I) : ∀ (f : Nat) (s : σ) (vis q : List Nat), I s →
    (bfsLoop nbS inU p f s vis q).2 = T.bfsLoop nb inU p f vis q ∧
    I (bfsLoop nbS inU p f s vis q).1 := by
  intro f
  induction f with
  | zero => intro s vis q hs; exact ⟨rfl, hs⟩
  | succ f ih =>
    intro s vis q hs
    cases q with
    | nil => exact ⟨rfl, hs⟩
    | cons u q =>
      obtain ⟨h1, h2⟩ := H s u hs
      simp only [bfsLoop, T.bfsLoop, h1]
      cases hsc : T.bfsScan inU p vis q (nb u) with
      | inl x => exact ⟨rfl, h2⟩
      | inr t => exact ih _ _ _ h2

theorem bfs_sim (H : Sim nbS nb I) (f : Nat) (s : σ) (start : Nat) (hs : I s) :
    (bfs nbS inU p f s start).2 = T.bfs nb inU p f start ∧ I (bfs nbS inU p f s start).1 := by
  simp only [bfs, T.bfs]
  by_cases hp : p start = true
  · simp only [hp, if_true]; exact ⟨trivial, hs⟩
  · simp only [hp, if_false, Bool.false_eq_true]; exact bfsLoop_sim inU p H f s _ _ hs

theorem dfsRec_sim (H : Sim nbS nb I) : ∀ (f : Nat) (s : σ) (vis : List Nat) (v : Nat), I s →
    ((dfsRec nbS inU p f (s, vis) v).1.2, (dfsRec nbS inU p f (s, vis) v).2) =
      T.dfsRec nb inU p f vis v ∧
    I (dfsRec nbS inU p f (s, vis) v).1.1 := by
  intro f
  induction f with
  | zero => intro s vis v hs; exact ⟨rfl, hs⟩
  | succ f ih =>
    intro s vis v hs
    obtain ⟨h1, h2⟩ := H s v hs
    simp only [dfsRec, T.dfsRec, h1]
    generalize (nbS s v).1 = s1 at h2
    generalize vis ++ [v] = vis1
    generalize hres : (none : Option Nat) = res
    clear hres
    generalize nb v = l
    induction l generalizing s1 vis1 res with
    | nil => exact ⟨rfl, h2⟩
    | cons w ws ihl =>
      simp only [List.foldl_cons]
      cases res with
      | some r => exact ihl s1 h2 vis1 (some r)
      | none =>
        simp only []
        by_cases hu : inU w = true
        · by_cases hv : w ∈ vis1
          · simp only [hu, hv, Bool.not_true, Bool.false_eq_true, if_false, if_true]
            exact ihl s1 h2 vis1 none
          · by_cases hp : p w = true
            · simp only [hu, hv, hp, Bool.not_true, Bool.false_eq_true, if_false, if_true]
              exact ihl s1 h2 vis1 (some w)
            · simp only [hu, hv, hp, Bool.not_true, Bool.false_eq_true, if_false]
              obtain ⟨e1, e2⟩ := ih s1 vis1 w h2
              have := ihl (dfsRec nbS inU p f (s1, vis1) w).1.1 e2 (dfsRec nbS inU p f (s1, vis1) w).1.2
                (dfsRec nbS inU p f (s1, vis1) w).2
              rw [← e1]
              exact this
        · simp only [hu, Bool.not_false, if_true]
          exact ihl s1 h2 vis1 none

theorem dfsRecursive_sim (H : Sim nbS nb I) (f : Nat) (s : σ) (start : Nat) (hs : I s) :
    (dfsRecursive nbS inU p f s start).2 = T.dfsRecursive nb inU p f start ∧
    I (dfsRecursive nbS inU p f s start).1 := by
  simp only [dfsRecursive, T.dfsRecursive]
  by_cases hp : p start = true
  · simp only [hp, if_true]; exact ⟨trivial, hs⟩
  · simp only [hp, if_false, Bool.false_eq_true]
    obtain ⟨e1, e2⟩ := dfsRec_sim inU p H f s [] start hs
    exact ⟨by rw [← e1], e2⟩

theorem dfsIterLoop_sim (H : Sim nbS nb I) : ∀ (f : Nat) (s : σ) (st disc : List Nat), I s →
    (dfsIterLoop nbS inU p f s st disc).2 = T.dfsIterLoop nb inU p f st disc ∧
    I (dfsIterLoop nbS inU p f s st disc).1 := by
  intro f
  induction f with
  | zero => intro s st disc hs; exact ⟨rfl, hs⟩
  | succ f ih =>
    intro s st disc hs
    cases st with
    | nil => exact ⟨rfl, hs⟩
    | cons v st =>
      simp only [dfsIterLoop, T.dfsIterLoop]
      by_cases hu : inU v = true
      · by_cases hd : v ∈ disc
        · simp only [hd, hu, if_true, Bool.not_true, Bool.false_eq_true, if_false]; exact ih _ _ _ hs
        · by_cases hp : p v = true
          · simp only [hd, hu, hp, if_true, Bool.not_true, Bool.false_eq_true, if_false]; exact ⟨trivial, hs⟩
          · obtain ⟨h1, h2⟩ := H s v hs
            simp only [hd, hu, hp, if_false, Bool.not_true, Bool.false_eq_true, h1]
            exact ih _ _ _ h2
      · simp only [hu, Bool.not_false, if_true]; exact ih _ _ _ hs

theorem dfsIterative_sim (H : Sim nbS nb I) (f : Nat) (s : σ) (start : Nat) (hs : I s) :
    (dfsIterative nbS inU p f s start).2 = T.dfsIterative nb inU p f start ∧
    I (dfsIterative nbS inU p f s start).1 :=
  dfsIterLoop_sim inU p H f s _ _ hs

end generic

/-! ### the world-level instance -/

variable (w : World) (F : Nat → LId → Option VId → Bool)

/-- the invariant carried through a traversal that started on `w` -/
def Keeps (s : World × Bool) : Prop := SameGraph w s.1 ∧ CacheOK F s.1

theorem sameGraph_refl : SameGraph w w :=
  ⟨rfl, rfl, rfl, rfl, rfl, rfl, rfl, rfl, rfl, rfl, rfl, rfl, rfl, rfl⟩

theorem sameGraph_trans {a b c : World} (h1 : SameGraph a b) (h2 : SameGraph b c) : SameGraph a c := by
  unfold SameGraph at *
  obtain ⟨a1, a2, a3, a4, a5, a6, a7, a8, a9, a10, a11, a12, a13, a14⟩ := h1
  obtain ⟨b1, b2, b3, b4, b5, b6, b7, b8, b9, b10, b11, b12, b13, b14⟩ := h2
  exact ⟨b1.trans a1, b2.trans a2, b3.trans a3, b4.trans a4, b5.trans a5, b6.trans a6, b7.trans a7,
    b8.trans a8, b9.trans a9, b10.trans a10, b11.trans a11, b12.trans a12, b13.trans a13, b14.trans a14⟩

theorem resolvedNb_same {w' : World} (h : SameGraph w w') (dir unk : Nat) (via : Option Nat) :
    TO.resolvedNb w' F dir unk via = TO.resolvedNb w F dir unk via :=
  TO.resolvedNb_congr w' F w h.1 h.2.2.2.2.1 h.2.2.2.2.2.1 h.2.2.2.2.2.2.1 dir unk via

theorem nbW_sim (dir unk : Nat) (via : Option Nat) :
    Sim (nbW F dir unk via) (TO.resolvedNb w F dir unk via) (Keeps w F) := by
  intro s x hs
  obtain ⟨hg, hc⟩ := hs
  have hnv : s.1.nV = w.nV := hg.1
  have hres := resolvedNb_same w F hg dir unk via
  unfold nbW
  by_cases hr : s.2 = true
  · simp only [hr, if_true]
    exact ⟨by rw [hres], hg, hc⟩
  · simp only [hr, if_false, Bool.false_eq_true]
    by_cases hx : x < s.1.nV
    · simp only [hx, if_true]
      have hans := C05_transparent F s.1 x dir unk via hc
      have hq := C13_neighbors_frame F s.1 x dir unk via none hc
      have hg' : SameGraph w (M.neighbors s.1 F x dir unk via none).1 := sameGraph_trans hg hq.1
      have hpure : TO.resolvedNb w F dir unk via x = TO.resolvedNb s.1 F dir unk via x := by rw [hres]
      rw [hpure]
      simp only [TO.resolvedNb, hx, if_true]
      rw [hans]
      cases hp : M.neighborsPure s.1 F x dir unk via with
      | ok l => exact ⟨rfl, hg', hq.2.1⟩
      | error e => exact ⟨rfl, hg', hq.2.1⟩
    · simp only [hx, if_false]
      have hpure : TO.resolvedNb w F dir unk via x = TO.resolvedNb s.1 F dir unk via x := by rw [hres]
      rw [hpure]
      simp only [TO.resolvedNb, hx, if_false]
      by_cases he : x = s.1.nV
      · simp only [he, if_true]; exact ⟨trivial, hg, hc⟩
      · simp only [he, if_false]; exact ⟨trivial, hg, hc⟩

/-- a traversal call answers exactly what the pure description (which ignores every memo) says,
    leaves the graph as it was, and leaves every memo correct -/
theorem traverse_spec (ffr : Nat → Bool) (kind : TO.TravKind) (uni : Option VId) (start : VId)
    (dir unk : Nat) (via : Option Nat) (hc : CacheOK F w) :
    (traverse w F ffr kind uni start dir unk via).2 = TO.traverse w F ffr kind uni start dir unk via ∧
    SameGraph w (traverse w F ffr kind uni start dir unk via).1 ∧
    CacheOK F (traverse w F ffr kind uni start dir unk via).1 := by
  have h0 : Keeps w F (w, false) := ⟨sameGraph_refl w, hc⟩
  have H := nbW_sim w F dir unk via
  have hb := bft_sim (TO.inUni w uni) ffr H (TO.fuelFor w (TO.resolvedNb w F dir unk via)) (w, false) start h0
  have hr := dftRecursive_sim (TO.inUni w uni) ffr H (TO.fuelFor w (TO.resolvedNb w F dir unk via)) (w, false) start h0
  have hi := dftIterative_sim (TO.inUni w uni) ffr H (TO.fuelFor w (TO.resolvedNb w F dir unk via)) (w, false) start h0
  have hz := sameGraph_refl w
  cases uni with
  | none =>
    cases kind <;> simp only [traverse, TO.traverse, Bool.false_eq_true, if_false]
    · exact ⟨by rw [hb.1], hb.2.1, hb.2.2⟩
    · exact ⟨by rw [hr.1], hr.2.1, hr.2.2⟩
    · exact ⟨by rw [hi.1], hi.2.1, hi.2.2⟩
  | some u =>
    by_cases h1 : (w.members u).isEmpty = true
    · cases kind <;> simp only [traverse, TO.traverse, h1, if_true] <;>
        exact ⟨by first | rfl | trivial, hz, hc⟩
    · cases h2 : (w.members u).contains start with
      | true =>
        cases kind <;> simp only [traverse, TO.traverse, h1, h2, Bool.false_eq_true, if_false, Bool.not_true]
        · exact ⟨by rw [hb.1], hb.2.1, hb.2.2⟩
        · exact ⟨by rw [hr.1], hr.2.1, hr.2.2⟩
        · exact ⟨by rw [hi.1], hi.2.1, hi.2.2⟩
      | false =>
        cases kind <;> simp only [traverse, TO.traverse, h1, h2, Bool.false_eq_true, if_false, Bool.not_false, if_true] <;>
          exact ⟨by first | rfl | trivial, hz, hc⟩

theorem search_spec (kind : TO.SearchKind) (uni : Option VId) (start : VId) (attr val : Nat)
    (hc : CacheOK F w) :
    (search w F kind uni start attr val).2 = TO.search w F kind uni start attr val ∧
    SameGraph w (search w F kind uni start attr val).1 ∧
    CacheOK F (search w F kind uni start attr val).1 := by
  have h0 : Keeps w F (w, false) := ⟨sameGraph_refl w, hc⟩
  have H := nbW_sim w F 0 2 none
  have hb := bfs_sim (TO.inUni w uni) (TO.attrMatch w attr val) H (TO.fuelFor w (TO.resolvedNb w F 0 2 none)) (w, false) start h0
  have hr := dfsRecursive_sim (TO.inUni w uni) (TO.attrMatch w attr val) H (TO.fuelFor w (TO.resolvedNb w F 0 2 none)) (w, false) start h0
  have hi := dfsIterative_sim (TO.inUni w uni) (TO.attrMatch w attr val) H (TO.fuelFor w (TO.resolvedNb w F 0 2 none)) (w, false) start h0
  have hz := sameGraph_refl w
  cases uni with
  | none =>
    cases kind <;> simp only [search, TO.search, Bool.false_eq_true, if_false]
    · exact ⟨by rw [hb.1]; generalize T.bfs _ _ _ _ _ = r; cases r <;> rfl, hb.2.1, hb.2.2⟩
    · exact ⟨by rw [hr.1]; generalize T.dfsRecursive _ _ _ _ _ = r; cases r <;> rfl, hr.2.1, hr.2.2⟩
    · exact ⟨by rw [hi.1]; generalize T.dfsIterative _ _ _ _ _ = r; cases r <;> rfl, hi.2.1, hi.2.2⟩
  | some u =>
    by_cases h1 : (w.members u).isEmpty = true
    · cases kind <;> simp only [search, TO.search, h1, if_true] <;>
        exact ⟨by first | rfl | trivial, hz, hc⟩
    · cases h2 : (w.members u).contains start with
      | true =>
        cases kind <;> simp only [search, TO.search, h1, h2, Bool.false_eq_true, if_false, Bool.not_true]
        · exact ⟨by rw [hb.1]; generalize T.bfs _ _ _ _ _ = r; cases r <;> rfl, hb.2.1, hb.2.2⟩
        · exact ⟨by rw [hr.1]; generalize T.dfsRecursive _ _ _ _ _ = r; cases r <;> rfl, hr.2.1, hr.2.2⟩
        · exact ⟨by rw [hi.1]; generalize T.dfsIterative _ _ _ _ _ = r; cases r <;> rfl, hi.2.1, hi.2.2⟩
      | false =>
        cases kind <;> simp only [search, TO.search, h1, h2, Bool.false_eq_true, if_false, Bool.not_false, if_true] <;>
          exact ⟨by first | rfl | trivial, hz, hc⟩

end TS
end EG

namespace EG
namespace R

theorem renderLinesS_spec (w0 : World) (F : Nat → LId → Option VId → Bool) (rf : RFun)
    (sort : Option (Option VId → Nat)) : ∀ (vs : List VId) (w : World),
    SameGraph w0 w → CacheOK F w →
    (renderLinesS F rf sort w vs).2 = renderLines w0 F rf sort vs ∧
    SameGraph w0 (renderLinesS F rf sort w vs).1 ∧ CacheOK F (renderLinesS F rf sort w vs).1 := by
  intro vs
  induction vs with
  | nil => intro w hg hc; exact ⟨rfl, hg, hc⟩
  | cons v vs ih =>
    intro w hg hc
    have hans := C05_transparent F w v 0 2 none hc
    have hq := C13_neighbors_frame F w v 0 2 none none hc
    have hg' : SameGraph w0 (M.neighbors w F v 0 2 none none).1 := TS.sameGraph_trans hg hq.1
    have hpure : M.neighborsPure w F v 0 2 none = M.neighborsPure w0 F v 0 2 none :=
      TO.neighborsPure_congr w F w0 hg.2.2.2.2.1 hg.2.2.2.2.2.1 hg.2.2.2.2.2.2.1 v 0 2 none
    simp only [renderLinesS, renderLines]
    rw [hans, hpure]
    cases hp : M.neighborsPure w0 F v 0 2 none with
    | error e => exact ⟨rfl, hg', hq.2.1⟩
    | ok nbs =>
      simp only []
      obtain ⟨e1, e2, e3⟩ := ih _ hg' hq.2.1
      rw [e1]
      cases hr : renderLines w0 F rf sort vs with
      | error e => exact ⟨rfl, e2, e3⟩
      | ok rest => exact ⟨rfl, e2, e3⟩

/-- `basic_render` answers what the memo-free description `basicRender` says (the object of the
    C16 theorems), leaves the graph as it was and every memo correct -/
theorem basicRenderS_spec (w : World) (F : Nat → LId → Option VId → Bool) (u : VId) (rf : RFun)
    (sort : Option (Option VId → Nat)) (hc : CacheOK F w) :
    (basicRenderS w F u rf sort).2 = basicRender w F u rf sort ∧
    SameGraph w (basicRenderS w F u rf sort).1 ∧ CacheOK F (basicRenderS w F u rf sort).1 := by
  by_cases h : (w.members u).isEmpty = true
  · simp only [basicRenderS, basicRender, h, if_true]; exact ⟨trivial, TS.sameGraph_refl w, hc⟩
  · cases sort with
    | none =>
      obtain ⟨e1, e2, e3⟩ := renderLinesS_spec w F rf none (w.members u) w (TS.sameGraph_refl w) hc
      simp only [basicRenderS, basicRender, h, if_false, Bool.false_eq_true]
      rw [e1]
      cases hr : renderLines w F rf none (w.members u) with
      | error e => exact ⟨rfl, e2, e3⟩
      | ok ls => exact ⟨rfl, e2, e3⟩
    | some key =>
      obtain ⟨e1, e2, e3⟩ := renderLinesS_spec w F rf (some key)
        ((sortBy key ((w.members u).map some)).filterMap id) w (TS.sameGraph_refl w) hc
      simp only [basicRenderS, basicRender, h, if_false, Bool.false_eq_true]
      rw [e1]
      cases hr : renderLines w F rf (some key) ((sortBy key ((w.members u).map some)).filterMap id) with
      | error e => exact ⟨rfl, e2, e3⟩
      | ok ls => exact ⟨rfl, e2, e3⟩

end R
end EG
