import EG.Proofs.StructRefine
/-
  EG.Proofs.Sym — the association invariant of C01 and its preservation by every
  primitive of the reference model S.
-/
set_option linter.unusedSimpArgs false
set_option linter.unusedVariables false
namespace EG

/-- C01: a link is listed by a vertex iff the vertex is listed by the link; no vertex
    lists a link twice. -/
def Sym (w : World) : Prop :=
  (∀ v l, l ∈ w.links v ↔ some v ∈ w.ends l) ∧ ∀ v, (w.links v).Nodup

theorem nodup_append_singleton (xs : List Nat) (a : Nat) (h : xs.Nodup) (ha : a ∉ xs) :
    (xs ++ [a]).Nodup := by
  rw [List.nodup_append]
  refine ⟨h, by simp, ?_⟩
  intro x hx y hy; simp at hy; subst hy; intro hxy; subst hxy; exact ha hx

theorem mem_filter_ne (l : List (Option Nat)) (a b : Option Nat) :
    a ∈ l.filter (· != b) ↔ a ∈ l ∧ a ≠ b := by simp

theorem mem_set_of_mem_ne (l : List (Option Nat)) (i : Nat) (a x : Option Nat)
    (hx : x ∈ l) (hne : x ≠ l.getD i none) : x ∈ l.set i a := by
  induction l generalizing i with
  | nil => simp at hx
  | cons y ys ih =>
    cases i with
    | zero =>
      simp at hne ⊢
      rcases List.mem_cons.mp hx with h | h
      · exact absurd h hne
      · exact Or.inr h
    | succ j =>
      simp at hne ⊢
      rcases List.mem_cons.mp hx with h | h
      · exact Or.inl h
      · exact Or.inr (ih j h (by simpa using hne))

namespace S

theorem addToLink_sym (w : World) (v : VId) (l : LId) (h : Sym w) : Sym (S.addToLink w v l) := by
  obtain ⟨h1, h2⟩ := h
  constructor
  · intro v' l'
    have := h1 v' l'; have := h1 v l; have := h1 v' l; have := h1 v l'
    simp only [S.addToLink]; grind
  · intro v'
    simp only [S.addToLink]
    split
    · rename_i hc; exact nodup_append_singleton _ _ (h2 v) hc.2
    · exact h2 v'

theorem addVertex_sym (w : World) (l : LId) (new : Option VId) (h : Sym w) :
    Sym (S.addVertex w l new) := by
  obtain ⟨h1, h2⟩ := h
  constructor
  · intro v' l'
    have := h1 v' l'; have := h1 v' l
    simp only [S.addVertex]; grind
  · intro v'
    simp only [S.addVertex]
    split
    · rename_i hc; exact nodup_append_singleton _ _ (h2 v') hc.2
    · exact h2 v'

theorem removeFromLink_sym (w : World) (v : VId) (l : LId) (h : Sym w) :
    Sym (S.removeFromLink w v l) := by
  obtain ⟨h1, h2⟩ := h
  constructor
  · intro v' l'
    have := h1 v' l'; have := h1 v l; have := h1 v' l; have := h1 v l'
    have := List.Nodup.mem_erase_iff (a := l') (b := l) (h2 v)
    simp only [S.removeFromLink, mem_filter_ne]; grind
  · intro v'
    simp only [S.removeFromLink]
    split
    · exact List.Nodup.erase _ (h2 v)
    · exact h2 v'

theorem unlinkFrom_sym (w : World) (l : LId) (kill : Option VId) (h : Sym w) :
    Sym (S.unlinkFrom w l kill) := by
  obtain ⟨h1, h2⟩ := h
  cases kill with
  | none =>
    constructor
    · intro v' l'
      have := h1 v' l'; have := h1 v' l
      have : some v' ∈ (w.ends l).erase none ↔ some v' ∈ w.ends l :=
        List.mem_erase_of_ne (by simp)
      simp only [S.unlinkFrom]; grind
    · intro v'; exact h2 v'
  | some k =>
    constructor
    · intro v' l'
      have := h1 v' l'; have := h1 k l; have := h1 v' l; have := h1 k l'
      have := List.Nodup.mem_erase_iff (a := l') (b := l) (h2 k)
      simp only [S.unlinkFrom, mem_filter_ne]; grind
    · intro v'
      simp only [S.unlinkFrom]
      split
      · exact List.Nodup.erase _ (h2 k)
      · exact h2 v'

theorem replaceEnd_sym (w : World) (l : LId) (idx : Nat) (new : Option VId)
    (hi : idx < (w.ends l).length) (h : Sym w) : Sym (S.replaceEnd w l idx new) := by
  obtain ⟨h1, h2⟩ := h
  have hnew : new ∈ (w.ends l).set idx new := List.mem_set hi new
  constructor
  · intro v' l'
    have e1 := h1 v' l'; have e2 := h1 v' l
    have e3 := List.Nodup.mem_erase_iff (a := l') (b := l) (h2 v')
    have e4 : some v' ∈ (w.ends l).set idx new → some v' ∈ w.ends l ∨ some v' = new :=
      List.mem_or_eq_of_mem_set
    have e5 : some v' ∈ w.ends l → some v' ≠ (w.ends l).getD idx none →
        some v' ∈ (w.ends l).set idx new := mem_set_of_mem_ne _ _ _ _
    simp only [S.replaceEnd]
    by_cases hl : l' = l
    · subst hl
      simp only [↓reduceIte]
      by_cases hvn : some v' = new
      · grind
      · by_cases hvo : some v' = (w.ends l').getD idx none
        · grind
        · grind
    · simp only [hl, ↓reduceIte]
      grind
  · intro v'
    simp only [S.replaceEnd]
    have key : ∀ (ls : List Nat) (c : Prop) [Decidable c], ls.Nodup →
        (if c ∧ l ∉ ls then ls ++ [l] else ls).Nodup := by
      intro ls c _ hls
      split
      · rename_i hc; exact nodup_append_singleton _ _ hls hc.2
      · exact hls
    apply key
    split
    · exact List.Nodup.erase l (h2 v')
    · exact h2 v'

end S
end EG
