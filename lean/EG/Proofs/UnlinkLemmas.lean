import EG.Proofs.QueryLemmas
import EG.Proofs.Inv
/-
  EG.Proofs.UnlinkLemmas — helper lemmas for the `explicit.unlink` clauses of C03 / C09.
-/
set_option linter.unusedSimpArgs false
set_option linter.unusedVariables false
namespace EG

/-! ### the body of `unlinkEach` on the reference model, in closed form -/

/-- `l.unlink_from(a); l.unlink_from(b)` on the reference model -/
def S.unlinkPair (a b : VId) (w : World) (l : LId) : World :=
  S.unlinkFrom (S.unlinkFrom w l (some a)) l (some b)

theorem erase_of_not_mem (ls : List Nat) (l : Nat) (h : l ∉ ls) : ls.erase l = ls :=
  List.erase_of_not_mem h

theorem S.unlinkPair_sym (a b : VId) (w : World) (l : LId) (h : Sym w) :
    Sym (S.unlinkPair a b w l) :=
  S.unlinkFrom_sym _ _ _ (S.unlinkFrom_sym _ _ _ h)

theorem S.unlinkPair_frame (a b : VId) (w : World) (l : LId) :
    AssocFrame w (S.unlinkPair a b w l) :=
  (S.unlinkFrom_frame _ _ _).trans (S.unlinkFrom_frame _ _ _)

theorem S.unlinkPair_ends (a b : VId) (w : World) (l y : LId) :
    (S.unlinkPair a b w l).ends y =
      if y = l then (w.ends l).filter (fun e => e != some a && e != some b) else w.ends y := by
  simp only [S.unlinkPair, S.unlinkFrom]
  by_cases hy : y = l
  · simp only [hy, ↓reduceIte, List.filter_filter]
    apply List.filter_congr
    intro e _
    exact Bool.and_comm _ _
  · simp only [hy, ↓reduceIte]

theorem S.unlinkPair_links (a b : VId) (w : World) (l : LId) (x : VId) (h : Sym w) :
    (S.unlinkPair a b w l).links x =
      if x = a ∨ x = b then (w.links x).erase l else w.links x := by
  obtain ⟨h1, h2⟩ := h
  have ea := h1 a l
  have eb := h1 b l
  have na : l ∉ w.links a → (w.links a).erase l = w.links a := List.erase_of_not_mem
  have nb : l ∉ w.links b → (w.links b).erase l = w.links b := List.erase_of_not_mem
  have nn : l ∉ (w.links a).erase l := fun hm => ((h2 a).mem_erase_iff.mp hm).1 rfl
  have ee : ((w.links a).erase l).erase l = (w.links a).erase l := List.erase_of_not_mem nn
  simp only [S.unlinkPair, S.unlinkFrom, mem_filter_ne]
  by_cases hxa : x = a <;> by_cases hxb : x = b <;> by_cases hab : a = b
  all_goals (try subst hxa) <;> (try subst hxb) <;> (try subst hab) <;> grind

/-! ### the whole loop -/

theorem S.unlinkEach_eq (a b : VId) (J : List LId) (w : World) :
    C.unlinkEach S.prims w a b J = some (J.foldl (S.unlinkPair a b) w) := by
  rw [C.unlinkEach_eq_fold]
  show foldOpt (fun w l => some (S.unlinkPair a b w l)) w J = _
  rw [foldOpt_total]

theorem filter_erase_nodup (ls J : List Nat) (l : Nat) (h : ls.Nodup) :
    (ls.erase l).filter (fun x => !(J.contains x)) = ls.filter (fun x => !((l :: J).contains x)) := by
  rw [h.erase_eq_filter, List.filter_filter]
  apply List.filter_congr
  intro x _
  simp only [List.contains_cons, Bool.not_or, bne]
  exact Bool.and_comm _ _

/-- closed form of the world after the `unlinkEach` loop -/
theorem S.foldl_unlinkPair (a b : VId) (J : List LId) : ∀ (w : World), Sym w →
    Sym (J.foldl (S.unlinkPair a b) w) ∧ AssocFrame w (J.foldl (S.unlinkPair a b) w) ∧
    (∀ x, (J.foldl (S.unlinkPair a b) w).links x =
      if x = a ∨ x = b then (w.links x).filter (fun l => !(J.contains l)) else w.links x) ∧
    (∀ y, (J.foldl (S.unlinkPair a b) w).ends y =
      if y ∈ J then (w.ends y).filter (fun e => e != some a && e != some b) else w.ends y) := by
  induction J with
  | nil =>
    intro w h
    refine ⟨h, AssocFrame.refl w, ?_, ?_⟩
    · intro x
      have : (w.links x).filter (fun _ => true) = w.links x := List.filter_eq_self.mpr (by simp)
      simp [this]
    · intro y; simp
  | cons l J ih =>
    intro w h
    obtain ⟨i1, i2, i3, i4⟩ := ih (S.unlinkPair a b w l) (S.unlinkPair_sym a b w l h)
    simp only [List.foldl_cons]
    refine ⟨i1, (S.unlinkPair_frame a b w l).trans i2, ?_, ?_⟩
    · intro x
      rw [i3 x, S.unlinkPair_links a b w l x h]
      by_cases hx : x = a ∨ x = b
      · simp only [hx, ↓reduceIte]
        exact filter_erase_nodup _ _ _ (h.2 x)
      · simp only [hx, ↓reduceIte]
    · intro y
      rw [i4 y, S.unlinkPair_ends a b w l y]
      by_cases hy : y = l
      · subst hy
        simp only [↓reduceIte, List.mem_cons, true_or, List.filter_filter, Bool.and_self]
        split <;> rfl
      · simp only [hy, ↓reduceIte, List.mem_cons, false_or]

/-! ### `other` and the loop body of `find_links` -/

namespace M

theorem other_pair (w : World) (l : LId) (e : VId) (x y : Option VId)
    (he : w.ends l = [x, y]) (hk : (w.lcls l).kind ≠ .nary) :
    other w l e = .ok (if x = some e then y else if y = some e then x else none) := by
  simp only [other, he, hk, ↓reduceIte]
  by_cases h1 : x = some e
  · simp only [h1, ↓reduceIte]
  · simp only [h1, ↓reduceIte]
    by_cases h2 : y = some e <;> simp only [h2, ↓reduceIte]

theorem flOne_absent_of_other (w : World) (F : Nat → LId → Option VId → Bool) (a b : VId)
    (ds : Bool) (unk : Nat) (filt : Option Nat) (l : LId) (o : Option VId)
    (h : other w l a = .ok o) (hne : o ≠ some b) : flOne w F a b ds unk filt l = .absent := by
  simp only [flOne, h, ne_eq, hne, not_false_eq_true, ↓reduceIte]

theorem flOne_unlink_found (w : World) (F : Nat → LId → Option VId → Bool) (a b : VId)
    (l : LId) (h : other w l a = .ok (some b)) : flOne w F a b false 2 none l = .found := by
  simp [flOne, h]

theorem flOne_congr (w w' : World) (F : Nat → LId → Option VId → Bool) (a b : VId)
    (ds : Bool) (unk : Nat) (filt : Option Nat) (l : LId)
    (h1 : w'.lcls l = w.lcls l) (h2 : w'.ends l = w.ends l) :
    flOne w' F a b ds unk filt l = flOne w F a b ds unk filt l := by
  simp only [flOne, other, h1, h2]

/-- the `find_links` loop reads only `lcls` and `ends` of the links it visits -/
theorem flLoop_congr (w w' : World) (F : Nat → LId → Option VId → Bool) (a b : VId)
    (ds : Bool) (unk : Nat) (filt fault : Option Nat) (ls : List LId)
    (h : ∀ l ∈ ls, w'.lcls l = w.lcls l ∧ w'.ends l = w.ends l) :
    ∀ acc cnt, flLoop w' F a b ds unk filt fault ls acc cnt =
      flLoop w F a b ds unk filt fault ls acc cnt := by
  induction ls with
  | nil => intro acc cnt; rfl
  | cons l ls ih =>
    intro acc cnt
    have hl := h l (by simp)
    have ih' := ih (fun l' hl' => h l' (by simp [hl']))
    simp only [flLoop, other, hl.1, hl.2, ih']

/-- links whose own outcome is `absent` can be dropped from the list -/
theorem flLoop_filter_absent (w : World) (F : Nat → LId → Option VId → Bool) (a b : VId)
    (ds : Bool) (unk : Nat) (filt : Option Nat) (p : LId → Bool) (ls : List LId)
    (h : ∀ l ∈ ls, p l = false → flOne w F a b ds unk filt l = .absent) :
    ∀ acc, flLoop w F a b ds unk filt none (ls.filter p) acc 0 =
      flLoop w F a b ds unk filt none ls acc 0 := by
  induction ls with
  | nil => intro acc; rfl
  | cons l ls ih =>
    intro acc
    have ih' := ih (fun l' hl' => h l' (by simp [hl']))
    cases hp : p l with
    | false =>
      rw [List.filter_cons_of_neg (by simp [hp]), flLoop_cons w F a b ds unk filt l ls,
        h l (by simp) hp]
      exact ih' acc
    | true =>
      rw [List.filter_cons_of_pos hp, flLoop_cons, flLoop_cons]
      cases flOne w F a b ds unk filt l with
      | raise e => rfl
      | absent => exact ih' _
      | found => exact ih' _

theorem flLoop_all_absent (w : World) (F : Nat → LId → Option VId → Bool) (a b : VId)
    (ds : Bool) (unk : Nat) (filt : Option Nat) (ls : List LId)
    (h : ∀ l ∈ ls, flOne w F a b ds unk filt l = .absent) :
    ∀ acc cnt, flLoop w F a b ds unk filt none ls acc cnt = .ok acc := by
  induction ls with
  | nil => intro acc cnt; rfl
  | cons l ls ih =>
    intro acc cnt
    rw [flLoop_cons, h l (by simp)]
    exact ih (fun l' hl' => h l' (by simp [hl'])) acc 0

/-- for a proper two-ended link attached to `a`: `other` returns, and returns `b` exactly when
    the link joins `a` and `b` -/
theorem other_joins (w : World) (a b : VId) (l : LId) (hs : Sym w) (hl : l ∈ w.links a)
    (hk : (w.lcls l).kind ≠ .nary) (hlen : (w.ends l).length = 2) :
    ∃ o, other w l a = .ok o ∧
      (o = some b ↔ (w.ends l = [some a, some b] ∨ w.ends l = [some b, some a])) := by
  obtain ⟨x, y, he⟩ := ends_pair _ hlen
  refine ⟨_, other_pair w l a x y he hk, ?_⟩
  have hm := (hs.1 a l).mp hl
  rw [he] at hm ⊢
  simp only [List.mem_cons, List.not_mem_nil, or_false] at hm
  simp only [List.cons.injEq, and_true]
  grind

/-- a link joining `a` and `b` is skipped by `find_links(c, d)` for every other pair -/
theorem other_of_joins_ne (w : World) (a b c d : VId) (l : LId)
    (hj : w.ends l = [some a, some b] ∨ w.ends l = [some b, some a])
    (hk : (w.lcls l).kind ≠ .nary) (hc : some c ∈ w.ends l)
    (hne : ¬ ((c = a ∧ d = b) ∨ (c = b ∧ d = a))) :
    ∃ o, other w l c = .ok o ∧ o ≠ some d := by
  rcases hj with he | he
  · refine ⟨_, other_pair w l c _ _ he hk, ?_⟩
    rw [he] at hc
    simp only [List.mem_cons, List.not_mem_nil, or_false, Option.some.injEq] at hc
    grind
  · refine ⟨_, other_pair w l c _ _ he hk, ?_⟩
    rw [he] at hc
    simp only [List.mem_cons, List.not_mem_nil, or_false, Option.some.injEq] at hc
    grind

/-- what `find_links(a, b, direction_sensitive=False)` returns when every link of `a` is a
    proper two-ended link -/
theorem findLinks_unlink (w : World) (F : Nat → LId → Option VId → Bool) (a b : VId)
    (hs : Sym w)
    (ht : ∀ l ∈ w.links a, (w.lcls l).kind ≠ .nary ∧ (w.ends l).length = 2) :
    ∃ J, findLinks w F a b false 2 none = .ok J ∧ J.Nodup ∧
      ∀ l, l ∈ J ↔ l ∈ w.links a ∧
        (w.ends l = [some a, some b] ∨ w.ends l = [some b, some a]) := by
  have key : ∀ l ∈ w.links a,
      (flOne w F a b false 2 none l = .found ∧
        (w.ends l = [some a, some b] ∨ w.ends l = [some b, some a])) ∨
      (flOne w F a b false 2 none l = .absent ∧
        ¬ (w.ends l = [some a, some b] ∨ w.ends l = [some b, some a])) := by
    intro l hl
    obtain ⟨o, ho, hj⟩ := other_joins w a b l hs hl (ht l hl).1 (ht l hl).2
    by_cases hob : o = some b
    · subst hob
      exact Or.inl ⟨flOne_unlink_found w F a b l ho, hj.mp rfl⟩
    · exact Or.inr ⟨flOne_absent_of_other w F a b false 2 none l o ho hob, fun hh => hob (hj.mpr hh)⟩
  cases hfl : findLinks w F a b false 2 none with
  | error e =>
    exfalso
    obtain ⟨l, hl, e', he'⟩ := (flLoop_raises w F a b false 2 none (w.links a) [] 0).mp ⟨e, hfl⟩
    rcases key l hl with h | h <;> rw [h.1] at he' <;> cases he'
  | ok J =>
    obtain ⟨hn, hm⟩ := flLoop_exact w F a b false 2 none (w.links a) [] 0 J hfl List.nodup_nil
    refine ⟨J, rfl, hn, fun l => ?_⟩
    rw [hm l]
    simp only [List.not_mem_nil, false_or]
    constructor
    · rintro ⟨hl, hf⟩
      rcases key l hl with h | h
      · exact ⟨hl, h.2⟩
      · rw [h.1] at hf; cases hf
    · rintro ⟨hl, hj⟩
      rcases key l hl with h | h
      · exact ⟨hl, h.1⟩
      · exact absurd hj h.2

end M

/-! ### the step -/

theorem step_unlink_eq (F : Nat → LId → Option VId → Bool) (w : World) (a b : VId) (d : Bool)
    (h : Inv w) (ha : w.vOK a = true) (hb : w.vOK b = true) (J : List LId)
    (hJ : M.findLinks w F a b false 2 none = .ok J) :
    M.step F w (.unlink a b d) =
      (J.foldl (S.unlinkPair a b) w, if d then .nothing else .links J) := by
  rw [step_agree F w _ h]
  simp only [S.step, C.step, ha, hb, Bool.not_true, Bool.or_self, Bool.false_eq_true, ↓reduceIte,
    C.unlink, hJ, S.unlinkEach_eq]

/-- everything the C03 / C09 clauses about `explicit.unlink` need, in one statement -/
theorem unlink_core (F : Nat → LId → Option VId → Bool) (w : World) (a b : VId)
    (h : Inv w)
    (ht : ∀ x, ∀ l ∈ w.links x, (w.lcls l).kind ≠ .nary ∧ (w.ends l).length = 2)
    (ha : w.vOK a = true) (hb : w.vOK b = true) :
    ∃ w' J, (∀ d, M.step F w (.unlink a b d) = (w', if d then .nothing else .links J)) ∧
      J.Nodup ∧
      (∀ l, l ∈ J ↔ l ∈ w.links a ∧
        (w.ends l = [some a, some b] ∨ w.ends l = [some b, some a])) ∧
      (∀ l ∈ J, w'.ends l = []) ∧
      (∀ v, w'.links v = (w.links v).filter (fun l => !(J.contains l))) ∧
      (∀ l, l ∉ J → w'.ends l = w.ends l) ∧
      AssocFrame w w' ∧ Inv w' := by
  obtain ⟨J, hJ, hn, hm⟩ := M.findLinks_unlink w F a b h.1 (ht a)
  obtain ⟨f1, f2, f3, f4⟩ := S.foldl_unlinkPair a b J w h.1
  have hstep := fun d => step_unlink_eq F w a b d h ha hb J hJ
  refine ⟨_, J, hstep, hn, hm, ?_, ?_, ?_, f2, ?_⟩
  · intro l hl
    rw [f4 l]
    simp only [hl, ↓reduceIte]
    rcases ((hm l).mp hl).2 with he | he <;> rw [he] <;> simp
  · intro v
    rw [f3 v]
    split
    · rfl
    · rename_i hv
      symm
      rw [List.filter_eq_self]
      intro l hl
      simp only [Bool.not_eq_eq_eq_not, Bool.not_true, List.contains_eq_mem, decide_eq_false_iff_not]
      intro hlJ
      have hm' := (h.1.1 v l).mp hl
      rcases ((hm l).mp hlJ).2 with he | he <;> rw [he] at hm' <;> simp at hm' <;> grind
  · intro l hl
    rw [f4 l]
    simp only [hl, ↓reduceIte]
  · have := step_inv F w (.unlink a b true) h
    rw [← step_agree F w _ h, hstep true] at this
    exact this

end EG
