import EG.Copy
import EG.Proofs.CacheLemmas
/-
  Helper lemmas for EG/Props/C05Copy.lean: `neighbors` on an isomorphic copy of a world.
-/
namespace EG

variable (r : Renaming)

theorem Renaming.Bij.inj {r : Renaming} (hb : r.Bij) {a b : VId} (h : r.ρ a = r.ρ b) : a = b := by
  have := congrArg r.ρ' h
  rwa [hb.vl, hb.vl] at this

theorem optmap_eq_some {r : Renaming} (hb : r.Bij) (a : Option VId) (v : VId) :
    (a.map r.ρ = some (r.ρ v)) ↔ (a = some v) := by
  cases a with
  | none => simp
  | some x =>
    simp only [Option.map_some, Option.some.injEq]
    exact ⟨fun h => hb.inj h, fun h => by rw [h]⟩

theorem getD_map_ends (es : List (Option VId)) (i : Nat) :
    (es.map (Option.map r.ρ)).getD i none = (es.getD i none).map r.ρ := by
  simp only [List.getD_eq_getElem?_getD, List.getElem?_map]
  cases es[i]? <;> rfl

theorem copy_lcls (hb : r.Bij) (w : World) (flag : Bool) (l : LId) :
    (w.copy r flag).lcls (r.σ l) = w.lcls l := by
  simp only [World.copy, hb.ll]

theorem copy_ends (hb : r.Bij) (w : World) (flag : Bool) (l : LId) :
    (w.copy r flag).ends (r.σ l) = (w.ends l).map (Option.map r.ρ) := by
  simp only [World.copy, hb.ll]

theorem copy_links (hb : r.Bij) (w : World) (flag : Bool) (v : VId) :
    (w.copy r flag).links (r.ρ v) = (w.links v).map r.σ := by
  simp only [World.copy, hb.vl]

theorem copy_cache (hb : r.Bij) (w : World) (flag : Bool) (v : VId) :
    (w.copy r flag).cache (r.ρ v) = (w.cache v).map (fun e => (e.1, r.ans e.2)) := by
  simp only [World.copy, hb.vl]

theorem other_copy (hb : r.Bij) (w : World) (flag : Bool) (l : LId) (v : VId) :
    M.other (w.copy r flag) (r.σ l) (r.ρ v) = (M.other w l v).map (Option.map r.ρ) := by
  simp only [M.other, copy_lcls r hb, copy_ends r hb]
  by_cases hk : (w.lcls l).kind = .nary
  · simp only [hk, if_true]; rfl
  · simp only [hk, if_false]
    cases he : w.ends l with
    | nil => rfl
    | cons a t =>
      cases t with
      | nil => rfl
      | cons b t' =>
        simp only [List.map_cons, optmap_eq_some hb]
        by_cases h1 : a = some v
        · simp only [h1, if_true]; rfl
        · simp only [h1, if_false]
          by_cases h2 : b = some v
          · simp only [h2, if_true]; rfl
          · simp only [h2, if_false]; rfl

theorem pre_copy (hb : r.Bij) (k : Kind) (a b : Option VId) (v : VId) (dir unk : Nat) :
    M.pre k (a.map r.ρ) (b.map r.ρ) (r.ρ v) dir unk = M.pre k a b v dir unk := by
  simp only [M.pre, optmap_eq_some hb]

theorem copyF_apply (hb : r.Bij) (F : Nat → LId → Option VId → Bool) (k : Nat) (l : LId) (x : Option VId) :
    copyF r F k (r.σ l) (x.map r.ρ) = F k l x := by
  simp only [copyF, hb.ll]
  cases x with
  | none => rfl
  | some y => simp only [Option.map_some, hb.vl]

theorem ans_append (a : List (Option VId)) (x : Option VId) :
    r.ans (a ++ [x]) = r.ans a ++ [x.map r.ρ] := by
  simp [Renaming.ans]

/-- the `for link in vert.links` loop on the copy answers the renamed answer, raises where the
    original raises, and consults the filter the same number of times (same fault index) -/
theorem nbLoop_copy (hb : r.Bij) (w : World) (flag : Bool) (F : Nat → LId → Option VId → Bool)
    (v : VId) (dir unk : Nat) (filt fault : Option Nat) (ls : List LId) :
    ∀ acc cnt, M.nbLoop (w.copy r flag) (copyF r F) (r.ρ v) dir unk filt fault (ls.map r.σ) (r.ans acc) cnt
      = (M.nbLoop w F v dir unk filt fault ls acc cnt).map r.ans := by
  induction ls with
  | nil => intro acc cnt; rfl
  | cons l ls ih =>
    intro acc cnt
    simp only [List.map_cons, M.nbLoop, other_copy r hb, copy_lcls r hb, copy_ends r hb,
      getD_map_ends, pre_copy r hb]
    cases ho : M.other w l v with
    | error e => rfl
    | ok v2 =>
      simp only [Except.map]
      cases hp : M.pre (w.lcls l).kind ((w.ends l).getD 0 none) ((w.ends l).getD 1 none) v dir unk with
      | skip => exact ih acc cnt
      | raise e => rfl
      | filt =>
        simp only []
        cases filt with
        | none =>
          simp only []
          rw [← ans_append]; exact ih _ cnt
        | some k =>
          simp only [copyF_apply r hb]
          by_cases hf : fault = some (cnt + 1)
          · simp only [hf, if_true]
          · simp only [hf, if_false]
            cases F k l v2 with
            | true => simp only [if_true]; rw [← ans_append]; exact ih _ _
            | false => simp only [Bool.false_eq_true, if_false]; exact ih _ _

theorem neighborsPure_copy (hb : r.Bij) (w : World) (flag : Bool) (F : Nat → LId → Option VId → Bool)
    (v : VId) (dir unk : Nat) (filt : Option Nat) :
    M.neighborsPure (w.copy r flag) (copyF r F) (r.ρ v) dir unk filt
      = (M.neighborsPure w F v dir unk filt).map r.ans := by
  simp only [M.neighborsPure, copy_links r hb]
  exact nbLoop_copy r hb w flag F v dir unk filt none (w.links v) [] 0

theorem cacheLookup_copy (key : Key) (c : List (Key × List (Option VId))) :
    M.cacheLookup key (c.map (fun e => (e.1, r.ans e.2))) = (M.cacheLookup key c).map r.ans := by
  induction c with
  | nil => rfl
  | cons e c ih =>
    simp only [List.map_cons, M.cacheLookup]
    by_cases h : e.1 = key
    · simp only [h, if_true, Option.map_some]
    · simp only [h, if_false]; exact ih

end EG
