import EG.Pickle
/-
  EG.Proofs.PickleLemmas — helper lemmas for C10 (the queue machine refines the recursive pickler).
-/
set_option linter.unusedSimpArgs false
set_option linter.unusedVariables false
namespace EG
namespace Pk

/-! ### exactly-n-iterations (a copy of `steps` of C10.lean, shown equal there) -/

def stepsL (H : Heap) : Nat → Conf → Option Conf
  | 0, c => some c
  | n+1, c => match nrStep H c with
    | none => none
    | some c' => stepsL H n c'

theorem stepsL_trans {H : Heap} {n m : Nat} {c c' c'' : Conf}
    (h1 : stepsL H n c = some c') (h2 : stepsL H m c' = some c'') :
    stepsL H (n + m) c = some c'' := by
  induction n generalizing c with
  | zero =>
    simp only [stepsL, Option.some.injEq] at h1
    subst h1
    simpa using h2
  | succ n ih =>
    have e : n + 1 + m = (n + m) + 1 := by omega
    rw [e]
    simp only [stepsL] at h1 ⊢
    cases hs : nrStep H c with
    | none => simp [hs] at h1
    | some c1 =>
      simp only [hs] at h1 ⊢
      exact ih h1

theorem stepsL_one {H : Heap} {c c' : Conf} (h : nrStep H c = some c') : stepsL H 1 c = some c' := by
  simp [stepsL, h]

/-- a run of exactly `n` iterations that empties the queue is a complete `nrRun` for any fuel ≥ n -/
theorem nrRun_of_stepsL {H : Heap} {n : Nat} {c c' : Conf} (k : Nat)
    (h : stepsL H n c = some c') (hq : c'.queue = []) : nrRun H (n + k) c = some c' := by
  induction n generalizing c with
  | zero =>
    simp only [stepsL, Option.some.injEq] at h
    subst h
    cases k with
    | zero => simp [nrRun, hq]
    | succ k =>
      have : nrStep H c = none := by simp [nrStep, hq]
      simp [nrRun, this]
  | succ n ih =>
    have e : n + 1 + k = (n + k) + 1 := by omega
    rw [e]
    simp only [stepsL] at h
    simp only [nrRun]
    cases hs : nrStep H c with
    | none => simp [hs] at h
    | some c1 =>
      simp only [hs] at h ⊢
      exact ih h

/-! ### segments over which `normalize` distributes -/

def Closed (a : List POp) : Prop := ∀ b, normalize (a ++ b) = normalize a ++ normalize b

theorem Closed.nil : Closed [] := fun b => by simp [normalize]

theorem Closed.append {a b : List POp} (ha : Closed a) (hb : Closed b) : Closed (a ++ b) := by
  intro c
  rw [List.append_assoc, ha, hb, ha, List.append_assoc]

theorem Closed.get (i : Nat) : Closed [.get i] := fun b => by simp [normalize]
theorem Closed.atom (a : Nat) : Closed [.atom a] := fun b => by simp [normalize]
theorem Closed.opn (k : Nat) : Closed [.opn k] := fun b => by simp [normalize]
theorem Closed.build2 (k : Nat) : Closed [.build2 k] := fun b => by simp [normalize]
theorem Closed.discard_get (k n i : Nat) : Closed [.discard k n, .get i] := fun b => by
  simp [normalize]
theorem Closed.build1_memo (k n : Nat) : Closed [.build1 k n, .memo] := fun b => by
  simp [normalize]
theorem Closed.build1_pop_get (k n i : Nat) : Closed [.build1 k n, .pop, .get i] := fun b => by
  simp [normalize]

theorem normalize_build1_pop_get (k n i : Nat) :
    normalize [.build1 k n, .pop, .get i] = normalize [.discard k n, .get i] := by
  simp [normalize]

/-! ### memo index -/

theorem memoIdx_none_of_not_mem {memo : List Nat} {o : Nat} (h : o ∉ memo) : memoIdx memo o = none := by
  have : ¬ (memo.idxOf o < memo.length) := by
    rw [List.idxOf_lt_length_iff]; exact h
  simp [memoIdx, this]

/-! ### simulation of a queue prefix -/

/-- processing the queue prefix `pre` from memo `memo` ends with memo `m`, emitting (up to
    `normalize`) the stream `s`, whatever follows in the queue and whatever was emitted before -/
def Sim (H : Heap) (pre : List Item) (memo m : List Nat) (s : List POp) : Prop :=
  ∀ (q : List Item) (out : List POp), ∃ n s',
    stepsL H n ⟨pre ++ q, memo, out⟩ = some ⟨q, m, out ++ s'⟩ ∧
    normalize s' = normalize s ∧ Closed s' ∧ Closed s

theorem Sim.nil {H : Heap} {memo : List Nat} : Sim H [] memo memo [] :=
  fun q out => ⟨0, [], by simp [stepsL], rfl, Closed.nil, Closed.nil⟩

theorem Sim.append {H : Heap} {p1 p2 : List Item} {memo m1 m2 : List Nat} {s1 s2 : List POp}
    (h1 : Sim H p1 memo m1 s1) (h2 : Sim H p2 m1 m2 s2) :
    Sim H (p1 ++ p2) memo m2 (s1 ++ s2) := by
  intro q out
  obtain ⟨n1, t1, hs1, hn1, hc1, hc1'⟩ := h1 (p2 ++ q) out
  obtain ⟨n2, t2, hs2, hn2, hc2, hc2'⟩ := h2 q (out ++ t1)
  refine ⟨n1 + n2, t1 ++ t2, ?_, ?_, hc1.append hc2, hc1'.append hc2'⟩
  · rw [List.append_assoc p1 p2 q, ← List.append_assoc out t1 t2]
    exact stepsL_trans hs1 hs2
  · rw [hc1 t2, hc1' s2, hn1, hn2]

theorem Sim.write {H : Heap} {memo : List Nat} (op : POp) (hc : Closed [op]) :
    Sim H [.write op] memo memo [op] := by
  intro q out
  exact ⟨1, [op], by simp [stepsL, nrStep], rfl, hc, hc⟩

theorem Sim.hit {H : Heap} {memo : List Nat} {o i : Nat} (hm : memoIdx memo o = some i) :
    Sim H [.save o] memo memo [.get i] := by
  intro q out
  exact ⟨1, [.get i], by simp [stepsL, nrStep, hm], rfl, Closed.get i, Closed.get i⟩

theorem Sim.atom {H : Heap} {memo : List Nat} {o a : Nat} (hm : memoIdx memo o = none)
    (hH : H o = .atom a) : Sim H [.save o] memo memo [.atom a] := by
  intro q out
  exact ⟨1, [.atom a], by simp [stepsL, nrStep, hm, hH], rfl, Closed.atom a, Closed.atom a⟩

theorem Sim.build_memo {H : Heap} {m1 : List Nat} {o : Nat} (k n : Nat)
    (hm : memoIdx m1 o = none) :
    Sim H [.write (.build1 k n), .memoI o] m1 (m1 ++ [o]) [.build1 k n, .memo] := by
  intro q out
  exact ⟨2, [.build1 k n, .memo], by simp [stepsL, nrStep, hm], rfl,
    Closed.build1_memo k n, Closed.build1_memo k n⟩

theorem Sim.build_popget {H : Heap} {m1 : List Nat} {o i : Nat} (k n : Nat)
    (hm : memoIdx m1 o = some i) :
    Sim H [.write (.build1 k n), .memoI o] m1 m1 [.build1 k n, .pop, .get i] := by
  intro q out
  exact ⟨2, [.build1 k n, .pop, .get i], by simp [stepsL, nrStep, hm], rfl,
    Closed.build1_pop_get k n i, Closed.build1_pop_get k n i⟩

theorem Sim.build_discard {H : Heap} {m1 : List Nat} {o i : Nat} (k n : Nat)
    (hm : memoIdx m1 o = some i) :
    Sim H [.write (.build1 k n), .memoI o] m1 m1 [.discard k n, .get i] := by
  intro q out
  exact ⟨2, [.build1 k n, .pop, .get i], by simp [stepsL, nrStep, hm],
    normalize_build1_pop_get k n i, Closed.build1_pop_get k n i, Closed.discard_get k n i⟩

/-- the one-level expansion of a node: nothing is emitted, the queue prefix is replaced -/
theorem Sim.expand {H : Heap} {memo m : List Nat} {o : Nat} {tup : Bool} {k : Nat}
    {bs as : List Nat} {s : List POp}
    (hm : memoIdx memo o = none) (hH : H o = .node tup k bs as)
    (h : Sim H ([Item.write (.opn k)] ++ bs.map Item.save ++
          [Item.write (.build1 k bs.length), Item.memoI o] ++
          (if tup then [] else as.map Item.save ++ [Item.write (.build2 k)])) memo m s) :
    Sim H [.save o] memo m s := by
  intro q out
  obtain ⟨n, s', hs, hn, hc, hc'⟩ := h q out
  refine ⟨1 + n, s', ?_, hn, hc, hc'⟩
  refine stepsL_trans (c' := ⟨_, memo, out⟩) (stepsL_one ?_) hs
  simp [nrStep, hm, hH]

/-- children lists -/
theorem sim_list {H : Heap} (r : Nat → List Nat → Option (List POp × List Nat))
    (hr : ∀ o memo s m, r o memo = some (s, m) → Sim H [.save o] memo m s) :
    ∀ os memo s m, recListWith r os memo = some (s, m) → Sim H (os.map Item.save) memo m s := by
  intro os
  induction os with
  | nil =>
    intro memo s m h
    simp only [recListWith, Option.some.injEq, Prod.mk.injEq] at h
    obtain ⟨rfl, rfl⟩ := h
    exact Sim.nil
  | cons o os ih =>
    intro memo s m h
    simp only [recListWith] at h
    cases hro : r o memo with
    | none => simp [hro] at h
    | some p =>
      obtain ⟨s1, m1⟩ := p
      simp only [hro] at h
      cases hrl : recListWith r os m1 with
      | none => simp [hrl] at h
      | some p2 =>
        obtain ⟨s2, m2⟩ := p2
        simp only [hrl, Option.some.injEq, Prod.mk.injEq] at h
        obtain ⟨rfl, rfl⟩ := h
        exact Sim.append (hr _ _ _ _ hro) (ih _ _ _ hrl)

/-- the main simulation: the recursive pickler's result is reproduced by the queue machine -/
theorem rec_sim (H : Heap) : ∀ f o memo s m, rec H f o memo = some (s, m) →
    Sim H [.save o] memo m s := by
  intro f
  induction f with
  | zero => intro o memo s m h; simp [rec] at h
  | succ f ih =>
    intro o memo s m h
    simp only [rec] at h
    cases hm : memoIdx memo o with
    | some i =>
      simp only [hm, Option.some.injEq, Prod.mk.injEq] at h
      obtain ⟨rfl, rfl⟩ := h
      exact Sim.hit hm
    | none =>
      simp only [hm] at h
      cases hH : H o with
      | atom a =>
        simp only [hH, Option.some.injEq, Prod.mk.injEq] at h
        obtain ⟨rfl, rfl⟩ := h
        exact Sim.atom hm hH
      | node tup k bs as =>
        simp only [hH] at h
        cases hb : recListWith (rec H f) bs memo with
        | none => simp [hb] at h
        | some p =>
          obtain ⟨s1, m1⟩ := p
          simp only [hb] at h
          have sb : Sim H (bs.map Item.save) memo m1 s1 := sim_list _ ih _ _ _ _ hb
          have so : Sim H [Item.write (.opn k)] memo memo [.opn k] := Sim.write _ (Closed.opn k)
          have sc : ∀ mm, Sim H [Item.write (.build2 k)] mm mm [.build2 k] :=
            fun mm => Sim.write _ (Closed.build2 k)
          apply Sim.expand hm hH
          cases hm1 : memoIdx m1 o with
          | some i =>
            simp only [hm1] at h
            cases tup with
            | true =>
              simp only [if_true, Option.some.injEq, Prod.mk.injEq] at h
              obtain ⟨rfl, rfl⟩ := h
              simpa using (so.append sb).append (Sim.build_discard k bs.length hm1)
            | false =>
              simp only [Bool.false_eq_true, if_false] at h
              cases ha : recListWith (rec H f) as m1 with
              | none => simp [ha] at h
              | some p2 =>
                obtain ⟨s2, m2⟩ := p2
                simp only [ha, Option.some.injEq, Prod.mk.injEq] at h
                obtain ⟨rfl, rfl⟩ := h
                have sa : Sim H (as.map Item.save) m1 m2 s2 := sim_list _ ih _ _ _ _ ha
                simpa using ((((so.append sb).append (Sim.build_popget k bs.length hm1)).append sa).append (sc _))
          | none =>
            simp only [hm1] at h
            cases tup with
            | true =>
              simp only [if_true, Option.some.injEq, Prod.mk.injEq] at h
              obtain ⟨rfl, rfl⟩ := h
              simpa using (so.append sb).append (Sim.build_memo k bs.length hm1)
            | false =>
              simp only [Bool.false_eq_true, if_false] at h
              cases ha : recListWith (rec H f) as (m1 ++ [o]) with
              | none => simp [ha] at h
              | some p2 =>
                obtain ⟨s2, m2⟩ := p2
                simp only [ha, Option.some.injEq, Prod.mk.injEq] at h
                obtain ⟨rfl, rfl⟩ := h
                have sa : Sim H (as.map Item.save) (m1 ++ [o]) m2 s2 := sim_list _ ih _ _ _ _ ha
                simpa using ((((so.append sb).append (Sim.build_memo k bs.length hm1)).append sa).append (sc _))

/-! ### the chain heap (kept generic in the heap: `C10.chain` is defined in C10.lean) -/

theorem rec_chain_none (H : Heap) (n : Nat)
    (hH : ∀ o, o < n → H o = .node false 0 [] [o + 1]) :
    ∀ f o memo, o + f ≤ n → (∀ x ∈ memo, x < o) → rec H f o memo = none := by
  intro f
  induction f with
  | zero => intro o memo _ _; simp [rec]
  | succ f ih =>
    intro o memo hle hmem
    have hm : memoIdx memo o = none :=
      memoIdx_none_of_not_mem (fun hin => Nat.lt_irrefl _ (hmem o hin))
    have hrec : rec H f (o + 1) (memo ++ [o]) = none := by
      apply ih
      · omega
      · intro x hx
        rcases List.mem_append.mp hx with hx | hx
        · have := hmem x hx; omega
        · simp at hx; omega
    simp [rec, hm, hH o (by omega), recListWith, hrec]

theorem rec_chain_some (H : Heap) (n : Nat)
    (hH : ∀ o, o < n → H o = .node false 0 [] [o + 1]) (hA : ∀ o, n ≤ o → H o = .atom 0) :
    ∀ d o memo, o + d = n → (∀ x ∈ memo, x < o) → ∃ r, rec H (d + 1) o memo = some r := by
  intro d
  induction d with
  | zero =>
    intro o memo hle hmem
    have hm : memoIdx memo o = none :=
      memoIdx_none_of_not_mem (fun hin => Nat.lt_irrefl _ (hmem o hin))
    exact ⟨([.atom 0], memo), by simp [rec, hm, hA o (by omega)]⟩
  | succ d ih =>
    intro o memo hle hmem
    have hm : memoIdx memo o = none :=
      memoIdx_none_of_not_mem (fun hin => Nat.lt_irrefl _ (hmem o hin))
    obtain ⟨⟨s2, m2⟩, hrec⟩ : ∃ r, rec H (d + 1) (o + 1) (memo ++ [o]) = some r := by
      apply ih
      · omega
      · intro x hx
        rcases List.mem_append.mp hx with hx | hx
        · have := hmem x hx; omega
        · simp at hx; omega
    refine ⟨([.opn 0] ++ [] ++ [.build1 0 0, .memo] ++ s2 ++ [.build2 0], m2), ?_⟩
    rw [rec]
    simp [hm, hH o (by omega), recListWith, hrec]

end Pk
end EG
