import EG.TableSpec
import EG.Step
import EG.Proofs.Sym
/-
  EG.Proofs.QueryLemmas — helper lemmas about the loops of `neighbors` and `find_links`.
-/
set_option linter.unusedSimpArgs false
set_option linter.unusedVariables false
namespace EG
namespace M
open Tab

/-! ### `neighbors` : the loop body for one link, and the loop in terms of it -/

/-- what the body of the `neighbors` loop does with ONE link (no fault injection) -/
def nbOne (w : World) (F : Nat → LId → Option VId → Bool) (v : VId) (dir unk : Nat)
    (filt : Option Nat) (l : LId) : Out :=
  match other w l v with
  | .error e => .raise e
  | .ok v2 =>
    match pre (w.lcls l).kind ((w.ends l).getD 0 none) ((w.ends l).getD 1 none) v dir unk with
    | .skip => .skip
    | .raise e => .raise e
    | .filt =>
      match filt with
      | none => .emit v2
      | some k => if F k l v2 then .emit v2 else .skip

/-- the loop, one step, in terms of `nbOne` (fault = none) -/
theorem nbLoop_cons (w : World) (F : Nat → LId → Option VId → Bool) (v : VId) (dir unk : Nat)
    (filt : Option Nat) (l : LId) (ls : List LId) (acc : List (Option VId)) (cnt : Nat) :
    nbLoop w F v dir unk filt none (l :: ls) acc cnt =
      match nbOne w F v dir unk filt l with
      | .raise e => .error e
      | .skip => nbLoop w F v dir unk filt none ls acc (if filt.isSome ∧
            pre (w.lcls l).kind ((w.ends l).getD 0 none) ((w.ends l).getD 1 none) v dir unk = .filt
            then cnt + 1 else cnt)
      | .emit x => nbLoop w F v dir unk filt none ls (acc ++ [x]) (if filt.isSome then cnt + 1 else cnt) := by
  simp only [nbLoop, nbOne]
  cases other w l v with
  | error e => rfl
  | ok v2 =>
    simp only []
    cases hp : pre (w.lcls l).kind ((w.ends l).getD 0 none) ((w.ends l).getD 1 none) v dir unk with
    | skip => simp
    | raise e => simp
    | filt =>
      cases filt with
      | none => simp
      | some k =>
        simp only []
        by_cases hF : F k l v2 <;> simp [hF]

/-- the invocation counter is irrelevant without fault injection -/
theorem nbLoop_cnt (w : World) (F : Nat → LId → Option VId → Bool) (v : VId) (dir unk : Nat)
    (filt : Option Nat) (ls : List LId) (acc : List (Option VId)) (cnt cnt' : Nat) :
    nbLoop w F v dir unk filt none ls acc cnt = nbLoop w F v dir unk filt none ls acc cnt' := by
  induction ls generalizing acc cnt cnt' with
  | nil => rfl
  | cons l ls ih =>
    rw [nbLoop_cons, nbLoop_cons (cnt := cnt')]
    cases nbOne w F v dir unk filt l with
    | raise e => rfl
    | skip => exact ih _ _ _
    | emit x => exact ih _ _ _

/-- prepending to the accumulator commutes with the loop -/
theorem nbLoop_acc (w : World) (F : Nat → LId → Option VId → Bool) (v : VId) (dir unk : Nat)
    (filt : Option Nat) (ls : List LId) (acc : List (Option VId)) (cnt : Nat) :
    nbLoop w F v dir unk filt none ls acc cnt =
      match nbLoop w F v dir unk filt none ls [] 0 with
      | .error e => .error e
      | .ok r => .ok (acc ++ r) := by
  induction ls generalizing acc cnt with
  | nil => simp [nbLoop]
  | cons l ls ih =>
    rw [nbLoop_cons, nbLoop_cons (acc := [])]
    cases nbOne w F v dir unk filt l with
    | raise e => rfl
    | skip => simp only []; rw [ih, nbLoop_cnt (acc := []) (cnt := 0) (cnt' := (if filt.isSome = true ∧
            pre (w.lcls l).kind ((w.ends l).getD 0 none) ((w.ends l).getD 1 none) v dir unk = .filt
            then 0 + 1 else 0))]
    | emit x =>
      simp only []
      rw [ih, ih (acc := [] ++ [x])]
      cases nbLoop w F v dir unk filt none ls [] 0 with
      | error e => rfl
      | ok r => simp

/-- the one-link loop is `nbOne` -/
theorem ofResult_nbLoop_single (w : World) (F : Nat → LId → Option VId → Bool) (v : VId)
    (dir unk : Nat) (filt : Option Nat) (l : LId) :
    ofResult (nbLoop w F v dir unk filt none [l] [] 0) = nbOne w F v dir unk filt l := by
  rw [nbLoop_cons]
  cases nbOne w F v dir unk filt l <;> simp [nbLoop, ofResult]

/-- the loop from the empty accumulator, one step -/
theorem nbLoop_cons_nil (w : World) (F : Nat → LId → Option VId → Bool) (v : VId) (dir unk : Nat)
    (filt : Option Nat) (l : LId) (ls : List LId) :
    nbLoop w F v dir unk filt none (l :: ls) [] 0 =
      match nbOne w F v dir unk filt l with
      | .raise e => .error e
      | .skip => nbLoop w F v dir unk filt none ls [] 0
      | .emit x =>
        match nbLoop w F v dir unk filt none ls [] 0 with
        | .error e => .error e
        | .ok r => .ok (x :: r) := by
  rw [nbLoop_cons]
  cases nbOne w F v dir unk filt l with
  | raise e => rfl
  | skip => exact nbLoop_cnt ..
  | emit x =>
    simp only []
    rw [nbLoop_acc]
    cases nbLoop w F v dir unk filt none ls [] 0 <;> simp

/-! ### a filter only restricts -/

theorem nbOne_some (w : World) (F : Nat → LId → Option VId → Bool) (v : VId) (dir unk : Nat)
    (k : Nat) (l : LId) :
    nbOne w F v dir unk (some k) l =
      match nbOne w F v dir unk none l with
      | .raise e => .raise e
      | .skip => .skip
      | .emit x => if F k l x then .emit x else .skip := by
  simp only [nbOne]
  cases other w l v with
  | error e => rfl
  | ok v2 =>
    simp only []
    cases pre (w.lcls l).kind ((w.ends l).getD 0 none) ((w.ends l).getD 1 none) v dir unk <;> rfl

theorem nbLoop_filter_restricts (w : World) (F : Nat → LId → Option VId → Bool) (v : VId)
    (dir unk : Nat) (k : Nat) (ls : List LId) :
    (∀ e, nbLoop w F v dir unk (some k) none ls [] 0 = .error e ↔
        nbLoop w F v dir unk none none ls [] 0 = .error e) ∧
    (∀ r r0, nbLoop w F v dir unk (some k) none ls [] 0 = .ok r →
        nbLoop w F v dir unk none none ls [] 0 = .ok r0 → r.Sublist r0) := by
  induction ls with
  | nil =>
    simp only [nbLoop]
    refine ⟨by simp, ?_⟩
    intro r r0 h1 h2
    cases h1; cases h2; exact List.Sublist.refl _
  | cons l ls ih =>
    obtain ⟨ih1, ih2⟩ := ih
    rw [nbLoop_cons_nil, nbLoop_cons_nil, nbOne_some]
    cases nbOne w F v dir unk none l with
    | raise e => simp
    | skip => exact ⟨ih1, ih2⟩
    | emit x =>
      simp only []
      cases h0 : nbLoop w F v dir unk none none ls [] 0 with
      | error e0 =>
        have h1 := (ih1 e0).mpr h0
        by_cases hF : F k l x <;> simp [hF, h1]
      | ok r0 =>
        cases h1 : nbLoop w F v dir unk (some k) none ls [] 0 with
        | error e1 =>
          have := (ih1 e1).mp h1
          rw [h0] at this; cases this
        | ok r =>
          have hs := ih2 r r0 h1 h0
          by_cases hF : F k l x
          · simp only [hF, ↓reduceIte]
            refine ⟨by simp, ?_⟩
            intro r' r0' e1 e2
            cases e1; cases e2; exact List.Sublist.cons_cons _ hs
          · simp only [hF, Bool.false_eq_true, ↓reduceIte]
            refine ⟨by simp, ?_⟩
            intro r' r0' e1 e2
            cases e1; cases e2; exact List.Sublist.cons _ hs

/-! ### counting -/

theorem nbLoop_count (w : World) (F : Nat → LId → Option VId → Bool) (v : VId) (dir unk : Nat)
    (filt : Option Nat) (t : Option VId) (ls : List LId) (r : List (Option VId))
    (h : nbLoop w F v dir unk filt none ls [] 0 = .ok r) :
    r.count t = (ls.filter (fun l => decide (nbOne w F v dir unk filt l = .emit t))).length := by
  induction ls generalizing r with
  | nil => simp only [nbLoop] at h; cases h; rfl
  | cons l ls ih =>
    rw [nbLoop_cons_nil] at h
    cases h1 : nbOne w F v dir unk filt l with
    | raise e => simp [h1] at h
    | skip =>
      simp only [h1] at h
      simp [List.filter_cons, h1, ih r h]
    | emit x =>
      simp only [h1] at h
      cases h2 : nbLoop w F v dir unk filt none ls [] 0 with
      | error e => simp [h2] at h
      | ok r' =>
        simp only [h2] at h
        cases h
        have := ih r' h2
        by_cases hx : x = t
        · subst hx; simp [List.filter_cons, h1, this]
        · simp [List.filter_cons, h1, this, hx, List.count_cons]

/-- FORWARD from `v` reaching `t` over `l` is BACKWARD from `t` reaching `v` over `l` -/
theorem nbOne_dual (w : World) (F : Nat → LId → Option VId → Bool) (v t : VId) (unk : Nat)
    (l : LId) (x y : Option VId) (he : w.ends l = [x, y]) (hk : (w.lcls l).kind ≠ .nary) :
    (nbOne w F v 0 unk none l = .emit (some t) ↔ nbOne w F t 2 unk none l = .emit (some v)) ∧
    (nbOne w F v 0 unk none l = .emit (some t) → some t ∈ w.ends l ∧ some v ∈ w.ends l) := by
  simp only [nbOne, other, he, hk, List.getD_cons_zero, List.getD_cons_succ, ↓reduceIte, pre]
  have hu : unk = 0 ∨ unk = 1 ∨ 1 < unk := by omega
  cases hkind : (w.lcls l).kind <;> simp only [hkind] at hk ⊢
  all_goals
    rcases hu with rfl | rfl | hu <;> simp <;> grind

theorem ends_pair (es : List (Option VId)) (h : es.length = 2) : ∃ x y, es = [x, y] := by
  match es, h with
  | [x, y], _ => exact ⟨x, y, rfl⟩

/-! ### `find_links` -/

/-- what the body of the `find_links` loop does with ONE link (no fault injection) -/
def flOne (w : World) (F : Nat → LId → Option VId → Bool) (a b : VId) (ds : Bool) (unk : Nat)
    (filt : Option Nat) (l : LId) : FOut :=
  match other w l a with
  | .error e => .raise e
  | .ok o =>
    if o ≠ some b then .absent else
    let k := (w.lcls l).kind
    let consult : Bool :=
      if ds then
        if k = .undirected then true
        else if k = .directed then decide ((w.ends l).getD 0 none = some a)
        else decide (unk = 1)
      else true
    let raises : Bool := ds && k != .undirected && k != .directed && unk != 0 && unk != 1
    if raises then .raise .notImpl
    else if !consult then .absent
    else
      match filt with
      | none => .found
      | some f => if F f l none then .found else .absent

theorem flLoop_cnt (w : World) (F : Nat → LId → Option VId → Bool) (a b : VId) (ds : Bool)
    (unk : Nat) (filt : Option Nat) (ls acc : List LId) (cnt cnt' : Nat) :
    flLoop w F a b ds unk filt none ls acc cnt = flLoop w F a b ds unk filt none ls acc cnt' := by
  induction ls generalizing acc cnt cnt' with
  | nil => rfl
  | cons l ls ih =>
    simp only [flLoop]
    cases other w l a with
    | error e => rfl
    | ok o =>
      simp only [reduceCtorEq, ↓reduceIte]
      repeat' split
      all_goals first | rfl | exact ih ..

theorem flLoop_cons (w : World) (F : Nat → LId → Option VId → Bool) (a b : VId) (ds : Bool)
    (unk : Nat) (filt : Option Nat) (l : LId) (ls acc : List LId) (cnt : Nat) :
    flLoop w F a b ds unk filt none (l :: ls) acc cnt =
      match flOne w F a b ds unk filt l with
      | .raise e => .error e
      | .absent => flLoop w F a b ds unk filt none ls acc 0
      | .found => flLoop w F a b ds unk filt none ls (if l ∈ acc then acc else acc ++ [l]) 0 := by
  simp only [flLoop, flOne]
  cases other w l a with
  | error e => rfl
  | ok o =>
    simp only [reduceCtorEq, ↓reduceIte]
    by_cases h1 : o = some b
    case neg => simp only [h1, ne_eq, not_false_eq_true, ↓reduceIte]; exact flLoop_cnt ..
    case pos =>
      simp only [h1, ne_eq, not_true_eq_false, ↓reduceIte]
      generalize (ds && (w.lcls l).kind != Kind.undirected && (w.lcls l).kind != Kind.directed &&
        unk != 0 && unk != 1) = rs
      generalize (if ds = true then
          if (w.lcls l).kind = Kind.undirected then true
          else if (w.lcls l).kind = Kind.directed then decide ((w.ends l).getD 0 none = some a)
          else decide (unk = 1)
        else true) = cs
      cases rs <;> cases cs <;> cases filt <;> simp only [Bool.false_eq_true, ↓reduceIte, Bool.not_true, Bool.not_false]
      all_goals first | rfl | exact flLoop_cnt .. | (split <;> exact flLoop_cnt ..)

theorem flLoop_single (w : World) (F : Nat → LId → Option VId → Bool) (a b : VId) (ds : Bool)
    (unk : Nat) (filt : Option Nat) (l : LId) :
    flLoop w F a b ds unk filt none [l] [] 0 =
      match flOne w F a b ds unk filt l with
      | .raise e => .error e
      | .absent => .ok []
      | .found => .ok [l] := by
  rw [flLoop_cons]
  cases flOne w F a b ds unk filt l <;> simp [flLoop]

/-- the generalized accumulator invariant of the `find_links` loop -/
theorem flLoop_exact (w : World) (F : Nat → LId → Option VId → Bool) (a b : VId) (ds : Bool)
    (unk : Nat) (filt : Option Nat) (ls acc : List LId) (cnt : Nat) (J : List LId)
    (h : flLoop w F a b ds unk filt none ls acc cnt = .ok J) (hacc : acc.Nodup) :
    J.Nodup ∧ ∀ l, l ∈ J ↔ l ∈ acc ∨ (l ∈ ls ∧ flOne w F a b ds unk filt l = .found) := by
  induction ls generalizing acc cnt with
  | nil => simp only [flLoop] at h; cases h; simp [hacc]
  | cons l ls ih =>
    rw [flLoop_cons] at h
    cases h1 : flOne w F a b ds unk filt l with
    | raise e => simp [h1] at h
    | absent =>
      simp only [h1] at h
      obtain ⟨hn, hm⟩ := ih acc 0 h hacc
      refine ⟨hn, fun l' => ?_⟩
      rw [hm l']; grind
    | found =>
      simp only [h1] at h
      by_cases hl : l ∈ acc
      · simp only [hl, ↓reduceIte] at h
        obtain ⟨hn, hm⟩ := ih acc 0 h hacc
        refine ⟨hn, fun l' => ?_⟩
        rw [hm l']; grind
      · simp only [hl, ↓reduceIte] at h
        obtain ⟨hn, hm⟩ := ih (acc ++ [l]) 0 h (nodup_append_singleton _ _ hacc hl)
        refine ⟨hn, fun l' => ?_⟩
        rw [hm l']; simp only [List.mem_append, List.mem_singleton, List.mem_cons]; grind

theorem flLoop_raises (w : World) (F : Nat → LId → Option VId → Bool) (a b : VId) (ds : Bool)
    (unk : Nat) (filt : Option Nat) (ls acc : List LId) (cnt : Nat) :
    (∃ e, flLoop w F a b ds unk filt none ls acc cnt = .error e) ↔
      ∃ l ∈ ls, ∃ e, flOne w F a b ds unk filt l = .raise e := by
  induction ls generalizing acc cnt with
  | nil => simp [flLoop]
  | cons l ls ih =>
    rw [flLoop_cons]
    cases h1 : flOne w F a b ds unk filt l with
    | raise e => simp [h1]
    | absent => simp only []; rw [ih]; simp [h1]
    | found => simp only []; rw [ih]; simp [h1]

/-- over a duplicate-free list disjoint from the accumulator, the result is the accumulator
    followed by the `found` links in order -/
theorem flLoop_eq_filter (w : World) (F : Nat → LId → Option VId → Bool) (a b : VId) (ds : Bool)
    (unk : Nat) (filt : Option Nat) (ls acc : List LId) (cnt : Nat) (J : List LId)
    (h : flLoop w F a b ds unk filt none ls acc cnt = .ok J) (hls : ls.Nodup)
    (hd : ∀ l ∈ ls, l ∉ acc) :
    J = acc ++ ls.filter (fun l => decide (flOne w F a b ds unk filt l = .found)) := by
  induction ls generalizing acc cnt with
  | nil => simp only [flLoop] at h; cases h; simp
  | cons l ls ih =>
    rw [flLoop_cons] at h
    have hl : l ∉ acc := hd l (by simp)
    rw [List.nodup_cons] at hls
    cases h1 : flOne w F a b ds unk filt l with
    | raise e => simp [h1] at h
    | absent =>
      simp only [h1] at h
      rw [ih acc 0 h hls.2 (fun l' hl' => hd l' (by simp [hl']))]
      simp [List.filter_cons, h1]
    | found =>
      simp only [h1, hl, ↓reduceIte] at h
      rw [ih (acc ++ [l]) 0 h hls.2 (fun l' hl' => by
        have := hd l' (by simp [hl'])
        simp only [List.mem_append, List.mem_singleton, not_or]
        exact ⟨this, fun e => hls.1 (e ▸ hl')⟩)]
      simp [List.filter_cons, h1]

/-- link by link, `find_links(a, b)` finds `l` iff `neighbors(a)` emits `b` over `l`
    (FORWARD when direction sensitive, ANY otherwise), for a filter looking at the link only -/
theorem flOne_found_iff (w : World) (F : Nat → LId → Option VId → Bool) (a b : VId) (ds : Bool)
    (unk : Nat) (filt : Option Nat) (l : LId) (x y : Option VId)
    (he : w.ends l = [x, y]) (hk : (w.lcls l).kind ≠ .nary)
    (hF : ∀ k l x, F k l x = F k l none) :
    flOne w F a b ds unk filt l = .found ↔
      nbOne w F a (if ds then 0 else 1) unk filt l = .emit (some b) := by
  simp only [nbOne, flOne, other, he, hk, List.getD_cons_zero, List.getD_cons_succ, ↓reduceIte, pre]
  have hu : unk = 0 ∨ unk = 1 ∨ 1 < unk := by omega
  cases hkind : (w.lcls l).kind <;> simp only [hkind] at hk ⊢
  all_goals
    rcases hu with rfl | rfl | hu <;> cases ds <;> cases filt <;> simp <;> grind

end M
end EG
