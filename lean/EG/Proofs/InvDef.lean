import EG.Step
import EG.Proofs.UniLaws
/-
  EG.Proofs.InvDef — the global invariant of reachable worlds (definitions only, plus the
  initial world).  The theorems about it are in `EG.Proofs.InvPrims` (primitives),
  `EG.Proofs.InvComp` (compound operations) and `EG.Proofs.Inv` (step / run).
-/
set_option linter.unusedSimpArgs false
set_option linter.unusedVariables false
namespace EG

/-- ids not yet allocated carry no data -/
def Fresh (w : World) : Prop :=
  (∀ l, w.nL ≤ l → w.ends l = []) ∧
  (∀ v, w.nV ≤ v → w.links v = [] ∧ w.unis v = [] ∧ w.members v = [] ∧ w.laws v = none) ∧
  (∀ L, w.nW ≤ L → w.appliesTo L = none)

/-- the invariant of every reachable world -/
def Inv (w : World) : Prop := Sym w ∧ USym w ∧ LawSym w ∧ Fresh w

theorem inv_init : Inv World.init := by
  refine ⟨⟨?_, ?_⟩, ⟨?_, ?_, ?_⟩, ?_, ?_, ?_, ?_⟩ <;> intros <;> simp [World.init, LawSym]

end EG
