import EG.TravSpec
import Mathlib.Data.List.Nodup
import Mathlib.Data.List.Perm.Subperm
/-
  EG.Proofs.TravCore — helper lemmas for C06 (closure / exactness / termination of the
  three traversal loops).
-/
namespace EG
namespace T

variable (nb : Nat → List Nat) (inU : Nat → Bool) (ffr : Nat → Bool)

/-! ## generic facts -/

theorem len_le (n : Nat) (l : List Nat) (h : l.Nodup) (hb : ∀ y ∈ l, y < n) : l.length ≤ n := by
  have : l.Subperm (List.range n) := List.Nodup.subperm h (by intro y hy; simp [hb y hy])
  simpa using this.length_le

/-- `Nodup` list of ids below `n` -/
def Good (n : Nat) (l : List Nat) : Prop := l.Nodup ∧ ∀ y ∈ l, y < n

theorem Good.length_le {n : Nat} {l : List Nat} (h : Good n l) : l.length ≤ n :=
  len_le n l h.1 h.2

theorem Good.snoc {n : Nat} {l : List Nat} (h : Good n l) {v : Nat} (hv : v < n) (hm : v ∉ l) :
    Good n (l ++ [v]) := by
  refine ⟨?_, ?_⟩
  · rw [List.nodup_append]
    refine ⟨h.1, by simp, ?_⟩
    intro a ha b hb
    simp at hb
    subst hb
    intro e; subst e; exact hm ha
  · intro y hy
    simp at hy
    rcases hy with hy | hy
    · exact h.2 y hy
    · subst hy; exact hv

/-! ## breadth-first: the scan in closed form -/

/-- the vertices a scan of `ns` newly discovers -/
def bftNew : List Nat → List Nat → List Nat
  | _, [] => []
  | vis, v :: vs =>
    if !inU v then bftNew vis vs
    else if v ∈ vis then bftNew vis vs
    else v :: bftNew (vis ++ [v]) vs

theorem bftScan_eq (ns : List Nat) : ∀ (vis q out : List Nat),
    bftScan inU ffr vis q out ns =
      (vis ++ bftNew inU vis ns, q ++ bftNew inU vis ns, out ++ (bftNew inU vis ns).filter ffr) := by
  induction ns with
  | nil => intro vis q out; simp [bftScan, bftNew]
  | cons v vs ih =>
    intro vis q out
    simp only [bftScan, bftNew]
    split
    · exact ih _ _ _
    · split
      · exact ih _ _ _
      · rw [ih]
        by_cases h3 : ffr v = true <;> simp [h3]

theorem bftNew_spec (ns : List Nat) : ∀ (vis : List Nat),
    (∀ x ∈ bftNew inU vis ns, x ∈ ns ∧ inU x = true ∧ x ∉ vis) ∧ (bftNew inU vis ns).Nodup ∧
    (∀ x ∈ ns, inU x = true → x ∈ vis ∨ x ∈ bftNew inU vis ns) := by
  induction ns with
  | nil => intro vis; simp [bftNew]
  | cons v vs ih =>
    intro vis
    simp only [bftNew]
    by_cases h1 : inU v = true
    · by_cases h2 : v ∈ vis
      · simp only [h1, h2, Bool.not_true, Bool.false_eq_true, if_false, if_true]
        obtain ⟨a, b, c⟩ := ih vis
        refine ⟨fun x hx => ?_, b, fun x hx hu => ?_⟩
        · have := a x hx; simp [this]
        · simp at hx; rcases hx with rfl | hx
          · exact Or.inl h2
          · exact c x hx hu
      · simp only [h1, h2, Bool.not_true, Bool.false_eq_true, if_false]
        obtain ⟨a, b, c⟩ := ih (vis ++ [v])
        refine ⟨fun x hx => ?_, ?_, fun x hx hu => ?_⟩
        · simp at hx; rcases hx with rfl | hx
          · simp [h1, h2]
          · have := a x hx; simp at this; simp [this]
        · rw [List.nodup_cons]
          refine ⟨fun hv => ?_, b⟩
          have := (a v hv).2.2; simp at this
        · simp at hx; rcases hx with rfl | hx
          · simp
          · rcases c x hx hu with h | h
            · simp at h; rcases h with h | h
              · exact Or.inl h
              · subst h; simp
            · right; simp [h]
    · simp only [h1, Bool.not_false, if_true]
      obtain ⟨a, b, c⟩ := ih vis
      refine ⟨fun x hx => ?_, b, fun x hx hu => ?_⟩
      · have := a x hx; simp [this]
      · simp at hx; rcases hx with rfl | hx
        · exact absurd hu h1
        · exact c x hx hu

/-! ## reachability: closed sets containing the start contain everything reachable -/

theorem reach_mem_of_closed {s : Nat} {vis : List Nat} (hs : s ∈ vis)
    (hc : ∀ x ∈ vis, ∀ y ∈ nb x, inU y = true → y ∈ vis) :
    ∀ x, Reach nb inU s x → x ∈ vis := by
  intro x hx
  induction hx with
  | refl => exact hs
  | step _ hy hu ih => exact hc _ ih _ hy hu

theorem mem_of_head?_eq {s : Nat} {l : List Nat} (h : l.head? = some s) : s ∈ l := by
  cases l with
  | nil => simp at h
  | cons a l => simp at h; simp [h]

theorem head?_append_of {s : Nat} {l : List Nat} (h : l.head? = some s) (m : List Nat) :
    (l ++ m).head? = some s := by
  cases l with
  | nil => simp at h
  | cons a l => simpa using h

/-! ## breadth-first: loop -/

theorem bftLoop_ff : ∀ (f : Nat) (vis q out : List Nat),
    bftLoop nb inU ffr f vis q (out.filter ffr) =
      (bftLoop nb inU (fun _ => true) f vis q out).filter ffr := by
  intro f
  induction f with
  | zero => intros; simp [bftLoop]
  | succ f ih =>
    intro vis q out
    cases q with
    | nil => simp [bftLoop]
    | cons u q =>
      simp only [bftLoop, bftScan_eq]
      have := ih (vis ++ bftNew inU vis (nb u)) (q ++ bftNew inU vis (nb u))
        (out ++ bftNew inU vis (nb u))
      simpa [List.filter_append] using this

/-- control-state invariant of the BFS loop -/
structure BInv (n : Nat) (vis q : List Nat) : Prop where
  good : Good n vis
  qsub : ∀ x ∈ q, x ∈ vis

variable {nb inU} in
theorem BInv.step {n : Nat} (hb : Bounded nb n) {vis q : List Nat} {u : Nat}
    (h : BInv n vis (u :: q)) :
    BInv n (vis ++ bftNew inU vis (nb u)) (q ++ bftNew inU vis (nb u)) ∧
    (q ++ bftNew inU vis (nb u)).length + (n - (vis ++ bftNew inU vis (nb u)).length) + 1
      = (u :: q).length + (n - vis.length) := by
  obtain ⟨a, b, c⟩ := bftNew_spec inU (nb u) vis
  have hu : u < n := h.good.2 u (h.qsub u (by simp))
  have hg : Good n (vis ++ bftNew inU vis (nb u)) := by
    refine ⟨?_, ?_⟩
    · rw [List.nodup_append]
      refine ⟨h.good.1, b, ?_⟩
      intro x hx y hy e
      subst e
      exact (a x hy).2.2 hx
    · intro y hy
      simp at hy
      rcases hy with hy | hy
      · exact h.good.2 y hy
      · exact hb u hu y (a y hy).1
  refine ⟨⟨hg, ?_⟩, ?_⟩
  · intro x hx
    simp at hx ⊢
    rcases hx with hx | hx
    · exact Or.inl (h.qsub x (by simp [hx]))
    · exact Or.inr hx
  · have := hg.length_le
    simp at this ⊢
    omega

variable {nb} in
theorem bftLoop_fuel {n : Nat} (hb : Bounded nb n) : ∀ (f f' : Nat) (vis q out : List Nat),
    BInv n vis q → q.length + (n - vis.length) ≤ f → q.length + (n - vis.length) ≤ f' →
    bftLoop nb inU ffr f vis q out = bftLoop nb inU ffr f' vis q out := by
  intro f
  induction f with
  | zero =>
    intro f' vis q out _ h0 _
    have : q = [] := by
      cases q with
      | nil => rfl
      | cons a q => simp at h0
    subst this
    cases f' <;> simp [bftLoop]
  | succ f ih =>
    intro f' vis q out hi h1 h2
    cases q with
    | nil => cases f' <;> simp [bftLoop]
    | cons u q =>
      cases f' with
      | zero => simp at h2
      | succ f' =>
        simp only [bftLoop, bftScan_eq]
        obtain ⟨hi', hm⟩ := hi.step (inU := inU) hb
        exact ih f' _ _ _ hi' (by omega) (by omega)

/-- the part of the BFS invariant that speaks about reachability from `s` -/
structure BInv2 (s : Nat) (vis q : List Nat) : Prop where
  closed : ∀ x ∈ vis, x ∈ q ∨ ∀ y ∈ nb x, inU y = true → y ∈ vis
  reach : ∀ x ∈ vis, Reach nb inU s x
  head : vis.head? = some s

variable {nb inU} in
theorem BInv2.step {s : Nat} {vis q : List Nat} {u : Nat} (hq : u ∈ vis)
    (h : BInv2 nb inU s vis (u :: q)) :
    BInv2 nb inU s (vis ++ bftNew inU vis (nb u)) (q ++ bftNew inU vis (nb u)) := by
  obtain ⟨a, b, c⟩ := bftNew_spec inU (nb u) vis
  refine ⟨?_, ?_, head?_append_of h.head _⟩
  · intro x hx
    simp only [List.mem_append] at hx ⊢
    rcases hx with hx | hx
    · rcases h.closed x hx with h1 | h1
      · simp at h1
        rcases h1 with rfl | h1
        · right; intro y hy hu; exact c y hy hu
        · exact Or.inl (Or.inl h1)
      · right; intro y hy hu; exact Or.inl (h1 y hy hu)
    · exact Or.inl (Or.inr hx)
  · intro x hx
    simp only [List.mem_append] at hx
    rcases hx with hx | hx
    · exact h.reach x hx
    · exact Reach.step (h.reach u hq) (a x hx).1 (a x hx).2.1

variable {nb inU} in
theorem bftLoop_exact {n : Nat} (hb : Bounded nb n) {s : Nat} : ∀ (f : Nat) (vis q : List Nat),
    BInv n vis q → BInv2 nb inU s vis q → q.length + (n - vis.length) ≤ f →
    (bftLoop nb inU (fun _ => true) f vis q vis).Nodup ∧
    (bftLoop nb inU (fun _ => true) f vis q vis).head? = some s ∧
    ∀ x, x ∈ bftLoop nb inU (fun _ => true) f vis q vis ↔ Reach nb inU s x := by
  have base : ∀ vis, BInv n vis [] → BInv2 nb inU s vis [] →
      vis.Nodup ∧ vis.head? = some s ∧ ∀ x, x ∈ vis ↔ Reach nb inU s x := by
    intro vis h1 h2
    refine ⟨h1.good.1, h2.head, fun x => ⟨h2.reach x, ?_⟩⟩
    refine reach_mem_of_closed nb inU (mem_of_head?_eq h2.head) ?_ x
    intro x hx
    rcases h2.closed x hx with h | h
    · simp at h
    · exact h
  intro f
  induction f with
  | zero =>
    intro vis q h1 h2 h0
    have : q = [] := by
      cases q with
      | nil => rfl
      | cons a q => simp at h0
    subst this
    simpa [bftLoop] using base vis h1 h2
  | succ f ih =>
    intro vis q h1 h2 h0
    cases q with
    | nil => simpa [bftLoop] using base vis h1 h2
    | cons u q =>
      simp only [bftLoop, bftScan_eq, List.filter_true]
      obtain ⟨hi', hm⟩ := h1.step (inU := inU) hb
      exact ih _ _ hi' (h2.step (h1.qsub u (by simp))) (by omega)

/-! ## recursive depth-first -/

/-- the body of the `for w in neighbors(v)` loop of `_dft_recur` -/
def dftStep (f : Nat) : List Nat × List Nat → Nat → List Nat × List Nat :=
  fun s w => if !inU w then s else if w ∈ s.1 then s else dftRec nb inU ffr f s w

theorem dftRec_zero (s : List Nat × List Nat) (v : Nat) : dftRec nb inU ffr 0 s v = s := by
  rw [dftRec]

theorem dftRec_succ (f : Nat) (s : List Nat × List Nat) (v : Nat) :
    dftRec nb inU ffr (f + 1) s v =
      (nb v).foldl (dftStep nb inU ffr f) (s.1 ++ [v], if ffr v then s.2 ++ [v] else s.2) := by
  rw [dftRec]; rfl

/-- closed form: the visited list is extended by some `more`, the listing by `more.filter ffr`,
    and `more` depends neither on `ffr` nor on the listing so far -/
theorem dftRec_shape : ∀ (f : Nat) (vis : List Nat) (v : Nat), ∃ more : List Nat,
    ∀ (ffr : Nat → Bool) (out : List Nat),
      dftRec nb inU ffr f (vis, out) v = (vis ++ more, out ++ more.filter ffr) := by
  intro f
  induction f with
  | zero => intro vis v; exact ⟨[], fun ffr out => by simp [dftRec_zero]⟩
  | succ f ih =>
    have key : ∀ (ws : List Nat) (vis : List Nat), ∃ more : List Nat,
        ∀ (ffr : Nat → Bool) (out : List Nat),
          ws.foldl (dftStep nb inU ffr f) (vis, out) = (vis ++ more, out ++ more.filter ffr) := by
      intro ws
      induction ws with
      | nil => intro vis; exact ⟨[], fun ffr out => by simp⟩
      | cons w ws ihw =>
        intro vis
        by_cases h1 : inU w = true
        · by_cases h2 : w ∈ vis
          · obtain ⟨m, hm⟩ := ihw vis
            exact ⟨m, fun ffr out => by simp [dftStep, h1, h2, hm]⟩
          · obtain ⟨m1, hm1⟩ := ih vis w
            obtain ⟨m2, hm2⟩ := ihw (vis ++ m1)
            refine ⟨m1 ++ m2, fun ffr out => ?_⟩
            simp only [List.foldl_cons]
            have : dftStep nb inU ffr f (vis, out) w = (vis ++ m1, out ++ m1.filter ffr) := by
              simp [dftStep, h1, h2, hm1]
            rw [this, hm2]
            simp [List.filter_append]
        · obtain ⟨m, hm⟩ := ihw vis
          exact ⟨m, fun ffr out => by simp [dftStep, h1, hm]⟩
    intro vis v
    obtain ⟨m, hm⟩ := key (nb v) (vis ++ [v])
    refine ⟨v :: m, fun ffr out => ?_⟩
    rw [dftRec_succ]
    simp only []
    rw [hm]
    by_cases h3 : ffr v = true <;> simp [h3]

/-- post-condition of a recursive call / of a fold of recursive calls, relative to the
    visited list `vis` at entry; `P` is an invariant property of visited vertices -/
structure DPost (n : Nat) (P : Nat → Prop) (vis vis' : List Nat) : Prop where
  ext : ∃ more, vis' = vis ++ more
  good : Good n vis'
  closed : ∀ y ∈ vis', y ∉ vis → ∀ z ∈ nb y, inU z = true → z ∈ vis'
  inv : ∀ y ∈ vis', P y

variable {nb inU} in
theorem DPost.refl {n : Nat} {P : Nat → Prop} {vis : List Nat} (hg : Good n vis)
    (hp : ∀ y ∈ vis, P y) : DPost nb inU n P vis vis :=
  ⟨⟨[], by simp⟩, hg, fun y hy hn => absurd hy hn, hp⟩

variable {nb inU} in
theorem DPost.trans {n : Nat} {P : Nat → Prop} {a b c : List Nat}
    (h1 : DPost nb inU n P a b) (h2 : DPost nb inU n P b c) : DPost nb inU n P a c := by
  obtain ⟨m1, e1⟩ := h1.ext
  obtain ⟨m2, e2⟩ := h2.ext
  refine ⟨⟨m1 ++ m2, by rw [e2, e1, List.append_assoc]⟩, h2.good, ?_, h2.inv⟩
  intro y hy hna z hz hu
  by_cases hb : y ∈ b
  · have := h1.closed y hb hna z hz hu
    rw [e2]; exact List.mem_append_left _ this
  · exact h2.closed y hy hb z hz hu

variable {nb inU} in
theorem DPost.length_le {n : Nat} {P : Nat → Prop} {a b : List Nat}
    (h : DPost nb inU n P a b) : a.length ≤ b.length := by
  obtain ⟨m, e⟩ := h.ext
  rw [e]; simp

/-- the statement of the closure lemma at fuel `f` -/
def DRecPost (n : Nat) (P : Nat → Prop) (f : Nat) : Prop :=
  ∀ (s : List Nat × List Nat) (v : Nat), Good n s.1 → v < n → v ∉ s.1 → n ≤ s.1.length + f →
    P v → (∀ y ∈ s.1, P y) →
    DPost nb inU n P s.1 (dftRec nb inU ffr f s v).1 ∧
    ∃ more, (dftRec nb inU ffr f s v).1 = s.1 ++ v :: more

variable {nb inU ffr} in
theorem dftStep_post {n : Nat} {P : Nat → Prop} {f : Nat} (H : DRecPost nb inU ffr n P f)
    (acc : List Nat × List Nat) (w : Nat) (hg : Good n acc.1) (hw : w < n)
    (hf : n ≤ acc.1.length + f) (hpw : inU w = true → P w) (hp : ∀ y ∈ acc.1, P y) :
    DPost nb inU n P acc.1 (dftStep nb inU ffr f acc w).1 ∧
    (inU w = true → w ∈ (dftStep nb inU ffr f acc w).1) := by
  by_cases h1 : inU w = true
  · by_cases h2 : w ∈ acc.1
    · have : dftStep nb inU ffr f acc w = acc := by simp [dftStep, h1, h2]
      rw [this]; exact ⟨DPost.refl hg hp, fun _ => h2⟩
    · have : dftStep nb inU ffr f acc w = dftRec nb inU ffr f acc w := by simp [dftStep, h1, h2]
      rw [this]
      obtain ⟨a, m, e⟩ := H acc w hg hw h2 hf (hpw h1) hp
      exact ⟨a, fun _ => by rw [e]; simp⟩
  · have : dftStep nb inU ffr f acc w = acc := by simp [dftStep, h1]
    rw [this]; exact ⟨DPost.refl hg hp, fun h => absurd h h1⟩

variable {nb inU ffr} in
theorem dftFold_post {n : Nat} {P : Nat → Prop} {f : Nat} (H : DRecPost nb inU ffr n P f) :
    ∀ (ws : List Nat) (acc : List Nat × List Nat), Good n acc.1 → n ≤ acc.1.length + f →
      (∀ w ∈ ws, w < n) → (∀ w ∈ ws, inU w = true → P w) → (∀ y ∈ acc.1, P y) →
      DPost nb inU n P acc.1 (ws.foldl (dftStep nb inU ffr f) acc).1 ∧
      ∀ w ∈ ws, inU w = true → w ∈ (ws.foldl (dftStep nb inU ffr f) acc).1 := by
  intro ws
  induction ws with
  | nil => intro acc hg _ _ _ hp; exact ⟨by simpa using DPost.refl hg hp, by simp⟩
  | cons w ws ih =>
    intro acc hg hf hlt hpw hp
    obtain ⟨p1, m1⟩ := dftStep_post H acc w hg (hlt w (by simp)) hf (hpw w (by simp)) hp
    have hlen := p1.length_le
    obtain ⟨p2, m2⟩ := ih (dftStep nb inU ffr f acc w) p1.good (by omega)
      (fun x hx => hlt x (by simp [hx])) (fun x hx => hpw x (by simp [hx])) p1.inv
    simp only [List.foldl_cons]
    refine ⟨p1.trans p2, ?_⟩
    intro x hx hu
    simp at hx
    rcases hx with rfl | hx
    · obtain ⟨m, e⟩ := p2.ext
      rw [e]; exact List.mem_append_left _ (m1 hu)
    · exact m2 x hx hu

variable {nb inU} in
theorem dftRec_post {n : Nat} (hb : Bounded nb n) {P : Nat → Prop}
    (hP : ∀ x y, P x → y ∈ nb x → inU y = true → P y) :
    ∀ f, DRecPost nb inU ffr n P f := by
  intro f
  induction f with
  | zero =>
    intro s v hg hv hm hf _ _
    have := (hg.snoc hv hm).length_le
    simp at this hf
    omega
  | succ f ih =>
    intro s v hg hv hm hf hpv hp
    rw [dftRec_succ]
    have hg' : Good n (s.1 ++ [v]) := hg.snoc hv hm
    have hp' : ∀ y ∈ s.1 ++ [v], P y := by
      intro y hy; simp at hy
      rcases hy with hy | rfl
      · exact hp y hy
      · exact hpv
    obtain ⟨p, m⟩ := dftFold_post ih (nb v)
      (s.1 ++ [v], if ffr v then s.2 ++ [v] else s.2) hg' (by simp; omega)
      (fun w hw => hb v hv w hw) (fun w hw hu => hP v w hpv hw hu) hp'
    obtain ⟨mo, e⟩ := p.ext
    simp only [] at e p m
    refine ⟨⟨⟨v :: mo, by rw [e]; simp⟩, p.good, ?_, p.inv⟩, ⟨mo, by rw [e]; simp⟩⟩
    intro y hy hn z hz hu
    by_cases hyv : y = v
    · subst hyv; exact m z hz hu
    · exact p.closed y hy (by simp [hn, hyv]) z hz hu

variable {nb} in
theorem dftRec_fuel {n : Nat} (hb : Bounded nb n) : ∀ (f f' : Nat) (s : List Nat × List Nat)
    (v : Nat), Good n s.1 → v < n → v ∉ s.1 → n ≤ s.1.length + f → n ≤ s.1.length + f' →
    dftRec nb inU ffr f s v = dftRec nb inU ffr f' s v := by
  have HP := fun f => dftRec_post (nb := nb) (inU := inU) ffr hb (P := fun _ => True)
    (fun _ _ _ _ _ => trivial) f
  have absurd0 : ∀ (s : List Nat × List Nat) (v : Nat), Good n s.1 → v < n → v ∉ s.1 →
      n ≤ s.1.length + 0 → False := by
    intro s v hg hv hm hf
    have := (hg.snoc hv hm).length_le
    simp at this hf
    omega
  intro f
  induction f with
  | zero => intro f' s v hg hv hm hf _; exact (absurd0 s v hg hv hm hf).elim
  | succ f ih =>
    intro f' s v hg hv hm hf hf'
    cases f' with
    | zero => exact (absurd0 s v hg hv hm hf').elim
    | succ f' =>
      rw [dftRec_succ, dftRec_succ]
      have key : ∀ (ws : List Nat) (acc : List Nat × List Nat), Good n acc.1 →
          n ≤ acc.1.length + f → n ≤ acc.1.length + f' → (∀ w ∈ ws, w < n) →
          ws.foldl (dftStep nb inU ffr f) acc = ws.foldl (dftStep nb inU ffr f') acc := by
        intro ws
        induction ws with
        | nil => intros; rfl
        | cons w ws ihw =>
          intro acc hga h1 h2 hlt
          have hw : w < n := hlt w (by simp)
          have e : dftStep nb inU ffr f acc w = dftStep nb inU ffr f' acc w := by
            by_cases c1 : inU w = true
            · by_cases c2 : w ∈ acc.1
              · simp [dftStep, c1, c2]
              · simp only [dftStep, c1, c2, Bool.not_true, Bool.false_eq_true, if_false]
                exact ih f' acc w hga hw c2 h1 h2
            · simp [dftStep, c1]
          obtain ⟨p1, _⟩ := dftStep_post (HP f) acc w hga hw h1 (fun _ => trivial)
            (fun _ _ => trivial)
          have hlen := p1.length_le
          simp only [List.foldl_cons]
          rw [← e]
          exact ihw _ p1.good (by omega) (by omega) (fun x hx => hlt x (by simp [hx]))
      exact key (nb v) _ (hg.snoc hv hm) (by simp; omega) (by simp; omega)
        (fun w hw => hb v hv w hw)

/-! ## iterative depth-first -/

theorem dftIterLoop_skip (f v : Nat) (st disc out : List Nat) (h : v ∈ disc ∨ inU v = false) :
    dftIterLoop nb inU ffr (f + 1) (v :: st) disc out = dftIterLoop nb inU ffr f st disc out := by
  rw [dftIterLoop]
  rcases h with h | h
  · simp [h]
  · simp [h]

theorem dftIterLoop_push (f v : Nat) (st disc out : List Nat) (h1 : v ∉ disc)
    (h2 : inU v = true) :
    dftIterLoop nb inU ffr (f + 1) (v :: st) disc out =
      dftIterLoop nb inU ffr f ((nb v).reverse ++ st) (disc ++ [v])
        (if ffr v then out ++ [v] else out) := by
  rw [dftIterLoop]
  simp [h1, h2]

theorem dftIterLoop_nil (f : Nat) (disc out : List Nat) :
    dftIterLoop nb inU ffr f [] disc out = out := by
  cases f <;> simp [dftIterLoop]

theorem dftIterLoop_ff : ∀ (f : Nat) (st disc out : List Nat),
    dftIterLoop nb inU ffr f st disc (out.filter ffr) =
      (dftIterLoop nb inU (fun _ => true) f st disc out).filter ffr := by
  intro f
  induction f with
  | zero => intros; simp [dftIterLoop]
  | succ f ih =>
    intro st disc out
    cases st with
    | nil => simp [dftIterLoop_nil]
    | cons v st =>
      by_cases h1 : v ∈ disc
      · rw [dftIterLoop_skip _ _ _ _ _ _ _ _ (Or.inl h1), dftIterLoop_skip _ _ _ _ _ _ _ _ (Or.inl h1)]
        exact ih _ _ _
      · by_cases h2 : inU v = true
        · rw [dftIterLoop_push _ _ _ _ _ _ _ _ h1 h2, dftIterLoop_push _ _ _ _ _ _ _ _ h1 h2]
          have := ih ((nb v).reverse ++ st) (disc ++ [v]) (out ++ [v])
          simp only [if_true]
          rw [← this]
          by_cases h3 : ffr v = true <;> simp [h3, List.filter_append]
        · have h2' : inU v = false := by simpa using h2
          rw [dftIterLoop_skip _ _ _ _ _ _ _ _ (Or.inr h2'),
            dftIterLoop_skip _ _ _ _ _ _ _ _ (Or.inr h2')]
          exact ih _ _ _

/-- neighbour entries of the not yet discovered vertices of `l` -/
def remW (disc l : List Nat) : Nat :=
  (l.map fun v => if v ∈ disc then 0 else (nb v).length).sum

theorem remW_nil_range (n : Nat) : remW nb [] (List.range n) = degSum nb n := by
  simp [remW, degSum]

theorem remW_snoc (disc : List Nat) (v : Nat) (hv : v ∉ disc) : ∀ (l : List Nat), l.Nodup →
    remW nb disc l = remW nb (disc ++ [v]) l + (if v ∈ l then (nb v).length else 0) := by
  intro l
  induction l with
  | nil => simp [remW]
  | cons a l ih =>
    intro hn
    rw [List.nodup_cons] at hn
    have ih' := ih hn.2
    simp only [remW, List.map_cons, List.sum_cons] at ih' ⊢
    by_cases hav : a = v
    · subst hav
      have : a ∉ l := hn.1
      simp [this, hv] at ih' ⊢
      omega
    · have h1 : (a ∈ disc ++ [v]) ↔ a ∈ disc := by simp [hav]
      have h2 : (v ∈ a :: l) ↔ v ∈ l := by simp [Ne.symm hav]
      simp only [h1, h2]
      omega

/-- control-state invariant of the iterative DFS loop -/
structure IInv (n : Nat) (st disc : List Nat) : Prop where
  good : Good n disc
  stlt : ∀ x ∈ st, x < n

variable {nb} in
theorem IInv.push {n : Nat} (hb : Bounded nb n) {st disc : List Nat} {v : Nat}
    (h : IInv n (v :: st) disc) (hv : v ∉ disc) :
    IInv n ((nb v).reverse ++ st) (disc ++ [v]) ∧
    ((nb v).reverse ++ st).length + remW nb (disc ++ [v]) (List.range n) + 1
      = (v :: st).length + remW nb disc (List.range n) := by
  have hvn : v < n := h.stlt v (by simp)
  refine ⟨⟨h.good.snoc hvn hv, ?_⟩, ?_⟩
  · intro x hx
    simp at hx
    rcases hx with hx | hx
    · exact hb v hvn x hx
    · exact h.stlt x (by simp [hx])
  · have := remW_snoc nb disc v hv (List.range n) List.nodup_range
    simp [hvn] at this ⊢
    omega

theorem IInv.skip {n : Nat} {st disc : List Nat} {v : Nat} (h : IInv n (v :: st) disc) :
    IInv n st disc :=
  ⟨h.good, fun x hx => h.stlt x (by simp [hx])⟩

variable {nb} in
theorem dftIterLoop_fuel {n : Nat} (hb : Bounded nb n) : ∀ (f f' : Nat) (st disc out : List Nat),
    IInv n st disc → st.length + remW nb disc (List.range n) ≤ f →
    st.length + remW nb disc (List.range n) ≤ f' →
    dftIterLoop nb inU ffr f st disc out = dftIterLoop nb inU ffr f' st disc out := by
  intro f
  induction f with
  | zero =>
    intro f' st disc out _ h0 _
    have : st = [] := by
      cases st with
      | nil => rfl
      | cons a q => simp at h0
    subst this
    simp [dftIterLoop_nil]
  | succ f ih =>
    intro f' st disc out hi h1 h2
    cases st with
    | nil => simp [dftIterLoop_nil]
    | cons v st =>
      cases f' with
      | zero => simp at h2
      | succ f' =>
        simp only [List.length_cons] at h1 h2
        by_cases c1 : v ∈ disc
        · rw [dftIterLoop_skip _ _ _ _ _ _ _ _ (Or.inl c1),
            dftIterLoop_skip _ _ _ _ _ _ _ _ (Or.inl c1)]
          exact ih f' _ _ _ hi.skip (by omega) (by omega)
        · by_cases c2 : inU v = true
          · rw [dftIterLoop_push _ _ _ _ _ _ _ _ c1 c2, dftIterLoop_push _ _ _ _ _ _ _ _ c1 c2]
            obtain ⟨hi', hm⟩ := hi.push hb c1
            simp only [List.length_cons] at hm
            exact ih f' _ _ _ hi' (by omega) (by omega)
          · have c2' : inU v = false := by simpa using c2
            rw [dftIterLoop_skip _ _ _ _ _ _ _ _ (Or.inr c2'),
              dftIterLoop_skip _ _ _ _ _ _ _ _ (Or.inr c2')]
            exact ih f' _ _ _ hi.skip (by omega) (by omega)

/-- the part of the iterative-DFS invariant that speaks about reachability from `s` -/
structure IInv2 (s : Nat) (st disc : List Nat) : Prop where
  streach : ∀ x ∈ st, inU x = true → Reach nb inU s x
  reach : ∀ x ∈ disc, Reach nb inU s x
  closed : ∀ x ∈ disc, ∀ y ∈ nb x, inU y = true → y ∈ disc ∨ y ∈ st
  head : (disc = [] ∧ st = [s]) ∨ disc.head? = some s

variable {nb inU} in
theorem IInv2.skip {s : Nat} (hsU : inU s = true) {st disc : List Nat} {v : Nat}
    (h : IInv2 nb inU s (v :: st) disc) (hv : v ∈ disc ∨ inU v = false) :
    IInv2 nb inU s st disc := by
  refine ⟨fun x hx => h.streach x (by simp [hx]), h.reach, ?_, ?_⟩
  · intro x hx y hy hu
    rcases h.closed x hx y hy hu with c | c
    · exact Or.inl c
    · simp at c
      rcases c with rfl | c
      · rcases hv with hv | hv
        · exact Or.inl hv
        · rw [hv] at hu; cases hu
      · exact Or.inr c
  · rcases h.head with ⟨e1, e2⟩ | e
    · simp at e2
      obtain ⟨rfl, rfl⟩ := e2
      subst e1
      rcases hv with hv | hv
      · simp at hv
      · rw [hv] at hsU; cases hsU
    · exact Or.inr e

variable {nb inU} in
theorem IInv2.push {s : Nat} {st disc : List Nat} {v : Nat}
    (h : IInv2 nb inU s (v :: st) disc) (hu : inU v = true) :
    IInv2 nb inU s ((nb v).reverse ++ st) (disc ++ [v]) := by
  have hrv : Reach nb inU s v := h.streach v (by simp) hu
  refine ⟨?_, ?_, ?_, ?_⟩
  · intro x hx hxu
    simp at hx
    rcases hx with hx | hx
    · exact Reach.step hrv hx hxu
    · exact h.streach x (by simp [hx]) hxu
  · intro x hx
    simp at hx
    rcases hx with hx | rfl
    · exact h.reach x hx
    · exact hrv
  · intro x hx y hy hyu
    simp at hx
    rcases hx with hx | rfl
    · rcases h.closed x hx y hy hyu with c | c
      · left; simp [c]
      · simp at c
        rcases c with rfl | c
        · left; simp
        · right; simp [c]
    · right; simp [hy]
  · right
    rcases h.head with ⟨e1, e2⟩ | e
    · simp at e2
      subst e1
      simp [e2.1]
    · exact head?_append_of e _

variable {nb inU} in
theorem dftIterLoop_exact {n : Nat} (hb : Bounded nb n) {s : Nat} (hsU : inU s = true) :
    ∀ (f : Nat) (st disc : List Nat), IInv n st disc → IInv2 nb inU s st disc →
    st.length + remW nb disc (List.range n) ≤ f →
    (dftIterLoop nb inU (fun _ => true) f st disc disc).Nodup ∧
    (dftIterLoop nb inU (fun _ => true) f st disc disc).head? = some s ∧
    ∀ x, x ∈ dftIterLoop nb inU (fun _ => true) f st disc disc ↔ Reach nb inU s x := by
  have base : ∀ disc, IInv n [] disc → IInv2 nb inU s [] disc →
      disc.Nodup ∧ disc.head? = some s ∧ ∀ x, x ∈ disc ↔ Reach nb inU s x := by
    intro disc h1 h2
    have hh : disc.head? = some s := by
      rcases h2.head with ⟨_, e⟩ | e
      · simp at e
      · exact e
    refine ⟨h1.good.1, hh, fun x => ⟨h2.reach x, ?_⟩⟩
    refine reach_mem_of_closed nb inU (mem_of_head?_eq hh) ?_ x
    intro x hx y hy hu
    rcases h2.closed x hx y hy hu with h | h
    · exact h
    · simp at h
  intro f
  induction f with
  | zero =>
    intro st disc h1 h2 h0
    have : st = [] := by
      cases st with
      | nil => rfl
      | cons a q => simp at h0
    subst this
    simpa [dftIterLoop_nil] using base disc h1 h2
  | succ f ih =>
    intro st disc h1 h2 h0
    cases st with
    | nil => simpa [dftIterLoop_nil] using base disc h1 h2
    | cons v st =>
      simp only [List.length_cons] at h0
      by_cases c1 : v ∈ disc
      · rw [dftIterLoop_skip _ _ _ _ _ _ _ _ (Or.inl c1)]
        exact ih _ _ h1.skip (h2.skip hsU (Or.inl c1)) (by omega)
      · by_cases c2 : inU v = true
        · rw [dftIterLoop_push _ _ _ _ _ _ _ _ c1 c2]
          obtain ⟨hi', hm⟩ := h1.push hb c1
          simp only [List.length_cons] at hm
          simp only [if_true]
          exact ih _ _ hi' (h2.push c2) (by omega)
        · have c2' : inU v = false := by simpa using c2
          rw [dftIterLoop_skip _ _ _ _ _ _ _ _ (Or.inr c2')]
          exact ih _ _ h1.skip (h2.skip hsU (Or.inr c2')) (by omega)

end T
end EG
