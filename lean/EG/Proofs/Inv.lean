import EG.Step
import EG.Proofs.UniLaws
import EG.Proofs.InvDef
import EG.Proofs.InvComp
import EG.Proofs.StepBasic
import EG.Proofs.Rules
/-
  EG.Proofs.Inv — the global invariant of reachable worlds (`Fresh`, `Inv`, `inv_init`:
  defined in `EG.Proofs.InvDef`), its preservation by every operation of the reference
  model, and the agreement of the mirror model M with the reference model S on every world
  satisfying it.  Primitive-level facts: `EG.Proofs.InvPrims`; loops and constructors:
  `EG.Proofs.InvComp`; invariant-free facts about the generic step: `EG.Proofs.StepBasic`,
  `EG.Proofs.Rules`.
-/
set_option linter.unusedSimpArgs false
set_option linter.unusedVariables false
namespace EG

/-- M and S compute the same step on every world satisfying the invariant -/
theorem step_agree (F : Nat → LId → Option VId → Bool) (w : World) (op : Op) (h : Inv w) :
    M.step F w op = S.step F w op := by
  obtain ⟨hs, hu, hl, hf⟩ := h
  cases op <;> simp only [M.step, S.step, C.step]
  case newVertex c attrs ls us => rw [C.newVertex_agree]
  case newUniverse attrs ms L => rw [C.newUniverse_agree _ _ _ _ ⟨hs, hu, hl, hf⟩]
  case newEdge c a b => rw [C.newLink_agree]
  case newNLink vs => rw [C.newLink_agree]
  case setV1 l x => rw [C.setEnd_agree _ _ _ _ hs (by omega)]
  case setV2 l x => rw [C.setEnd_agree _ _ _ _ hs (by omega)]
  case addToLink v l => rw [agree_addToLink]
  case removeFromLink v l => rw [agree_removeFromLink _ _ _ hs]
  case addVertex l x => rw [agree_addVertex]
  case unlinkFrom l x => rw [agree_unlinkFrom _ _ _ hs]
  case linkFromTo a c b dd => rw [C.linkFromTo_agree]
  case unlink a b d => rw [C.unlink_agree _ _ _ _ hs]
  case uniAdd u v => rw [agree_uniAddVertex]
  case uniRemove u v => rw [agree_uniRemoveVertex _ _ _ hu]
  case vAdd v u => rw [agree_addToUniverse]
  case vRemove v u => rw [agree_removeFromUniverse _ _ _ hu]
  case setLaws u L => rw [agree_setLaws _ _ _ hl]
  case setAppliesTo L u => rw [agree_setAppliesTo _ _ _ hl]


/-- the operations that are neither membership operations nor constructors taking
    `universes=` / `vertices=` -/
def Op.nonMembership : Op → Prop
  | .newVertex .. | .newUniverse .. | .uniAdd .. | .uniRemove .. | .vAdd .. | .vRemove .. => False
  | _ => True

theorem all_ovOK {w : World} {vs : List (Option VId)} (h : vs.all w.ovOK = true) :
    ∀ x ∈ vs, w.ovOK x = true := by
  simpa using h

/-- every step of the reference model preserves the invariant, and steps other than
    membership operations / those constructors leave membership alone -/
theorem step_S (F : Nat → LId → Option VId → Bool) (w : World) (op : Op) (h : Inv w) :
    Inv (S.step F w op).1 ∧
    (op.nonMembership → (S.step F w op).1.members = w.members ∧ (S.step F w op).1.unis = w.unis) := by
  have bad : Inv w ∧ (op.nonMembership → w.members = w.members ∧ w.unis = w.unis) :=
    ⟨h, fun _ => ⟨rfl, rfl⟩⟩
  cases op <;> simp only [S.step, C.step]
  case newVertex c attrs ls us =>
    split
    · exact bad
    · rename_i hg
      simp only [Bool.or_eq_true, Bool.not_eq_true', not_or, Bool.not_eq_false] at hg
      have hls : ∀ l ∈ ls, l < w.nL := by
        have := hg.1.2; simp [World.lOK] at this; exact this
      have hus : ∀ u ∈ us, u < w.nV := by
        have := hg.2; simp [World.isUni] at this; exact fun u hu => (this u hu).1
      obtain ⟨w', e, h1, _⟩ := C.newVertex_S w c attrs ls us h hls hus
      rw [e]; exact ⟨h1, fun hf => hf.elim⟩
  case newUniverse attrs ms L =>
    cases L with
    | none =>
      simp only []; split
      · exact bad
      · rename_i hg
        simp only [Bool.or_eq_true, Bool.not_eq_true', not_or, Bool.not_eq_false] at hg
        have hms : ∀ v ∈ ms, v < w.nV := by
          have := hg.1; simp [World.vOK] at this; exact this
        obtain ⟨w', e, h1, _⟩ := C.newUniverse_S w attrs ms none h hms (by intro x hx; cases hx)
        rw [e]; exact ⟨h1, fun hf => hf.elim⟩
    | some K =>
      simp only []; split
      · exact bad
      · rename_i hg
        simp only [Bool.or_eq_true, Bool.not_eq_true', not_or, Bool.not_eq_false] at hg
        have hms : ∀ v ∈ ms, v < w.nV := by
          have := hg.1; simp [World.vOK] at this; exact this
        obtain ⟨w', e, h1, _⟩ := C.newUniverse_S w attrs ms (some K) h hms
          (by intro x hx; cases hx; have := hg.2; simp [World.wOK] at this; exact this)
        rw [e]; exact ⟨h1, fun hf => hf.elim⟩
  case newLaws r => exact ⟨allocLaws_inv w r h, fun _ => ⟨rfl, rfl⟩⟩
  case newEdge c a b =>
    split
    · exact bad
    · rename_i hg
      simp only [Bool.or_eq_true, Bool.not_eq_true', not_or, Bool.not_eq_false] at hg
      have hvs : ∀ x ∈ [a, b], w.ovOK x = true := by
        intro x hx; simp at hx; rcases hx with rfl | rfl
        · exact hg.1.2
        · exact hg.2
      obtain ⟨w', e, h1, h2, h3⟩ := C.newLink_S w c [a, b] h hvs
      rw [e]; exact ⟨h1, fun _ => ⟨h2, h3⟩⟩
  case rejected => exact ⟨h, fun _ => ⟨trivial, trivial⟩⟩
  case newNLink vs =>
    split
    · exact bad
    · rename_i hg
      simp only [Bool.not_eq_true', Bool.not_eq_false] at hg
      obtain ⟨w', e, h1, h2, h3⟩ := C.newLink_S w .N vs h (all_ovOK hg)
      rw [e]; exact ⟨h1, fun _ => ⟨h2, h3⟩⟩
  case setV1 l x =>
    split
    · exact bad
    · rename_i hg
      simp only [Bool.or_eq_true, Bool.not_eq_true', not_or, Bool.not_eq_false, World.twoEnded,
        Bool.and_eq_true, World.lOK, decide_eq_true_eq] at hg
      rw [C.setEnd_S]; split
      · exact bad
      · exact ⟨S.replaceEnd_inv w l 0 x h (by omega) hg.1.1 hg.2, fun _ => ⟨rfl, rfl⟩⟩
  case setV2 l x =>
    split
    · exact bad
    · rename_i hg
      simp only [Bool.or_eq_true, Bool.not_eq_true', not_or, Bool.not_eq_false, World.twoEnded,
        Bool.and_eq_true, World.lOK, decide_eq_true_eq] at hg
      rw [C.setEnd_S]; split
      · exact bad
      · exact ⟨S.replaceEnd_inv w l 1 x h (by omega) hg.1.1 hg.2, fun _ => ⟨rfl, rfl⟩⟩
  case addToLink v l =>
    split
    · exact bad
    · rename_i hg
      simp only [Bool.or_eq_true, Bool.not_eq_true', not_or, Bool.not_eq_false, World.vOK,
        World.lOK, decide_eq_true_eq] at hg
      exact ⟨S.addToLink_inv w v l h hg.1 hg.2, fun _ => ⟨rfl, rfl⟩⟩
  case removeFromLink v l =>
    split
    · exact bad
    · exact ⟨S.removeFromLink_inv w v l h, fun _ => ⟨rfl, rfl⟩⟩
  case addVertex l x =>
    split
    · exact bad
    · rename_i hg
      simp only [Bool.or_eq_true, Bool.not_eq_true', not_or, Bool.not_eq_false,
        World.lOK, decide_eq_true_eq] at hg
      exact ⟨S.addVertex_inv w l x h hg.1 hg.2, fun _ => ⟨rfl, rfl⟩⟩
  case unlinkFrom l x =>
    split
    · exact bad
    · exact ⟨S.unlinkFrom_inv w l x h,
        fun _ => ⟨(S.unlinkFrom_frame w l x).members, (S.unlinkFrom_frame w l x).unis⟩⟩
  case linkFromTo a c b dd =>
    split
    · exact bad
    · rename_i hg
      simp only [Bool.or_eq_true, Bool.not_eq_true', not_or, Bool.not_eq_false, World.vOK,
        decide_eq_true_eq] at hg
      split
      · exact bad
      · rename_i e
        have := C.linkFromTo_S w a c b dd h hg.1.2 hg.2 _ _ e
        exact ⟨this.1, fun _ => this.2⟩
  case unlink a b d =>
    split
    · exact bad
    · split
      · exact bad
      · rename_i e
        have := C.unlink_S F w a b h _ _ e
        exact ⟨this.1, fun _ => this.2⟩
  case uniAdd u v =>
    split
    · exact bad
    · rename_i hg
      simp only [Bool.or_eq_true, Bool.not_eq_true', not_or, Bool.not_eq_false, World.vOK,
        decide_eq_true_eq] at hg
      exact ⟨S.uniAddVertex_inv w u v h (isUni_lt hg.1) hg.2, fun hf => hf.elim⟩
  case vAdd v u =>
    split
    · exact bad
    · rename_i hg
      simp only [Bool.or_eq_true, Bool.not_eq_true', not_or, Bool.not_eq_false, World.vOK,
        decide_eq_true_eq] at hg
      exact ⟨S.addToUniverse_inv w v u h (isUni_lt hg.1) hg.2, fun hf => hf.elim⟩
  case uniRemove u v =>
    split
    · exact bad
    · rename_i hg
      simp only [Bool.or_eq_true, Bool.not_eq_true', not_or, Bool.not_eq_false, World.vOK,
        decide_eq_true_eq] at hg
      refine ⟨?_, fun hf => hf.elim⟩
      show Inv (C.ofExc w (if v ∈ w.members u then .ok (S.uniRemoveVertex w u v) else .error .value)).1
      split
      · exact S.uniRemoveVertex_inv w u v h (isUni_lt hg.1) hg.2
      · exact h
  case vRemove v u =>
    split
    · exact bad
    · rename_i hg
      simp only [Bool.or_eq_true, Bool.not_eq_true', not_or, Bool.not_eq_false, World.vOK,
        decide_eq_true_eq] at hg
      refine ⟨?_, fun hf => hf.elim⟩
      show Inv (C.ofExc w (if u ∈ w.unis v then .ok (S.removeFromUniverse w v u) else .error .value)).1
      split
      · exact S.removeFromUniverse_inv w v u h (isUni_lt hg.1) hg.2
      · exact h
  case setLaws u L =>
    cases L with
    | none =>
      simp only []; split
      · exact bad
      · rename_i hg
        simp only [Bool.or_eq_true, Bool.not_eq_true', not_or, Bool.not_eq_false] at hg
        exact ⟨S.setLaws_inv w u none h (isUni_lt hg.1) (by intro x hx; cases hx),
          fun _ => ⟨(S.setLaws_frame w u none).members, (S.setLaws_frame w u none).unis⟩⟩
    | some K =>
      simp only []; split
      · exact bad
      · rename_i hg
        simp only [Bool.or_eq_true, Bool.not_eq_true', not_or, Bool.not_eq_false, World.wOK,
          decide_eq_true_eq] at hg
        exact ⟨S.setLaws_inv w u (some K) h (isUni_lt hg.1) (by intro x hx; cases hx; exact hg.2),
          fun _ => ⟨(S.setLaws_frame w u (some K)).members, (S.setLaws_frame w u (some K)).unis⟩⟩
  case setAppliesTo L u =>
    cases u with
    | none =>
      simp only []; split
      · exact bad
      · rename_i hg
        simp only [Bool.or_eq_true, Bool.not_eq_true', not_or, Bool.not_eq_false, World.wOK,
          decide_eq_true_eq] at hg
        exact ⟨S.setAppliesTo_inv w L none h hg.1 (by intro x hx; cases hx),
          fun _ => ⟨(S.setAppliesTo_frame w L none).members, (S.setAppliesTo_frame w L none).unis⟩⟩
    | some k =>
      simp only []; split
      · exact bad
      · rename_i hg
        simp only [Bool.or_eq_true, Bool.not_eq_true', not_or, Bool.not_eq_false, World.wOK,
          decide_eq_true_eq] at hg
        exact ⟨S.setAppliesTo_inv w L (some k) h hg.1
            (by intro x hx; cases hx; exact isUni_lt hg.2),
          fun _ => ⟨(S.setAppliesTo_frame w L (some k)).members,
            (S.setAppliesTo_frame w L (some k)).unis⟩⟩
  case flag on => exact ⟨h, fun _ => ⟨trivial, trivial⟩⟩
  case neighbors v dir unk filt fault =>
    split
    · exact bad
    · simp only [M.neighbors]
      (repeat' split) <;> rename_i hh <;> (try (revert hh; (repeat' split) <;> intro hh)) <;>
        cases hh <;> exact ⟨h, fun _ => ⟨rfl, rfl⟩⟩
  case findLinks a b ds unk filt fault =>
    split
    · exact bad
    · split <;> exact bad


/-- every step of the reference model preserves the invariant -/
theorem step_inv (F : Nat → LId → Option VId → Bool) (w : World) (op : Op) (h : Inv w) :
    Inv (S.step F w op).1 := (step_S F w op h).1

theorem runFrom_agree (F : Nat → LId → Option VId → Bool) (ops : List Op) (w : World) (h : Inv w) :
    M.runFrom F w ops = S.runFrom F w ops ∧ Inv (S.runFrom F w ops).1 := by
  induction ops generalizing w with
  | nil => exact ⟨rfl, h⟩
  | cons op ops ih =>
    have e : C.step M.prims F w op = C.step S.prims F w op := step_agree F w op h
    have ih' := ih (C.step S.prims F w op).1 (step_inv F w op h)
    simp only [M.runFrom, S.runFrom, C.runFrom] at ih' ⊢
    rw [e, ih'.1]
    exact ⟨rfl, ih'.2⟩

/-- whole histories from the initial world -/
theorem run_agree (F : Nat → LId → Option VId → Bool) (ops : List Op) :
    M.run F ops = S.run F ops ∧ Inv (M.run F ops).1 := by
  have := runFrom_agree F ops World.init inv_init
  simp only [M.runFrom, S.runFrom] at this
  simp only [M.run, S.run]
  exact ⟨this.1, this.1 ▸ this.2⟩

end EG
