import EG.TravOps
import EG.Props.C06
import EG.Props.C08
/-
  EG.Proofs.TravOpsLemmas — helper lemmas connecting the world-level traversal / search entry
  points (EG.TravOps) with the pure loops of EG.Trav.
-/
set_option linter.unusedSimpArgs false
set_option linter.unusedVariables false
namespace EG
namespace TO

variable (w : World) (F : Nat → LId → Option VId → Bool)

/-! ### vocabulary (unfolded forms of `TotalAt` / `memberOf` of EG.Props.C06World) -/

/-- `neighbors()` of every vertex returns a list of vertices (no None) -/
def TotalNb (dir unk : Nat) (via : Option Nat) : Prop :=
  ∀ v, v < w.nV → ∃ l : List VId, M.neighborsPure w F v dir unk via = .ok (l.map some) ∧ ∀ y ∈ l, y < w.nV

/-- `uni is None or y in uni.vertices` -/
def InMem (uni : Option VId) (y : VId) : Prop :=
  match uni with
  | none => True
  | some u => y ∈ w.members u

/-! ### list facts -/

theorem map_resolve_some (n : Nat) (l : List Nat) :
    (l.map some).map (fun o => match o with | none => n | some y => y) = l := by
  induction l with
  | nil => rfl
  | cons a l ih => simp only [List.map_cons, ih]

theorem filterMap_id_map_some (l : List Nat) : (l.map some).filterMap id = l := by
  induction l with
  | nil => rfl
  | cons a l ih => simp

theorem sum_map_succ (f : Nat → Nat) (m : Nat) :
    ((List.range m).map (fun x => f x + 1)).sum = ((List.range m).map f).sum + m := by
  induction m with
  | zero => simp
  | succ m ih => simp [List.range_succ, ih]; omega

theorem sum_range_mono (f : Nat → Nat) {m k : Nat} (h : m ≤ k) :
    ((List.range m).map f).sum ≤ ((List.range k).map f).sum := by
  induction h with
  | refl => exact Nat.le_refl _
  | step h ih => simp [List.range_succ]; omega

theorem find?_congr_mem {α : Type} (p q : α → Bool) (l : List α) (h : ∀ x ∈ l, p x = q x) :
    l.find? p = l.find? q := by
  induction l with
  | nil => rfl
  | cons a l ih =>
    have ha := h a (by simp)
    have := ih (fun x hx => h x (by simp [hx]))
    simp [List.find?_cons, ha, this]

/-! ### the resolved neighbour function on a total world -/

theorem resolvedNb_of_ok {dir unk : Nat} {via : Option Nat} {x : Nat} {l : List Nat}
    (hx : x < w.nV) (hl : M.neighborsPure w F x dir unk via = .ok (l.map some)) :
    resolvedNb w F dir unk via x = l := by
  simp only [resolvedNb, hx, if_true, hl]
  exact map_resolve_some _ l

theorem resolvedNb_bounded {dir unk : Nat} {via : Option Nat} (ht : TotalNb w F dir unk via) :
    T.Bounded (resolvedNb w F dir unk via) w.nV := by
  intro x hx y hy
  obtain ⟨l, hl, hlt⟩ := ht x hx
  rw [resolvedNb_of_ok w F hx hl] at hy
  exact hlt y hy

theorem fuelFor_ge (nb : Nat → List Nat) : w.nV + T.degSum nb w.nV + 2 ≤ fuelFor w nb := by
  unfold fuelFor T.degSum
  rw [sum_map_succ (fun x => (nb x).length)]
  have := sum_range_mono (fun x => (nb x).length) (m := w.nV) (k := 2 * w.nV + 2) (by omega)
  omega

theorem fuelFor_ge' (nb : Nat → List Nat) : w.nV + 1 ≤ fuelFor w nb := by
  have := fuelFor_ge w nb
  omega

theorem cutOutput_id (dir unk : Nat) (via : Option Nat) (l : List Nat) (h : ∀ x ∈ l, x < w.nV) :
    cutOutput w F dir unk via l = (l, none) := by
  induction l with
  | nil => rfl
  | cons a l ih =>
    have ha : ¬ a > w.nV := by have := h a (by simp); omega
    have := ih (fun x hx => h x (by simp [hx]))
    simp [cutOutput, ha, this]

theorem reach_lt {nb : Nat → List Nat} {inU : Nat → Bool} {n s : Nat} (hb : T.Bounded nb n)
    (hs : s < n) {x : Nat} (h : T.Reach nb inU s x) : x < n := by
  induction h with
  | refl => exact hs
  | step _ hy _ ih => exact hb _ ih _ hy

theorem inUni_lt (uni : Option VId) {y : Nat} (hy : y < w.nV) :
    inUni w uni y = true ↔ InMem w uni y := by
  have h1 : ¬ y > w.nV := by omega
  cases uni with
  | none => simp [inUni, InMem, h1]
  | some u => simp [inUni, InMem, h1, hy]

theorem attrMatch_lt (attr val : Nat) {x : Nat} (hx : x < w.nV) :
    attrMatch w attr val x = hasAttrVal w attr val x := by
  have h1 : ¬ x > w.nV := by omega
  have h2 : ¬ x = w.nV := by omega
  simp [attrMatch, h1, h2]

/-! ### the pure listing of a traversal kind -/

/-- the listing of the pure loop of the given kind, before cutting -/
def pureOut (ffr : Nat → Bool) (kind : TravKind) (uni : Option VId) (start : VId) (dir unk : Nat)
    (via : Option Nat) : List Nat :=
  match kind with
  | .bft => T.bft (resolvedNb w F dir unk via) (inUni w uni) ffr
      (fuelFor w (resolvedNb w F dir unk via)) start
  | .dftr => T.dftRecursive (resolvedNb w F dir unk via) (inUni w uni) ffr
      (fuelFor w (resolvedNb w F dir unk via)) start
  | .dfti => T.dftIterative (resolvedNb w F dir unk via) (inUni w uni) ffr
      (fuelFor w (resolvedNb w F dir unk via)) start

theorem pureOut_filter (ffr : Nat → Bool) (kind : TravKind) (uni : Option VId) (start : VId)
    (dir unk : Nat) (via : Option Nat) :
    pureOut w F ffr kind uni start dir unk via =
      (pureOut w F (fun _ => true) kind uni start dir unk via).filter ffr := by
  cases kind
  · exact T.C06_ff_result_bft _ _ _ _ _
  · exact T.C06_ff_result_dftRecursive _ _ _ _ _
  · exact T.C06_ff_result_dftIterative _ _ _ _ _

/-- the guards of `traverse` / `search` pass when the start vertex is a member -/
theorem guards_pass (uni : Option VId) (start : VId) : InMem w uni start →
    (match uni with | some u => (w.members u).isEmpty | none => false) = false ∧
    (match uni with | some u => !((w.members u).contains start) | none => false) = false := by
  intro hu
  cases uni with
  | none => simp
  | some u =>
    simp only [InMem] at hu
    refine ⟨?_, by simpa using hu⟩
    cases hm : w.members u with
    | nil => rw [hm] at hu; simp at hu
    | cons a l => simp [hm]

theorem traverse_eq_cut (ffr : Nat → Bool) (kind : TravKind) (uni : Option VId) (start : VId)
    (dir unk : Nat) (via : Option Nat) (hu : InMem w uni start) :
    traverse w F ffr kind uni start dir unk via =
      cutOutput w F dir unk via (pureOut w F ffr kind uni start dir unk via) := by
  cases uni with
  | none => cases kind <;> simp [traverse, pureOut]
  | some u =>
    obtain ⟨g1, g2⟩ := guards_pass w (some u) start hu
    simp only at g1 g2
    cases kind <;> simp only [traverse, pureOut, g1, g2] <;> simp

theorem pureOut_exact (kind : TravKind) (uni : Option VId) (start : VId) (dir unk : Nat)
    (via : Option Nat) (ht : TotalNb w F dir unk via) (hs : start < w.nV)
    (hu : InMem w uni start) :
    (pureOut w F (fun _ => true) kind uni start dir unk via).Nodup ∧
    (pureOut w F (fun _ => true) kind uni start dir unk via).head? = some start ∧
    ∀ x, x ∈ pureOut w F (fun _ => true) kind uni start dir unk via ↔
      T.Reach (resolvedNb w F dir unk via) (inUni w uni) start x := by
  have hb := resolvedNb_bounded w F ht
  cases kind
  · exact T.C06_bft_exact _ _ _ hb _ hs _ (fuelFor_ge' w _)
  · exact T.C06_dftRecursive_exact _ _ _ hb _ hs _ (fuelFor_ge' w _)
  · exact T.C06_dftIterative_exact _ _ _ hb _ hs ((inUni_lt w uni hs).2 hu) _ (fuelFor_ge w _)

theorem pureOut_lt (kind : TravKind) (uni : Option VId) (start : VId) (dir unk : Nat)
    (via : Option Nat) (ht : TotalNb w F dir unk via) (hs : start < w.nV)
    (hu : InMem w uni start) :
    ∀ x ∈ pureOut w F (fun _ => true) kind uni start dir unk via, x < w.nV := by
  intro x hx
  have h := ((pureOut_exact w F kind uni start dir unk via ht hs hu).2.2 x).1 hx
  exact reach_lt (resolvedNb_bounded w F ht) hs h

/-- on a total world the traversal returns the pure listing, uncut -/
theorem traverse_eq_pure (ffr : Nat → Bool) (kind : TravKind) (uni : Option VId) (start : VId)
    (dir unk : Nat) (via : Option Nat) (ht : TotalNb w F dir unk via) (hs : start < w.nV)
    (hu : InMem w uni start) :
    traverse w F ffr kind uni start dir unk via =
      ((pureOut w F (fun _ => true) kind uni start dir unk via).filter ffr, none) := by
  rw [traverse_eq_cut w F ffr kind uni start dir unk via hu, pureOut_filter]
  apply cutOutput_id
  intro x hx
  exact pureOut_lt w F kind uni start dir unk via ht hs hu x (List.mem_filter.1 hx).1

theorem traverse_true_eq_pure (kind : TravKind) (uni : Option VId) (start : VId)
    (dir unk : Nat) (via : Option Nat) (ht : TotalNb w F dir unk via) (hs : start < w.nV)
    (hu : InMem w uni start) :
    traverse w F (fun _ => true) kind uni start dir unk via =
      (pureOut w F (fun _ => true) kind uni start dir unk via, none) := by
  rw [traverse_eq_pure w F _ kind uni start dir unk via ht hs hu]
  simp

/-! ### searches -/

/-- the traversal kind corresponding to a search kind -/
def travOf : SearchKind → TravKind
  | .bfs => .bft
  | .dfsr => .dftr
  | .dfsi => .dfti

/-- the result of the pure search loop of the given kind -/
def pureRes (kind : SearchKind) (uni : Option VId) (start : VId) (attr val : Nat) : Option Nat :=
  match kind with
  | .bfs => T.bfs (resolvedNb w F 0 2 none) (inUni w uni) (attrMatch w attr val)
      (fuelFor w (resolvedNb w F 0 2 none)) start
  | .dfsr => T.dfsRecursive (resolvedNb w F 0 2 none) (inUni w uni) (attrMatch w attr val)
      (fuelFor w (resolvedNb w F 0 2 none)) start
  | .dfsi => T.dfsIterative (resolvedNb w F 0 2 none) (inUni w uni) (attrMatch w attr val)
      (fuelFor w (resolvedNb w F 0 2 none)) start

theorem search_eq_res (kind : SearchKind) (uni : Option VId) (start : VId) (attr val : Nat)
    (hu : InMem w uni start) :
    search w F kind uni start attr val =
      match pureRes w F kind uni start attr val with
      | none => .inr none
      | some x =>
        if x > w.nV then .inl ((errOf w F 0 2 none (x - w.nV - 1)).getD .other) else .inr (some x) := by
  cases uni with
  | none => cases kind <;> simp [search, pureRes] <;> rfl
  | some u =>
    obtain ⟨g1, g2⟩ := guards_pass w (some u) start hu
    simp only at g1 g2
    cases kind <;> simp only [search, pureRes, g1, g2] <;> simp <;> rfl

theorem search_eq_find (kind : SearchKind) (uni : Option VId) (start : VId) (attr val : Nat)
    (ht : TotalNb w F 0 2 none) (hs : start < w.nV) (hu : InMem w uni start) :
    search w F kind uni start attr val =
      .inr ((pureOut w F (fun _ => true) (travOf kind) uni start 0 2 none).find?
        (hasAttrVal w attr val)) := by
  have hb := resolvedNb_bounded w F ht
  have hlt := pureOut_lt w F (travOf kind) uni start 0 2 none ht hs hu
  have hcongr : (pureOut w F (fun _ => true) (travOf kind) uni start 0 2 none).find?
        (hasAttrVal w attr val) =
      (pureOut w F (fun _ => true) (travOf kind) uni start 0 2 none).find? (attrMatch w attr val) :=
    find?_congr_mem _ _ _ (fun x hx => (attrMatch_lt w attr val (hlt x hx)).symm)
  rw [hcongr]
  have hres : pureRes w F kind uni start attr val =
      (pureOut w F (fun _ => true) (travOf kind) uni start 0 2 none).find? (attrMatch w attr val) := by
    cases kind
    · exact T.C08_bfs_eq_find _ _ _ _ _
    · exact T.C08_dfsRecursive_eq_find _ _ _ _ hb _ hs _ (fuelFor_ge' w _)
    · exact T.C08_dfsIterative_eq_find _ _ _ _ _
  rw [search_eq_res w F kind uni start attr val hu, hres]
  cases hf : (pureOut w F (fun _ => true) (travOf kind) uni start 0 2 none).find? (attrMatch w attr val) with
  | none => rfl
  | some x =>
    have hx : ¬ x > w.nV := by
      have := hlt x (List.mem_of_find?_eq_some hf)
      omega
    simp [hx]

end TO
end EG
