import EG.Query
/-
  EG.Render — mirror model of the output renderers
    output/plaintext.py : basic_render                      (C16)
    output/plantuml.py  : render_to_plantuml_src (structure) (C14)
    output/pyvis.py     : make_pyvis_net                     (C15)
  Renderings of vertices are token strings (`rf v`); Python `None` is vertex `none`.
-/
namespace EG
namespace R

/-! ### plain text -/

/-- `rfunc(x)` / `repr(x)` of a neighbour, as a token -/
abbrev RFun := Option VId → String

/-- `sorted(xs, key=sort)` : Python's `sorted` is stable; so is `List.mergeSort` -/
def sortBy (key : Option VId → Nat) (xs : List (Option VId)) : List (Option VId) :=
  xs.mergeSort (fun a b => key a ≤ key b)

/-- one line: `f"{start} -> "` followed by the neighbour renderings joined by ", " -/
def line (rf : RFun) (v : VId) (nbs : List (Option VId)) : String :=
  rf (some v) ++ " -> " ++ ", ".intercalate (nbs.map rf)

/-- the `for vert in verts` loop of `basic_render` (neighbors() with default settings may raise) -/
def renderLines (w : World) (F : Nat → LId → Option VId → Bool) (rf : RFun)
    (sort : Option (Option VId → Nat)) : List VId → Except Err (List String)
  | [] => .ok []
  | v :: vs =>
    match M.neighborsPure w F v 0 2 none with
    | .error e => .error e
    | .ok nbs =>
      let nbs := match sort with | some key => sortBy key nbs | none => nbs
      match renderLines w F rf sort vs with
      | .error e => .error e
      | .ok rest => .ok (line rf v nbs :: rest)

/-- `basic_render(uni=u, rfunc, sort)` : `None` for an empty universe, else the lines joined by "\n" -/
def basicRender (w : World) (F : Nat → LId → Option VId → Bool) (u : VId) (rf : RFun)
    (sort : Option (Option VId → Nat)) : Except Err (Option String) :=
  if (w.members u).isEmpty then .ok none else
  let verts := match sort with
    | some key => (sortBy key ((w.members u).map some)).filterMap id
    | none => w.members u
  match renderLines w F rf sort verts with
  | .error e => .error e
  | .ok ls => .ok (some ("\n".intercalate ls))

/-! ### PlantUML (structure of the source: declarations and relation lines) -/

/-- options of one configured class, as far as the structure is concerned -/
structure VOpts where
  type : String            -- "object", "class", …
  titleByAttr : Bool       -- false: `$id`;  true: the title is formatted from attribute a0
  viaAttr : Bool           -- the replacement field reads an attribute OF the value (`{a0.real}`): numbers only
  deriving Repr, DecidableEq

structure LOpts where
  v1side : String
  v2side : String
  deriving Repr, DecidableEq

/-- an option table: which vertex / link classes are configured (`_resolve_options` walks the
    MRO: SV, FV, UNI fall back to V; DD to D; UU to U; X and N are not configured by default) -/
structure POpts where
  vopt : VCls → Option VOpts
  lopt : LCls → Option LOpts

/-- the method resolution order of a vertex class (`type(vertex).__mro__` up to Vertex) -/
def vMro : VCls → List VCls
  | .V => [.V] | .SV => [.SV, .V] | .FV => [.FV, .V] | .UNI => [.UNI, .V]
  | .MX => [.MX, .V] | .MV => [.MV, .SV, .MX, .V]

/-- the method resolution order of a link class, up to the edge classes -/
def lMro : LCls → List LCls
  | .DD => [.DD, .D] | .UU => [.UU, .U] | .DU => [.DU, .D, .U] | c => [c]

/-- `_resolve_options(type(vertex), options)` : nearest configured class, else ValueError -/
def resolveV (o : POpts) (c : VCls) : Except Err VOpts :=
  match (vMro c).findSome? o.vopt with
  | some x => .ok x
  | none => .error .value

def resolveL (o : POpts) (c : LCls) : Except Err LOpts :=
  match (lMro c).findSome? o.lopt with
  | some x => .ok x
  | none => .error .value

/-- `_vertex_title` : `hex(id(v))` (token `id<v>`) or the value of attribute a0 (token `T<val>`);
    formatting from a missing attribute raises KeyError -/
def title (w : World) (vo : VOpts) (v : VId) : Except Err String :=
  if vo.titleByAttr then
    match (w.attrs v).find? (·.1 == 0) with
    | some (_, val) =>
      -- value classes 0, 1, 2 are numbers (they have `.real`, equal to themselves); str / tuple / None have not
      if vo.viaAttr && val > 2 then .error .attribute else .ok s!"T{val}"
    | none => .error .key
  else .ok s!"id{v}"

def clsName : VCls → String
  | .V => "Vertex" | .SV => "SV" | .FV => "FV" | .UNI => "Universe" | .MX => "MX" | .MV => "MV"

/-- the header line of `_one_vert_to_puml` -/
def declOf (w : World) (o : POpts) (v : VId) : Except Err String :=
  match resolveV o (w.vcls v) with
  | .error e => .error e
  | .ok vo =>
    match title w vo v with
    | .error e => .error e
    | .ok t => .ok s!"{vo.type} {t} <<{clsName (w.vcls v)}>>"

/-- `_one_link_to_puml` : needs v1 and v2 (IndexError when an end is missing, AttributeError for
    an n-ary link, ValueError when an end is None: `type(None)` has no configured superclass) -/
def relOf (w : World) (o : POpts) (l : LId) : Except Err String :=
  match resolveL o (w.lcls l) with
  | .error e => .error e
  | .ok lo =>
    if (w.lcls l).kind = .nary then .error .attribute else
    match w.ends l with
    | a :: b :: _ =>
      match a, b with
      | some a, some b =>
        match resolveV o (w.vcls a), resolveV o (w.vcls b) with
        | .ok oa, .ok ob =>
          match title w oa a, title w ob b with
          | .ok ta, .ok tb => .ok s!"{ta} {lo.v1side}--{lo.v2side} {tb}"
          | .error e, _ => .error e
          | _, .error e => .error e
        | .error e, _ => .error e
        | _, .error e => .error e
      | _, _ => .error .value
    | _ => .error .index

def mapE {α β : Type} (f : α → Except Err β) : List α → Except Err (List β)
  | [] => .ok []
  | x :: xs => match f x with
    | .error e => .error e
    | .ok y => match mapE f xs with
      | .error e => .error e
      | .ok ys => .ok (y :: ys)

/-- the links shown: `links |= set(vert.links)` over the members, here without repetition in
    first-seen order (the Python iterates a set: order unspecified) -/
def shownLinks (w : World) (u : VId) : List LId :=
  ((w.members u).flatMap w.links).eraseDups

/-- the structure of `render_to_plantuml_src(uni=u, options)` : `None` for an empty universe,
    else the declaration lines (member order) and the relation lines (unordered) -/
def pumlDoc (w : World) (o : POpts) (u : VId) : Except Err (Option (List String × List String)) :=
  if (w.members u).isEmpty then .ok none else
  match mapE (declOf w o) (w.members u) with
  | .error e => .error e
  | .ok decls =>
    match mapE (relOf w o) (shownLinks w u) with
    | .error e => .error e
    | .ok rels => .ok (some (decls, rels))

/-! ### PyVis -/

structure PEdge where
  src : Nat
  dst : Nat
  arrows : Bool          -- `net.directed` at the time of `add_edge`
  title : Option String
  deriving Repr, DecidableEq

/-- `Network.add_edge(i, j)` with `self.directed = dir` : for an undirected add no edge is added
    when one already joins the pair (in either orientation, whatever its arrows) -/
def addEdge (es : List PEdge) (i j : Nat) (dir : Bool) (t : Option String) : List PEdge :=
  if !dir && es.any (fun e => (i == e.dst && j == e.src) || (i == e.src && j == e.dst)) then es
  else es ++ [⟨i, j, dir, t⟩]

/-- index of a member (identity-keyed lookup) -/
def indexOf? (ms : List VId) (x : VId) : Option Nat :=
  let i := ms.idxOf x
  if i < ms.length then some i else none

/-- the `for edge in vert.links` loop for member number `i` = vertex `v` -/
def edgesOf (w : World) (ms : List VId) (re : Option (LId → String)) (i : Nat) (v : VId) :
    List LId → List PEdge → Except Err (List PEdge)
  | [], es => .ok es
  | l :: ls, es =>
    if (w.lcls l).kind = .nary then .error .attribute else
    match w.ends l with
    | a :: b :: _ =>
      -- only draw when we're at the *from* node (a self-loop is both; drawn once)
      if b = some v ∧ a ≠ some v then edgesOf w ms re i v ls es else
      let other := if a = some v then b else if b = some v then a else none
      match other.bind (indexOf? ms) with
      | none => edgesOf w ms re i v ls es           -- not a member
      | some j =>
        let dir := (w.lcls l).subDirected
        edgesOf w ms re i v ls (addEdge es i j dir (re.map (· l)))
    | _ => .error .index

def allEdges (w : World) (ms : List VId) (re : Option (LId → String)) :
    List (Nat × VId) → List PEdge → Except Err (List PEdge)
  | [], es => .ok es
  | (i, v) :: rest, es =>
    match edgesOf w ms re i v (w.links v) es with
    | .error e => .error e
    | .ok es => allEdges w ms re rest es

/-- `make_pyvis_net(uni=u, rvfunc, refunc)` : nodes (id, label) in member order, and the edges -/
def pyvisNet (w : World) (u : VId) (rv : VId → String) (re : Option (LId → String)) :
    Except Err (List (Nat × String) × List PEdge) :=
  let ms := w.members u
  let idx := (List.range ms.length).zip ms
  match allEdges w ms re idx [] with
  | .error e => .error e
  | .ok es => .ok (idx.map (fun p => (p.1, rv p.2)), es)

end R
end EG
