import EG.Proofs.RenderLemmas
/-
  C15 — PyVis export: one node per member vertex, only real edges, correctly directed.
  `ms = w.members u`; node ids are positions in `ms`.
-/
namespace EG
namespace R

/-- exactly one node per member, ids 0..n-1 in universe order, labelled by rvfunc -/
theorem C15_nodes (w : World) (u : VId) (rv : VId → String) (re : Option (LId → String))
    (nodes : List (Nat × String)) (edges : List PEdge) (h : pyvisNet w u rv re = .ok (nodes, edges)) :
    nodes = ((List.range (w.members u).length).zip (w.members u)).map (fun p => (p.1, rv p.2)) := by
  exact (pyvisNet_ok w u rv re nodes edges h).1

/-- edge `e` is the drawing of link `l`: `l` is attached to the member at position `e.src`, that
    member is its v1, the member at position `e.dst` is its v2, and the edge is arrowed exactly
    when the link is a directed edge -/
def DrawnFrom (w : World) (ms : List VId) (e : PEdge) (l : LId) : Prop :=
  ∃ a b rest, w.ends l = some a :: some b :: rest ∧ l ∈ w.links a ∧
    indexOf? ms a = some e.src ∧ indexOf? ms b = some e.dst ∧
    e.arrows = ((w.lcls l).subDirected)

/-- every edge corresponds to a link between the two MEMBER vertices it joins, oriented v1→v2,
    arrowed iff the link is a directed edge; in particular no edge or node is produced for a
    vertex outside the universe -/
theorem C15_edges_sound (w : World) (u : VId) (rv : VId → String) (re : Option (LId → String))
    (nodes : List (Nat × String)) (edges : List PEdge) (hn : (w.members u).Nodup)
    (h : pyvisNet w u rv re = .ok (nodes, edges)) :
    ∀ e ∈ edges, e.src < (w.members u).length ∧ e.dst < (w.members u).length ∧
      ∃ l, DrawnFrom w (w.members u) e l := by
  obtain ⟨_, he⟩ := pyvisNet_ok w u rv re nodes edges h
  have hidx : ∀ p ∈ (List.range (w.members u).length).zip (w.members u),
      indexOf? (w.members u) p.2 = some p.1 :=
    fun p hp => indexOf?_of_getElem? _ hn _ _ (mem_zip_range _ p.1 p.2 hp)
  intro e hmem
  obtain ⟨h1, h2, l, hl⟩ :=
    allEdges_sound w _ re _ hidx [] edges (fun e he => absurd he (by simp)) he e hmem
  exact ⟨h1, h2, l, hl⟩

/-- arrowed edges i→j are in one-to-one correspondence with the directed links from member i to
    member j: their number equals the number of such links -/
theorem C15_arrowed_count (w : World) (u : VId) (rv : VId → String) (re : Option (LId → String))
    (nodes : List (Nat × String)) (edges : List PEdge) (hs : Sym w) (hn : (w.members u).Nodup)
    (h : pyvisNet w u rv re = .ok (nodes, edges)) (i j : Nat) (a b : VId)
    (hi : (w.members u)[i]? = some a) (hj : (w.members u)[j]? = some b) :
    (edges.filter (fun e => e.arrows && e.src == i && e.dst == j)).length =
      ((w.links a).filter (fun l => (w.lcls l).subDirected &&
        (w.ends l).take 2 == [some a, some b])).length := by
  have _ := hs  -- symmetry is not needed for the count
  obtain ⟨_, he⟩ := pyvisNet_ok w u rv re nodes edges h
  have hilt : i < (w.members u).length := (List.getElem?_eq_some_iff.mp hi).1
  have hb : ∀ x, indexOf? (w.members u) x = some j ↔ x = b := by
    intro x
    constructor
    · intro hx
      have := (indexOf?_some _ _ _ hx).2
      rw [hj] at this
      simpa using this.symm
    · intro hx; subst hx; exact indexOf?_of_getElem? _ hn _ _ hj
  have hidx : ∀ p ∈ (List.range (w.members u).length).zip (w.members u), p.1 = i → p.2 = a := by
    intro p hp hpi
    have := mem_zip_range _ p.1 p.2 hp
    rw [hpi, hi] at this
    simpa using this.symm
  have := allEdges_arrowed w _ re i j a b hb _ hidx [] edges he
  rw [zip_range_filter _ i hilt] at this
  simpa [arrowed] using this

/-- conversely every link whose two ends are members, including a self-loop, leaves its pair of
    nodes joined by at least one edge -/
theorem C15_complete (w : World) (u : VId) (rv : VId → String) (re : Option (LId → String))
    (nodes : List (Nat × String)) (edges : List PEdge) (hs : Sym w) (hn : (w.members u).Nodup)
    (h : pyvisNet w u rv re = .ok (nodes, edges)) (l : LId) (a b : VId) (i j : Nat)
    (he : w.ends l = [some a, some b])
    (hi : (w.members u)[i]? = some a) (hj : (w.members u)[j]? = some b) :
    ∃ e ∈ edges, (e.src = i ∧ e.dst = j) ∨ (e.src = j ∧ e.dst = i) := by
  obtain ⟨_, hed⟩ := pyvisNet_ok w u rv re nodes edges h
  have hl : l ∈ w.links a := (hs.1 a l).mpr (by simp [he])
  have hia : (i, a) ∈ (List.range (w.members u).length).zip (w.members u) := by
    rw [List.mem_iff_getElem?]
    refine ⟨i, ?_⟩
    rw [List.getElem?_zip_eq_some]
    have hilt : i < (w.members u).length := (List.getElem?_eq_some_iff.mp hi).1
    exact ⟨by simp [hilt], hi⟩
  exact allEdges_joins w _ re _ [] edges i j a b l hia hl he (indexOf?_of_getElem? _ hn _ _ hj) hed

/-- non-vacuity: mixed parallel edges and a self-loop -/
example :
    let w := (M.run (fun _ _ _ => true)
      [.newVertex .V [] [] [], .newVertex .V [] [] [], .newVertex .V [] [] [],
       .newEdge .D (some 0) (some 1), .newEdge .U (some 1) (some 0), .newEdge .D (some 0) (some 0),
       .newEdge .D (some 1) (some 2), .newUniverse [] [0, 1] none]).1
    (match pyvisNet w 3 (fun v => s!"v{v}") none with
     | .ok (ns, es) => (ns, es.map fun e => (e.src, e.dst, e.arrows))
     | .error _ => ([], [])) = ([(0, "v0"), (1, "v1")], [(0, 1, true), (0, 0, true)]) := by
  decide +kernel

end R
end EG
