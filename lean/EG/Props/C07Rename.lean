import EG.Props.C07
/-
  C07, "rebuilding the same graph gives the same listing" — the renaming form.
  A graph rebuilt with fresh objects is the same graph under an injective renaming `ρ` of its
  vertices: the neighbour lists correspond (`nb' (ρ x) = (nb x).map ρ`), and so do universe
  membership and the result filter.  The three traversals are EQUIVARIANT: what they list from
  `ρ start` on the renamed graph is the `ρ`-image, position by position, of what they list from
  `start` on the original — for every graph, every fuel, every injective `ρ`.  So the listing
  depends on the link order alone, not on the identity of the objects (their addresses, uids,
  hash values, creation order).
-/
set_option linter.unusedSimpArgs false
set_option linter.unusedVariables false
namespace EG
namespace T

section rename

variable {nb nb' : Nat → List Nat} {inU inU' ffr ffr' : Nat → Bool} {ρ : Nat → Nat}

theorem mem_map_inj (hρ : Function.Injective ρ) (v : Nat) (l : List Nat) : ρ v ∈ l.map ρ ↔ v ∈ l := by
  constructor
  · intro h
    obtain ⟨x, hx, e⟩ := List.mem_map.mp h
    rw [← hρ e]; exact hx
  · intro h; exact List.mem_map.mpr ⟨v, h, rfl⟩

theorem bftScan_rename (hρ : Function.Injective ρ) (hU : ∀ x, inU' (ρ x) = inU x)
    (hF : ∀ x, ffr' (ρ x) = ffr x) : ∀ (vs vis q out : List Nat),
    bftScan inU' ffr' (vis.map ρ) (q.map ρ) (out.map ρ) (vs.map ρ) =
      ((bftScan inU ffr vis q out vs).1.map ρ, (bftScan inU ffr vis q out vs).2.1.map ρ,
       (bftScan inU ffr vis q out vs).2.2.map ρ) := by
  intro vs
  induction vs with
  | nil => intro vis q out; rfl
  | cons v vs ih =>
    intro vis q out
    simp only [List.map_cons, bftScan, hU, hF]
    by_cases h1 : inU v = true
    · by_cases h2 : v ∈ vis
      · have h2' : ρ v ∈ vis.map ρ := (mem_map_inj hρ v vis).mpr h2
        simp only [h1, h2, h2', Bool.not_true, Bool.false_eq_true, if_false, if_true]
        exact ih vis q out
      · have h2' : ¬ ρ v ∈ vis.map ρ := fun h => h2 ((mem_map_inj hρ v vis).mp h)
        simp only [h1, h2, h2', Bool.not_true, Bool.false_eq_true, if_false]
        have := ih (vis ++ [v]) (q ++ [v]) (if ffr v = true then out ++ [v] else out)
        simp only [List.map_append, List.map_cons, List.map_nil] at this
        by_cases h3 : ffr v = true
        · simp only [h3, if_true, List.map_append, List.map_cons, List.map_nil] at this ⊢; exact this
        · simp only [h3, if_false, Bool.false_eq_true] at this ⊢; exact this
    · simp only [h1, Bool.not_false, if_true]
      exact ih vis q out

theorem bftLoop_rename (hρ : Function.Injective ρ) (hnb : ∀ x, nb' (ρ x) = (nb x).map ρ)
    (hU : ∀ x, inU' (ρ x) = inU x) (hF : ∀ x, ffr' (ρ x) = ffr x) : ∀ (f : Nat) (vis q out : List Nat),
    bftLoop nb' inU' ffr' f (vis.map ρ) (q.map ρ) (out.map ρ) = (bftLoop nb inU ffr f vis q out).map ρ := by
  intro f
  induction f with
  | zero => intro vis q out; rfl
  | succ f ih =>
    intro vis q out
    cases q with
    | nil => rfl
    | cons u q =>
      simp only [List.map_cons, bftLoop, hnb, bftScan_rename hρ hU hF]
      exact ih _ _ _

/-- breadth-first listing of the rebuilt graph = image of the listing of the original -/
theorem C07_bft_rename_equivariant (hρ : Function.Injective ρ) (hnb : ∀ x, nb' (ρ x) = (nb x).map ρ)
    (hU : ∀ x, inU' (ρ x) = inU x) (hF : ∀ x, ffr' (ρ x) = ffr x) (fuel start : Nat) :
    bft nb' inU' ffr' fuel (ρ start) = (bft nb inU ffr fuel start).map ρ := by
  have := bftLoop_rename hρ hnb hU hF fuel [start] [start] (if ffr start = true then [start] else [])
  simp only [bft, hF]
  by_cases h : ffr start = true
  · simp only [h, if_true, List.map_cons, List.map_nil] at this ⊢; exact this
  · simp only [h, if_false, Bool.false_eq_true, List.map_cons, List.map_nil] at this ⊢; exact this

theorem dftRec_rename (hρ : Function.Injective ρ) (hnb : ∀ x, nb' (ρ x) = (nb x).map ρ)
    (hU : ∀ x, inU' (ρ x) = inU x) (hF : ∀ x, ffr' (ρ x) = ffr x) : ∀ (f : Nat) (vis out : List Nat) (v : Nat),
    dftRec nb' inU' ffr' f (vis.map ρ, out.map ρ) (ρ v) =
      ((dftRec nb inU ffr f (vis, out) v).1.map ρ, (dftRec nb inU ffr f (vis, out) v).2.map ρ) := by
  intro f
  induction f with
  | zero => intro vis out v; rfl
  | succ f ih =>
    intro vis out v
    simp only [dftRec, hnb, hF]
    have hinit : ((vis.map ρ ++ [ρ v], if ffr v = true then out.map ρ ++ [ρ v] else out.map ρ) : List Nat × List Nat) =
        ((vis ++ [v]).map ρ, (if ffr v = true then out ++ [v] else out).map ρ) := by
      by_cases h : ffr v = true <;> simp [h]
    rw [hinit]
    generalize (vis ++ [v]) = vis1
    generalize (if ffr v = true then out ++ [v] else out) = out1
    generalize nb v = l
    induction l generalizing vis1 out1 with
    | nil => rfl
    | cons w ws ihl =>
      simp only [List.map_cons, List.foldl_cons, hU]
      by_cases h1 : inU w = true
      · by_cases h2 : w ∈ vis1
        · have h2' : ρ w ∈ vis1.map ρ := (mem_map_inj hρ w vis1).mpr h2
          simp only [h1, h2, h2', Bool.not_true, Bool.false_eq_true, if_false, if_true]
          exact ihl vis1 out1
        · have h2' : ¬ ρ w ∈ vis1.map ρ := fun h => h2 ((mem_map_inj hρ w vis1).mp h)
          simp only [h1, h2, h2', Bool.not_true, Bool.false_eq_true, if_false]
          rw [ih vis1 out1 w]
          exact ihl _ _
      · simp only [h1, Bool.not_false, if_true]
        exact ihl vis1 out1

/-- recursive depth-first listing -/
theorem C07_dftRecursive_rename_equivariant (hρ : Function.Injective ρ)
    (hnb : ∀ x, nb' (ρ x) = (nb x).map ρ) (hU : ∀ x, inU' (ρ x) = inU x) (hF : ∀ x, ffr' (ρ x) = ffr x)
    (fuel start : Nat) :
    dftRecursive nb' inU' ffr' fuel (ρ start) = (dftRecursive nb inU ffr fuel start).map ρ := by
  have := dftRec_rename hρ hnb hU hF fuel [] [] start
  simp only [List.map_nil] at this
  simp only [dftRecursive, this]

theorem dftIterLoop_rename (hρ : Function.Injective ρ) (hnb : ∀ x, nb' (ρ x) = (nb x).map ρ)
    (hU : ∀ x, inU' (ρ x) = inU x) (hF : ∀ x, ffr' (ρ x) = ffr x) : ∀ (f : Nat) (st disc out : List Nat),
    dftIterLoop nb' inU' ffr' f (st.map ρ) (disc.map ρ) (out.map ρ) =
      (dftIterLoop nb inU ffr f st disc out).map ρ := by
  intro f
  induction f with
  | zero => intro st disc out; rfl
  | succ f ih =>
    intro st disc out
    cases st with
    | nil => rfl
    | cons v st =>
      simp only [List.map_cons, dftIterLoop, hU, hF, hnb]
      by_cases h1 : v ∈ disc
      · have h1' : ρ v ∈ disc.map ρ := (mem_map_inj hρ v disc).mpr h1
        simp only [h1, h1', if_true]; exact ih _ _ _
      · have h1' : ¬ ρ v ∈ disc.map ρ := fun h => h1 ((mem_map_inj hρ v disc).mp h)
        by_cases h2 : inU v = true
        · simp only [h1, h1', h2, if_false, Bool.not_true, Bool.false_eq_true]
          have := ih ((nb v).reverse ++ st) (disc ++ [v]) (if ffr v = true then out ++ [v] else out)
          simp only [List.map_append, List.map_reverse, List.map_cons, List.map_nil] at this
          by_cases h3 : ffr v = true
          · simp only [h3, if_true, List.map_append, List.map_cons, List.map_nil] at this ⊢; exact this
          · simp only [h3, if_false, Bool.false_eq_true] at this ⊢; exact this
        · simp only [h1, h1', h2, if_false, Bool.not_false, if_true]; exact ih _ _ _

/-- iterative depth-first listing -/
theorem C07_dftIterative_rename_equivariant (hρ : Function.Injective ρ)
    (hnb : ∀ x, nb' (ρ x) = (nb x).map ρ) (hU : ∀ x, inU' (ρ x) = inU x) (hF : ∀ x, ffr' (ρ x) = ffr x)
    (fuel start : Nat) :
    dftIterative nb' inU' ffr' fuel (ρ start) = (dftIterative nb inU ffr fuel start).map ρ := by
  have := dftIterLoop_rename hρ hnb hU hF fuel [start] [] []
  simpa [dftIterative] using this

end rename

/-- non-vacuity: the path 0 → 1 → 2 rebuilt as 12 → 11 → 10 (ρ x = 12 - x on the vertices) -/
example :
    let nb : Nat → List Nat := fun x => if x = 0 then [1] else if x = 1 then [2] else []
    let nb' : Nat → List Nat := fun x => if x = 12 then [11] else if x = 11 then [10] else []
    bft nb' (fun _ => true) (fun _ => true) 10 12 = (bft nb (fun _ => true) (fun _ => true) 10 0).map (12 - ·) := by
  decide +kernel

end T
end EG
