import EG.Generated.PyvisTable
/-
  C15 (the tie to the code, regenerated on every run) — the real `make_pyvis_net`, evaluated
  on every world of two links (first link: 6 classes × ends among two members and an outsider;
  second link: 6 classes × ends among the members; 1296 rows), draws exactly the edges the
  mirror model `R.pyvisNet` draws, in the same order with the same arrows; and on every row the
  edge list satisfies the statement (sound, one arrowed edge per directed link, complete).
  Kernel evaluation over the complete table.
-/
namespace EG
namespace Tab

theorem C15_table_complete : implPv.length = 1296 := by decide +kernel

/-- real code = mirror model on every row -/
theorem C15_impl_eq_model : implPv.all pvRowOk = true := by decide +kernel

/-- real code satisfies the statement on every row -/
theorem C15_impl_eq_spec : implPv.all pvRowSpecOk = true := by decide +kernel

end Tab
end EG
