import EG.Proofs.BuildLemmas
set_option linter.unusedVariables false  -- `hc` belongs to the statement of C20_builds but is not needed
/-
  C20 — randgraph always returns a universe of exactly `count` well-formed vertices.
  The random generator is an oracle: `draws` are its answers (one `randint` value and one
  `sample` per vertex), and `drawsOK` says they are answers `random.randint(1, max(1,i))` and
  `random.sample(verts, k)` can give.  "For every state of the RNG" = for all admissible draws.
-/
namespace EG

/-- the number of vertices asked of `random.sample` never exceeds the population, whatever
    `randint` returned and however the floating-point product rounds: `sample` cannot raise -/
theorem C20_k_le_count (count r p q : Nat) (ensure : Bool) : C.randK count r p q ensure ≤ count := by
  exact B.randK_le count r p q ensure

/-- with ensurelink at least one neighbour is drawn for every vertex -/
theorem C20_k_pos (count r p q : Nat) (hc : 1 ≤ count) : 1 ≤ C.randK count r p q true := by
  exact B.randK_pos count r p q hc

theorem C20_builds (w : World) (count : Nat) (c : LCls) (conn : Option (Nat × Nat)) (ensure : Bool)
    (draws : List C.Draw) (h : Inv w) (hc : c.kind ≠ .nary) (hcount : 1 ≤ count)
    (hq : ∀ pq, conn = some pq → pq.2 ≠ 0)
    (hlen : draws.length = count)
    (hok : C.drawsOK count (conn.getD (5, count)).1 (conn.getD (5, count)).2 ensure 0 draws = true) :
    ∃ w', C.randgraph M.prims w count c conn ensure draws = .ok (w', w.nV + count) ∧
      Inv w' ∧
      -- exactly `count` vertices, carrying i = 0 .. count-1
      (w'.members (w.nV + count)).Nodup ∧
      (∀ x, x ∈ w'.members (w.nV + count) ↔ w.nV ≤ x ∧ x < w.nV + count) ∧
      (∀ i, i < count → w'.attrs (w.nV + i) = [(99, i)]) ∧
      -- every new link is of the requested type with both ends inside the universe
      (∀ l, w.nL ≤ l → l < w'.nL → w'.lcls l = c ∧
        ∃ a b, w'.ends l = [some a, some b] ∧ a ∈ w'.members (w.nV + count) ∧ b ∈ w'.members (w.nV + count)) ∧
      -- pre-existing links are untouched and none of them is attached to a new vertex
      (∀ l, l < w.nL → w'.ends l = w.ends l) ∧
      (∀ i, i < count → ∀ l ∈ w'.links (w.nV + i), w.nL ≤ l) ∧
      -- with ensurelink every vertex is the first end of at least one link
      (ensure = true → ∀ i, i < count → ∃ l, w.nL ≤ l ∧ l < w'.nL ∧ (w'.ends l).head? = some (some (w.nV + i))) := by
  exact B.randgraph_spec w count c conn ensure draws h hcount hq hlen hok

/-- reproducibility: the result is a function of the generator's answers alone -/
theorem C20_reproducible (w : World) (count : Nat) (c : LCls) (conn : Option (Nat × Nat)) (ensure : Bool)
    (d1 d2 : List C.Draw) (h : d1.map (fun d => (d.r, d.sample)) = d2.map (fun d => (d.r, d.sample))) :
    C.randgraph M.prims w count c conn ensure d1 = C.randgraph M.prims w count c conn ensure d2 := by
  rw [B.draw_eq_of_map d1 d2 h]

/-- non-vacuity: count = 1 with the default connectivity 5/1 (the case that used to raise) -/
example : C.randK 1 1 5 1 true = 1 ∧ C.randK 3 2 5 3 false = 3 ∧ C.randK 10 3 3 10 false = 0 := by
  decide +kernel

end EG
