import EG.Proofs.TravOrder
/-
  C07 — traversal order is the canonical BFS / DFS order induced by link order.
  `nb v` is the ordered `neighbors()` list of `v` (itself in `v.links` order, C04), so these
  are statements about the order induced by link order.  Property theorems only.
-/
namespace EG
namespace T

variable (nb : Nat → List Nat) (inU : Nat → Bool)

-- holds for every fuel and without boundedness: `hb`, `hs`, `hf` are not needed by the proof
set_option linter.unusedVariables false in
/-- BFS: there is a hop-distance function `d` such that every listed vertex is reachable in
    exactly `d x` hops and not in fewer (it appears at its shortest distance), and the
    distance never decreases along the output -/
theorem C07_bft_monotone_distance (n : Nat) (hb : Bounded nb n) (s : Nat) (hs : s < n) (f : Nat)
    (hf : n + 1 ≤ f) :
    ∃ d : Nat → Nat,
      (∀ x ∈ bft nb inU (fun _ => true) f s,
        ReachIn nb inU s (d x) x ∧ ∀ k, k < d x → ¬ ReachIn nb inU s k x) ∧
      (bft nb inU (fun _ => true) f s).Pairwise (fun a b => d a ≤ d b) :=
  bft_monotone_distance s f

/-- BFS examines the neighbours of each listed vertex in listing order: the output is the
    start followed, for each listed vertex in turn, by those of its in-universe neighbours
    (in `nb` order, first occurrence) that are not listed before -/
def bftChildren (listed : List Nat) : List Nat → List Nat
  | [] => []
  | w :: ws =>
    if inU w = true ∧ w ∉ listed then w :: bftChildren (listed ++ [w]) ws
    else bftChildren listed ws

/-- unfold the listing `out` from position `i` on: everything listed so far is `acc` -/
def bftSpec : Nat → List Nat → Nat → List Nat
  | 0, acc, _ => acc
  | f+1, acc, i =>
    match acc[i]? with
    | none => acc
    | some u => bftSpec f (acc ++ bftChildren inU acc (nb u)) (i + 1)

theorem bftChildren_eq_bftNew (ws : List Nat) : ∀ listed : List Nat,
    bftChildren inU listed ws = bftNew inU listed ws := by
  induction ws with
  | nil => intro listed; simp [bftChildren, bftNew]
  | cons w ws ih =>
    intro listed
    by_cases h1 : inU w = true <;> by_cases h2 : w ∈ listed <;>
      simp [bftChildren, bftNew, h1, h2, ih]

theorem bftSpec_eq_bftSpecN : ∀ (f : Nat) (acc : List Nat) (i : Nat),
    bftSpec nb inU f acc i = bftSpecN nb inU f acc i := by
  intro f
  induction f with
  | zero => intros; simp [bftSpec, bftSpecN]
  | succ f ih =>
    intro acc i
    simp only [bftSpec, bftSpecN, bftChildren_eq_bftNew, ih]
    cases acc[i]? <;> rfl

-- holds for every fuel and without boundedness: `hb`, `hs`, `hf` are not needed by the proof
set_option linter.unusedVariables false in
theorem C07_bft_listing_order (n : Nat) (hb : Bounded nb n) (s : Nat) (hs : s < n) (f : Nat)
    (hf : n + 1 ≤ f) :
    bft nb inU (fun _ => true) f s = bftSpec nb inU f [s] 0 := by
  rw [bftSpec_eq_bftSpecN, ← bftLoop_eq_specN]
  simp [bft]

/-- recursive DFS is pre-order: called on an unlisted vertex `v` with `vis` already listed, it
    lists `v` first and then exactly the vertices reachable from `v` along paths avoiding
    everything listed before (its whole subtree), before returning -/
theorem C07_dftRec_segment (n : Nat) (hb : Bounded nb n) (vis out : List Nat) (v f : Nat)
    (hv : v < n) (hnv : v ∉ vis) (hvis : vis.Nodup) (hlt : ∀ y ∈ vis, y < n) (hf : n + 1 ≤ f) :
    ∃ seg : List Nat,
      dftRec nb inU (fun _ => true) f (vis, out) v = (vis ++ seg, out ++ seg) ∧
      seg.head? = some v ∧ seg.Nodup ∧
      ∀ y, y ∈ seg ↔ ReachAvoiding nb inU vis v y :=
  dftRec_segment hb vis out v f hv hnv hvis hlt hf

/-- pre-order unfolding: after a vertex come, for each of its neighbours in order, nothing if
    that neighbour is outside the universe or already listed, and otherwise that neighbour's
    own complete listing -/
theorem C07_dftRec_unfold (vis out : List Nat) (v f : Nat) :
    dftRec nb inU (fun _ => true) (f + 1) (vis, out) v =
      (nb v).foldl
        (fun s w => if inU w = true ∧ w ∉ s.1 then dftRec nb inU (fun _ => true) f s w else s)
        (vis ++ [v], out ++ [v]) := by
  rw [dftRec_unfold]; rfl

/-- the explicit-stack DFS expands the most recently pushed neighbour first: it lists the
    vertices exactly as the recursive DFS does on the graph with every neighbour list reversed -/
theorem C07_dftIter_eq_dftRec_reversed (n : Nat) (hb : Bounded nb n) (s : Nat) (hs : s < n)
    (hsU : inU s = true) (ffr : Nat → Bool) :
    dftIterative nb inU ffr (n + degSum nb n + 2) s =
      dftRecursive (fun v => (nb v).reverse) inU ffr (n + 1) s :=
  dftIter_eq_dftRec_reversed ffr hb s hs hsU

/-- each order is a function of the link order of the reachable part alone: two graphs whose
    neighbour lists and universe tests agree on everything reachable from the start give the
    same three sequences (in particular: repeating a call, or rebuilding the same graph in the
    same order, gives the same sequence) -/
theorem C07_function_of_link_order (nb' : Nat → List Nat) (inU' : Nat → Bool) (s : Nat) (f : Nat)
    (ffr : Nat → Bool)
    (hnb : ∀ x, Reach nb inU s x → nb x = nb' x) (hU : ∀ x, inU x = inU' x) :
    bft nb inU ffr f s = bft nb' inU' ffr f s ∧
    dftRecursive nb inU ffr f s = dftRecursive nb' inU' ffr f s ∧
    (inU s = true → dftIterative nb inU ffr f s = dftIterative nb' inU' ffr f s) := by
  have : inU = inU' := funext hU
  subst this
  refine ⟨bftLoop_congr ffr nb' hnb f _ _ _ (fun x hx => ?_),
    congrArg Prod.snd (dftRec_congr ffr nb' hnb f _ s .refl),
    fun _ => dftIterLoop_congr ffr nb' hnb f _ _ _ (fun x hx _ => ?_)⟩
  · simp at hx; subst hx; exact .refl
  · simp at hx; subst hx; exact .refl

/-- non-vacuity: orders differ between the three traversals and depend on link order -/
example :
    let nb : Nat → List Nat := fun v => match v with
      | 0 => [1, 2] | 1 => [3] | 2 => [3, 4] | 3 => [5] | _ => []
    let nb' : Nat → List Nat := fun v => match v with
      | 0 => [2, 1] | 1 => [3] | 2 => [3, 4] | 3 => [5] | _ => []
    bft nb (fun _ => true) (fun _ => true) 9 0 = [0, 1, 2, 3, 4, 5] ∧
    dftRecursive nb (fun _ => true) (fun _ => true) 9 0 = [0, 1, 3, 5, 2, 4] ∧
    dftIterative nb (fun _ => true) (fun _ => true) 20 0 = [0, 2, 4, 3, 5, 1] ∧
    bft nb' (fun _ => true) (fun _ => true) 9 0 = [0, 2, 1, 3, 4, 5] ∧
    bftSpec nb (fun _ => true) 9 [0] 0 = [0, 1, 2, 3, 4, 5] := by decide

end T
end EG
