import EG.Proofs.ReadbackLemmas
set_option linter.unusedVariables false  -- `hs` / `hn` belong to the statement but are not needed
/-
  C11 (read-back) and C03 (order-independence of unlink's loop over a Python set).
-/
namespace EG

/-- multiplicity of the ordered pair (x, y) in the listed pairs -/
def mult (pairs : List (VId × VId)) (x y : VId) : Nat := (pairs.filter (fun p => p.1 == x && p.2 == y)).length

/-- reading the result of `load_adj_dict` back with `neighbors()` reproduces the input adjacency:
    for a vertex `x` that had no links before, `y` occurs among its neighbours under
    DIR_SENS_ANY exactly as often as (x, y) or (y, x) was listed (a self entry counted once) … -/
theorem C11_dict_readback_any (F : Nat → LId → Option VId → Bool) (w w' : World) (c : LCls)
    (adj : List (VId × List VId)) (u : VId) (h : Inv w) (hc : c.kind ≠ .nary) (hv : adjValid w adj)
    (hr : C.loadAdjDict M.prims w c adj = .ok (w', u)) (x y : VId) (hx : x < w.nV)
    (hnew : w.links x = []) (unk : Nat) :
    ∃ r, M.neighborsPure w' F x 1 unk none = .ok r ∧
      r.count (some y) = mult (dictPairs adj) x y + (if x = y then 0 else mult (dictPairs adj) y x) := by
  refine ⟨_, dict_readback F w w' c adj u h hc hv hr x hx hnew 1 unk (gSym x)
    (fun l a b he hl hab => linkOut_any w' F x unk c hc l a b he hl hab), ?_⟩
  exact count_gSym x y (dictPairs adj)

/-- … and, for a DIRECTED link type, under DIR_SENS_FORWARD exactly as often as (x, y) was
    listed (orientation key → value), under DIR_SENS_BACKWARD as often as (y, x) was -/
theorem C11_dict_readback_directed (F : Nat → LId → Option VId → Bool) (w w' : World) (c : LCls)
    (adj : List (VId × List VId)) (u : VId) (h : Inv w) (hc : c.kind = .directed) (hv : adjValid w adj)
    (hr : C.loadAdjDict M.prims w c adj = .ok (w', u)) (x y : VId) (hx : x < w.nV)
    (hnew : w.links x = []) (unk : Nat) :
    (∃ r, M.neighborsPure w' F x 0 unk none = .ok r ∧ r.count (some y) = mult (dictPairs adj) x y) ∧
    (∃ r, M.neighborsPure w' F x 2 unk none = .ok r ∧ r.count (some y) = mult (dictPairs adj) y x) := by
  have hc' : c.kind ≠ .nary := by rw [hc]; simp
  refine ⟨⟨_, dict_readback F w w' c adj u h hc' hv hr x hx hnew 0 unk (gFwd x)
    (fun l a b he hl hab => linkOut_fwd w' F x unk c hc l a b he hl hab), ?_⟩,
    ⟨_, dict_readback F w w' c adj u h hc' hv hr x hx hnew 2 unk (gBwd x)
    (fun l a b he hl hab => linkOut_bwd w' F x unk c hc l a b he hl hab), ?_⟩⟩
  · exact count_gFwd x y (dictPairs adj)
  · exact count_gBwd x y (dictPairs adj)

/-- for an UNDIRECTED link type every direction gives the symmetric closure -/
theorem C11_dict_readback_undirected (F : Nat → LId → Option VId → Bool) (w w' : World) (c : LCls)
    (adj : List (VId × List VId)) (u : VId) (h : Inv w) (hc : c.kind = .undirected) (hv : adjValid w adj)
    (hr : C.loadAdjDict M.prims w c adj = .ok (w', u)) (x y : VId) (hx : x < w.nV)
    (hnew : w.links x = []) (dir unk : Nat) (hd : dir ≤ 2) :
    ∃ r, M.neighborsPure w' F x dir unk none = .ok r ∧
      r.count (some y) = mult (dictPairs adj) x y + (if x = y then 0 else mult (dictPairs adj) y x) := by
  have hc' : c.kind ≠ .nary := by rw [hc]; simp
  refine ⟨_, dict_readback F w w' c adj u h hc' hv hr x hx hnew dir unk (gSym x)
    (fun l a b he hl hab => linkOut_und w' F x dir unk c hc hd l a b he hl hab), ?_⟩
  exact count_gSym x y (dictPairs adj)

/-- the same for `load_adj_matrix`: with `matPairs verts matrix` = the list of (row vertex,
    column vertex) for every truthy cell in row-major order, a vertex `x` without earlier links
    reads back `y` under DIR_SENS_ANY as often as cell (x, y) or (y, x) is set … -/
theorem C11_matrix_readback_any (F : Nat → LId → Option VId → Bool) (w w' : World) (c : LCls)
    (matrix : List (List Bool)) (verts : List VId) (u : VId) (h : Inv w) (hc : c.kind ≠ .nary)
    (hv : ∀ v ∈ verts, v < w.nV) (hlen : verts.length = matrix.length)
    (hsq : ∀ row ∈ matrix, row.length = matrix.length)
    (hr : C.loadAdjMatrix M.prims w c matrix verts = .ok (w', u)) (x y : VId) (hx : x < w.nV)
    (hnew : w.links x = []) (unk : Nat) :
    ∃ r, M.neighborsPure w' F x 1 unk none = .ok r ∧
      r.count (some y) = mult (matPairs verts matrix) x y +
        (if x = y then 0 else mult (matPairs verts matrix) y x) := by
  refine ⟨_, matrix_readback F w w' c matrix verts u h hc hv hlen hsq hr x hx hnew 1 unk (gSym x)
    (fun l a b he hl hab => linkOut_any w' F x unk c hc l a b he hl hab), ?_⟩
  exact count_gSym x y (matPairs verts matrix)

/-- … for a DIRECTED link type FORWARD gives row → column, BACKWARD column → row -/
theorem C11_matrix_readback_directed (F : Nat → LId → Option VId → Bool) (w w' : World) (c : LCls)
    (matrix : List (List Bool)) (verts : List VId) (u : VId) (h : Inv w) (hc : c.kind = .directed)
    (hv : ∀ v ∈ verts, v < w.nV) (hlen : verts.length = matrix.length)
    (hsq : ∀ row ∈ matrix, row.length = matrix.length)
    (hr : C.loadAdjMatrix M.prims w c matrix verts = .ok (w', u)) (x y : VId) (hx : x < w.nV)
    (hnew : w.links x = []) (unk : Nat) :
    (∃ r, M.neighborsPure w' F x 0 unk none = .ok r ∧ r.count (some y) = mult (matPairs verts matrix) x y) ∧
    (∃ r, M.neighborsPure w' F x 2 unk none = .ok r ∧ r.count (some y) = mult (matPairs verts matrix) y x) := by
  have hc' : c.kind ≠ .nary := by rw [hc]; simp
  refine ⟨⟨_, matrix_readback F w w' c matrix verts u h hc' hv hlen hsq hr x hx hnew 0 unk (gFwd x)
    (fun l a b he hl hab => linkOut_fwd w' F x unk c hc l a b he hl hab), ?_⟩,
    ⟨_, matrix_readback F w w' c matrix verts u h hc' hv hlen hsq hr x hx hnew 2 unk (gBwd x)
    (fun l a b he hl hab => linkOut_bwd w' F x unk c hc l a b he hl hab), ?_⟩⟩
  · exact count_gFwd x y (matPairs verts matrix)
  · exact count_gBwd x y (matPairs verts matrix)

/-- … and for an UNDIRECTED link type every direction gives the symmetric closure -/
theorem C11_matrix_readback_undirected (F : Nat → LId → Option VId → Bool) (w w' : World) (c : LCls)
    (matrix : List (List Bool)) (verts : List VId) (u : VId) (h : Inv w) (hc : c.kind = .undirected)
    (hv : ∀ v ∈ verts, v < w.nV) (hlen : verts.length = matrix.length)
    (hsq : ∀ row ∈ matrix, row.length = matrix.length)
    (hr : C.loadAdjMatrix M.prims w c matrix verts = .ok (w', u)) (x y : VId) (hx : x < w.nV)
    (hnew : w.links x = []) (dir unk : Nat) (hd : dir ≤ 2) :
    ∃ r, M.neighborsPure w' F x dir unk none = .ok r ∧
      r.count (some y) = mult (matPairs verts matrix) x y +
        (if x = y then 0 else mult (matPairs verts matrix) y x) := by
  have hc' : c.kind ≠ .nary := by rw [hc]; simp
  refine ⟨_, matrix_readback F w w' c matrix verts u h hc' hv hlen hsq hr x hx hnew dir unk (gSym x)
    (fun l a b he hl hab => linkOut_und w' F x dir unk c hc hd l a b he hl hab), ?_⟩
  exact count_gSym x y (matPairs verts matrix)

/-- `explicit.unlink` iterates a Python `set`: the resulting world does not depend on the order
    in which the joining links are processed -/
theorem C03_unlink_order_independent (w : World) (a b : VId) (J J' : List LId)
    (hs : Sym w) (hp : J.Perm J') (hn : J.Nodup) :
    C.unlinkEach S.prims w a b J = C.unlinkEach S.prims w a b J' := by
  exact S.unlinkEach_perm w a b J J' hp

/-- non-vacuity -/
example : mult [(0, 1), (0, 0), (0, 1), (1, 0)] 0 1 = 2 ∧ mult [(0, 1), (0, 0), (0, 1), (1, 0)] 1 0 = 1 := by decide

end EG
