import EG.Proofs.Search
/-
  C08 — each search returns the first match of its corresponding traversal, or None.
  `p v` stands for `hasattr(v, attrib) and v[attrib] == val`; searches always run with the
  default settings, so `nb` is `neighbors()` with defaults.  The bfs / dfs_iterative theorems hold for EVERY
  fuel (the search and the traversal are cut off at the same point), hence in particular
  for the sufficient fuels of C06.  Property theorems only.
-/
namespace EG
namespace T
open SearchAux

variable (nb : Nat → List Nat) (inU : Nat → Bool) (p : Nat → Bool)

theorem C08_bfs_eq_find (f s : Nat) :
    bfs nb inU p f s = (bft nb inU (fun _ => true) f s).find? p :=
  bfs_eq_find nb inU p f s

/-- (the recursive search tests a vertex one call level before the traversal lists it, so
    the two are only comparable when the fuel is not exhausted: any fuel above the number of
    vertices) -/
theorem C08_dfsRecursive_eq_find (n : Nat) (hb : Bounded nb n) (s : Nat) (hs : s < n) (f : Nat)
    (hf : n + 1 ≤ f) :
    dfsRecursive nb inU p f s = (dftRecursive nb inU (fun _ => true) f s).find? p :=
  dfsRecursive_eq_find nb inU p n hb s hs f hf

theorem C08_dfsIterative_eq_find (f s : Nat) :
    dfsIterative nb inU p f s = (dftIterative nb inU (fun _ => true) f s).find? p :=
  dfsIterative_eq_find nb inU p f s

/-- consequences spelled out: the answer satisfies the predicate, is listed by the traversal,
    and nothing listed before it matches; `none` iff nothing listed matches -/
theorem C08_first_match (f s : Nat) :
    (∀ x, bfs nb inU p f s = some x →
      p x = true ∧ ∃ pre post, bft nb inU (fun _ => true) f s = pre ++ x :: post ∧ ∀ y ∈ pre, p y = false) ∧
    (bfs nb inU p f s = none ↔ ∀ y ∈ bft nb inU (fun _ => true) f s, p y = false) := by
  rw [bfs_eq_find nb inU p f s]
  refine ⟨?_, ?_⟩
  · intro x hx
    obtain ⟨hpx, pre, post, e, hpre⟩ := List.find?_eq_some_iff_append.1 hx
    exact ⟨hpx, pre, post, e, fun y hy => by simpa using hpre y hy⟩
  · rw [List.find?_eq_none]
    exact ⟨fun h y hy => by simpa using h y hy, fun h y hy => by simp [h y hy]⟩

/-- the start vertex itself is eligible -/
theorem C08_start_eligible (f s : Nat) (h : p s = true) :
    bfs nb inU p f s = some s ∧ dfsRecursive nb inU p f s = some s ∧
    (inU s = true → 0 < f → dfsIterative nb inU p f s = some s) := by
  refine ⟨by simp [bfs, h], by simp [dfsRecursive, h], ?_⟩
  intro hu hf
  obtain ⟨f', rfl⟩ : ∃ f', f = f' + 1 := ⟨f - 1, by omega⟩
  simp [dfsIterative, dfsIterLoop, hu, h]

/-- non-vacuity: first match differs between the three orders; a later match is not returned -/
example :
    let nb : Nat → List Nat := fun v => match v with
      | 0 => [1, 2] | 1 => [3] | 2 => [4] | _ => []
    let p : Nat → Bool := fun v => v == 3 || v == 2 || v == 4
    bfs nb (fun _ => true) p 9 0 = some 2 ∧ dfsRecursive nb (fun _ => true) p 9 0 = some 3 ∧
    dfsIterative nb (fun _ => true) p 9 0 = some 2 ∧
    bfs nb (fun _ => true) (fun v => v == 7) 9 0 = none := by decide

end T
end EG
