import EG.Generated.SingleKeyTable
/-
  C17 (the tie to the code, regenerated on every run) — "arguments whose key equals a live key":
  for every pair of the pool's argument tuples and both hash functions (338 rows), the REAL
  metaclass returns the same object for the two constructions exactly when the model's key
  function `ssCfg.keyOf` gives the two tuples the same key.  Kernel evaluation over the table.
-/
namespace EG
namespace Tab

theorem C17_key_table_complete : implKey.length = 338 := by decide +kernel

/-- real code = model: same instance ⇔ same key, on every row -/
theorem C17_key_impl_eq_model : implKey.all keyRowOk = true := by decide +kernel

end Tab
end EG
