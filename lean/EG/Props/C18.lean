import EG.Proofs.SingleLemmas
/-
  C18 — true singletons: at most one live instance per class between clears.
  Property theorems only; helpers in EG/Proofs/SingleLemmas.lean.
-/
namespace EG
namespace Sg

/-- the instance dict has one entry per class, instances are distinct objects created earlier -/
def TS.WF (s : TS) : Prop :=
  (s.inst.map (·.1)).Nodup ∧ (s.inst.map (·.2)).Nodup ∧ (∀ p ∈ s.inst, p.2 < s.next) ∧
  (∀ e ∈ s.inits, e.1 < s.next)

theorem C18_wf_all_histories (ops : List TSOp) : (TS.run {} ops).1.WF := by
  exact TS.run_wf' ops {} TS.init_wf'

/-- an op that is not a clear of class `c` (targeted or global; a construction whose `__init__`
    issues a global clear counts as a clear) -/
def keeps (c : Nat) (op : TSOp) : Prop :=
  op ≠ .clear (some c) ∧ op ≠ .clear none ∧ ∀ c2 a, op ≠ .constructClearing c2 a

/-- all constructions of a class between two clears of it return the same object, whatever
    arguments are passed and whatever happens to other classes in between -/
theorem C18_same_between_clears (s : TS) (c a a' : Nat) (mid : List TSOp)
    (hmid : ∀ op ∈ mid, keeps c op) :
    ((TS.run (s.step (.construct c a)).1 mid).1.step (.construct c a')).2 = (s.step (.construct c a)).2 := by
  have key : ∀ i, lookup c (s.step (.construct c a)).1.inst = some i →
      (s.step (.construct c a)).2 = some i →
      ((TS.run (s.step (.construct c a)).1 mid).1.step (.construct c a')).2
        = (s.step (.construct c a)).2 := by
    intro i hl h2
    have := TS.run_keeps_lookup mid _ c i hmid hl
    rw [TS.step_construct_hit _ c a' i this, h2]
  cases hl : lookup c s.inst with
  | some i =>
    apply key i
    · rw [TS.step_construct_hit s c a i hl]; exact hl
    · rw [TS.step_construct_hit s c a i hl]
  | none =>
    apply key s.next
    · rw [TS.step_construct_miss s c a hl]
      simp only [lookup_append, hl, lookup, if_true]
    · rw [TS.step_construct_miss s c a hl]

/-- `__init__` runs exactly once per such period, with the first call's arguments: the first
    construction after a clear creates a fresh object and logs one `__init__` run; no later
    call of the period logs another run for that object -/
theorem C18_init_once_first_args (s : TS) (hs : s.WF) (c a a' : Nat) (mid : List TSOp)
    (hfresh : lookup c s.inst = none) (hmid : ∀ op ∈ mid, keeps c op) :
    (s.step (.construct c a)).2 = some s.next ∧
    (∀ p ∈ s.inst, p.2 ≠ s.next) ∧
    ((TS.run (s.step (.construct c a)).1 mid).1.step (.construct c a')).1.inits.filter (fun e => e.1 == s.next)
      = [(s.next, c, a)] := by
  obtain ⟨h1, h2, h3, h4⟩ := hs
  refine ⟨by rw [TS.step_construct_miss s c a hfresh], ?_, ?_⟩
  · intro p hp; exact Nat.ne_of_lt (h3 p hp)
  · rw [TS.step_construct_miss s c a hfresh]
    simp only
    generalize hs1 : ({ inst := s.inst ++ [(c, s.next)]
                        next := s.next + 1
                        inits := s.inits ++ [(s.next, c, a)] } : TS) = s1
    have hl1 : lookup c s1.inst = some s.next := by
      subst hs1
      simp only [lookup_append, hfresh, lookup, if_true]
    have hl2 := TS.run_keeps_lookup mid s1 c s.next hmid hl1
    rw [TS.step_construct_hit _ c a' _ hl2]
    obtain ⟨_, extra, hex, hb⟩ := TS.run_mono mid s1
    rw [hex]
    subst hs1
    simp only [List.filter_append]
    have e1 : s.inits.filter (fun e => e.1 == s.next) = [] := by
      rw [List.filter_eq_nil_iff]
      intro e he
      have := h4 e he
      simp only [beq_iff_eq]
      omega
    have e2 : extra.filter (fun e => e.1 == s.next) = [] := by
      rw [List.filter_eq_nil_iff]
      intro e he
      have := hb e he
      simp only [beq_iff_eq]
      simp only at this
      omega
    rw [e1, e2]
    simp

/-- each class (a subclass is just another class) has its own instance: a construction or a
    targeted clear of `c` leaves every other class's instance in place -/
theorem C18_per_class (s : TS) (c c' a : Nat) (h : c' ≠ c) :
    lookup c' (s.step (.construct c a)).1.inst = lookup c' s.inst ∧
    lookup c' (s.step (.clear (some c))).1.inst = lookup c' s.inst := by
  constructor
  · simp only [TS.step]
    cases hl : lookup c s.inst with
    | some i => rfl
    | none =>
      simp only [lookup_append, lookup, if_neg (Ne.symm h)]
      cases lookup c' s.inst <;> rfl
  · simp only [TS.step]
    exact lookup_filter c' _ (by intro v; simp [h]) _

/-- two different classes never share their instance -/
theorem C18_distinct_instances (s : TS) (hs : s.WF) (c c' i : Nat) (h : c ≠ c')
    (h1 : lookup c s.inst = some i) : lookup c' s.inst ≠ some i := by
  intro h2
  obtain ⟨_, hnd, _, _⟩ := hs
  have m1 := lookup_mem h1
  have m2 := lookup_mem h2
  have := eq_of_nodup_map (·.2) hnd m1 m2 rfl
  simp only [Prod.mk.injEq, and_true] at this
  exact h this

/-- clearing one class makes exactly that class construct afresh -/
theorem C18_clear_isolated (s : TS) (c : Nat) :
    lookup c (s.step (.clear (some c))).1.inst = none := by
  simp only [TS.step]
  exact lookup_filter_self c _

/-- clearing all makes every class construct afresh -/
theorem C18_clear_all (s : TS) (c : Nat) : lookup c (s.step (.clear none)).1.inst = none := by
  simp only [TS.step, lookup]

/-- clearing a class that has no instance is harmless: nothing changes -/
theorem C18_clear_absent_harmless (s : TS) (c : Nat) (h : lookup c s.inst = none) :
    (s.step (.clear (some c))).1 = s := by
  simp only [TS.step, filter_key_id h]

/-- a construction whose `__init__` raises while the class has no instance registers NOTHING:
    the state is unchanged (so the next construction runs `__init__` afresh, on a new object) -/
theorem C18_failed_construction_registers_nothing (s : TS) (c a : Nat) (h : lookup c s.inst = none) :
    s.step (.constructFail c a) = (s, none) := by
  simp only [TS.step, h]

/-- … and while the class HAS an instance, that instance is returned and `__init__` is not run
    at all (so it cannot raise) -/
theorem C18_failing_args_on_live_instance (s : TS) (c a i : Nat) (h : lookup c s.inst = some i) :
    s.step (.constructFail c a) = (s, some i) := by
  simp only [TS.step, h]

/-- a global clear issued from INSIDE the `__init__` of a first construction ends the period of
    every other class, but the object under construction is filed in the NEW table: the class
    has exactly this instance afterwards, and its next construction returns it (no second
    `__init__`) -/
theorem C18_reentrant_clear_keeps_new_instance (s : TS) (c a a' : Nat) (h : lookup c s.inst = none) :
    (s.step (.constructClearing c a)).2 = some s.next ∧
    (s.step (.constructClearing c a)).1.inst = [(c, s.next)] ∧
    ((s.step (.constructClearing c a)).1.step (.construct c a')) =
      ((s.step (.constructClearing c a)).1, some s.next) := by
  simp [TS.step, h, lookup]

/-- non-vacuity -/
example : (TS.run {} [.construct 1 0, .constructClearing 0 10, .construct 0 1, .construct 1 1]).2
    = [some 0, some 1, some 1, some 2] := by decide

/-- non-vacuity -/
example : (TS.run {} [.constructFail 0 9, .construct 0 1, .constructFail 0 9]).2 = [none, some 0, some 0] := by decide

/-- non-vacuity -/
example : (TS.run {} [.construct 0 1, .construct 0 4, .construct 1 0, .clear (some 0), .construct 0 5,
    .construct 1 7]).2 = [some 0, some 0, some 1, none, some 2, some 1] := by decide

end Sg
end EG
