import EG.Proofs.PickleSim
import EG.Props.C10Load
/-
  C10, loading the QUEUE MACHINE's own stream when a tuple was met again while its elements were
  being saved (the shape of defect D10).  There the machine of `nrpickler` writes `Build1, Pop, Get`
  where the recursive pickler writes `Discard, Get` (`C10_dump_eq`: the two streams agree up to
  exactly that replacement).  The unpickler cannot tell the two apart except for one unreachable
  object per occurrence: `C10_normalize_loads_alike` (any stream) and, with `C10_load_roundtrip`,
  `C10_nr_load_roundtrip_full`: the machine's own stream — no longer required to be free of `POP` —
  loads to the isomorphic heap: same kinds, same ORDERED children, one object per original, sharing
  preserved.  This removes the stack-equivalence behind `normalize` from the trusted base.
  Still a hypothesis: `NoReentry` for the RECURSIVE pickler's stream (no NON-tuple object met again
  while the arguments of its own reduce are being saved).
-/
set_option linter.unusedSimpArgs false
set_option linter.unusedVariables false
namespace EG
namespace Pk

/-- the unpickler on `ops` and on `normalize ops`: the same result up to an injective renaming of
    the addresses (`ops` leaves unreachable objects behind) -/
theorem C10_normalize_loads_alike (tupK : Nat → Bool) (ops : List POp) (v : Val) (S : VM)
    (h : vmLoad tupK (normalize ops) = some (v, S)) :
    ∃ fs S', vmLoad tupK ops = some (mapV fs v, S') ∧
      (∀ r, r < S.next → S'.heap (fs.getD r 0) = mapNode fs (S.heap r)) ∧
      (∀ r r', r < S.next → r' < S.next → fs.getD r 0 = fs.getD r' 0 → r = r') ∧
      S'.memo = S.memo.map (mapV fs) ∧ WF S := by
  simp only [vmLoad] at h
  cases hr : vmRun tupK {} (normalize ops) with
  | none => rw [hr] at h; cases h
  | some S0 =>
    rw [hr] at h
    simp only [] at h
    cases hst : S0.stack with
    | nil => rw [hst] at h; cases h
    | cons x tl =>
      rw [hst] at h
      cases x with
      | mark => cases h
      | amark => cases h
      | val v0 =>
        cases tl with
        | cons y tl' => cases h
        | nil =>
          simp only [Option.some.injEq, Prod.mk.injEq] at h
          obtain ⟨e1, e2⟩ := h
          subst e1; subst e2
          obtain ⟨fs, A', ha, hs, hw⟩ := run_sim_norm tupK ops [] {} {} S0 vsim_empty wf_empty hr
          refine ⟨fs, A', ?_, hs.heap, hs.inj, hs.memo, hw⟩
          have : A'.stack = [.val (mapV fs v0)] := by rw [hs.stack, hst]; rfl
          simp only [vmLoad, ha, this]

/-- **the round trip for the stream of the queue machine of `nrpickler`**, re-entered tuples
    included: it loads; the value returned is the image of the root; every pickled object is
    rebuilt with its kind and its ordered children; distinct originals stay distinct, shared ones
    stay shared -/
theorem C10_nr_load_roundtrip_full (H : Heap) (tupK : Nat → Bool) (hwf : KindsWF H tupK) (f root : Nat)
    (s : List POp) (m' : List Nat) (h : rec H f root [] = some (s, m')) (hn : NoReentry s) :
    ∃ fuel s' ψ S', nrDump H fuel root = some (s', m') ∧
      vmLoad tupK s' = some (ψ root, S') ∧
      (∀ o ∈ m', ∃ tup k bs as r, H o = .node tup k bs as ∧ ψ o = .ref r ∧
        S'.heap r = ⟨k, bs.map ψ, if tup then [] else as.map ψ⟩) ∧
      (∀ o ∈ m', ∀ o' ∈ m', ψ o = ψ o' → o = o') := by
  obtain ⟨fuel, s', hd, hnorm⟩ := C10_dump_eq H f root s m' h
  obtain ⟨v, S, hl, hv, hobj, hinj, _⟩ := C10_load_roundtrip H tupK hwf f root s m' h hn
  have hns : normalize s' = s := by rw [hnorm, normalize_eq_self_of_noPop s hn]
  obtain ⟨fs, S', hl', hheap, hfinj, hmemo, hw⟩ := C10_normalize_loads_alike tupK s' v S (by rw [hns]; exact hl)
  refine ⟨fuel, s', fun o => mapV fs (phi H m' S.memo o), S', hd, ?_, ?_, ?_⟩
  · show vmLoad tupK s' = some (mapV fs (phi H m' S.memo root), S')
    rw [← hv]; exact hl'
  · intro o ho
    obtain ⟨tup, k, bs, as, r, h1, h2, h3, h4⟩ := hobj o ho
    have hr : r < S.next := hw.memo _ h3
    refine ⟨tup, k, bs, as, fs.getD r 0, h1, by simp only [h2, mapV], ?_⟩
    rw [hheap r hr, h4]
    simp only [mapNode, List.map_map]
    cases tup <;> simp [Function.comp_def]
  · intro o ho o' ho' he
    obtain ⟨_, _, _, _, r, _, h2, h3, _⟩ := hobj o ho
    obtain ⟨_, _, _, _, r', _, h2', h3', _⟩ := hobj o' ho'
    simp only [h2, h2', mapV, Val.ref.injEq] at he
    have := hfinj r r' (hw.memo _ h3) (hw.memo _ h3') he
    exact hinj o ho o' ho' (by rw [h2, h2', this])

/-- non-vacuity: the D10 shape (`t = (a,)`, `a.t = t`, root list [b, a], `b.ref = t`).  The queue
    machine's stream contains `POP`, the recursive pickler's `POP_MARK`; both load, the second heap
    is the first with one unreachable tuple (address 4) left behind -/
example :
    let H : Heap := fun o => match o with
      | 0 => .node false 9 [] [1, 2]
      | 1 => .node false 1 [] [3]
      | 2 => .node false 1 [] [3]
      | 3 => .node true 7 [2] []
      | _ => .atom 0
    let tupK : Nat → Bool := fun k => k == 7
    ((nrDump H 100 0).map fun r => (r.1.contains .pop, r.1.contains (.discard 7 1))) = some (true, false) ∧
    ((nrDump H 100 0).bind fun r => (vmLoad tupK r.1).map fun p =>
      (p.1, (List.range p.2.next).map p.2.heap)) =
    some (.ref 0, [⟨9, [], [.ref 1, .ref 2]⟩, ⟨1, [], [.ref 3]⟩, ⟨1, [], [.ref 3]⟩, ⟨7, [.ref 2], []⟩, ⟨7, [.ref 2], []⟩]) := by
  decide +kernel

end Pk
end EG
