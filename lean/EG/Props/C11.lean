import EG.Proofs.BuildLemmas
set_option linter.unusedVariables false  -- `hc` / `hlt` belong to the statements but are not needed
/-
  C11 — adjacency builders build exactly the described graph; bad input rejected whole.
  Statements are about the mirror model (`M.prims`); `adj` is the adjacency dict as an
  association list in dict order, `matrix` the cells reduced to their truth values.
  Property theorems only; helpers in EG/Proofs/BuildLemmas.lean.
-/
namespace EG

/-- the vertices named by an adjacency dict, in order of mention: k₁, v₁₁, v₁₂, …, k₂, … -/
def mentions (adj : List (VId × List VId)) : List VId := adj.flatMap fun p => p.1 :: p.2

/-- the listed pairs in input order -/
def dictPairs (adj : List (VId × List VId)) : List (VId × VId) :=
  adj.flatMap fun p => p.2.map fun v => (p.1, v)

/-- the truthy cells of a matrix in row-major order, as (row vertex, column vertex) -/
def matPairs (verts : List VId) (matrix : List (List Bool)) : List (VId × VId) :=
  (matrix.zip verts).flatMap fun rv =>
    ((rv.1.zip verts).filter (·.1)).map fun cv => (rv.2, cv.2)

def adjValid (w : World) (adj : List (VId × List VId)) : Prop :=
  ∀ p ∈ adj, p.1 < w.nV ∧ ∀ v ∈ p.2, v < w.nV

/-- what "exactly the described graph, pre-existing things left in place" means for a builder
    call that returned universe `u` in world `w'`, for the pair list `pairs` and mention list `ms` -/
structure Built (w w' : World) (u : VId) (c : LCls) (pairs : List (VId × VId)) (ms : List VId) : Prop where
  inv : Inv w'
  uni_new : u = w.nV ∧ w'.nV = w.nV + 1 ∧ w'.vcls u = .UNI
  members : w'.members u = dedupKeepFirst ms
  nlinks : w'.nL = w.nL + pairs.length
  new_links : ∀ i (h : i < pairs.length),
    w'.ends (w.nL + i) = [some (pairs[i]).1, some (pairs[i]).2] ∧ w'.lcls (w.nL + i) = c
  old_links : ∀ l, l < w.nL → w'.ends l = w.ends l ∧ w'.lcls l = w.lcls l
  links_prefix : ∀ v, v < w.nV → ∃ more, w'.links v = w.links v ++ more ∧ ∀ l ∈ more, w.nL ≤ l
  unis_prefix : ∀ v, v < w.nV → ∃ more, w'.unis v = w.unis v ++ more ∧ ∀ x ∈ more, x = u
  old_members : ∀ x, x < w.nV → w'.members x = w.members x

theorem C11_dict_builds (w : World) (c : LCls) (adj : List (VId × List VId))
    (h : Inv w) (hc : c.kind ≠ .nary) (hv : adjValid w adj) :
    ∃ w', C.loadAdjDict M.prims w c adj = .ok (w', w.nV) ∧
      Built w w' w.nV c (dictPairs adj) (mentions adj) := by
  obtain ⟨w', e, hb, _, _⟩ := B.loadAdjDict_S w c adj h hv
  refine ⟨w', by rw [B.loadAdjDict_agree w c adj h]; exact e, ?_⟩
  exact ⟨hb.inv, hb.uni_new, hb.members, hb.nlinks, hb.new_links, hb.old_links, hb.links_prefix,
    hb.unis_prefix, hb.old_members⟩

theorem C11_matrix_builds (w : World) (c : LCls) (matrix : List (List Bool)) (verts : List VId)
    (h : Inv w) (hc : c.kind ≠ .nary) (hv : ∀ v ∈ verts, v < w.nV)
    (hlen : verts.length = matrix.length) (hsq : ∀ row ∈ matrix, row.length = matrix.length) :
    ∃ w', C.loadAdjMatrix M.prims w c matrix verts = .ok (w', w.nV) ∧
      Built w w' w.nV c (matPairs verts matrix) verts := by
  obtain ⟨w', e, hb, _, _⟩ := B.loadAdjMatrix_S w c matrix verts h hv hlen hsq
  refine ⟨w', by rw [B.loadAdjMatrix_agree w c matrix verts h]; exact e, ?_⟩
  exact ⟨hb.inv, hb.uni_new, hb.members, hb.nlinks, hb.new_links, hb.old_links, hb.links_prefix,
    hb.unis_prefix, hb.old_members⟩

/-- a non-square matrix or a side array of the wrong length raises ValueError; the world is
    untouched because the answer carries no new world at all -/
theorem C11_matrix_bad_input (w : World) (c : LCls) (matrix : List (List Bool)) (verts : List VId)
    (hbad : verts.length ≠ matrix.length ∨ ∃ row ∈ matrix, row.length ≠ matrix.length) :
    C.loadAdjMatrix M.prims w c matrix verts = .error .value := by
  exact B.loadAdjMatrix_bad M.prims w c matrix verts hbad

/-- the new links a vertex is an end of, in creation order -/
def gained (w : World) (pairs : List (VId × VId)) (v : VId) : List LId :=
  ((List.range pairs.length).filter
    (fun i => (pairs.getD i (0, 0)).1 == v || (pairs.getD i (0, 0)).2 == v)).map (w.nL + ·)

/-- the links a vertex gains are exactly the new links it is an end of, in creation order
    (this is what makes reading the result back with `neighbors()` / `find_links` reproduce the
    input adjacency, by C04 / C09) -/
theorem C11_dict_links_of_vertex (w w' : World) (c : LCls) (adj : List (VId × List VId)) (u : VId)
    (h : Inv w) (hc : c.kind ≠ .nary) (hv : adjValid w adj)
    (hr : C.loadAdjDict M.prims w c adj = .ok (w', u)) (v : VId) (hlt : v < w.nV) :
    w'.links v = w.links v ++ gained w (dictPairs adj) v := by
  obtain ⟨w'', e, _, hl, _⟩ := B.loadAdjDict_S w c adj h hv
  rw [B.loadAdjDict_agree w c adj h, e] at hr
  cases hr
  exact hl v

theorem C11_matrix_links_of_vertex (w w' : World) (c : LCls) (matrix : List (List Bool))
    (verts : List VId) (u : VId)
    (h : Inv w) (hc : c.kind ≠ .nary) (hv : ∀ x ∈ verts, x < w.nV)
    (hlen : verts.length = matrix.length) (hsq : ∀ row ∈ matrix, row.length = matrix.length)
    (hr : C.loadAdjMatrix M.prims w c matrix verts = .ok (w', u)) (v : VId) (hlt : v < w.nV) :
    w'.links v = w.links v ++ gained w (matPairs verts matrix) v := by
  obtain ⟨w'', e, _, hl, _⟩ := B.loadAdjMatrix_S w c matrix verts h hv hlen hsq
  rw [B.loadAdjMatrix_agree w c matrix verts h, e] at hr
  cases hr
  exact hl v

/-- non-vacuity -/
example :
    let w := (M.run (fun _ _ _ => true) [.newVertex .V [] [] [], .newVertex .V [] [] [], .newVertex .V [] [] []]).1
    (match C.loadAdjDict M.prims w .U [(0, [1, 0, 2]), (2, []), (1, [0])] with
     | .ok (w', u) => (u, w'.members u, w'.links 0, w'.ends 1, w'.nL)
     | .error _ => (0, [], [], [], 0)) = (3, [0, 1, 2], [0, 1, 2, 3], [some 0, some 0], 4) := by
  decide +kernel

end EG
